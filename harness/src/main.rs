mod rng;
mod types;
mod report;
mod plugin;
mod scen;
mod c12;
mod c13;
mod tok;
mod mgen;
mod c01;
mod extract;
mod c11;
mod c06;
mod c10;
mod c17;
mod c16;
mod c14;
mod jsonmut;
mod fmt;
mod fieldspec;
mod fields;
mod c04;
mod c08;
mod total;
mod c02msg;
mod c03;
mod c15;

use std::collections::HashMap;

pub struct Opts {
    pub tier: String,
    pub seed: u64,
    pub out: String,
    pub replay: Option<String>,
    pub extra: HashMap<String, String>,
}
impl Opts {
    pub fn thorough(&self) -> bool {
        self.tier == "thorough"
    }
}

fn main() {
    let args: Vec<String> = std::env::args().collect();
    if args.len() < 2 {
        eprintln!("usage: harness <stream> [--tier quick|thorough] [--seed N] [--out DIR] [--replay FILE]");
        std::process::exit(2);
    }
    let mut o = Opts { tier: "quick".into(), seed: 1, out: ".".into(), replay: None, extra: HashMap::new() };
    let mut i = 2;
    while i + 1 < args.len() {
        match args[i].as_str() {
            "--tier" => o.tier = args[i + 1].clone(),
            "--seed" => o.seed = args[i + 1].parse().unwrap_or(1),
            "--out" => o.out = args[i + 1].clone(),
            "--replay" => o.replay = Some(args[i + 1].clone()),
            k => {
                o.extra.insert(k.trim_start_matches("--").to_string(), args[i + 1].clone());
            }
        }
        i += 2;
    }
    // silence panic messages of caught panics (they are recorded as outcomes)
    std::panic::set_hook(Box::new(|_| {}));
    let rep = match args[1].as_str() {
        "c12" => c12::run(&o),
        "c13" => c13::run(&o),
        "c01" => c01::run(&o),
        "extract" => extract::run(&o),
        "c11" => c11::run(&o),
        "c06" => c06::run(&o),
        "c10" => c10::run(&o),
        "c17" => c17::run(&o),
        "c16" => c16::run(&o),
        "c14" => c14::run(&o),
        "c09" => c01::run_c09(&o),
        "fields" => fields::run(&o),
        "c04" => c04::run(&o),
        "c08" => c08::run(&o),
        "total" => total::run(&o),
        "c02msg" => c02msg::run(&o),
        "c03" => c03::run(&o),
        "c15" => c15::run(&o),
        other => {
            eprintln!("unknown stream {other}");
            std::process::exit(2);
        }
    };
    rep.write(&o.out);
}
