//! C02 (message level) — re-parsing the serialised message gives the same message, and the serialisation is a fixed point.
//! Messages of all 30 types from the layout grammar; contents from the library's own spellings AND from the documented
//! field formats at minimum / maximum / random component lengths (every option); rendered with LF and CRLF; envelopes
//! with no / empty / populated block 3 and block 5 (tags the header parsers keep and tags they drop).  Every accepted text:
//! m1 = parse(text); t1 = m1.to_mt_message(); m2 = parse(t1) must succeed; to_value(m2) == to_value(m1) (headers, trailer,
//! every field value); m2.to_mt_message() == t1 byte for byte.
use crate::fields::{canon, no_numbers};
use crate::report::{Report, hex};
use crate::types::SUPPORTED;
use crate::{Opts, mgen, rng::Rng, tok, with_mt};
use serde_json::{Value, json};
use swift_mt_message::{SwiftMessageBody, SwiftParser};

fn one<T: SwiftMessageBody + serde::Serialize + 'static>(rep: &mut Report, code: u32, text: &str, class: &str) -> bool {
    let t = text.to_string();
    let r = std::panic::catch_unwind(move || SwiftParser::parse::<T>(&t).ok().map(|m| (m.to_mt_message(), serde_json::to_value(&m).unwrap_or(Value::Null))));
    let Ok(first) = r else {
        rep.fail(&format!("panic|MT{code}|parse"), json!({"type": code, "input_hex": hex(text)}));
        return false;
    };
    let Some((t1, j1)) = first else {
        rep.tally("generated-text-rejected");
        return false;
    };
    rep.case(&format!("{code} {class} {}", text.len()), true);
    let wit = |why: &str, extra: Value| json!({"type": code, "class": class, "input_hex": hex(text), "why": why, "detail": extra});
    let t1c = t1.clone();
    let second = std::panic::catch_unwind(move || SwiftParser::parse::<T>(&t1c).map(|m| (m.to_mt_message(), serde_json::to_value(&m).unwrap_or(Value::Null))).map_err(|e| format!("{e}")));
    match second {
        Err(_) => rep.fail(&format!("reparse_panicked|MT{code}|{class}"), wit("re-parsing the serialised message panics", json!({"serialised": t1}))),
        Ok(Err(e)) => rep.fail(&format!("reparse_rejected|MT{code}|{}", { let site = site_of(&e); if crate::fmt::beyond_f64(text) && AMOUNT_TAGS.contains(&site.as_str()) { "f64-precision".to_string() } else { site } }), wit("the serialised message is rejected", json!({"serialised": t1, "error": e}))),
        Ok(Ok((t2, j2))) => {
            if canon(&j2) != canon(&j1) {
                let part = ["basic_header", "application_header", "user_header", "trailer", "fields"].iter().find(|k| j1.get(**k).map(canon) != j2.get(**k).map(canon)).copied().unwrap_or("?");
                rep.fail(&format!("value_changed|MT{code}|{}", if crate::fmt::beyond_f64(text) && no_numbers(&j1) == no_numbers(&j2) { "f64-precision" } else { part }), wit("the second parse differs from the first", json!({"part": part, "first": j1.get(part), "second": j2.get(part), "serialised": t1})));
            } else if t2 != t1 {
                rep.fail(&format!("not_fixed_point|MT{code}|{class}"), wit("the second serialisation differs from the first", json!({"first": t1, "second": t2})));
            }
        }
    }
    true
}

/// tags whose value holds an amount or a rate (an f64 in the library)
const AMOUNT_TAGS: &[&str] = &["19", "32A", "32B", "32C", "32D", "33B", "34F", "36", "37H", "60F", "60M", "61", "62F", "62M", "64", "65", "71F", "71G", "90C", "90D"];

fn site_of(e: &str) -> String {
    // the tag named by the error, if any: `Field: 64,` / `field 64` / `Field 32A`
    for key in ["Field: ", "field: ", "Field ", "field "] {
        for part in e.split(key).skip(1) {
            let t: String = part.chars().take_while(|c| c.is_ascii_alphanumeric()).collect();
            if t.chars().next().is_some_and(|c| c.is_ascii_digit()) {
                return t;
            }
        }
    }
    "other".into()
}

pub fn run(o: &Opts) -> Report {
    let mut rep = Report::new("C02");
    if let Some(path) = &o.replay {
        let r: Value = serde_json::from_str(&std::fs::read_to_string(path).unwrap_or_default()).unwrap_or(json!({}));
        let code = r["witness"]["type"].as_u64().unwrap_or(0) as u32;
        let text = crate::report::unhex(r["witness"]["input_hex"].as_str().unwrap_or(""));
        with_mt!(code, T => { one::<T>(&mut rep, code, &text, "replay"); }, ());
        return rep;
    }
    let mut rng = Rng::new(o.seed);
    let grammars = mgen::load_grammars();
    let mut pool = mgen::build_pool(if o.thorough() { 6 } else { 2 });
    mgen::add_spec_contents(&mut pool, &mut rng, if o.thorough() { 30 } else { 8 }, false);
    let per_type = if o.thorough() { 500 } else { 60 };
    let b3s = ["", "{3:}", "{3:{108:MUR12345}}", "{3:{999:PRIVATE}}", "{3:{113:URGT}{108:REF1}{121:180f1e65-90e0-44d5-a49a-92b55eb3025f}}", "{3:{103:TGT}{119:STP}{165:/ABC/INFO}{433:/AOK/}{434:/FPO/}}",
               "{3:{423:18071715301204}{106:120811BANKBEBBAXXX2222123456}{424:PQAB1234}{111:001}{115:121413 121413 DE BANKDECDA123}}"];
    let b5s = ["", "{5:}", "{5:{CHK:123456789ABC}}", "{5:{PDE:}}", "{5:{MAC:00000000}{CHK:24857F4599E7}{TNG:}}", "{5:{CHK:123456789ABC}{DLM:}}",
               "{5:{CHK:123456789ABC}{DLM}}", "{5:{TNG}}", "{5:{MAC:00000000}{CHK:24857F4599E7}{TNG}{DLM}}"];
    for &code in SUPPORTED.iter() {
        let Some(g) = grammars.get(&code) else { continue };
        let loose = mgen::loosen(g);
        let mut made = 0;
        let mut tries = 0;
        while made < per_type && tries < per_type * 5 {
            tries += 1;
            // every other message from the layout with the generator-only conventions (`Og`, `O~`) read as plain optional
            let gm = mgen::generate(code, if tries % 2 == 0 { &loose } else { g }, &mut rng, &pool);
            let eol = if rng.chance(1, 3) { "\r\n" } else { "\n" };
            let body = tok::render(&gm.chunks, eol, false);
            // half of the envelopes from the fixed list, half generated (any subset of the block-3 / block-5 tags in any order, headers
            // of every documented shape)
            let generated = rng.chance(1, 2);
            let b3 = if generated { crate::c10::gen_b3_text(&mut rng) } else { b3s[rng.below(b3s.len())].to_string() };
            let b5 = if generated { crate::c10::gen_b5_text(&mut rng) } else { b5s[rng.below(b5s.len())].to_string() };
            let app = if generated { crate::c10::gen_b2_loose(&mut rng, &format!("{code:03}")) } else if rng.chance(1, 4) { format!("O{:03}1200240101BANKDEFFAXXX00000000002401011201N", code) } else { format!("I{:03}BANKDEFFXXXXN", code) };
            let b1 = if generated { crate::c10::gen_b1_loose(&mut rng) } else { "F01BANKBEBBAXXX0000000000".to_string() };
            let text = format!("{{1:{b1}}}{{2:{app}}}{b3}{{4:{eol}{}{eol}-}}{b5}", body.trim_end_matches(['\n', '\r']));
            let cls = format!("b3={} b5={}", b3.len().min(9), b5.len().min(9));
            if with_mt!(code, T => one::<T>(&mut rep, code, &text, &cls), false) {
                made += 1;
            }
            // the property speaks about every ACCEPTED text, not only the documented layouts: texts with one field removed / a
            // field copied to another place / two fields exchanged; whatever the library still accepts must round-trip as well
            let nmut = if o.thorough() { 6 } else { 3 };
            for _ in 0..nmut {
                if gm.chunks.len() < 2 { break; }
                let mut ch = gm.chunks.clone();
                let kind = rng.below(4);
                let a = rng.below(ch.len());
                let b = rng.below(ch.len());
                let mclass = match kind {
                    0 => { ch.remove(a); "mut-remove" }
                    1 => { let c = ch[a].clone(); ch.insert(b, c); "mut-copy" }
                    2 => { ch.swap(a, b); "mut-swap" }
                    _ => { let c = ch.remove(a); let b2 = b.min(ch.len()); ch.insert(b2, c); "mut-move" }
                };
                let body = tok::render(&ch, eol, false);
                let text = format!("{{1:{b1}}}{{2:{app}}}{b3}{{4:{eol}{}{eol}-}}{b5}", body.trim_end_matches(['\n', '\r']));
                with_mt!(code, T => one::<T>(&mut rep, code, &text, mclass), false);
            }
        }
        rep.tally(&format!("made:MT{code}:{made}"));
    }
    rep
}
