//! C03 — every well-formed message of a supported type is accepted and reproduced exactly.
//! Messages are assembled from the independent layout specification (spec/layouts.txt) under structural plans:
//! minimal (mandatory items only), full (every optional item; every option letter in turn), each optional item alone,
//! repetitions of every repeating field / sequence at 1 and at the documented maximum, plus random plans; field contents
//! come from the library's canonical spellings and from the documented field formats at boundary lengths.
//! Oracle per message: (1) accepted; (2) to_mt_string() equals the text byte for byte; (3) the JSON model holds, for every
//! sequence occurrence and tag, exactly the component values that the field's own parser gives for the written content,
//! in input order (which option, which occurrence).
use crate::fields::{Outcome, canon, parse_named};
use crate::fieldspec::FIELD_SPECS;
use crate::mgen::{self, Grammar, Item, Occ, Pool};
use crate::report::{Report, hex};
use crate::rng::Rng;
use crate::tok::{self, Chunk};
use crate::types::SUPPORTED;
use crate::{Opts, with_mt};
use serde_json::{Value, json};
use std::collections::BTreeMap;
use swift_mt_message::SwiftMessageBody;

#[derive(Clone, Copy, PartialEq)]
enum Present { None, All, Only(usize) }
#[derive(Clone, Copy, PartialEq)]
enum Reps { One, Max, Two }

#[derive(Clone, Copy, PartialEq)]
enum Pick { Random, Longest, Shortest, Lookalike }

struct Plan { present: Present, letter_k: usize, reps: Reps, pick: Pick }

struct Ctx<'a> { rng: &'a mut Rng, pool: &'a Pool, opt_counter: usize, seq_counter: usize, code: u32, pick: Pick }

/// (chunk, sequence-occurrence path)
type Placed = (Chunk, Vec<usize>);

thread_local! {
    /// the directed contents of `run` (look-alikes and boundary values), used by the `Lookalike` pick
    static DIRECTED: std::cell::RefCell<Vec<String>> = std::cell::RefCell::new(Vec::new());
}

fn content_for(ctx: &mut Ctx, tag: &str) -> String {
    match ctx.pool.by_tag.get(tag) {
        None => "X".to_string(),
        Some(v) => match ctx.pick {
            Pick::Random => ctx.rng.pick(v).clone(),
            // boundary-length components: the longest / shortest canonical content known for the tag (ties broken at random)
            Pick::Longest => { let m = v.iter().map(|c| c.chars().count()).max().unwrap_or(0); let c: Vec<&String> = v.iter().filter(|c| c.chars().count() == m).collect(); (*ctx.rng.pick(&c)).clone() }
            // contents whose shape belongs to another option of the family (see the directed list in `run`)
            Pick::Lookalike => {
                let c: Vec<&String> = v.iter().filter(|c| DIRECTED.with(|d| d.borrow().contains(*c))).collect();
                if c.is_empty() { ctx.rng.pick(v).clone() } else { (*ctx.rng.pick(&c)).clone() }
            }
            Pick::Shortest => { let m = v.iter().map(|c| c.chars().count()).min().unwrap_or(0); let c: Vec<&String> = v.iter().filter(|c| c.chars().count() == m).collect(); (*ctx.rng.pick(&c)).clone() }
        },
    }
}

fn build(items: &[Item], plan: &Plan, ctx: &mut Ctx, path: &[usize], out: &mut Vec<Placed>, prev_seq_empty: &mut bool) {
    for it in items {
        match it {
            Item::F { base, letters, occ } => {
                let optional = matches!(occ, Occ::O | Occ::Rep(_) | Occ::OAmb);
                let take = if optional {
                    let idx = ctx.opt_counter;
                    ctx.opt_counter += 1;
                    let want = match plan.present { Present::None => false, Present::All => true, Present::Only(i) => i == idx };
                    want && (!matches!(occ, Occ::OAmb) || *prev_seq_empty)
                } else { true };
                if !take { continue; }
                let n = match occ {
                    Occ::Rep(m) | Occ::Rep1(m) => match plan.reps { Reps::One => 1, Reps::Two => 2.min(*m), Reps::Max => *m },
                    _ => 1,
                };
                for r in 0..n {
                    let l = &letters[(plan.letter_k + r) % letters.len()];
                    let tag = format!("{base}{l}");
                    let content = content_for(ctx, &tag);
                    out.push((Chunk { tag, content }, path.to_vec()));
                }
            }
            Item::Seq { items: inner, min, max, hard } => {
                let n = match plan.reps {
                    Reps::One => (*min).max(if plan.present == Present::None { *min } else { 1.min(*max) }),
                    Reps::Two => 2.min(*max).max(*min),
                    Reps::Max => if *hard { (*max).min(500) } else { (*max).min(12) },
                };
                *prev_seq_empty = n == 0;
                // MT104's optional settlement sequence C is exposed as top-level members of the model, not as a nested object
                let flat = ctx.code == 104 && *max == 1;
                for _ in 0..n {
                    let mut p = path.to_vec();
                    if !flat {
                        let id = ctx.seq_counter;
                        ctx.seq_counter += 1;
                        p.push(id);
                    }
                    let mut dummy = true;
                    build(inner, plan, ctx, &p, out, &mut dummy);
                }
            }
        }
    }
}

fn count_optionals(items: &[Item]) -> usize {
    items.iter().map(|it| match it {
        Item::F { occ, .. } => usize::from(matches!(occ, Occ::O | Occ::Rep(_) | Occ::OAmb)),
        Item::Seq { items, .. } => count_optionals(items),
    }).sum()
}
fn max_letters(items: &[Item]) -> usize {
    items.iter().map(|it| match it {
        Item::F { letters, .. } => letters.len(),
        Item::Seq { items, .. } => max_letters(items),
    }).max().unwrap_or(1)
}

fn type_of_tag(tag: &str) -> Option<&'static str> {
    FIELD_SPECS.iter().find(|(_, t, _, _)| *t == tag).map(|(n, _, _, _)| *n)
}

/// every field value of the JSON body with its sequence path, in document order per (path, tag)
fn collect(v: &Value, path: &mut Vec<usize>, seq_counter: &mut usize, out: &mut BTreeMap<(Vec<usize>, String), Vec<String>>) {
    let Value::Object(m) = v else { return };
    // sequences last so that occurrence numbering follows the generator's (depth-first, in order)
    // keys in document order of the MT text where the JSON keys would sort otherwise (first / debit floor limit first)
    let mut keys: Vec<&String> = m.keys().collect();
    keys.sort_by_key(|k| (k.split('_').next().unwrap_or(k).to_string(), match k.split('_').nth(1) { Some("debit") | Some("1") => 0, Some(_) => 1, None => 0 }));
    for k in keys {
        let val = &m[k];
        if k == "#" { continue; }
        let mut tag = k.split('_').next().unwrap_or(k).to_string();
        // the untagged 25 / 25P family: option P is the one that carries a BIC
        if tag == "25" && val.get("bic").is_some() { tag = "25P".into(); }
        let mut push = |t: String, j: &Value| out.entry((path.clone(), t)).or_default().push(canon(j));
        match val {
            Value::Array(a) => for e in a { push_field(&tag, e, &mut push); },
            Value::Null => {}
            other => push_field(&tag, other, &mut push),
        }
    }
    if let Some(s) = m.get("#") {
        match s {
            Value::Array(a) => for e in a {
                let id = *seq_counter;
                *seq_counter += 1;
                path.push(id);
                collect(e, path, seq_counter, out);
                path.pop();
            },
            Value::Object(_) => {
                let id = *seq_counter;
                *seq_counter += 1;
                path.push(id);
                collect(s, path, seq_counter, out);
                path.pop();
            }
            _ => {}
        }
    }
}

fn push_field(tag: &str, j: &Value, push: &mut dyn FnMut(String, &Value)) {
    // an embedded (not flattened) option enum: {"F": {...}}
    if let Value::Object(o) = j {
        if o.len() == 1 {
            let (k, inner) = o.iter().next().unwrap();
            if k.len() == 1 && k.chars().all(|c| c.is_ascii_uppercase()) && inner.is_object() {
                push(format!("{tag}{k}"), inner);
                return;
            }
        }
    }
    push(tag.to_string(), j);
}

fn judge<T: SwiftMessageBody + serde::Serialize>(rep: &mut Report, code: u32, placed: &[Placed], class: &str) {
    let chunks: Vec<Chunk> = placed.iter().map(|p| p.0.clone()).collect();
    let text = tok::render(&chunks, "\n", true);
    let wit = |why: &str, extra: Value| json!({"type": code, "class": class, "input_hex": hex(&text), "tags": chunks.iter().map(|c| c.tag.clone()).collect::<Vec<_>>(), "why": why, "detail": extra});
    rep.case(&format!("{code} {class} {:?}", chunks.iter().map(|c| &c.tag).collect::<Vec<_>>()), true);
    rep.tally(&format!("plan:{}", class.split(':').next().unwrap_or("")));
    let t2 = text.clone();
    let parsed = std::panic::catch_unwind(move || T::parse_from_block4(&t2));
    let m = match parsed {
        Err(_) => { rep.fail(&format!("panic|MT{code}|parse_from_block4"), wit("panic", Value::Null)); return; }
        Ok(Err(e)) => {
            let es = format!("{e}");
            let tag: String = es.split("field ").nth(1).or(es.split("Field ").nth(1)).map(|s| s.chars().take_while(|c| c.is_ascii_alphanumeric()).collect()).unwrap_or_default();
            rep.fail(&format!("reject_valid|MT{code}|{}", if tag.is_empty() { "other".into() } else { tag }), wit("a message assembled according to the documented layout is rejected", json!({"error": es.chars().take(300).collect::<String>()})));
            return;
        }
        Ok(Ok(m)) => m,
    };
    // (2) byte-for-byte reproduction (the library's documented choice of CRLF inside to_mt_string is normalised)
    let out = m.to_mt_string().replace("\r\n", "\n");
    let want = text.trim_end_matches('-').trim_end_matches('\n').to_string();
    if out.trim_end_matches('\n') != want {
        let (oc, _, _) = tok::tokenise(&out);
        let first = oc.iter().zip(chunks.iter()).position(|(a, b)| a != b).unwrap_or(oc.len().min(chunks.len()));
        let site = chunks.get(first).map(|c| c.tag.clone()).unwrap_or_else(|| "end".into());
        rep.fail(&format!("not_reproduced|MT{code}|{site}"), wit("to_mt_string differs from the text", json!({"output": out, "first_difference_at_field": first})));
    }
    // the block model: `renderFrom` must give exactly what to_mt_string wrote, and for well-formed contents the model's
    // successive extract_field calls must read every content back (theorem read_render, here on the real serialisation)
    let wfc = |c: &str| -> bool {
        let cs: Vec<char> = c.chars().collect();
        for (i, &a) in cs.iter().enumerate() {
            let next = cs.get(i + 1).copied();
            if a == '\r' { return false; }
            if a == '\n' && !matches!(next, Some(b) if b != ':' && b != '-') { return false; }
            if a == '-' && next == Some('}') { return false; }
        }
        true
    };
    let wf_tag = |t: &str| -> bool { (2..=4).contains(&t.len()) && t.chars().all(|c| c.is_alphanumeric()) };
    if chunks.iter().all(|c| wf_tag(&c.tag) && wfc(&c.content) && !c.content.is_empty()) && out.trim_end_matches('\n') == want {
        let raw = m.to_mt_string();
        let req = format!("render crlf {}", chunks.iter().map(|c| format!("{}:{}", c.tag, hex(&c.content))).collect::<Vec<_>>().join(" "));
        rep.model(req, format!("{} wf=1 rb=1", hex(&raw)));
    }
    // (3) component values
    let j = serde_json::to_value(&m).unwrap_or(Value::Null);
    let mut got: BTreeMap<(Vec<usize>, String), Vec<String>> = BTreeMap::new();
    collect(&j, &mut Vec::new(), &mut 0, &mut got);
    let mut want: BTreeMap<(Vec<usize>, String), Vec<String>> = BTreeMap::new();
    for (c, path) in placed {
        let Some(ty) = type_of_tag(&c.tag) else { continue };
        if let Outcome::Ok { json, .. } = parse_named(ty, &c.content) {
            want.entry((path.clone(), c.tag.clone())).or_default().push(canon(&json));
        }
    }
    if got != want {
        let key = want.iter().find(|(k, v)| got.get(*k) != Some(v)).map(|(k, _)| k.1.clone())
            .or_else(|| got.keys().find(|k| !want.contains_key(*k)).map(|k| k.1.clone())).unwrap_or_default();
        rep.fail(&format!("wrong_components|MT{code}|{key}"), wit("the parsed model does not expose exactly the written component values (tag / option / sequence occurrence)", json!({"expected": format!("{:?}", want.iter().take(40).collect::<Vec<_>>()), "got": format!("{:?}", got.iter().take(40).collect::<Vec<_>>())})));
    }
}

pub fn run(o: &Opts) -> Report {
    let mut rep = Report::new("C03");
    if let Some(path) = &o.replay {
        let r: Value = serde_json::from_str(&std::fs::read_to_string(path).unwrap_or_default()).unwrap_or(json!({}));
        let code = r["witness"]["type"].as_u64().unwrap_or(0) as u32;
        let text = crate::report::unhex(r["witness"]["input_hex"].as_str().unwrap_or(""));
        let (chunks, _, _) = tok::tokenise(&text);
        // replay judges acceptance and reproduction (the sequence paths are not recoverable from the text alone)
        let placed: Vec<Placed> = chunks.into_iter().map(|c| (c, vec![])).collect();
        with_mt!(code, T => {
            let t = tok::render(&placed.iter().map(|p| p.0.clone()).collect::<Vec<_>>(), "\n", true);
            match T::parse_from_block4(&t) {
                Err(e) => rep.fail(&format!("reject_valid|MT{code}|replay"), json!({"type": code, "input_hex": hex(&t), "error": format!("{e}")})),
                Ok(m) => if m.to_mt_string().replace("\r\n", "\n").trim_end_matches('\n') != t.trim_end_matches('-').trim_end_matches('\n') {
                    rep.fail(&format!("not_reproduced|MT{code}|replay"), json!({"type": code, "input_hex": hex(&t)}));
                },
            }
            rep.case("replay", true);
        }, ());
        return rep;
    }
    let mut rng = Rng::new(o.seed);
    let grammars: BTreeMap<u32, Grammar> = mgen::load_grammars();
    let mut pool = mgen::build_pool(if o.thorough() { 6 } else { 2 });
    mgen::add_spec_contents(&mut pool, &mut rng, if o.thorough() { 30 } else { 6 }, true);
    // letter-less members of option families whose content also has the shape of another option (a name line that looks
    // like a BIC or like a numbered line): the tag, not the content, decides the variant
    for (t, c) in [("59", "ACMECORP"), ("59", "/12345678\nDEUTSCHBANK"), ("59", "1/2 PRICE STORES LTD"), ("59", "/ACC123\n1/NAME ONLY\n2/STREET"),
                   ("50", "DEUTDEFF"), ("50", "/12345678"), ("25", "CHASUS33"), ("25", "12345678CHASUS33"),
                   // boundary values of components: UTC offsets at both ends and signs, a statement line whose supplementary
                   // details contain the reference separator, midnight / end-of-day times, month ends
                   ("13C", "/CLSTIME/0915-1300"), ("13C", "/SNDTIME/1200-1359"), ("13C", "/RNCTIME/2359+1400"), ("13C", "/CLSTIME/0000+1459"), ("13C", "/SNDTIME/0000-0000"),
                   ("13D", "2403151200-1300"), ("13D", "2402292359+1459"), ("13D", "0001010000-1359"),
                   ("61", "2412311231C250,00NTRFCUSTREF0001\nSEE HTTP//BANK.EXAMPLE/ADV"), ("61", "240229D0,01NMSC//B"), ("61", "2402290301RCA123456789012,45S999NONREF//1234567890123456\n/X//Y/"),
                   ("30", "240229"), ("30", "000229"), ("30", "491231"), ("30", "500101"),
                   // a one-digit number of days (written with its leading zero), currencies of every precision incl. ones the
                   // scenarios never use (two decimals for HUF / ISK history, none for JPY, three for BHD, four for CLF)
                   ("23", "USD07NOTICE"), ("23", "EUR01NOTICE"), ("23", "GBP99NOTICE"), ("23", "CHFCURRENT"),
                   ("32A", "240315HUF2500000,00"), ("32A", "240315HUF1234567,50"), ("32B", "HUF1,05"), ("33B", "HUF100,"), ("62F", "C240315HUF1234,56"),
                   ("64", "C240315HUF0,99"), ("60F", "D240315HUF77,10"), ("32B", "ISK1000,"), ("32B", "BHD1,005"), ("32B", "CLF1,0005"), ("32B", "JPY5,"),
                   ("71F", "HUF12,50"), ("71G", "HUF3,"), ("34F", "HUFD150,25"), ("90C", "5HUF1000,50"), ("90D", "3HUF99,95")] {
        let v = pool.by_tag.entry(t.to_string()).or_default();
        if !v.contains(&c.to_string()) {
            v.push(c.to_string());
        }
        DIRECTED.with(|d| d.borrow_mut().push(c.to_string()));
    }
    // "each field in the library's own canonical spelling": every pool content is replaced by what the field's own
    // serialiser writes for it, and kept only when that spelling is a fixed point at field level (anything else is a
    // C02 matter, judged by the fields stream)
    for (tag, v) in pool.by_tag.iter_mut() {
        let Some(ty) = type_of_tag(tag) else { continue };
        let mut w: Vec<String> = Vec::new();
        for c in v.iter() {
            // a content the field parser rejects stays in the pool as written (the spec-derived ones are valid by the
            // documented format): the message-level oracle then reports the rejection
            let Outcome::Ok { ser, .. } = parse_named(ty, c) else { if !w.contains(c) { w.push(c.clone()); } continue };
            let c2 = ser.splitn(3, ':').nth(2).unwrap_or("").to_string();
            if c2.is_empty() || c2.split('\n').any(|l| l.starts_with(':') || l.starts_with('-')) { continue; }
            match parse_named(ty, &c2) {
                Outcome::Ok { ser: s2, .. } if s2 == ser => if !w.contains(&c2) { w.push(c2) },
                _ => {}
            }
        }
        if !w.is_empty() { *v = w; }
    }
    let rounds = if o.thorough() { 8 } else { 1 };
    for &code in SUPPORTED.iter() {
        let Some(g) = grammars.get(&code) else { continue };
        let nopt = count_optionals(g);
        let nlet = max_letters(g);
        let mut plans: Vec<(String, Plan)> = vec![("minimal".into(), Plan { present: Present::None, letter_k: 0, reps: Reps::One, pick: Pick::Random })];
        for k in 0..nlet {
            plans.push((format!("full:letter{k}"), Plan { present: Present::All, letter_k: k, reps: Reps::One, pick: Pick::Random }));
            plans.push((format!("minimal:letter{k}"), Plan { present: Present::None, letter_k: k, reps: Reps::One, pick: Pick::Random }));
        }
        for i in 0..nopt {
            plans.push((format!("single:{i}"), Plan { present: Present::Only(i), letter_k: i % nlet.max(1), reps: Reps::One, pick: Pick::Random }));
        }
        for k in 0..nlet {
            plans.push((format!("full:longest{k}"), Plan { present: Present::All, letter_k: k, reps: Reps::Two, pick: Pick::Longest }));
            plans.push((format!("full:shortest{k}"), Plan { present: Present::All, letter_k: k, reps: Reps::One, pick: Pick::Shortest }));
        }
        for k in 0..(nlet.max(1) * 3) {
            plans.push((format!("full:lookalike{k}"), Plan { present: Present::All, letter_k: k % nlet.max(1), reps: Reps::One, pick: Pick::Lookalike }));
        }
        plans.push(("reps:max".into(), Plan { present: Present::All, letter_k: 1, reps: Reps::Max, pick: Pick::Random }));
        plans.push(("reps:max-minimal".into(), Plan { present: Present::None, letter_k: 0, reps: Reps::Max, pick: Pick::Random }));
        plans.push(("reps:two".into(), Plan { present: Present::All, letter_k: 2, reps: Reps::Two, pick: Pick::Random }));
        for _ in 0..rounds {
            for (name, plan) in &plans {
                let mut ctx = Ctx { rng: &mut rng, pool: &pool, opt_counter: 0, seq_counter: 0, code, pick: plan.pick };
                let mut placed = Vec::new();
                let mut pse = true;
                build(g, plan, &mut ctx, &[], &mut placed, &mut pse);
                with_mt!(code, T => judge::<T>(&mut rep, code, &placed, name), ());
            }
        }
        // random plans from the shared generator (no sequence paths: components are compared without occurrence grouping)
        for _ in 0..(if o.thorough() { 300 } else { 30 }) {
            let gm = mgen::generate(code, g, &mut rng, &pool);
            let text = tok::render(&gm.chunks, "\n", true);
            let r = with_mt!(code, T => T::parse_from_block4(&text).map(|m| m.to_mt_string().replace("\r\n", "\n")).map_err(|e| format!("{e}")), Err("?".into()));
            rep.case(&format!("{code} random {:?}", gm.chunks.iter().map(|c| &c.tag).collect::<Vec<_>>()), true);
            rep.tally("plan:random");
            match r {
                Err(e) => {
                    let tag: String = e.split("field ").nth(1).or(e.split("Field ").nth(1)).map(|s| s.chars().take_while(|c| c.is_ascii_alphanumeric()).collect()).unwrap_or_default();
                    rep.fail(&format!("reject_valid|MT{code}|{}", if tag.is_empty() { "other".into() } else { tag }), json!({"type": code, "class": "random", "input_hex": hex(&text), "error": e.chars().take(300).collect::<String>()}));
                }
                Ok(out) => if out.trim_end_matches('\n') != text.trim_end_matches('-').trim_end_matches('\n') {
                    rep.fail(&format!("not_reproduced|MT{code}|random"), json!({"type": code, "class": "random", "input_hex": hex(&text), "output": out}));
                },
            }
        }
    }
    rep
}
