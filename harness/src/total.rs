//! C07 (message level) — every public entry point returns normally on every input.
//! Inputs: generated valid messages of all 30 types (with headers, user header, trailer), each truncated at many byte
//! offsets, with one character replaced / a character inserted by a 2-, 3- or 4-byte character at many positions, with
//! the block markers shuffled (`-}` before `{4:`, unbalanced and deeply nested braces), empty and one-byte inputs; in the
//! thorough tier also 1 MB bodies and 70 000-field blocks.  Entry points: SwiftParser::parse_auto / parse::<T> /
//! parse_with_errors::<T>, extract_block(1..5), the four header parsers, the plugin's parse_mt / validate_mt; every Err is
//! rendered with Display, debug_report, brief_message and format_with_context.  Values: every systematic JSON mutant of the
//! shipped scenarios (c04) that deserialises is validated, serialised to MT and to JSON.  Each call runs under
//! catch_unwind and a wall-clock budget (quadratic in the input size).
use crate::report::{Report, hex};
use crate::types::SUPPORTED;
use crate::{Opts, c04, mgen, plugin::Plugins, rng::Rng, scen, tok, with_mt};
use serde_json::{Value, json};
use std::time::Instant;
use swift_mt_message::headers::{ApplicationHeader, BasicHeader, Trailer, UserHeader};
use swift_mt_message::{ParseError, SwiftMessage, SwiftMessageBody, SwiftParser};

fn render(e: &ParseError, original: &str) -> usize {
    format!("{e}").len() + e.debug_report().len() + e.brief_message().len() + e.format_with_context(original).len() + format!("{e:?}").len()
}

fn guarded<F: FnOnce() -> R + std::panic::UnwindSafe, R>(rep: &mut Report, what: &str, code: u32, class: &str, input: &str, f: F) -> Option<R> {
    let t = Instant::now();
    let r = std::panic::catch_unwind(f);
    let dt = t.elapsed().as_secs_f64();
    // budget: 0.5 s + c * n^2 with c chosen for 100 kB -> 20 s (release build, loaded machine)
    let n = input.len() as f64;
    if dt > 0.5 + 2e-9 * n * n {
        rep.fail(&format!("C07|slow|{what}|{class}"), json!({"entry": what, "type": code, "class": class, "bytes": input.len(), "seconds": dt, "input_hex": hex(&input.chars().take(400).collect::<String>())}));
    }
    match r {
        Ok(v) => Some(v),
        Err(_) => {
            rep.fail(&format!("C07|panic|{what}|{class}"), json!({"entry": what, "type": code, "class": class, "input_hex": hex(input)}));
            None
        }
    }
}

fn entry_points<T: SwiftMessageBody + 'static>(rep: &mut Report, code: u32, text: &str, class: &str, plugins: Option<&Plugins>) {
    rep.case(&format!("{code} {class} {}", text.len()), true);
    let t = text.to_string();
    if let Some(Err(e)) = guarded(rep, "parse_auto", code, class, text, { let t = t.clone(); move || SwiftParser::parse_auto(&t) }) {
        guarded(rep, "render(parse_auto error)", code, class, text, { let t = t.clone(); move || render(&e, &t) });
        rep.tally("outcome:err");
    } else {
        rep.tally("outcome:ok-or-panic");
    }
    if let Some(Err(e)) = guarded(rep, "parse<T>", code, class, text, { let t = t.clone(); move || SwiftParser::parse::<T>(&t).map(|m| { let _ = m.to_mt_message(); }) }) {
        guarded(rep, "render(parse error)", code, class, text, { let t = t.clone(); move || render(&e, &t) });
    }
    guarded(rep, "parse_with_errors<T>", code, class, text, { let t = t.clone(); move || SwiftParser::new().parse_with_errors::<T>(&t).is_ok() });
    for b in 1..=5u8 {
        guarded(rep, "extract_block", code, class, text, { let t = t.clone(); move || SwiftParser::extract_block(&t, b).map(|o| o.map(|s| s.len())) });
    }
    // the legacy field-map API, on the text as it is and on its block 4
    guarded(rep, "parse_block4_fields", code, class, text, { let t = t.clone(); move || swift_mt_message::parser::parse_block4_fields(&t).map(|m| m.len()) });
    guarded(rep, "parse_block4_fields(block 4)", code, class, text, { let t = t.clone(); move || SwiftParser::extract_block(&t, 4).ok().flatten().map(|b| swift_mt_message::parser::parse_block4_fields(&b).map(|m| m.len())) });
    guarded(rep, "T::parse_from_block4", code, class, text, { let t = t.clone(); move || T::parse_from_block4(&t).map(|m| m.to_mt_string().len()) });
    if let Some(p) = plugins {
        let p1 = std::panic::AssertUnwindSafe(p);
        guarded(rep, "plugin parse_mt", code, class, text, { let t = t.clone(); move || p1.parse(&t).is_ok() });
        let p2 = std::panic::AssertUnwindSafe(p);
        guarded(rep, "plugin validate_mt", code, class, text, { let t = t.clone(); move || p2.validate(&t).is_ok() });
    }
}

fn header_parsers(rep: &mut Report, s: &str, class: &str) {
    rep.case(&format!("hdr {class} {s}"), true);
    let t = s.to_string();
    guarded(rep, "BasicHeader::parse", 0, class, s, { let t = t.clone(); move || BasicHeader::parse(&t).map(|h| format!("{h}")) });
    guarded(rep, "ApplicationHeader::parse", 0, class, s, { let t = t.clone(); move || ApplicationHeader::parse(&t).map(|h| format!("{h}")) });
    guarded(rep, "UserHeader::parse", 0, class, s, { let t = t.clone(); move || UserHeader::parse(&t).map(|h| format!("{h}")) });
    guarded(rep, "Trailer::parse", 0, class, s, { let t = t.clone(); move || Trailer::parse(&t).map(|h| format!("{h}")) });
}

fn value_entry_points<T: SwiftMessageBody + serde::de::DeserializeOwned + serde::Serialize + 'static>(rep: &mut Report, code: u32, j: &Value, class: &str) {
    let js = j.to_string();
    let jj = j.clone();
    let Some(Ok(m)) = guarded(rep, "from_value", code, class, &js, move || serde_json::from_value::<SwiftMessage<T>>(jj)) else { return };
    rep.case(&format!("val {code} {class} {}", js.len()), true);
    let m = std::panic::AssertUnwindSafe(m);
    guarded(rep, "value: validate / to_mt_message / to_value", code, class, &js, move || {
        let a = m.fields.validate_network_rules(false).len() + m.fields.validate_network_rules(true).len();
        let v = m.validate();
        let b = m.to_mt_message().len();
        let c = serde_json::to_value(&*m).map(|v| v.to_string().len()).unwrap_or(0);
        let d = format!("{:?}", v.errors).len();
        a + b + c + d
    });
}

pub fn run(o: &Opts) -> Report {
    let mut rep = Report::new("C07");
    let mut rng = Rng::new(o.seed);
    let plugins = Plugins::new();
    if let Some(path) = &o.replay {
        let r: Value = serde_json::from_str(&std::fs::read_to_string(path).unwrap_or_default()).unwrap_or(json!({}));
        let code = r["witness"]["type"].as_u64().unwrap_or(103) as u32;
        let text = crate::report::unhex(r["witness"]["input_hex"].as_str().unwrap_or(""));
        with_mt!(code, T => entry_points::<T>(&mut rep, code, &text, "replay", Some(&plugins)), with_mt!(103, T => entry_points::<T>(&mut rep, 103, &text, "replay", Some(&plugins)), ()));
        header_parsers(&mut rep, &text, "replay");
        if let Ok(j) = serde_json::from_str::<Value>(&text) {
            with_mt!(code, T => value_entry_points::<T>(&mut rep, code, &j, "replay"), ());
        }
        return rep;
    }
    // tags of every malformed shape through the tag helpers and the tokeniser: empty, one character, a multi-byte second
    // character, no digits, only colons
    for tag in ["", "5", "A", ":", "2\u{e9}", "\u{e9}", "\u{e9}0", "20", "50K", "50#1", "#", "5#", "ABC", "20\u{20ac}", "1234567", " 20", "2 0"] {
        rep.case(&format!("tag {tag}"), true);
        let t1 = tag.to_string();
        guarded(&mut rep, "normalize_field_tag", 0, "malformed-tag", tag, move || swift_mt_message::parser::normalize_field_tag(&t1).len());
        let t2 = tag.to_string();
        guarded(&mut rep, "extract_base_tag", 0, "malformed-tag", tag, move || swift_mt_message::parser::extract_base_tag(&t2).len());
        for text in [format!(":{tag}:X"), format!(":20:REF\n:{tag}:X\n:21:Y"), format!("\n:{tag}: note"), format!(":{tag}:"), format!(":{tag}")] {
            let t3 = text.clone();
            guarded(&mut rep, "parse_block4_fields", 0, "malformed-tag", &text, move || swift_mt_message::parser::parse_block4_fields(&t3).map(|m| m.len()));
            let t4 = format!("{{1:F01BANKBEBBAXXX0000000000}}{{2:I199BANKDEFFXXXXN}}{{4:\n{text}\n-}}");
            with_mt!(199, T => entry_points::<T>(&mut rep, 199, &t4, "malformed-tag", None), ());
        }
    }
    for text in ["", ":", "::", ":::", "::::", "\n:", "\n::", ":\n:", ":20:\n::\n:21:X"] {
        let t3 = text.to_string();
        rep.case(&format!("colons {}", text.len()), true);
        guarded(&mut rep, "parse_block4_fields", 0, "colons-only", text, move || swift_mt_message::parser::parse_block4_fields(&t3).map(|m| m.len()));
    }
    // tiny and quote-only texts through the plugin handlers (they strip quotes and escapes before parsing)
    for text in ["", "\"", "\"\"", " \" \r\n", "\"\\", "\\", "\\\"", "'", "{", "}", "{1:", "\"{1:F01", "\n", "\"\n\""] {
        rep.case(&format!("plugin-tiny {}", text.len()), true);
        let p1 = std::panic::AssertUnwindSafe(&plugins);
        let t1 = text.to_string();
        guarded(&mut rep, "plugin parse_mt", 0, "tiny", text, move || p1.parse(&t1).is_ok());
        let p2 = std::panic::AssertUnwindSafe(&plugins);
        let t2 = text.to_string();
        guarded(&mut rep, "plugin validate_mt", 0, "tiny", text, move || p2.validate(&t2).is_ok());
    }
    let grammars = mgen::load_grammars();
    let pool = mgen::build_pool(if o.thorough() { 4 } else { 1 });
    let per_type = if o.thorough() { 12 } else { 2 };
    let cuts = if o.thorough() { 60 } else { 14 };
    let nonascii = ["\u{e9}", "\u{20ac}", "\u{1f600}", "\u{663}", "\u{c9}"];
    for &code in SUPPORTED.iter() {
        let Some(g) = grammars.get(&code) else { continue };
        for k in 0..per_type {
            let gm = mgen::generate(code, g, &mut rng, &pool);
            let body = tok::render(&gm.chunks, if k % 2 == 0 { "\n" } else { "\r\n" }, false);
            let b3 = ["", "{3:{108:MUR-REF-}{121:180f1e65-90e0-44d5-a49a-92b55eb3025f}}", "{3:{113:URGT}{106:120811BANKBEBBAXXX2222123456}{165:/ABC/INFO}}"][rng.below(3)];
            let b5 = ["", "{5:{CHK:123456789ABC}{PDE:}}", "{5:{MAC:ABCD1234}{TNG:}}"][rng.below(3)];
            let text = format!("{{1:F01BANKBEBBAXXX0000000000}}{{2:I{:03}BANKDEFFXXXXN}}{b3}{{4:\n{}\n-}}{b5}", code, body.trim_end_matches(['\n', '\r']));
            with_mt!(code, T => entry_points::<T>(&mut rep, code, &text, "valid", if k == 0 { Some(&plugins) } else { None }), ());
            let bytes = text.as_bytes();
            // truncations at character boundaries spread over the text (and densely around the block markers)
            let mut offsets: Vec<usize> = (0..cuts).map(|i| i * text.len() / cuts).collect();
            for (i, _) in text.match_indices(['{', '}', ':']).take(40) {
                offsets.push(i);
                offsets.push(i + 1);
            }
            offsets.sort();
            offsets.dedup();
            for &c in &offsets {
                if c <= text.len() && text.is_char_boundary(c) {
                    with_mt!(code, T => entry_points::<T>(&mut rep, code, &text[..c], "truncated", None), ());
                }
            }
            // non-ASCII replacement / insertion at spread positions
            for i in 0..cuts {
                let pos = rng.below(bytes.len().max(1));
                if !text.is_char_boundary(pos) {
                    continue;
                }
                let ch = nonascii[i % nonascii.len()];
                let mut t2 = String::with_capacity(text.len() + 4);
                t2.push_str(&text[..pos]);
                t2.push_str(ch);
                let skip = if i % 2 == 0 { text[pos..].chars().next().map(|c| c.len_utf8()).unwrap_or(0) } else { 0 };
                t2.push_str(&text[pos + skip..]);
                with_mt!(code, T => entry_points::<T>(&mut rep, code, &t2, if skip > 0 { "nonascii-replace" } else { "nonascii-insert" }, None), ());
            }
            // structure shuffles
            for (cls, t2) in [
                ("end-marker-first", format!("-}}{}", text)),
                ("end-marker-before-4", text.replacen("{4:", "-}{4:", 1)),
                ("no-end-marker", text.replace("-}", "")),
                ("double-4", text.replacen("{4:", "{4:{4:", 1)),
                ("nested", format!("{}{}{}", "{1:".repeat(50), text, "}".repeat(50))),
                ("only-open", "{".repeat(200)),
                ("block3-in-4", text.replacen(":20:", ":20:{3:{108:X}}", 1)),
            ] {
                with_mt!(code, T => entry_points::<T>(&mut rep, code, &t2, cls, None), ());
            }
            if k == 0 {
                for h in ["", "F", "F01BANKBEBBAXXX0000000000", "F01BANKBEBB\u{e9}XXX000000000", "I103BANKDEFFXXXXN", "O1031200240101BANKDEFFAXXX00000000002401011201N",
                          "I103BANKDEFF\u{20ac}XXN", "{108:MUR}{121:x}", "{108:\u{e9}}{165:/A}", "{CHK:123456789ABC}", "{CHK:}{PDE", "O103\u{e9}200240101BANKDEFFAXXX00000000002401011201N"] {
                    header_parsers(&mut rep, h, "header-sample");
                }
            }
        }
    }
    for t in ["", " ", "{", "}", ":", "-}", "{4:", "{1:}{2:}{4:-}", "\u{e9}", "{1:\u{e9}}"] {
        entry_points::<swift_mt_message::messages::MT103>(&mut rep, 103, t, "tiny", Some(&plugins));
        header_parsers(&mut rep, t, "tiny");
    }
    // values that only JSON can build
    let scs = scen::all_scenarios();
    for &code in SUPPORTED.iter() {
        for (_, _name, path) in scs.iter().filter(|s| s.0 == code).take(if o.thorough() { 50 } else { 50 }) {
            let Some(schema) = scen::load(path) else { continue };
            let Ok(j) = scen::draw(&schema) else { continue };
            let singles = c04::single_mutants(&j);
            let step = 1;
            for (i, (desc, m)) in singles.iter().enumerate() {
                if i % step != 0 {
                    continue;
                }
                let cls = desc.split(' ').next().unwrap_or("mut");
                with_mt!(code, T => value_entry_points::<T>(&mut rep, code, m, &format!("json-{cls}")), ());
            }
            // short / non-ASCII strings in every string leaf that rules slice
            for (desc, m) in singles.iter().filter(|(d, _)| d.starts_with("set ") && d.contains("currency")).take(6) {
                for bad in ["", "D", "\u{e9}", "U\u{20ac}"] {
                    let mut mm = m.clone();
                    let path: Vec<String> = desc.split(' ').nth(1).unwrap_or("").split('/').map(String::from).collect();
                    if let Some(slot) = mm.pointer_mut(&format!("/{}", path.join("/"))) {
                        *slot = json!(bad);
                        with_mt!(code, T => value_entry_points::<T>(&mut rep, code, &mm, "json-short-currency"), ());
                    }
                }
            }
        }
    }
    if o.thorough() {
        // size: 1 MB narrative, 70 000 fields
        let big = format!("{{1:F01BANKBEBBAXXX0000000000}}{{2:I199BANKDEFFXXXXN}}{{4:\n:20:REF\n:79:{}\n-}}", "A".repeat(1_000_000));
        entry_points::<swift_mt_message::messages::MT199>(&mut rep, 199, &big, "1MB-line", None);
        let many: String = (0..70_000).map(|i| format!(":20:R{i}\n")).collect();
        let big2 = format!("{{1:F01BANKBEBBAXXX0000000000}}{{2:I199BANKDEFFXXXXN}}{{4:\n{many}-}}");
        entry_points::<swift_mt_message::messages::MT199>(&mut rep, 199, &big2, "70000-fields", None);
    }
    rep
}
