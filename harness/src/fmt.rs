//! Independent reading of the documented SWIFT field formats: a small format language, a backtracking matcher
//! (the oracle of C05) and a generator of conforming / boundary / near-miss contents (the inputs of C05, C02, C07).
//!
//! Format language (one string per field, see fieldspec.rs):
//!   `16x`      1..16 characters of class x          `3!n`   exactly 3 of class n
//!   `[ ... ]`  optional group                       `/` `:` `+` ... literal characters, `~` = line break (LF)
//!   `4*35x`    1..4 lines of 1..35 x                `{A|B}` one of the literal words
//!   `<NAME>`   named component (BIC, DATE, TIME, OFFS, CCY, CCYNC, AMT15, AMT15P, AMT12, AMT12P, AMT17, PID, N5, ...)
//! Classes: n digit, a upper-case letter, c upper-case letter or digit, x SWIFT x set, z any character but CR/LF
//! (the library documents `z` as "any character"), d handled by the AMT components.
use crate::rng::Rng;

#[derive(Clone, Debug)]
pub enum Item {
    Fixed(usize, char),
    UpTo(usize, char),
    Opt(Vec<Item>),
    Lit(char),
    Lines(usize, usize, char),
    /// `4*(...)`: 1..n lines, each matching the sub-format
    RepLines(usize, Vec<Item>),
    Alt(Vec<String>),
    Named(String),
}

pub const SWIFT_SPECIAL: &str = "/-?:().,'+{} %&*;<=>@[]_$!\"#|";

pub fn in_class(c: char, cls: char) -> bool {
    match cls {
        'n' => c.is_ascii_digit(),
        'a' => c.is_ascii_uppercase(),
        'c' => c.is_ascii_uppercase() || c.is_ascii_digit(),
        'h' => c.is_ascii_digit() || ('A'..='F').contains(&c),
        'x' => c.is_ascii_alphanumeric() || SWIFT_SPECIAL.contains(c),
        'z' => c != '\n' && c != '\r',
        'Z' => true,
        _ => false,
    }
}

pub fn parse_fmt(s: &str) -> Vec<Item> {
    let cs: Vec<char> = s.chars().collect();
    let (items, pos) = parse_seq(&cs, 0);
    assert!(pos == cs.len(), "format not fully parsed: {s}");
    items
}

fn parse_seq_until(cs: &[char], i: usize, close: char) -> (Vec<Item>, usize) {
    let j = i + cs[i..].iter().position(|&x| x == close).expect("unclosed (");
    let (sub, k) = parse_seq(&cs[..j], i);
    assert!(k == j);
    (sub, j)
}

fn parse_seq(cs: &[char], mut i: usize) -> (Vec<Item>, usize) {
    let mut out = Vec::new();
    while i < cs.len() {
        let c = cs[i];
        if c == ']' {
            break;
        }
        if c == '[' {
            let (sub, j) = parse_seq(cs, i + 1);
            assert!(j < cs.len() && cs[j] == ']', "unclosed [");
            out.push(Item::Opt(sub));
            i = j + 1;
        } else if c == '{' {
            let j = i + 1 + cs[i + 1..].iter().position(|&x| x == '}').expect("unclosed {");
            let body: String = cs[i + 1..j].iter().collect();
            out.push(Item::Alt(body.split('|').map(String::from).collect()));
            i = j + 1;
        } else if c == '<' {
            let j = i + 1 + cs[i + 1..].iter().position(|&x| x == '>').expect("unclosed <");
            out.push(Item::Named(cs[i + 1..j].iter().collect()));
            i = j + 1;
        } else if c.is_ascii_digit() {
            let mut j = i;
            while j < cs.len() && cs[j].is_ascii_digit() {
                j += 1;
            }
            let n: usize = cs[i..j].iter().collect::<String>().parse().unwrap();
            if cs[j] == '!' {
                out.push(Item::Fixed(n, cs[j + 1]));
                i = j + 2;
            } else if cs[j] == '*' && cs[j + 1] == '(' {
                let (sub, k) = parse_seq_until(cs, j + 2, ')');
                out.push(Item::RepLines(n, sub));
                i = k + 1;
            } else if cs[j] == '*' {
                let mut k = j + 1;
                while cs[k].is_ascii_digit() {
                    k += 1;
                }
                let m: usize = cs[j + 1..k].iter().collect::<String>().parse().unwrap();
                out.push(Item::Lines(n, m, cs[k]));
                i = k + 1;
            } else {
                out.push(Item::UpTo(n, cs[j]));
                i = j + 1;
            }
        } else if c == '~' {
            out.push(Item::Lit('\n'));
            i += 1;
        } else if c == '\\' {
            out.push(Item::Lit(cs[i + 1]));
            i += 2;
        } else {
            out.push(Item::Lit(c));
            i += 1;
        }
    }
    (out, i)
}

// ---------------------------------------------------------------------------------------------------------------
// matcher

#[derive(Clone, Default)]
pub struct Ctx {
    pub ccy: Option<String>,
}

pub fn iso_decimals(c: &str) -> usize {
    crate::c06::iso_decimals(c)
}

fn days_in_month(y: u32, m: u32) -> u32 {
    match m {
        1 | 3 | 5 | 7 | 8 | 10 | 12 => 31,
        4 | 6 | 9 | 11 => 30,
        2 => if (y % 4 == 0 && y % 100 != 0) || y % 400 == 0 { 29 } else { 28 },
        _ => 0,
    }
}
pub fn valid_yymmdd(s: &[char]) -> bool {
    if s.len() != 6 || !s.iter().all(|c| c.is_ascii_digit()) {
        return false;
    }
    let d = |i: usize| s[i].to_digit(10).unwrap();
    let yy = d(0) * 10 + d(1);
    let y = if yy <= 49 { 2000 + yy } else { 1900 + yy };
    let m = d(2) * 10 + d(3);
    let dd = d(4) * 10 + d(5);
    m >= 1 && m <= 12 && dd >= 1 && dd <= days_in_month(y, m)
}
fn two(s: &[char], i: usize) -> u32 {
    s[i].to_digit(10).unwrap() * 10 + s[i + 1].to_digit(10).unwrap()
}

/// plain decimal of the library's documented `nd`: digits, at most one separator after at least one integer digit;
/// length without padding zeros <= n; decimals (without trailing zeros) <= prec if given; `positive` forbids zero
/// `nd` has two readings: SWIFT's (at most n characters as written) and the library's documented one (the fraction zeros
/// its serialisers pad with do not count).  Over-acceptance is judged under the lenient reading, rejection of a valid
/// content under the strict one (set while that judgement is made): between the two either behaviour is documented.
pub static STRICT_ND: std::sync::atomic::AtomicBool = std::sync::atomic::AtomicBool::new(false);

pub fn amount_ok(s: &[char], n: usize, prec: Option<usize>, positive: bool) -> bool {
    if STRICT_ND.load(std::sync::atomic::Ordering::Relaxed) && s.len() > n {
        return false;
    }
    let mut i = 0;
    while i < s.len() && s[i].is_ascii_digit() {
        i += 1;
    }
    if i == 0 {
        return false;
    }
    let mut frac: &[char] = &[];
    let mut has_sep = false;
    if i < s.len() {
        if s[i] != ',' && s[i] != '.' {
            return false;
        }
        has_sep = true;
        frac = &s[i + 1..];
        if !frac.iter().all(|c| c.is_ascii_digit()) {
            return false;
        }
    }
    let mut sig_frac = frac.len();
    while sig_frac > 0 && frac[sig_frac - 1] == '0' {
        sig_frac -= 1;
    }
    // documented reading: count the characters of the number without its padding zeros
    let doc_len = if has_sep { if sig_frac > 0 { i + 1 + sig_frac } else { i } } else { i };
    if doc_len > n {
        return false;
    }
    if let Some(p) = prec {
        if sig_frac > p {
            return false;
        }
    }
    if positive && s.iter().all(|c| !c.is_ascii_digit() || *c == '0') {
        return false;
    }
    true
}

/// the party-identifier line after its leading '/': the forms the library documents
/// (`/34x`, `/1!a/34x`, `/2!c/34x`, `//34x`)
pub fn pid_ok(rest: &[char]) -> bool {
    if rest.is_empty() || !rest.iter().all(|&c| in_class(c, 'x')) {
        return rest.is_empty() && false;
    }
    if rest[0] == '/' {
        return rest.len() >= 2 && rest.len() <= 35;
    }
    if let Some(p) = rest.iter().position(|&c| c == '/') {
        let code = &rest[..p];
        let id = &rest[p + 1..];
        if (1..=2).contains(&code.len()) && code.iter().all(|c| c.is_ascii_alphanumeric()) {
            return id.len() <= 34;
        }
        return false; // a slash further inside: not one of the documented forms
    }
    rest.len() <= 34
}

fn named_lengths(name: &str, rest: &[char]) -> Vec<usize> {
    // candidate lengths this named component may take at the front of `rest`
    match name {
        "BIC" => vec![8, 11],
        "DATE" => vec![6],
        "TIME" | "OFFS" | "MMDD" => vec![4],
        "CCY" | "CCYNC" => vec![3],
        "DC" => vec![1],
        "DCR" => vec![1, 2],
        n if n.starts_with("AMT") => {
            let k = rest.iter().take_while(|c| c.is_ascii_digit() || **c == ',' || **c == '.').count();
            (1..=k).rev().collect()
        }
        "PID" => {
            let k = rest.iter().take_while(|c| **c != '\n').count();
            vec![k]
        }
        "N5" | "N2" | "N5NZ" => {
            let max = if name == "N2" { 2 } else { 5 };
            let k = rest.iter().take_while(|c| c.is_ascii_digit()).count().min(max);
            (1..=k).rev().collect()
        }
        _ => panic!("unknown named component {name}"),
    }
}

fn named_ok(name: &str, s: &[char], ctx: &mut Ctx) -> bool {
    match name {
        "BIC" => {
            (s.len() == 8 || s.len() == 11)
                && s[..6].iter().all(|c| c.is_ascii_uppercase())
                && s[6..].iter().all(|c| c.is_ascii_uppercase() || c.is_ascii_digit())
        }
        "DATE" => valid_yymmdd(s),
        "MMDD" => s.iter().all(|c| c.is_ascii_digit()),
        "TIME" => s.iter().all(|c| c.is_ascii_digit()) && two(s, 0) <= 23 && two(s, 2) <= 59,
        "OFFS" => s.iter().all(|c| c.is_ascii_digit()) && two(s, 0) <= 14 && two(s, 2) <= 59,
        "CCY" | "CCYNC" => {
            let ok = s.iter().all(|c| c.is_ascii_uppercase());
            let code: String = s.iter().collect();
            if ok {
                ctx.ccy = Some(code.clone());
            }
            ok && !(name == "CCYNC" && ["XAU", "XAG", "XPD", "XPT"].contains(&code.as_str()))
        }
        "DC" => s == ['D'] || s == ['C'],
        "DCR" => ["D", "C", "RD", "RC"].contains(&s.iter().collect::<String>().as_str()),
        "PID" => s.first() == Some(&'/') && pid_ok(&s[1..]),
        "N5" | "N2" => s.iter().all(|c| c.is_ascii_digit()),
        n if n.starts_with("AMT") => {
            let positive = n.ends_with('P');
            let digits: String = n[3..].chars().filter(|c| c.is_ascii_digit()).collect();
            let max: usize = digits.parse().unwrap();
            let prec = if n.contains('F') { None } else { ctx.ccy.as_deref().map(iso_decimals) };
            amount_ok(s, max, prec, positive)
        }
        _ => false,
    }
}

/// a field's documented format: alternatives separated by `||`
pub fn parse_alts(s: &str) -> Vec<Vec<Item>> {
    s.split("||").map(parse_fmt).collect()
}
pub fn matches_any(alts: &[Vec<Item>], s: &str) -> bool {
    let cs: Vec<char> = s.chars().collect();
    alts.iter().any(|a| matches(a, &cs))
}

pub fn matches(items: &[Item], s: &[char]) -> bool {
    let mut ctx = Ctx::default();
    m(items, s, &mut ctx)
}

fn m(items: &[Item], s: &[char], ctx: &mut Ctx) -> bool {
    let Some((first, rest_items)) = items.split_first() else { return s.is_empty() };
    match first {
        Item::Fixed(n, cls) => s.len() >= *n && s[..*n].iter().all(|&c| in_class(c, *cls)) && m(rest_items, &s[*n..], ctx),
        Item::UpTo(n, cls) => {
            let k = s.iter().take(*n).take_while(|&&c| in_class(c, *cls)).count();
            (1..=k).rev().any(|j| { let mut c2 = ctx.clone(); let ok = m(rest_items, &s[j..], &mut c2); if ok { *ctx = c2; } ok })
        }
        Item::Lit(c) => s.first() == Some(c) && m(rest_items, &s[1..], ctx),
        Item::Opt(sub) => {
            let mut joined = sub.clone();
            joined.extend_from_slice(rest_items);
            let mut c2 = ctx.clone();
            if m(&joined, s, &mut c2) {
                *ctx = c2;
                return true;
            }
            // a line that starts with '/' IS the party-identifier / account line (the library's documented reading of
            // `[/34x]` and `[/1!a][/34x]` in front of free-text lines): it cannot be skipped and re-read as text
            let slash_led = matches!(sub.first(), Some(Item::Lit('/'))) || matches!(sub.first(), Some(Item::Named(n)) if n == "PID");
            if slash_led && s.first() == Some(&'/') && sub.iter().any(|i| matches!(i, Item::Lit('\n'))) {
                return false;
            }
            m(rest_items, s, ctx)
        }
        Item::Alt(words) => words.iter().any(|w| {
            let wc: Vec<char> = w.chars().collect();
            s.len() >= wc.len() && s[..wc.len()] == wc[..] && m(rest_items, &s[wc.len()..], ctx)
        }),
        Item::Lines(maxl, maxc, cls) => {
            // 1..maxl lines of 1..maxc chars; tries every number of lines
            fn go(left: usize, maxc: usize, cls: char, s: &[char], rest: &[Item], ctx: &mut Ctx, first: bool) -> bool {
                if left == 0 {
                    return false;
                }
                let k = s.iter().take(maxc).take_while(|&&c| in_class(c, cls) && c != '\n').count();
                for j in (1..=k).rev() {
                    let after = &s[j..];
                    // stop here
                    let mut c2 = ctx.clone();
                    if m(rest, after, &mut c2) {
                        *ctx = c2;
                        return true;
                    }
                    if after.first() == Some(&'\n') && go(left - 1, maxc, cls, &after[1..], rest, ctx, false) {
                        return true;
                    }
                }
                let _ = first;
                false
            }
            go(*maxl, *maxc, *cls, s, rest_items, ctx, true)
        }
        Item::RepLines(maxl, sub) => {
            // try every split of the leading lines
            fn go(left: usize, sub: &[Item], s: &[char], rest: &[Item], ctx: &mut Ctx) -> bool {
                if left == 0 {
                    return false;
                }
                let line_end = s.iter().position(|&c| c == '\n').unwrap_or(s.len());
                // the sub-format must match a prefix of this line exactly up to some cut <= line_end
                for cut in (0..=line_end).rev() {
                    let mut c1 = ctx.clone();
                    if m(sub, &s[..cut], &mut c1) {
                        let after = &s[cut..];
                        let mut c2 = c1.clone();
                        if m(rest, after, &mut c2) {
                            *ctx = c2;
                            return true;
                        }
                        if after.first() == Some(&'\n') && go(left - 1, sub, &after[1..], rest, &mut c1) {
                            *ctx = c1;
                            return true;
                        }
                    }
                }
                false
            }
            go(*maxl, sub, s, rest_items, ctx)
        }
        Item::Named(name) => {
            for len in named_lengths(name, s) {
                if len <= s.len() {
                    let mut c2 = ctx.clone();
                    if named_ok(name, &s[..len], &mut c2) && m(rest_items, &s[len..], &mut c2) {
                        *ctx = c2;
                        return true;
                    }
                }
            }
            false
        }
    }
}

// ---------------------------------------------------------------------------------------------------------------
// generator

pub const CCYS: &[&str] = &["USD", "EUR", "JPY", "BHD", "CLF", "KWD", "KRW", "GBP", "CHF", "TND", "UYW", "XOF", "ZAR"];

fn class_chars(cls: char) -> Vec<char> {
    match cls {
        'n' => "0123456789".chars().collect(),
        'a' => "ABCDEFGHIJKLMNOPQRSTUVWXYZ".chars().collect(),
        'c' => "ABCDEFGHIJKLMNOPQRSTUVWXYZ0123456789".chars().collect(),
        'h' => "0123456789ABCDEF".chars().collect(),
        'x' => "ABCXYZabcxyz0123456789/-?:().,'+{} %&*;<=>@[]_$!\"#|".chars().collect(),
        'z' | 'Z' => "ABCabc0123 /-?:().,'+=!\"%&*<>;@#_~^`\\".chars().collect(),
        _ => vec!['?'],
    }
}

/// how lengths are chosen
#[derive(Clone, Copy, PartialEq)]
pub enum Len {
    Min,
    Max,
    Rand,
}

pub struct Gen<'a> {
    pub rng: &'a mut Rng,
    pub len: Len,
    /// index of the length-bearing node to violate (max+1 / exact±1 / lines+1), counting nodes in generation order
    pub violate: Option<usize>,
    pub counter: usize,
    pub opt_all: Option<bool>,
    pub ccy: Option<String>,
}

impl<'a> Gen<'a> {
    fn pick_len(&mut self, min: usize, max: usize) -> usize {
        match self.len {
            Len::Min => min,
            Len::Max => max,
            Len::Rand => self.rng.range(min, max),
        }
    }
    fn node(&mut self) -> bool {
        let hit = self.violate == Some(self.counter);
        self.counter += 1;
        hit
    }
    fn chars(&mut self, cls: char, n: usize, first_not_slash: bool) -> String {
        let al = class_chars(cls);
        let mut s = String::new();
        for i in 0..n {
            let mut c = *self.rng.pick(&al);
            // keep generated text free of accidental structure: no '/' or '\n' inside free text unless asked
            while (c == '/' && (first_not_slash || i == 0)) || c == '\n' || (c == '-' && i == 0) || (c == ':' && i == 0) {
                c = *self.rng.pick(&al);
            }
            s.push(c);
        }
        s
    }
    pub fn make(&mut self, items: &[Item]) -> String {
        let mut out = String::new();
        for it in items {
            match it {
                Item::Fixed(n, cls) => {
                    let hit = self.node();
                    let k = if hit { if self.rng.chance(1, 2) { n + 1 } else { n.saturating_sub(1) } } else { *n };
                    out.push_str(&self.chars(*cls, k, true));
                }
                Item::UpTo(n, cls) => {
                    let hit = self.node();
                    let k = if hit { n + 1 } else { self.pick_len(1, *n) };
                    out.push_str(&self.chars(*cls, k, true));
                }
                Item::Lit(c) => out.push(*c),
                Item::Opt(sub) => {
                    let take = self.opt_all.unwrap_or_else(|| self.rng.chance(1, 2));
                    if take {
                        out.push_str(&self.make(sub));
                    }
                }
                Item::Alt(words) => out.push_str(&self.rng.pick(words).clone()),
                Item::Lines(maxl, maxc, cls) => {
                    let hit_lines = self.node();
                    let hit_len = self.node();
                    let nl = if hit_lines { maxl + 1 } else { self.pick_len(1, *maxl) };
                    for i in 0..nl {
                        if i > 0 {
                            out.push('\n');
                        }
                        let k = if hit_len && i == nl - 1 { maxc + 1 } else { self.pick_len(1, *maxc) };
                        out.push_str(&self.chars(*cls, k, true));
                    }
                }
                Item::RepLines(maxl, sub) => {
                    let hit = self.node();
                    let nl = if hit { maxl + 1 } else { self.pick_len(1, *maxl) };
                    for i in 0..nl {
                        if i > 0 {
                            out.push('\n');
                        }
                        let line = self.make(sub);
                        // numbered lines: use consecutive numbers where the line starts with a digit and a slash
                        let lc: Vec<char> = line.chars().collect();
                        if lc.len() >= 2 && lc[0].is_ascii_digit() && lc[1] == '/' {
                            out.push(char::from_digit(((i + 1) % 10) as u32, 10).unwrap());
                            out.extend(lc[1..].iter());
                        } else {
                            out.push_str(&line);
                        }
                    }
                }
                Item::Named(name) => out.push_str(&self.named(name)),
            }
        }
        out
    }
    fn named(&mut self, name: &str) -> String {
        match name {
            "BIC" => {
                let hit = self.node();
                let n = if hit { *self.rng.pick(&[7usize, 9, 10, 12]) } else if self.rng.chance(1, 2) { 8 } else { 11 };
                let mut s = self.chars('a', 6.min(n), true);
                if n > 6 {
                    s.push_str(&self.chars('c', n - 6, true));
                }
                s
            }
            "DATE" => {
                let hit = self.node();
                if hit {
                    return self.rng.pick(&["240230", "241301", "240100", "230229", "24011", "2401011"]).to_string();
                }
                let yy = self.rng.below(100);
                let mm = self.rng.range(1, 12);
                let y = if yy <= 49 { 2000 + yy } else { 1900 + yy } as u32;
                let dd = self.rng.range(1, days_in_month(y, mm as u32) as usize);
                format!("{:02}{:02}{:02}", yy, mm, dd)
            }
            "MMDD" => format!("{:02}{:02}", self.rng.range(1, 12), self.rng.range(1, 28)),
            "TIME" => {
                let hit = self.node();
                if hit { return self.rng.pick(&["2400", "1260", "9999", "120"]).to_string(); }
                format!("{:02}{:02}", self.rng.below(24), self.rng.below(60))
            }
            "OFFS" => {
                let hit = self.node();
                if hit { return self.rng.pick(&["1500", "0160", "9900", "010"]).to_string(); }
                format!("{:02}{:02}", self.rng.below(15), self.rng.below(60))
            }
            "CCY" | "CCYNC" => {
                let hit = self.node();
                let c = if hit { self.rng.pick(&["usd", "US", "USDX", "U1D", "XAU"]).to_string() } else { self.rng.pick(CCYS).to_string() };
                self.ccy = Some(c.clone());
                c
            }
            "DC" => self.rng.pick(&["D", "C"]).to_string(),
            "DCR" => self.rng.pick(&["D", "C", "RD", "RC"]).to_string(),
            "PID" => {
                let hit = self.node();
                let form = self.rng.below(4);
                let n = if hit { 35 } else { self.pick_len(1, 34) };
                match form {
                    0 => format!("/{}", self.chars('x', n, true)),
                    1 => format!("/{}/{}", self.chars('a', 1, true), self.chars('x', n, true)),
                    2 => format!("/{}/{}", self.chars('a', 2, true), self.chars('x', n, true)),
                    _ => format!("//{}", self.chars('c', n.min(if hit { 35 } else { 34 }), true)),
                }
            }
            "N5" | "N2" => {
                let hit = self.node();
                let max = if name == "N2" { 2 } else { 5 };
                let k = if hit { max + 1 } else { self.pick_len(1, max) };
                let mut s = self.chars('n', k, true);
                if s.chars().all(|c| c == '0') { s.pop(); s.push('7'); }
                s
            }
            n if n.starts_with("AMT") => {
                let hit = self.node();
                let digits: String = n[3..].chars().filter(|c| c.is_ascii_digit()).collect();
                let max: usize = digits.parse().unwrap();
                let prec = if n.contains('F') { 2 } else { self.ccy.as_deref().map(iso_decimals).unwrap_or(2) };
                // zero in its spellings, where the format does not ask for a positive amount (rates, balances, sums)
                if !hit && !n[3..].contains('P') && self.rng.chance(1, 12) {
                    return self.rng.pick(&["0", "0,", "0,0", "0,00", "000", "00,0"]).to_string();
                }
                let dec = if hit && self.rng.chance(1, 2) { prec + 1 } else { self.rng.range(0, prec) };
                let int_max = max.saturating_sub(if dec > 0 { dec + 1 } else { 1 }).max(1);
                let ip = if hit && dec <= prec { max + 1 } else { self.pick_len(1, int_max.min(12)) };
                let mut s = String::new();
                s.push(*self.rng.pick(&['1', '2', '5', '9']));
                s.push_str(&self.chars('n', ip - 1, true));
                if dec > 0 {
                    s.push(',');
                    s.push_str(&self.chars('n', dec - 1, true));
                    s.push(*self.rng.pick(&['1', '3', '7']));
                } else if self.rng.chance(1, 3) {
                    s.push(',');
                }
                s
            }
            _ => panic!("unknown named component {name}"),
        }
    }
}

/// Does the text carry an amount outside the region where an f64 holds a decimal exactly: integer digits plus the
/// decimals to print (the currency's, taken from the three capital letters in front of the amount; 2 without one; or the
/// written ones if more) above 15?  Such amounts come back changed in the last digits (finding f64-precision).
pub fn beyond_f64(text: &str) -> bool {
    let cs: Vec<char> = text.chars().collect();
    let mut i = 0;
    while i < cs.len() {
        if cs[i].is_ascii_digit() {
            let st = i;
            while i < cs.len() && cs[i].is_ascii_digit() { i += 1; }
            let int_d = i - st;
            let mut dec = 0;
            if i < cs.len() && (cs[i] == ',' || cs[i] == '.') {
                let f = i + 1;
                i += 1;
                while i < cs.len() && cs[i].is_ascii_digit() { i += 1; }
                dec = i - f;
            }
            // the currency stands directly in front of the amount, or one D / C indicator earlier (34F): take the larger precision
            let mut prec = 2;
            for back in [0usize, 1] {
                if st >= 3 + back && cs[st - 3 - back..st - back].iter().all(|c| c.is_ascii_uppercase()) {
                    let ccy: String = cs[st - 3 - back..st - back].iter().collect();
                    prec = prec.max(iso_decimals(&ccy));
                }
            }
            if int_d + dec.max(prec) > 15 && int_d >= 9 {
                return true;
            }
        } else {
            i += 1;
        }
    }
    false
}

/// number of length-bearing nodes (for the `violate` index)
pub fn count_nodes(items: &[Item]) -> usize {
    items.iter().map(|it| match it {
        Item::Fixed(..) | Item::UpTo(..) => 1,
        Item::Lines(..) => 2,
        Item::RepLines(_, sub) => 1 + count_nodes(sub),
        Item::Opt(sub) => count_nodes(sub),
        Item::Named(n) => if ["DC", "DCR", "MMDD"].contains(&n.as_str()) { 0 } else { 1 },
        _ => 0,
    }).sum()
}

/// string-level mutants of a (usually valid) content
pub fn mutants(rng: &mut Rng, s: &str) -> Vec<(&'static str, String)> {
    let cs: Vec<char> = s.chars().collect();
    let mut out = Vec::new();
    let n = cs.len();
    let pos = |rng: &mut Rng| if n == 0 { 0 } else { rng.below(n) };
    let put = |i: usize, c: &str| -> String { let mut v: String = cs[..i].iter().collect(); v.push_str(c); v.extend(cs[i..].iter()); v };
    let rep = |i: usize, c: &str| -> String { let mut v: String = cs[..i].iter().collect(); v.push_str(c); if i < n { v.extend(cs[i + 1..].iter()); } v };
    // one capital letter at a time in lower case (a class test that accepts any letter where a capital is documented)
    for (k, i) in cs.iter().enumerate().filter(|(_, c)| c.is_ascii_uppercase()).map(|(i, _)| i).enumerate() {
        if k >= 10 { break; }
        out.push(("lower_one", rep(i, &cs[i].to_ascii_lowercase().to_string())));
    }
    // a zero in front of each run of digits (a number one digit longer than written, with the same value)
    {
        let mut k = 0;
        for i in 0..n {
            if cs[i].is_ascii_digit() && (i == 0 || !cs[i - 1].is_ascii_digit()) {
                if k >= 6 { break; }
                k += 1;
                out.push(("zero_pad", put(i, "0")));
            }
        }
    }
    out.push(("append_char", format!("{s}X")));
    out.push(("append_digit", format!("{s}7")));
    out.push(("append_space", format!("{s} ")));
    out.push(("append_zeros", format!("{s}0000000000000000")));
    out.push(("append_zeros_sep", format!("{s},0000000000000000")));
    out.push(("append_line", format!("{s}\nEXTRA")));
    out.push(("append_newline", format!("{s}\n")));
    out.push(("append_crlf_line", format!("{s}\r\nEXTRA")));
    out.push(("prepend_char", format!("X{s}")));
    out.push(("prepend_slash", format!("/{s}")));
    out.push(("prepend_newline", format!("\n{s}")));
    if n > 0 {
        let i = pos(rng);
        out.push(("delete_char", rep(i, "")));
        out.push(("delete_last", cs[..n - 1].iter().collect()));
        out.push(("delete_first", cs[1..].iter().collect()));
        let i = pos(rng);
        out.push(("lowercase", rep(i, &cs[i].to_ascii_lowercase().to_string())));
        let i = pos(rng);
        out.push(("replace_nonswift", rep(i, "~")));
        let i = pos(rng);
        out.push(("replace_letter", rep(i, "Q")));
        let i = pos(rng);
        out.push(("replace_digit", rep(i, "4")));
        let i = pos(rng);
        out.push(("insert_blank_line", put(i, "\n\n")));
        let i = pos(rng);
        out.push(("insert_newline", put(i, "\n")));
        let i = pos(rng);
        out.push(("insert_cr", put(i, "\r")));
        let i = pos(rng);
        out.push(("insert_nonascii2", put(i, "\u{e9}")));
        let i = pos(rng);
        out.push(("replace_nonascii3", rep(i, "\u{20ac}")));
        let i = pos(rng);
        out.push(("replace_arabic_digit", rep(i, "\u{663}")));
        let i = pos(rng);
        out.push(("insert_nonascii4", put(i, "\u{1f600}")));
        let i = pos(rng);
        out.push(("insert_slash", put(i, "/")));
        let i = pos(rng);
        out.push(("insert_double_slash", put(i, "//")));
        out.push(("duplicate", format!("{s}{s}")));
        out.push(("duplicate_line", format!("{s}\n{s}")));
        out.push(("tab", rep(pos(rng), "\t")));
    }
    out.push(("empty", String::new()));
    out
}
