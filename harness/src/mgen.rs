//! Grammar-directed message generator driven by /verif/spec/layouts.txt (the independent layout specification),
//! with field contents taken from a pool of the library's own canonical spellings (harvested from scenario
//! draws) plus hand-written canonical contents for options the scenarios never use.
use crate::rng::Rng;
use crate::tok::{self, Chunk};
use crate::{scen, with_mt};
use std::collections::{BTreeMap, HashMap};
use swift_mt_message::{SwiftMessage, SwiftMessageBody};

#[derive(Debug, Clone, PartialEq)]
pub enum Occ {
    M,
    O,
    Rep(usize),  // 0..n
    Rep1(usize), // 1..n
    OAmb,        // optional, unambiguous only when the preceding sequence is empty
    OGen,        // optional in the layout, always generated
}

#[derive(Debug, Clone)]
pub enum Item {
    F { base: String, letters: Vec<String>, occ: Occ },
    Seq { items: Vec<Item>, min: usize, max: usize, hard: bool },
}

impl Item {
    pub fn tags(&self) -> Vec<String> {
        match self {
            Item::F { base, letters, .. } => letters.iter().map(|l| format!("{base}{l}")).collect(),
            Item::Seq { items, .. } => items.first().map(|i| i.tags()).unwrap_or_default(),
        }
    }
}

pub type Grammar = Vec<Item>;

/// The same layout with the generator conventions `Og` / `O~` read as plain optional items: texts that are optional in
/// the documented layout but ambiguous for a membership oracle.  For properties about every ACCEPTED text (C02) the
/// ambiguity does not matter.
pub fn loosen(g: &Grammar) -> Grammar {
    g.iter().map(|it| match it {
        Item::F { base, letters, occ } => Item::F { base: base.clone(), letters: letters.clone(), occ: if matches!(occ, Occ::OGen | Occ::OAmb) { Occ::O } else { occ.clone() } },
        Item::Seq { items, min, max, hard } => Item::Seq { items: loosen(items), min: *min, max: *max, hard: *hard },
    }).collect()
}

fn parse_items(s: &str) -> Vec<Item> {
    // split at top-level ';'
    let mut items = Vec::new();
    let mut depth = 0;
    let mut cur = String::new();
    let mut parts = Vec::new();
    for c in s.chars() {
        match c {
            '[' => { depth += 1; cur.push(c); }
            ']' => { depth -= 1; cur.push(c); }
            ';' if depth == 0 => { parts.push(cur.clone()); cur.clear(); }
            _ => cur.push(c),
        }
    }
    if !cur.trim().is_empty() {
        parts.push(cur);
    }
    for p in parts {
        let p = p.trim();
        if p.is_empty() {
            continue;
        }
        if let Some(rest) = p.strip_prefix('[') {
            let close = rest.rfind(']').expect("seq close");
            let inner = &rest[..close];
            let range = rest[close + 1..].trim();
            let hard = range.ends_with('!');
            let (a, b) = range.trim_end_matches('!').split_once("..").expect("range");
            items.push(Item::Seq { items: parse_items(inner), min: a.trim().parse().unwrap(), max: b.trim().parse().unwrap(), hard });
        } else {
            let (tag, occ) = p.split_once(' ').expect("tag occ");
            let occ = occ.trim();
            let occ = if occ == "M" { Occ::M } else if occ == "O" { Occ::O } else if occ == "O~" { Occ::OAmb } else if occ == "Og" { Occ::OGen }
                else if let Some(n) = occ.strip_prefix("O*") { Occ::Rep(n.parse().unwrap()) }
                else if let Some(n) = occ.strip_prefix("M*") { Occ::Rep1(n.parse().unwrap()) }
                else { panic!("bad occ {occ}") };
            let (base, letters) = if let Some((b, l)) = tag.split_once('{') {
                (b.to_string(), l.trim_end_matches('}').split(',').map(|x| if x == "-" { String::new() } else { x.to_string() }).collect())
            } else {
                (tag.to_string(), vec![String::new()])
            };
            items.push(Item::F { base, letters, occ });
        }
    }
    items
}

pub fn load_grammars() -> BTreeMap<u32, Grammar> {
    let path = std::env::var("VERIF_SPEC").unwrap_or_else(|_| "/verif/spec/layouts.txt".into());
    let src = std::fs::read_to_string(&path).unwrap_or_else(|_| panic!("cannot read {path}"));
    let mut out = BTreeMap::new();
    for line in src.lines() {
        let line = line.trim();
        if line.is_empty() || line.starts_with('#') {
            continue;
        }
        let (code, rest) = line.split_once(':').unwrap();
        out.insert(code.trim().parse().unwrap(), parse_items(rest));
    }
    out
}

// -------------------------------------------------------------------------------------------------
// membership: does a tag sequence belong to the grammar?  (backtracking matcher over positions)

fn match_items(items: &[Item], tags: &[String], pos: usize, k: &mut dyn FnMut(usize) -> bool) -> bool {
    if items.is_empty() {
        return k(pos);
    }
    let (first, rest) = items.split_first().unwrap();
    match first {
        Item::F { base, letters, occ } => {
            let here = |p: usize| -> bool { p < tags.len() && letters.iter().any(|l| tags[p] == format!("{base}{l}")) };
            let (min, max) = match occ { Occ::M => (1, 1), Occ::O | Occ::OAmb | Occ::OGen => (0, 1), Occ::Rep(n) => (0, *n), Occ::Rep1(n) => (1, *n) };
            // take n occurrences, n in min..=max (greedy first)
            let mut avail = 0;
            while avail < max && here(pos + avail) {
                avail += 1;
            }
            if avail < min {
                return false;
            }
            let mut n = avail as isize;
            while n >= min as isize {
                if match_items(rest, tags, pos + n as usize, k) {
                    return true;
                }
                n -= 1;
            }
            false
        }
        Item::Seq { items: inner, min, max, .. } => {
            fn rep(inner: &[Item], rest: &[Item], tags: &[String], pos: usize, done: usize, min: usize, max: usize, k: &mut dyn FnMut(usize) -> bool) -> bool {
                if done < max {
                    let mut cont = |p: usize| -> bool { p > pos && rep(inner, rest, tags, p, done + 1, min, max, k) };
                    if match_items(inner, tags, pos, &mut cont) {
                        return true;
                    }
                }
                done >= min && match_items(rest, tags, pos, k)
            }
            rep(inner, rest, tags, pos, 0, *min, *max, k)
        }
    }
}

/// `loose`: repetition caps of the spec file are generator bounds for unbounded sequences, so membership uses
/// the documented caps given in `caps` (sequence max / O* max), not the generator bounds.
pub fn in_grammar(g: &Grammar, tags: &[String]) -> bool {
    let g2 = uncapped(g);
    match_items(&g2, tags, 0, &mut |p| p == tags.len())
}

fn uncapped(g: &Grammar) -> Grammar {
    g.iter().map(|i| match i {
        Item::F { base, letters, occ } => Item::F { base: base.clone(), letters: letters.clone(), occ: match occ { Occ::Rep(_) => Occ::Rep(100000), Occ::Rep1(_) => Occ::Rep1(100000), o => o.clone() } },
        Item::Seq { items, min, max, hard } => Item::Seq { items: uncapped(items), min: *min, max: if *hard || *max <= 1 { *max } else { 100000 }, hard: *hard },
    }).collect()
}

// -------------------------------------------------------------------------------------------------
// content pool

pub struct Pool {
    pub by_tag: HashMap<String, Vec<String>>,
    pub texts: Vec<(u32, String, String)>, // (type, scenario, block-4 text as serialised by the library)
}

fn extras() -> Vec<(&'static str, &'static str)> {
    vec![
        ("50G", "/12345678\nDEUTDEFFXXX"), ("50H", "/12345678\nJOHN DOE\n1 MAIN ST"), ("50C", "DEUTDEFF"), ("50L", "PARTYID123"),
        ("50", "JOHN DOE\n1 MAIN ST"), ("50A", "/12345678\n1/ACME CORP\n2/MAIN STREET 1"), ("50F", "12345678\n/PARTY1\nJOHN DOE\nMAIN ST\nDEUTDEFF"),
        ("50K", "/12345678\nJOHN DOE\n1 MAIN ST"),
        ("52A", "DEUTDEFFXXX"), ("52B", "/12345678\nFRANKFURT"), ("52C", "/FW021000021"), ("52D", "BANK NAME\nCITY"),
        ("53A", "CHASUS33"), ("53B", "/12345678"), ("53D", "BANK NAME\nCITY"),
        ("54A", "CHASUS33"), ("54B", "/12345678\nNEW YORK"), ("54D", "BANK NAME\nCITY"),
        ("55A", "CHASUS33"), ("55B", "/12345678\nNEW YORK"), ("55D", "BANK NAME\nCITY"),
        ("56A", "CHASUS33"), ("56C", "/FW021000021"), ("56D", "BANK NAME\nCITY"),
        ("57A", "CHASUS33"), ("57B", "/12345678\nNEW YORK"), ("57C", "/FW021000021"), ("57D", "BANK NAME\nCITY"),
        ("58A", "CHASUS33"), ("58D", "BANK NAME\nCITY"),
        ("59", "/12345678\nJANE DOE\n2 OAK AVE"), ("59A", "/12345678\nCHASUS33"), ("59F", "/12345678\n1/JANE DOE\n2/OAK AVE\n3/US/BOSTON"),
        ("25", "12345678"), ("25P", "12345678\nCHASUS33"), ("25A", "/12345678"),
        ("32A", "240315USD1000,00"), ("32B", "USD1000,00"), ("32C", "240315USD1000,00"), ("32D", "240315USD1000,00"), ("33B", "EUR900,00"),
        ("60F", "C240315USD1000,00"), ("60M", "C240315USD1000,00"), ("62F", "C240315USD1500,00"), ("62M", "C240315USD1500,00"),
        ("64", "C240315USD1500,00"), ("65", "C240316USD1500,00"), ("61", "2403150315C500,00NTRFREF123//BANKREF1"),
        ("86", "PAYMENT DETAILS"), ("90C", "5USD5000,00"), ("90D", "3USD3000,00"), ("34F", "USD1000,00"),
        ("13C", "/SNDTIME/1200+0100"), ("13D", "2403151200+0100"), ("11S", "1032403151234123456"), ("11R", "1032403151234123456"), ("11", "103240315"),
        ("12", "940"), ("19", "1000,00"), ("20", "REF123456"), ("21", "RELREF123"), ("21R", "CUSTREF1"), ("21F", "FXDEAL1"), ("21C", "MANDATE1"),
        ("21D", "DIRECTDEBIT1"), ("21E", "REGREF1"), ("23", "BASE"), ("23B", "CRED"), ("23E", "SDVA"), ("26T", "K90"), ("28", "1/1"), ("28C", "1/1"), ("28D", "1/1"),
        ("30", "240315"), ("36", "1,2345"), ("37H", "C2,5"), ("51A", "DEUTDEFF"), ("70", "INVOICE 123"), ("71A", "SHA"), ("71B", "/COMM/\nCHARGES"),
        ("71F", "USD10,00"), ("71G", "USD5,00"), ("72", "/INS/CHASUS33"), ("75", "QUERY TEXT"), ("76", "ANSWER TEXT"), ("77A", "NARRATIVE"),
        ("77B", "/ORDERRES/DE"), ("77T", "ENVELOPE CONTENTS"), ("79", "NARRATIVE LINE"),
    ]
}

/// one canonical content per tag (the hand-written list above)
pub fn extra_content(tag: &str) -> Option<&'static str> {
    extras().into_iter().find(|(t, _)| *t == tag).map(|(_, c)| c)
}

pub fn build_pool(draws: usize) -> Pool {
    let mut by_tag: HashMap<String, Vec<String>> = HashMap::new();
    let mut texts = Vec::new();
    for (code, name, path) in scen::all_scenarios() {
        let Some(schema) = scen::load(&path) else { continue };
        for _ in 0..draws {
            let Ok(j) = scen::draw(&schema) else { continue };
            let t: Option<String> = with_mt!(code, T => serde_json::from_value::<SwiftMessage<T>>(j).ok().map(|m| m.fields.to_mt_string()), None);
            if let Some(t) = t {
                let (chunks, _, _) = tok::tokenise(&t);
                for c in &chunks {
                    let v = by_tag.entry(c.tag.clone()).or_default();
                    if v.len() < 400 && !v.contains(&c.content) {
                        v.push(c.content.clone());
                    }
                }
                texts.push((code, name.clone(), t));
            }
        }
    }
    for v in by_tag.values_mut() {
        v.sort();
    }
    for (t, c) in extras() {
        let v = by_tag.entry(t.to_string()).or_default();
        if !v.contains(&c.to_string()) {
            v.push(c.to_string());
        }
    }
    Pool { by_tag, texts }
}

/// Add, for every tag, contents generated from the documented field formats (fieldspec.rs) at minimum / maximum / random
/// component lengths that the documented format matches and the field parser accepts — boundary-length values of every
/// option, which the scenario draws never contain.
pub fn add_spec_contents(pool: &mut Pool, rng: &mut Rng, per_len: usize, canonical: bool) {
    use crate::fmt::{Gen, Len};
    let all = crate::fields::specs();
    for sp in all.iter().filter(|s| s.members.is_empty()) {
        for alt in &sp.alts {
            for (len, reps) in [(Len::Min, 1usize), (Len::Max, 6), (Len::Rand, per_len)] {
                for _ in 0..reps {
                    for opt in [Some(true), Some(false), None] {
                        let mut g = Gen { rng, len, violate: None, counter: 0, opt_all: opt, ccy: None };
                        let c = g.make(alt);
                        // contents that would confuse the block structure at message level are repaired rather than dropped (dropping
                        // them removed nearly every maximum-length content: 170 random x-characters almost always contain a brace):
                        // braces become parentheses, a line must not start with ':' or '-'
                        let c: String = c.replace('{', "(").replace('}', ")").split('\n')
                            .map(|l| if l.starts_with(':') || l.starts_with('-') { format!("X{}", &l[1..]) } else { l.to_string() }).collect::<Vec<_>>().join("\n");
                        // keep out contents that would confuse the block structure at message level (a line starting with ':' or '-')
                        if c.is_empty() || c.split('\n').any(|l| l.starts_with(':') || l.starts_with('-')) || c.contains("-}") || c.contains('{') || c.contains('}') {
                            continue;
                        }
                        // valid by the documented format under the strict reading of `nd` (decided independently of the library)
                        crate::fmt::STRICT_ND.store(true, std::sync::atomic::Ordering::Relaxed);
                        let doc = crate::fields::documented(&all, sp, &c);
                        crate::fmt::STRICT_ND.store(false, std::sync::atomic::Ordering::Relaxed);
                        if !doc {
                            continue;
                        }
                        let crate::fields::Outcome::Ok { ser, .. } = crate::fields::parse_named(&sp.name, &c) else {
                            // documented but rejected by the field parser: kept as written, so that the message-level oracle
                            // reports the rejection instead of the generator silently avoiding it
                            let v = pool.by_tag.entry(sp.tag.clone()).or_default();
                            if canonical && v.len() < 600 && !v.contains(&c) && !c.split('\n').any(|l| l.starts_with(':') || l.starts_with('-')) {
                                v.push(c);
                            }
                            continue;
                        };
                        // the library's own canonical spelling of this content (what it writes back), when asked for
                        let c = if canonical {
                            let c2 = ser.splitn(3, ':').nth(2).unwrap_or("").to_string();
                            match crate::fields::parse_named(&sp.name, &c2) {
                                crate::fields::Outcome::Ok { ser: ser2, .. } if ser2 == ser => c2,
                                _ => continue,
                            }
                        } else { c };
                        if c.is_empty() || c.split('\n').any(|l| l.starts_with(':') || l.starts_with('-')) {
                            continue;
                        }
                        {
                            let v = pool.by_tag.entry(sp.tag.clone()).or_default();
                            if v.len() < 600 && !v.contains(&c) {
                                v.push(c);
                            }
                        }
                    }
                }
            }
        }
    }
}

/// Field type accepts this content for this tag?  Used to keep only pool contents that the *field parser at
/// that tag* accepts and re-emits unchanged (canonical spelling), so that message-level failures are about
/// the layout, not about one odd field content.
pub fn field_roundtrips(code: u32, chunks: &[Chunk]) -> bool {
    let text = tok::render(chunks, "\n", true);
    with_mt!(code, T => match <T as SwiftMessageBody>::parse_from_block4(&text) {
        Ok(m) => { let (c2, _, _) = tok::tokenise(&m.to_mt_string()); c2 == chunks }
        Err(_) => false,
    }, false)
}

#[derive(Debug, Clone)]
pub struct GenMsg {
    pub code: u32,
    pub chunks: Vec<Chunk>,
    /// for every chunk: may it repeat (Rep item) / is it inside a repeating sequence / is it mandatory / the item's tags
    pub meta: Vec<ChunkMeta>,
}

#[derive(Debug, Clone)]
pub struct ChunkMeta {
    pub mandatory: bool,
    pub repeatable: bool,
    pub in_seq: bool,
    pub seq_marker: bool,
}

fn gen_items(items: &[Item], rng: &mut Rng, pool: &Pool, fullness: usize, in_seq: bool, out: &mut GenMsg, prev_seq_empty: &mut bool) {
    for (idx, it) in items.iter().enumerate() {
        match it {
            Item::F { base, letters, occ } => {
                let n = match occ {
                    Occ::M | Occ::OGen => 1,
                    Occ::O => usize::from(rng.below(100) < fullness),
                    Occ::OAmb => usize::from(*prev_seq_empty && rng.below(100) < fullness),
                    Occ::Rep(m) => if rng.below(100) < fullness { rng.range(1, *m) } else { 0 },
                    Occ::Rep1(m) => rng.range(1, *m),
                };
                for _ in 0..n {
                    let l = rng.pick(letters).clone();
                    let tag = format!("{base}{l}");
                    let content = pool.by_tag.get(&tag).map(|v| rng.pick(v).clone()).unwrap_or_else(|| "X".to_string());
                    out.chunks.push(Chunk { tag, content });
                    out.meta.push(ChunkMeta { mandatory: matches!(occ, Occ::M | Occ::Rep1(_)), repeatable: matches!(occ, Occ::Rep(_) | Occ::Rep1(_)), in_seq, seq_marker: in_seq && idx == 0 });
                }
            }
            Item::Seq { items: inner, min, max, .. } => {
                let n = if *min == *max { *min } else if *max <= 1 { usize::from(rng.below(100) < fullness) } else {
                    let hi = (*max).min(if fullness >= 90 { 12 } else { 3 });
                    rng.range(*min, hi.max(*min))
                };
                *prev_seq_empty = n == 0;
                for _ in 0..n {
                    let mut dummy = true;
                    gen_items(inner, rng, pool, fullness, true, out, &mut dummy);
                }
            }
        }
    }
}

pub fn generate(code: u32, g: &Grammar, rng: &mut Rng, pool: &Pool) -> GenMsg {
    let fullness = *rng.pick(&[0usize, 20, 50, 50, 80, 100]);
    let mut out = GenMsg { code, chunks: Vec::new(), meta: Vec::new() };
    let mut pse = true;
    gen_items(g, rng, pool, fullness, false, &mut out, &mut pse);
    out
}

pub fn headers(code: u32) -> (String, String) {
    (format!("{{1:F01BANKBEBBAXXX0000000000}}{{2:I{:03}BANKDEFFXXXXN}}{{4:\n", code), "\n-}".to_string())
}

/// Wrap a block-4 text (without terminator) into a full message
pub fn wrap(code: u32, block4: &str) -> String {
    let (a, b) = headers(code);
    format!("{a}{}{b}", block4.trim_end_matches('\n'))
}

#[allow(dead_code)]
pub fn parse_body<T: SwiftMessageBody>(text: &str) -> Result<T, swift_mt_message::ParseError> {
    T::parse_from_block4(text)
}
