//! C04 — network validation reports exactly the documented rule violations.
//! Every shipped scenario (all 30 types) is drawn, then mutated *systematically* at the JSON level: every member removed
//! (one at a time), party / floor-limit members added to every object, every `currency` / `indicator` / `type_code` /
//! code-word leaf replaced by alternatives, every sequence array repeated to 11 elements, every amount shifted, plus
//! random pairs of those.  Each mutant that still deserialises into the typed message is validated by the real
//! `validate_network_rules(false)`; the error-code list is compared with the Lean rule model evaluated on the same JSON
//! value (`val <type> <json>`), which answers `#skip` for a type it does not model.
use crate::fields::canon;
use crate::report::{Report, hex};
use crate::types::SUPPORTED;
use crate::{Opts, jsonmut, rng::Rng, scen, with_mt};
use serde_json::{Value, json};
use swift_mt_message::{SwiftMessage, SwiftMessageBody};

fn paths(v: &Value, cur: &mut Vec<String>, out: &mut Vec<Vec<String>>, depth: usize) {
    if depth > 5 {
        return;
    }
    match v {
        Value::Object(m) => {
            for (k, c) in m {
                cur.push(k.clone());
                out.push(cur.clone());
                paths(c, cur, out, depth + 1);
                cur.pop();
            }
        }
        Value::Array(a) => {
            for (i, c) in a.iter().enumerate() {
                cur.push(i.to_string());
                out.push(cur.clone());
                paths(c, cur, out, depth + 1);
                cur.pop();
            }
        }
        _ => {}
    }
}

fn at<'a>(v: &'a mut Value, path: &[String]) -> Option<&'a mut Value> {
    let mut cur = v;
    for p in path {
        cur = match cur {
            Value::Object(m) => m.get_mut(p)?,
            Value::Array(a) => a.get_mut(p.parse::<usize>().ok()?)?,
            _ => return None,
        };
    }
    Some(cur)
}

fn remove(v: &mut Value, path: &[String]) {
    let Some((last, parent)) = path.split_last() else { return };
    match at(v, parent) {
        Some(Value::Object(m)) => {
            m.remove(last);
        }
        Some(Value::Array(a)) => {
            if let Ok(i) = last.parse::<usize>() {
                if i < a.len() {
                    a.remove(i);
                }
            }
        }
        _ => {}
    }
}

fn additions() -> Vec<(&'static str, Value)> {
    vec![
        ("50K", json!({"name_and_address": ["ADDED CUSTOMER"]})),
        ("50A", json!({"name_and_address": ["ADDED"]})),
        ("50F", json!({"account": "ACC1", "bic": "DEUTDEFF"})),
        ("50C", json!({"bic": "DEUTDEFF"})),
        ("50", json!({"name_and_address": ["ADDED"]})),
        ("52A", json!({"bic": "DEUTDEFF"})),
        ("52D", json!({"name_and_address": ["ADDED BANK"]})),
        ("56A", json!({"bic": "CHASUS33"})),
        ("57A", json!({"bic": "CHASUS33"})),
        ("57D", json!({"name_and_address": ["ADDED BANK"]})),
        ("34F_1", json!({"currency": "USD", "indicator": "D", "amount": 100.0})),
        ("34F_2", json!({"currency": "USD", "indicator": "C", "amount": 100.0})),
        ("72", json!({"information": ["/REJT/ADDED"]})),
        ("72", json!({"information": ["/retn/x", "//CONT"]})),
    ]
}

/// the systematic single mutants of one message value (description, mutant)
pub fn single_mutants(j: &Value) -> Vec<(String, Value)> {
    let mut out = Vec::new();
    let mut ps = Vec::new();
    if let Some(f) = j.get("fields") {
        paths(f, &mut vec!["fields".to_string()], &mut ps, 0);
    }
    let mut base = j.clone();
    for p in &ps {
        // removal
        let mut m = j.clone();
        remove(&mut m, p);
        out.push((format!("remove {}", p.join("/")), m));
        let last = p.last().unwrap().as_str();
        let cur = at(&mut base, p).cloned();
        match cur {
            Some(Value::String(s)) => {
                let alts: &[&str] = match last {
                    "currency" => &["EUR", "USD", "USX", "JPY"],
                    "type_code" => &["940", "941", "942", "950", "999"],
                    "instruction_code" | "code" => &["SDVA", "INTC", "REPA", "CORT", "CHQB", "PHOB", "TELB", "PHON", "TELE", "PHOI", "TELI", "HOLD", "CRED", "SPAY", "SSTD", "SPRI", "OUR", "SHA", "BEN", "RFDD", "AUTH", "NAUT", "OTHR", "RTND", "EQUI", "CMSW", "CMTO", "CMZB", "NETS", "URGP"],
                    "debit_credit_mark" => &["C", "D", "RC", "RD"],
                    "bic" => &["DEUTDEFF", "CHASUS33XXX", "BNPAFRPP"],
                    _ => &[],
                };
                for a in alts {
                    if *a != s {
                        let mut m = j.clone();
                        *at(&mut m, p).unwrap() = json!(a);
                        out.push((format!("set {} = {a}", p.join("/")), m));
                    }
                }
                if last == "indicator" {
                    for a in [json!("D"), json!("C"), Value::Null] {
                        let mut m = j.clone();
                        *at(&mut m, p).unwrap() = a.clone();
                        out.push((format!("set {} = {a}", p.join("/")), m));
                    }
                }
            }
            Some(Value::Null) if last == "indicator" => {
                for a in [json!("D"), json!("C")] {
                    let mut m = j.clone();
                    *at(&mut m, p).unwrap() = a.clone();
                    out.push((format!("set {} = {a}", p.join("/")), m));
                }
            }
            Some(Value::Number(n)) if last == "amount" || last == "rate" => {
                let x = n.as_f64().unwrap_or(0.0);
                for y in [x + 1.0, x + 0.5, 0.0] {
                    let mut m = j.clone();
                    *at(&mut m, p).unwrap() = json!(y);
                    out.push((format!("num {} -> {y}", p.join("/")), m));
                }
            }
            Some(Value::Array(a)) if !a.is_empty() && a[0].is_object() => {
                // the member present but EMPTY (`"71F": []`): a repeatable field that is "there" with no occurrence
                {
                    let mut m = j.clone();
                    *at(&mut m, p).unwrap() = json!([]);
                    out.push((format!("empty-array {}", p.join("/")), m));
                }
                for target in [11usize, 10, 2] {
                    let mut m = j.clone();
                    if let Some(Value::Array(arr)) = at(&mut m, p) {
                        let e = arr[0].clone();
                        while arr.len() < target {
                            arr.push(e.clone());
                        }
                    }
                    out.push((format!("repeat {} to {target}", p.join("/")), m));
                }
                // a repeated element that differs from the first one only in a LATER position (rules that walk a repeated
                // field and compare each occurrence: the first occurrence fine, the second or third one not)
                for k in [1usize, 2] {
                    for alt in ["EUR", "USD"] {
                        let mut m = j.clone();
                        let mut changed = false;
                        if let Some(Value::Array(arr)) = at(&mut m, p) {
                            let e = arr[0].clone();
                            while arr.len() < 3 { arr.push(e.clone()); }
                            fn set_ccy(v: &mut Value, alt: &str, changed: &mut bool) {
                                match v {
                                    Value::Object(o) => for (key, x) in o.iter_mut() {
                                        if key == "currency" { if x.as_str() != Some(alt) { *x = json!(alt); *changed = true; } } else { set_ccy(x, alt, changed); }
                                    },
                                    Value::Array(a) => for x in a.iter_mut() { set_ccy(x, alt, changed); },
                                    _ => {}
                                }
                            }
                            set_ccy(&mut arr[k], alt, &mut changed);
                        }
                        if changed {
                            out.push((format!("repeat {} to 3, currency of element {k} = {alt}", p.join("/")), m));
                        }
                    }
                }
            }
            Some(Value::Array(a)) if !a.is_empty() && a[0].is_string() => {
                for add in ["/REJT/", "/RETN/X", "/rejt/", "REJT", "/ACC/INFO"] {
                    let mut m = j.clone();
                    if let Some(Value::Array(arr)) = at(&mut m, p) {
                        arr.push(json!(add));
                    }
                    out.push((format!("push {} {add}", p.join("/")), m));
                }
            }
            // field 23 of MT935 (`3!a[2!n]11x`: currency, number of days, function): the optional days subfield at its
            // one-digit, two-digit and boundary values with every function word (days are allowed with NOTICE only), and
            // every function word and a non-word without days — no scenario ever carries days
            Some(Value::Object(o)) if o.contains_key("function_code") && o.contains_key("reference") => {
                for func in ["NOTICE", "CURRENT", "BASE", "CALL", "COMMERCIAL", "DEPOSIT", "PRIME", "NOTICES", "7NOTICE", "X"] {
                    for days in [None, Some(1u32), Some(7), Some(9), Some(10), Some(31), Some(99)] {
                        let mut m = j.clone();
                        if let Some(Value::Object(f)) = at(&mut m, p) {
                            f.insert("reference".into(), json!(func));
                            match days { Some(d) => { f.insert("days".into(), json!(d)); } None => { f.remove("days"); } }
                        }
                        out.push((format!("field23 {} days={days:?} function={func}", p.join("/")), m));
                    }
                }
            }
            Some(Value::Object(_)) => {}
            _ => {}
        }
    }
    // group removals: every member of one field number (all options of 50, of 52, …) and of two field numbers at once, in
    // the body and in every sequence element ("neither 50a nor 52a" rules need both gone)
    {
        let mut objs: Vec<Vec<String>> = vec![vec!["fields".to_string()]];
        for p in &ps {
            if let Some(Value::Object(_)) = at(&mut base, p) {
                if p.iter().any(|k| k == "#") && (p.last().map(|k| k == "#").unwrap_or(false) || p.last().unwrap().parse::<usize>().is_ok()) {
                    objs.push(p.clone());
                }
            }
        }
        for o in &objs {
            let Some(Value::Object(map)) = at(&mut base, o).map(|v| v.clone()) else { continue };
            let mut bases: Vec<String> = map.keys().filter(|k| k.len() >= 2 && k.chars().take(2).all(|c| c.is_ascii_digit())).map(|k| k[..2].to_string()).collect();
            bases.sort();
            bases.dedup();
            let party: Vec<&String> = bases.iter().filter(|b| ["50", "52", "53", "54", "56", "57", "59"].contains(&b.as_str())).collect();
            for (i, a) in party.iter().enumerate() {
                for b in party.iter().skip(i) {
                    let mut m = j.clone();
                    if let Some(Value::Object(mm)) = at(&mut m, o) {
                        mm.retain(|k, _| !(k.starts_with(a.as_str()) || k.starts_with(b.as_str())));
                    }
                    out.push((format!("remove-all {}/{a}*+{b}*", o.join("/")), m));
                    // … and one more member of the same object gone (a rule about the fields that remain, in a sequence that
                    // has lost its customer parties: "56a needs 57a" in a sequence B without 50a / 59a)
                    if a != b && (o.len() == 1 || o.last().map(|k| k == "#" || k == "0").unwrap_or(false)) {
                        for k in map.keys() {
                            if k.starts_with(a.as_str()) || k.starts_with(b.as_str()) { continue; }
                            let mut m = j.clone();
                            if let Some(Value::Object(mm)) = at(&mut m, o) {
                                mm.retain(|kk, _| !(kk.starts_with(a.as_str()) || kk.starts_with(b.as_str()) || kk == k));
                            }
                            out.push((format!("remove-all {}/{a}*+{b}*+{k}", o.join("/")), m));
                        }
                    }
                }
            }
        }
    }
    // additions to every object that is a message body or a sequence element
    let mut objs: Vec<Vec<String>> = vec![vec!["fields".to_string()]];
    for p in &ps {
        if let Some(Value::Object(_)) = at(&mut base, p) {
            let is_seq = p.iter().any(|k| k == "#");
            if is_seq && (p.last().map(|k| k == "#").unwrap_or(false) || p.last().unwrap().parse::<usize>().is_ok()) {
                objs.push(p.clone());
            }
        }
    }
    for o in objs {
        for (k, v) in additions() {
            let mut m = j.clone();
            if let Some(Value::Object(map)) = at(&mut m, &o) {
                map.insert(k.to_string(), v.clone());
            }
            out.push((format!("add {}/{k}", o.join("/")), m));
        }
    }
    out
}

/// charge fields 71F / 71G set at several sites at once (every sequence-B occurrence and the settlement level), in every
/// assignment of {absent, USD, EUR}: the currency-consistency rules of MT104 / MT107 (and 71F/71G of MT103) compare
/// occurrences of one field across sequences, which no single-site mutant exercises
pub fn charge_mutants(code: u32, j: &Value) -> Vec<(String, Value)> {
    let mut out = Vec::new();
    if ![103u32, 104, 107].contains(&code) {
        return out;
    }
    let choices: [Option<&str>; 3] = [None, Some("USD"), Some("EUR")];
    for a in 0..81usize {
        let pick = [choices[a % 3], choices[a / 3 % 3], choices[a / 9 % 3], choices[a / 27 % 3]]; // 71F_B, 71F_C, 71G_B, 71G_C
        let mut m = j.clone();
        let val = |c: &str, vec: bool| if vec { json!([{"currency": c, "amount": 10.0}]) } else { json!({"currency": c, "amount": 10.0}) };
        let Some(Value::Object(body)) = m.get_mut("fields") else { continue };
        for (key, ccy) in [("71F", pick[1]), ("71G", pick[3])] {
            match ccy {
                Some(c) => { body.insert(key.into(), val(c, code == 103 && key == "71F")); }
                None => { body.remove(key); }
            }
        }
        if let Some(Value::Array(seq)) = body.get_mut("#") {
            for e in seq.iter_mut() {
                if let Value::Object(eo) = e {
                    for (key, ccy) in [("71F", pick[0]), ("71G", pick[2])] {
                        match ccy {
                            Some(c) => { eo.insert(key.into(), val(c, false)); }
                            None => { eo.remove(key); }
                        }
                    }
                }
            }
        }
        out.push((format!("charges 71F B={:?} C={:?} 71G B={:?} C={:?}", pick[0], pick[1], pick[2], pick[3]), m));
    }
    out
}

/// the sum rules (MT204 C1, MT104 / MT107 C8–C10: field 19 / the settlement amount against the sum of the 32B amounts of
/// sequence B) with amounts that have cents — 1,15 2,30 0,29 0,57 … are not exact in binary, so an implementation that adds
/// them in another unit, truncates or rounds per item shows up — over 2, 3, 5 and 10 transactions, the total set to the
/// exact sum and to the exact sum ± 0,02 / + 0,05 / + 1 (never ± 0,01, the tolerance boundary, where f64 noise decides).
/// Totals are computed in integer cents and written as the nearest f64, which serde prints back as the same decimal.
pub fn sum_mutants(code: u32, j: &Value) -> Vec<(String, Value)> {
    let mut out = Vec::new();
    if ![104u32, 107, 204].contains(&code) {
        return out;
    }
    const CENTS: &[i64] = &[115, 230, 895, 1605, 435, 7, 29, 57, 58, 101, 110, 999, 100110, 1999, 33, 66, 1, 99, 250000, 1234567];
    for (vi, n) in [(0usize, 2usize), (1, 2), (2, 3), (3, 5), (4, 10), (5, 3), (6, 2)] {
        for delta in [0i64, 2, -2, 5, 100] {
            let mut m = j.clone();
            let Some(Value::Object(body)) = m.get_mut("fields") else { continue };
            let mut total = 0i64;
            {
                let Some(Value::Array(seq)) = body.get_mut("#") else { continue };
                if seq.is_empty() { continue; }
                let first = seq[0].clone();
                while seq.len() < n { seq.push(first.clone()); }
                for (k, e) in seq.iter_mut().enumerate() {
                    let c = CENTS[(vi * 3 + k * (vi + 1)) % CENTS.len()];
                    if let Some(a) = e.get_mut("32B").and_then(|x| x.get_mut("amount")) {
                        *a = json!(c as f64 / 100.0);
                        total += c;
                    }
                }
            }
            let t = total + delta;
            if t <= 0 { continue; }
            let tv = json!(t as f64 / 100.0);
            if code == 204 {
                if let Some(a) = body.get_mut("19").and_then(|x| x.get_mut("amount")) { *a = tv.clone(); }
            } else {
                // the settlement amount carries the sum (or, with charges, field 19 does): both placements
                if let Some(a) = body.get_mut("32B").and_then(|x| x.get_mut("amount")) { *a = tv.clone(); }
                if let Some(a) = body.get_mut("19").and_then(|x| x.get_mut("amount")) { *a = tv.clone(); }
            }
            out.push((format!("sums set {vi} x{n} total = sum {delta:+} cents"), m.clone()));
            if code != 204 {
                // … and with field 19 present / absent
                let mut m2 = m.clone();
                if let Some(Value::Object(b2)) = m2.get_mut("fields") {
                    if b2.contains_key("19") { b2.remove("19"); } else { b2.insert("19".into(), json!({"amount": t as f64 / 100.0})); }
                }
                out.push((format!("sums set {vi} x{n} total = sum {delta:+} cents, 19 toggled"), m2));
            }
        }
    }
    out
}

/// the struct declarations of src/messages as the translator reads them on this run (T3s): per struct the members with their
/// JSON key, type and kind; per enum the variants (JSON key, payload type)
pub struct Shapes {
    pub structs: std::collections::HashMap<String, Vec<(String, bool, String, String)>>, // key, flatten, ty, kind
    pub enums: std::collections::HashMap<String, Vec<(String, String)>>,
}

pub fn load_shapes() -> Shapes {
    let path = std::env::var("VERIF_GEN").unwrap_or_else(|_| "/verif/.gen/generated.json".into());
    let g: Value = std::fs::read_to_string(&path).ok().and_then(|s| serde_json::from_str(&s).ok()).unwrap_or(json!({}));
    let mut structs = std::collections::HashMap::new();
    let mut enums = std::collections::HashMap::new();
    for s in g["shapes"]["structs"].as_array().cloned().unwrap_or_default() {
        let fs = s["fields"].as_array().cloned().unwrap_or_default().iter().map(|f| (f["key"].as_str().unwrap_or("").to_string(), f["flatten"].as_bool().unwrap_or(false), f["ty"].as_str().unwrap_or("").to_string(), f["kind"].as_str().unwrap_or("").to_string())).collect();
        structs.insert(s["name"].as_str().unwrap_or("").to_string(), fs);
    }
    for e in g["shapes"]["enums"].as_array().cloned().unwrap_or_default() {
        let vs = e["variants"].as_array().cloned().unwrap_or_default().iter().map(|v| (v["key"].as_str().unwrap_or("").to_string(), v["payload"].as_str().unwrap_or("").to_string())).collect();
        enums.insert(e["name"].as_str().unwrap_or("").to_string(), vs);
    }
    Shapes { structs, enums }
}

fn first_currency(v: &Value) -> Option<String> {
    match v {
        Value::Object(o) => {
            if let Some(c) = o.get("currency").and_then(|c| c.as_str()) { return Some(c.to_string()); }
            o.values().find_map(first_currency)
        }
        Value::Array(a) => a.iter().find_map(first_currency),
        _ => None,
    }
}

fn json_of_field(ty: &str, tag: &str) -> Option<Value> {
    let content = mgen_content(tag)?;
    match crate::fields::parse_named(ty, content) {
        crate::fields::Outcome::Ok { json, .. } => Some(json),
        _ => None,
    }
}
fn mgen_content(tag: &str) -> Option<&'static str> { crate::mgen::extra_content(tag) }

/// every optional or repeatable member that the drawn message does NOT carry, added (one at a time) with a canonical value of
/// its declared type — in the body and in every sequence element; a repeatable one as 1 and as 3 occurrences, the 3 also
/// with the currency of the second / third occurrence changed.  The shipped scenarios never carry many optional members
/// (field 65 of MT941, 13D, 21 …), so rules that look at them are otherwise never exercised.
pub fn absent_member_mutants(code: u32, j: &Value, sh: &Shapes) -> Vec<(String, Value)> {
    fn walk(sh: &Shapes, sname: &str, path: Vec<String>, root: &Value, out: &mut Vec<(String, Value)>) {
        let mut rootc = root.clone();
        let Some(Value::Object(obj)) = at(&mut rootc, &path).map(|v| v.clone()) else { return };
        let Some(decls) = sh.structs.get(sname) else { if std::env::var("VERIF_DEBUG").is_ok() { eprintln!("no struct {sname}"); } return };
        if std::env::var("VERIF_DEBUG").is_ok() { eprintln!("walk {sname} {:?} keys={:?}", path, obj.keys().collect::<Vec<_>>()); }
        for (key, flatten, ty, kind) in decls {
            if ty.starts_with("MT") && sh.structs.contains_key(ty) {
                // a nested sequence: go into what is there
                match obj.get(key) {
                    Some(Value::Array(a)) => for i in 0..a.len().min(2) { let mut p = path.clone(); p.push(key.clone()); p.push(i.to_string()); walk(sh, ty, p, root, out); },
                    Some(Value::Object(_)) => { let mut p = path.clone(); p.push(key.clone()); walk(sh, ty, p, root, out); }
                    _ => {}
                }
                continue;
            }
            let candidates: Vec<(String, String)> = if *flatten { sh.enums.get(ty).cloned().unwrap_or_default() } else { vec![(key.clone(), ty.clone())] };
            // optional components of a field that IS there (days of 23, additional information of 23E, funds code /
            // supplementary details of 61, the sign of 37H, …), added one at a time
            for (k, payload) in &candidates {
                let targets: Vec<Vec<String>> = match obj.get(k) {
                    Some(Value::Object(_)) => vec![{ let mut p = path.clone(); p.push(k.clone()); p }],
                    Some(Value::Array(a)) => (0..a.len().min(2)).map(|i| { let mut p = path.clone(); p.push(k.clone()); p.push(i.to_string()); p }).collect(),
                    _ => vec![],
                };
                let Some(sub) = sh.structs.get(payload) else { continue };
                for tp in targets {
                    let mut rc = root.clone();
                    let Some(Value::Object(fo)) = at(&mut rc, &tp).map(|v| v.clone()) else { continue };
                    for (sk, _, sty, skind) in sub {
                        if skind != "opt" || fo.get(sk).is_some_and(|v| !v.is_null()) { continue; }
                        let vals: Vec<Value> = match sty.as_str() {
                            "String" if sk == "entry_date" => vec![json!("0315")],
                            "String" => vec![json!("INFO1")],
                            "char" => vec![json!("F")],
                            "bool" => vec![json!(true)],
                            "u32" | "u8" | "u16" => vec![json!(7), json!(10)],
                            _ => vec![],
                        };
                        for val in vals {
                            let mut m = root.clone();
                            if let Some(Value::Object(o)) = at(&mut m, &tp) { o.insert(sk.clone(), val.clone()); }
                            out.push((format!("add-component {}/{sk} = {val}", tp.join("/")), m));
                        }
                    }
                }
            }
            if kind == "req" { continue; }
            if candidates.iter().any(|(k, _)| obj.contains_key(k)) { continue; }
            for (k, payload) in candidates {
                let Some(mut v) = json_of_field(&payload, &k) else { if std::env::var("VERIF_DEBUG").is_ok() { eprintln!("no value for {payload} {k}"); } continue };
                // the added value in the message's own currency (so that it agrees with the fields already there; the variants
                // below then make single occurrences disagree)
                if let (Some(c), Value::Object(o)) = (first_currency(root), &mut v) { if o.contains_key("currency") { o.insert("currency".into(), json!(c)); } }
                let mut variants: Vec<(String, Value)> = Vec::new();
                if kind == "vec" || kind == "optVec" {
                    variants.push(("x0".into(), json!([])));
                    variants.push(("x1".into(), json!([v.clone()])));
                    variants.push(("x3".into(), json!([v.clone(), v.clone(), v.clone()])));
                    for pos in [1usize, 2] {
                        for alt in ["EUR", "JPY", "USD"] {
                            let mut w = v.clone();
                            let mut changed = false;
                            if let Value::Object(o) = &mut w { if let Some(c) = o.get_mut("currency") { if c.as_str() != Some(alt) { *c = json!(alt); changed = true; } } }
                            if changed {
                                let mut arr = vec![v.clone(), v.clone(), v.clone()];
                                arr[pos] = w;
                                variants.push((format!("x3, currency of occurrence {pos} = {alt}"), Value::Array(arr)));
                            }
                        }
                    }
                } else {
                    variants.push(("".into(), v.clone()));
                }
                for (d, val) in variants {
                    let mut m = root.clone();
                    if let Some(Value::Object(o)) = at(&mut m, &path) { o.insert(k.clone(), val); }
                    out.push((format!("add-absent {}/{k} {d}", path.join("/")), m));
                }
            }
        }
    }
    let mut out = Vec::new();
    walk(sh, &format!("MT{code}"), vec!["fields".to_string()], j, &mut out);
    out
}

fn codes_of<T: SwiftMessageBody + serde::de::DeserializeOwned>(j: &Value) -> Option<Result<(Vec<String>, Value), ()>> {
    let m: SwiftMessage<T> = serde_json::from_value(j.clone()).ok()?;
    let body = serde_json::to_value(&m.fields).ok()?;
    let r = std::panic::catch_unwind(std::panic::AssertUnwindSafe(|| m.fields.validate_network_rules(false).iter().map(|e| e.error_code().to_string()).collect::<Vec<_>>()));
    Some(r.map(|c| (c, body)).map_err(|_| ()))
}

pub fn run(o: &Opts) -> Report {
    let mut rep = Report::new("C04");
    let mut rng = Rng::new(o.seed);
    if let Some(path) = &o.replay {
        let r: Value = serde_json::from_str(&std::fs::read_to_string(path).unwrap_or_default()).unwrap_or(json!({}));
        let code = r["witness"]["type"].as_u64().unwrap_or(0) as u32;
        let j = r["witness"]["json"].clone();
        if let Some(res) = with_mt!(code, T => codes_of::<T>(&j), None) {
            rep.case("replay", true);
            match res {
                Ok((codes, body)) => rep.model(format!("val {code} {}", hex(&canon(&body))), format!("codes {}", codes.join(","))),
                Err(()) => rep.fail(&format!("panic|MT{code}|validate_network_rules"), json!({"type": code, "json": j})),
            }
        }
        return rep;
    }
    let scs = scen::all_scenarios();
    let shapes = load_shapes();
    let draws = if o.thorough() { 3 } else { 1 };
    let pairs = if o.thorough() { 100 } else { 40 };
    for &code in SUPPORTED.iter() {
        for (_, name, path) in scs.iter().filter(|s| s.0 == code) {
            let Some(schema) = scen::load(path) else { continue };
            for _ in 0..draws {
                let Ok(j) = scen::draw(&schema) else {
                    rep.tally("draw-failed");
                    continue;
                };
                let singles = single_mutants(&j);
                let mut cases: Vec<(String, Value)> = vec![("base".into(), j.clone())];
                // pairs: two single mutations composed (second computed on the first mutant)
                for _ in 0..pairs.min(singles.len()) {
                    let (d1, m1) = rng.pick(&singles).clone();
                    let s2 = single_mutants(&m1);
                    if !s2.is_empty() {
                        let (d2, m2) = rng.pick(&s2).clone();
                        cases.push((format!("{d1}; {d2}"), m2));
                    }
                }
                for _ in 0..(if o.thorough() { 30 } else { 4 }) {
                    let mut jj = j.clone();
                    let n = rng.range(1, 3);
                    let d = jsonmut::mutate(&mut jj, &mut rng, n);
                    // the random mutator's +0.01 amount shifts sit on the float boundary of the sum rules: keep them out
                    if !d.iter().any(|x| x.starts_with("num ")) {
                        cases.push((d.join("; "), jj));
                    }
                }
                cases.extend(singles.clone());
                cases.extend(charge_mutants(code, &j));
                cases.extend(sum_mutants(code, &j));
                let absent = absent_member_mutants(code, &j, &shapes);
                // a repeatable member present but empty, together with every code-word alternative of the message (rules of the
                // form "code X requires / forbids field Y" decide on presence: `Some(vec![])` is where "present" and
                // "has an occurrence" part ways)
                for (d1, m1) in absent.iter().filter(|(d, _)| d.ends_with(" x0")).chain(singles.iter().filter(|(d, _)| d.starts_with("empty-array"))) {
                    for (d2, m2) in single_mutants(m1) {
                        if d2.starts_with("set ") && (d2.contains("/code = ") || d2.contains("instruction_code = ")) {
                            cases.push((format!("{d1}; {d2}"), m2));
                        }
                    }
                }
                cases.extend(absent);
                for (desc, jj) in cases {
                    rep.tally(&format!("mutation:{}", desc.split(' ').next().unwrap_or("")));
                    if desc.starts_with("add-absent") { rep.tally(&format!("add-absent:MT{code}")); }
                    let Some(res) = with_mt!(code, T => codes_of::<T>(&jj), None) else {
                        rep.tally("not-deserialisable");
                        continue;
                    };
                    match res {
                        Err(()) => {
                            rep.case(&format!("{code} panic {desc}"), true);
                            rep.fail(&format!("panic|MT{code}|validate_network_rules"), json!({"type": code, "scenario": name, "mutation": desc, "json": jj}));
                        }
                        Ok((codes, body)) => {
                            rep.case(&format!("{code}:{:?}", codes), !codes.is_empty());
                            rep.tally(&format!("errors:{}", codes.len().min(4)));
                            for c in &codes {
                                rep.tally(&format!("code:MT{code}:{c}"));
                            }
                            if desc == "base" && !codes.is_empty() {
                                // a shipped scenario violates a rule of its own type (C15 territory, reported there)
                                rep.tally("scenario-draw-with-errors");
                            }
                            rep.model(format!("val {code} {}", hex(&canon(&body))), format!("codes {}", codes.join(",")));
                            if rep.samples.len() < 12 && codes.len() >= 2 {
                                rep.sample(json!({"type": code, "scenario": name, "mutation": desc, "codes": codes}));
                            }
                        }
                    }
                }
            }
        }
    }
    rep
}
