//! C04 — network validation reports exactly the documented rule violations.
//! Every shipped scenario (all 30 types) is drawn, then mutated *systematically* at the JSON level: every member removed
//! (one at a time), party / floor-limit members added to every object, every `currency` / `indicator` / `type_code` /
//! code-word leaf replaced by alternatives, every sequence array repeated to 11 elements, every amount shifted, plus
//! random pairs of those.  Each mutant that still deserialises into the typed message is validated by the real
//! `validate_network_rules(false)`; the error-code list is compared with the Lean rule model evaluated on the same JSON
//! value (`val <type> <json>`), which answers `#skip` for a type it does not model.
use crate::fields::canon;
use crate::report::{Report, hex};
use crate::types::SUPPORTED;
use crate::{Opts, jsonmut, rng::Rng, scen, with_mt};
use serde_json::{Value, json};
use swift_mt_message::{SwiftMessage, SwiftMessageBody};

fn paths(v: &Value, cur: &mut Vec<String>, out: &mut Vec<Vec<String>>, depth: usize) {
    if depth > 5 {
        return;
    }
    match v {
        Value::Object(m) => {
            for (k, c) in m {
                cur.push(k.clone());
                out.push(cur.clone());
                paths(c, cur, out, depth + 1);
                cur.pop();
            }
        }
        Value::Array(a) => {
            for (i, c) in a.iter().enumerate() {
                cur.push(i.to_string());
                out.push(cur.clone());
                paths(c, cur, out, depth + 1);
                cur.pop();
            }
        }
        _ => {}
    }
}

fn at<'a>(v: &'a mut Value, path: &[String]) -> Option<&'a mut Value> {
    let mut cur = v;
    for p in path {
        cur = match cur {
            Value::Object(m) => m.get_mut(p)?,
            Value::Array(a) => a.get_mut(p.parse::<usize>().ok()?)?,
            _ => return None,
        };
    }
    Some(cur)
}

fn remove(v: &mut Value, path: &[String]) {
    let Some((last, parent)) = path.split_last() else { return };
    match at(v, parent) {
        Some(Value::Object(m)) => {
            m.remove(last);
        }
        Some(Value::Array(a)) => {
            if let Ok(i) = last.parse::<usize>() {
                if i < a.len() {
                    a.remove(i);
                }
            }
        }
        _ => {}
    }
}

fn additions() -> Vec<(&'static str, Value)> {
    vec![
        ("50K", json!({"name_and_address": ["ADDED CUSTOMER"]})),
        ("50A", json!({"name_and_address": ["ADDED"]})),
        ("50F", json!({"account": "ACC1", "bic": "DEUTDEFF"})),
        ("50C", json!({"bic": "DEUTDEFF"})),
        ("50", json!({"name_and_address": ["ADDED"]})),
        ("52A", json!({"bic": "DEUTDEFF"})),
        ("52D", json!({"name_and_address": ["ADDED BANK"]})),
        ("56A", json!({"bic": "CHASUS33"})),
        ("57A", json!({"bic": "CHASUS33"})),
        ("57D", json!({"name_and_address": ["ADDED BANK"]})),
        ("34F_1", json!({"currency": "USD", "indicator": "D", "amount": 100.0})),
        ("34F_2", json!({"currency": "USD", "indicator": "C", "amount": 100.0})),
        ("72", json!({"information": ["/REJT/ADDED"]})),
        ("72", json!({"information": ["/retn/x", "//CONT"]})),
    ]
}

/// the systematic single mutants of one message value (description, mutant)
pub fn single_mutants(j: &Value) -> Vec<(String, Value)> {
    let mut out = Vec::new();
    let mut ps = Vec::new();
    if let Some(f) = j.get("fields") {
        paths(f, &mut vec!["fields".to_string()], &mut ps, 0);
    }
    let mut base = j.clone();
    for p in &ps {
        // removal
        let mut m = j.clone();
        remove(&mut m, p);
        out.push((format!("remove {}", p.join("/")), m));
        let last = p.last().unwrap().as_str();
        let cur = at(&mut base, p).cloned();
        match cur {
            Some(Value::String(s)) => {
                let alts: &[&str] = match last {
                    "currency" => &["EUR", "USD", "USX", "JPY"],
                    "type_code" => &["940", "941", "942", "950", "999"],
                    "instruction_code" | "code" => &["SDVA", "INTC", "REPA", "CORT", "CHQB", "PHOB", "TELB", "PHON", "TELE", "PHOI", "TELI", "HOLD", "CRED", "SPAY", "SSTD", "SPRI", "OUR", "SHA", "BEN", "RFDD", "AUTH", "NAUT", "OTHR", "RTND", "EQUI", "CMSW", "CMTO", "CMZB", "NETS", "URGP"],
                    "debit_credit_mark" => &["C", "D", "RC", "RD"],
                    "bic" => &["DEUTDEFF", "CHASUS33XXX", "BNPAFRPP"],
                    _ => &[],
                };
                for a in alts {
                    if *a != s {
                        let mut m = j.clone();
                        *at(&mut m, p).unwrap() = json!(a);
                        out.push((format!("set {} = {a}", p.join("/")), m));
                    }
                }
                if last == "indicator" {
                    for a in [json!("D"), json!("C"), Value::Null] {
                        let mut m = j.clone();
                        *at(&mut m, p).unwrap() = a.clone();
                        out.push((format!("set {} = {a}", p.join("/")), m));
                    }
                }
            }
            Some(Value::Null) if last == "indicator" => {
                for a in [json!("D"), json!("C")] {
                    let mut m = j.clone();
                    *at(&mut m, p).unwrap() = a.clone();
                    out.push((format!("set {} = {a}", p.join("/")), m));
                }
            }
            Some(Value::Number(n)) if last == "amount" || last == "rate" => {
                let x = n.as_f64().unwrap_or(0.0);
                for y in [x + 1.0, x + 0.5, 0.0] {
                    let mut m = j.clone();
                    *at(&mut m, p).unwrap() = json!(y);
                    out.push((format!("num {} -> {y}", p.join("/")), m));
                }
            }
            Some(Value::Array(a)) if !a.is_empty() && a[0].is_object() => {
                for target in [11usize, 10, 2] {
                    let mut m = j.clone();
                    if let Some(Value::Array(arr)) = at(&mut m, p) {
                        let e = arr[0].clone();
                        while arr.len() < target {
                            arr.push(e.clone());
                        }
                    }
                    out.push((format!("repeat {} to {target}", p.join("/")), m));
                }
            }
            Some(Value::Array(a)) if !a.is_empty() && a[0].is_string() => {
                for add in ["/REJT/", "/RETN/X", "/rejt/", "REJT", "/ACC/INFO"] {
                    let mut m = j.clone();
                    if let Some(Value::Array(arr)) = at(&mut m, p) {
                        arr.push(json!(add));
                    }
                    out.push((format!("push {} {add}", p.join("/")), m));
                }
            }
            Some(Value::Object(_)) => {}
            _ => {}
        }
    }
    // group removals: every member of one field number (all options of 50, of 52, …) and of two field numbers at once, in
    // the body and in every sequence element ("neither 50a nor 52a" rules need both gone)
    {
        let mut objs: Vec<Vec<String>> = vec![vec!["fields".to_string()]];
        for p in &ps {
            if let Some(Value::Object(_)) = at(&mut base, p) {
                if p.iter().any(|k| k == "#") && (p.last().map(|k| k == "#").unwrap_or(false) || p.last().unwrap().parse::<usize>().is_ok()) {
                    objs.push(p.clone());
                }
            }
        }
        for o in &objs {
            let Some(Value::Object(map)) = at(&mut base, o).map(|v| v.clone()) else { continue };
            let mut bases: Vec<String> = map.keys().filter(|k| k.len() >= 2 && k.chars().take(2).all(|c| c.is_ascii_digit())).map(|k| k[..2].to_string()).collect();
            bases.sort();
            bases.dedup();
            let party: Vec<&String> = bases.iter().filter(|b| ["50", "52", "53", "54", "56", "57", "59"].contains(&b.as_str())).collect();
            for (i, a) in party.iter().enumerate() {
                for b in party.iter().skip(i) {
                    let mut m = j.clone();
                    if let Some(Value::Object(mm)) = at(&mut m, o) {
                        mm.retain(|k, _| !(k.starts_with(a.as_str()) || k.starts_with(b.as_str())));
                    }
                    out.push((format!("remove-all {}/{a}*+{b}*", o.join("/")), m));
                }
            }
        }
    }
    // additions to every object that is a message body or a sequence element
    let mut objs: Vec<Vec<String>> = vec![vec!["fields".to_string()]];
    for p in &ps {
        if let Some(Value::Object(_)) = at(&mut base, p) {
            let is_seq = p.iter().any(|k| k == "#");
            if is_seq && (p.last().map(|k| k == "#").unwrap_or(false) || p.last().unwrap().parse::<usize>().is_ok()) {
                objs.push(p.clone());
            }
        }
    }
    for o in objs {
        for (k, v) in additions() {
            let mut m = j.clone();
            if let Some(Value::Object(map)) = at(&mut m, &o) {
                map.insert(k.to_string(), v.clone());
            }
            out.push((format!("add {}/{k}", o.join("/")), m));
        }
    }
    out
}

/// charge fields 71F / 71G set at several sites at once (every sequence-B occurrence and the settlement level), in every
/// assignment of {absent, USD, EUR}: the currency-consistency rules of MT104 / MT107 (and 71F/71G of MT103) compare
/// occurrences of one field across sequences, which no single-site mutant exercises
pub fn charge_mutants(code: u32, j: &Value) -> Vec<(String, Value)> {
    let mut out = Vec::new();
    if ![103u32, 104, 107].contains(&code) {
        return out;
    }
    let choices: [Option<&str>; 3] = [None, Some("USD"), Some("EUR")];
    for a in 0..81usize {
        let pick = [choices[a % 3], choices[a / 3 % 3], choices[a / 9 % 3], choices[a / 27 % 3]]; // 71F_B, 71F_C, 71G_B, 71G_C
        let mut m = j.clone();
        let val = |c: &str, vec: bool| if vec { json!([{"currency": c, "amount": 10.0}]) } else { json!({"currency": c, "amount": 10.0}) };
        let Some(Value::Object(body)) = m.get_mut("fields") else { continue };
        for (key, ccy) in [("71F", pick[1]), ("71G", pick[3])] {
            match ccy {
                Some(c) => { body.insert(key.into(), val(c, code == 103 && key == "71F")); }
                None => { body.remove(key); }
            }
        }
        if let Some(Value::Array(seq)) = body.get_mut("#") {
            for e in seq.iter_mut() {
                if let Value::Object(eo) = e {
                    for (key, ccy) in [("71F", pick[0]), ("71G", pick[2])] {
                        match ccy {
                            Some(c) => { eo.insert(key.into(), val(c, false)); }
                            None => { eo.remove(key); }
                        }
                    }
                }
            }
        }
        out.push((format!("charges 71F B={:?} C={:?} 71G B={:?} C={:?}", pick[0], pick[1], pick[2], pick[3]), m));
    }
    out
}

fn codes_of<T: SwiftMessageBody + serde::de::DeserializeOwned>(j: &Value) -> Option<Result<(Vec<String>, Value), ()>> {
    let m: SwiftMessage<T> = serde_json::from_value(j.clone()).ok()?;
    let body = serde_json::to_value(&m.fields).ok()?;
    let r = std::panic::catch_unwind(std::panic::AssertUnwindSafe(|| m.fields.validate_network_rules(false).iter().map(|e| e.error_code().to_string()).collect::<Vec<_>>()));
    Some(r.map(|c| (c, body)).map_err(|_| ()))
}

pub fn run(o: &Opts) -> Report {
    let mut rep = Report::new("C04");
    let mut rng = Rng::new(o.seed);
    if let Some(path) = &o.replay {
        let r: Value = serde_json::from_str(&std::fs::read_to_string(path).unwrap_or_default()).unwrap_or(json!({}));
        let code = r["witness"]["type"].as_u64().unwrap_or(0) as u32;
        let j = r["witness"]["json"].clone();
        if let Some(res) = with_mt!(code, T => codes_of::<T>(&j), None) {
            rep.case("replay", true);
            match res {
                Ok((codes, body)) => rep.model(format!("val {code} {}", hex(&canon(&body))), format!("codes {}", codes.join(","))),
                Err(()) => rep.fail(&format!("panic|MT{code}|validate_network_rules"), json!({"type": code, "json": j})),
            }
        }
        return rep;
    }
    let scs = scen::all_scenarios();
    let draws = if o.thorough() { 3 } else { 1 };
    let pairs = if o.thorough() { 100 } else { 40 };
    for &code in SUPPORTED.iter() {
        for (_, name, path) in scs.iter().filter(|s| s.0 == code) {
            let Some(schema) = scen::load(path) else { continue };
            for _ in 0..draws {
                let Ok(j) = scen::draw(&schema) else {
                    rep.tally("draw-failed");
                    continue;
                };
                let singles = single_mutants(&j);
                let mut cases: Vec<(String, Value)> = vec![("base".into(), j.clone())];
                // pairs: two single mutations composed (second computed on the first mutant)
                for _ in 0..pairs.min(singles.len()) {
                    let (d1, m1) = rng.pick(&singles).clone();
                    let s2 = single_mutants(&m1);
                    if !s2.is_empty() {
                        let (d2, m2) = rng.pick(&s2).clone();
                        cases.push((format!("{d1}; {d2}"), m2));
                    }
                }
                for _ in 0..(if o.thorough() { 30 } else { 4 }) {
                    let mut jj = j.clone();
                    let n = rng.range(1, 3);
                    let d = jsonmut::mutate(&mut jj, &mut rng, n);
                    // the random mutator's +0.01 amount shifts sit on the float boundary of the sum rules: keep them out
                    if !d.iter().any(|x| x.starts_with("num ")) {
                        cases.push((d.join("; "), jj));
                    }
                }
                cases.extend(singles);
                cases.extend(charge_mutants(code, &j));
                for (desc, jj) in cases {
                    let Some(res) = with_mt!(code, T => codes_of::<T>(&jj), None) else {
                        rep.tally("not-deserialisable");
                        continue;
                    };
                    match res {
                        Err(()) => {
                            rep.case(&format!("{code} panic {desc}"), true);
                            rep.fail(&format!("panic|MT{code}|validate_network_rules"), json!({"type": code, "scenario": name, "mutation": desc, "json": jj}));
                        }
                        Ok((codes, body)) => {
                            rep.case(&format!("{code}:{:?}", codes), !codes.is_empty());
                            rep.tally(&format!("errors:{}", codes.len().min(4)));
                            for c in &codes {
                                rep.tally(&format!("code:MT{code}:{c}"));
                            }
                            if desc == "base" && !codes.is_empty() {
                                // a shipped scenario violates a rule of its own type (C15 territory, reported there)
                                rep.tally("scenario-draw-with-errors");
                            }
                            rep.model(format!("val {code} {}", hex(&canon(&body))), format!("codes {}", codes.join(",")));
                            if rep.samples.len() < 12 && codes.len() >= 2 {
                                rep.sample(json!({"type": code, "scenario": name, "mutation": desc, "codes": codes}));
                            }
                        }
                    }
                }
            }
        }
    }
    rep
}
