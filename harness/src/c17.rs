//! C17 — reject / return / cover classification follows the codes present, consistently.
use crate::extract::h;
use crate::report::{Report, hex};
use crate::rng::Rng;
use crate::{Opts, plugin::Plugins};
use serde_json::{Value, json};
use swift_mt_message::messages::{MT103, MT199, MT202, MT205};
use swift_mt_message::SwiftParser;

const LINES: &[&str] = &["/REJT/", "/RETN/", "/REJT/12", "/RETN/99", "/RJT/", "/RET/", "/rejt/", "/retn/", "REJT", "/REJT", "REJT/", "/ACC/X",
    "/COV/", "/COVER/", "/cov/", "/COVID/RELIEF", "/INS/COVEGB2LXXX", "/COV", "/RECOVER/X", "/COVER", "/BNF/REF/2024/REJT", "/BNF/REF/2024/RETN", "/INS/ABNANL2A", "//CONT /REJT/ X", "/INS/X/RETN/", "/BNF/TEXT", "/REJT/RETN/", "/RETURN/", "/REJECT/",
    "RE YOUR REF 2024-0815/REJT/ PLS ADVISE", "REF/RETN/ X", "/RETN", "X/REJT"];
const MURS: &[Option<&str>] = &[None, Some("REF123"), Some("REJT"), Some("RETN"), Some("rejt"), Some("retn"), Some("PROJECTREJT01"), Some("XRETNX"), Some("REJ T"), Some("REJTRETN")];
/// what follows sequence A of an MT202 and whether it makes the message a cover payment (a customer party 50a / 59a in sequence B)
const SEQB: &[(&str, bool)] = &[("", false), (":50K:/123\nJOHN DOE\n:59:/456\nJANE DOE\n", true), (":33B:USD1000,00\n", false), (":70:TEXT ONLY\n", false),
    (":59:/456\nJANE DOE\n", true), (":50K:/123\nJOHN DOE\n", true), (":52A:CHASUS33\n:33B:USD1000,00\n", false)];
const FLAGS: &[Option<&str>] = &[None, Some("STP"), Some("REJT"), Some("RETN"), Some("COV"), Some("rejt"), Some("REMIT")];

fn envelope(code: u32, mur: Option<&str>, flag: Option<&str>, body: &str) -> String {
    let mut s = format!("{{1:F01BANKBEBBAXXX0000000000}}{{2:I{code}BANKDEFFXXXXN}}");
    if mur.is_some() || flag.is_some() {
        s.push_str("{3:");
        if let Some(m) = mur { s.push_str(&format!("{{108:{m}}}")); }
        if let Some(f) = flag { s.push_str(&format!("{{119:{f}}}")); }
        s.push('}');
    }
    s.push_str(&format!("{{4:\n{body}\n-}}"));
    s
}

fn body(code: u32, lines72: &[&str], seq_b: usize, b23: &str, with56: bool) -> String {
    let f72 = if lines72.is_empty() { String::new() } else { format!(":72:{}\n", lines72.join("\n")) };
    match code {
        103 => format!(":20:REF1\n:23B:{b23}\n:32A:240315USD1000,00\n:50K:/123\nJOHN DOE\n{}:59:/456\nJANE DOE\n:71A:SHA\n{}", if with56 { ":56A:CHASUS33\n:57A:DEUTDEFF\n" } else { "" }, f72).trim_end().to_string(),
        202 => format!(":20:REF1\n:21:REL1\n:32A:240315USD1000,00\n:58A:DEUTDEFF\n{}{}", f72, SEQB[seq_b % SEQB.len()].0).trim_end().to_string(),
        205 => format!(":20:REF1\n:21:REL1\n:32A:240315USD1000,00\n:52A:CHASUS33\n:58A:DEUTDEFF\n{}", f72).trim_end().to_string(),
        _ => format!(":20:REF1\n:79:{}", if lines72.is_empty() { "NARRATIVE".to_string() } else { lines72.join("\n") }),
    }
}

/// independent statement of the classification rules (the oracle)
fn spec(code: u32, lines: &[&str], mur: Option<&str>, flag: Option<&str>, seq_b: usize, stp: bool) -> (bool, bool, bool, &'static str) {
    let supports = [103, 202, 205].contains(&code);
    let rej = (supports && lines.iter().any(|l| l.contains("/REJT/"))) || mur.map(|m| m.contains("REJT")).unwrap_or(false);
    let ret = (supports && lines.iter().any(|l| l.contains("/RETN/"))) || mur.map(|m| m.contains("RETN")).unwrap_or(false);
    let cov = match code { 202 => SEQB[seq_b % SEQB.len()].1, 205 => lines.iter().any(|l| l.contains("/COV/") || l.contains("/COVER/")), _ => false };
    let method = match code {
        103 => if rej { "reject" } else if ret { "return" } else if stp { "stp" } else { "normal" },
        202 | 205 => if rej || flag == Some("REJT") { "reject" } else if ret || flag == Some("RETN") { "return" } else if cov || flag == Some("COV") { "cover" } else { "normal" },
        _ => "normal",
    };
    (rej, ret, cov, method)
}

fn run_one(rep: &mut Report, plugins: &Plugins, code: u32, lines: &[&str], mur: Option<&str>, flag: Option<&str>, seq_b: usize, b23: &str, with56: bool) {
    let text = envelope(code, mur, flag, &body(code, lines, seq_b, b23, with56));
    let t2 = text.clone();
    let r = std::panic::catch_unwind(move || -> Option<(bool, bool, bool, bool)> {
        match code {
            103 => SwiftParser::parse::<MT103>(&t2).ok().map(|m| (m.has_reject_codes(), m.has_return_codes(), m.is_cover_message(), m.is_stp_message())),
            202 => SwiftParser::parse::<MT202>(&t2).ok().map(|m| (m.has_reject_codes(), m.has_return_codes(), m.is_cover_message(), m.is_stp_message())),
            205 => SwiftParser::parse::<MT205>(&t2).ok().map(|m| (m.has_reject_codes(), m.has_return_codes(), m.is_cover_message(), m.is_stp_message())),
            _ => SwiftParser::parse::<MT199>(&t2).ok().map(|m| (m.has_reject_codes(), m.has_return_codes(), m.is_cover_message(), m.is_stp_message())),
        }
    });
    let shape = format!("{code} {lines:?} {mur:?} {flag:?} {seq_b} {b23} {with56}");
    let Ok(Some((rej, ret, cov, stp))) = r else {
        rep.case(&shape, false);
        rep.tally(if r.is_err() { "panic" } else { "not-parsed" });
        if r.is_err() { rep.fail(&format!("panic|MT{code}|classify"), json!({"input_hex": hex(&text)})); }
        return;
    };
    // MT199's own predicates (documented: the narrative's first line opens with the code word between slashes) — the same
    // look-alikes that MT103 / MT202 / MT205 refuse must be refused here
    if code == 199 {
        let t3 = text.clone();
        if let Ok(Some((br, bt))) = std::panic::catch_unwind(move || SwiftParser::parse::<MT199>(&t3).ok().map(|m| (m.fields.is_reject_message(), m.fields.is_return_message()))) {
            let first = lines.first().copied().unwrap_or("NARRATIVE");
            let (er, et) = (first.starts_with("/REJT/"), first.starts_with("/RETN/"));
            if br != er || bt != et {
                rep.fail(&format!("classification|MT199|body-predicates {}", if br != er { "reject" } else { "return" }),
                    json!({"type": 199, "input_hex": hex(&text), "first_line": first, "observed": {"is_reject_message": br, "is_return_message": bt}, "expected": {"is_reject_message": er, "is_return_message": et}}));
            }
        }
    }
    let method = plugins.parse(&text).map(|x| x.1).unwrap_or_else(|e| format!("error:{}", e.chars().take(40).collect::<String>()));
    let (erej, eret, ecov, emethod) = spec(code, lines, mur, flag, seq_b, stp);
    rep.case(&shape, erej || eret || ecov || lines.iter().any(|l| l.to_ascii_uppercase().contains("RE")));
    rep.tally(&format!("method:{method}"));
    let w = |why: &str| json!({"type": code, "lines72": lines, "mur": mur, "flag119": flag, "seq_b": seq_b, "b23": b23, "with56": with56, "why": why, "input_hex": hex(&text),
        "observed": {"reject": rej, "return": ret, "cover": cov, "stp": stp, "method": method}, "expected": {"reject": erej, "return": eret, "cover": ecov, "method": emethod}});
    let lower_mur = mur.map(|m| m != m.to_uppercase()).unwrap_or(false);
    if rej != erej { rep.fail(&format!("misclassified|MT{code}|reject{}", if lower_mur && rej { "-mur-lowercase" } else { "" }), w("reject classification differs from the code words present")); }
    if ret != eret { rep.fail(&format!("misclassified|MT{code}|return{}", if lower_mur && ret { "-mur-lowercase" } else { "" }), w("return classification differs from the code words present")); }
    if cov != ecov { rep.fail(&format!("misclassified|MT{code}|cover"), w("cover classification differs")); }
    // the method must be the one implied by what the library itself classified (coherence), and by the spec
    let implied = spec_method_from(code, rej, ret, cov, stp, flag);
    if method != implied { rep.fail(&format!("method_incoherent|MT{code}|{method}-vs-{implied}"), w("the reported processing method is not the one the classifications imply")); }
    else if method != emethod && rej == erej && ret == eret && cov == ecov { rep.fail(&format!("method_wrong|MT{code}|{method}"), w("method differs from the specification")); }
    let ms = |x: &str| match x { "reject" => 0, "return" => 1, "cover" => 2, "stp" => 3, "normal" => 4, _ => 9 };
    let opt = |o: Option<&str>| o.map(h).unwrap_or("~".into());
    let ascii_mur = mur.map(|m| m.is_ascii()).unwrap_or(true);
    if ascii_mur {
        rep.model(format!("cls {code} {} {} {} {} {}", opt(mur), opt(flag), (code == 202 && SEQB[seq_b % SEQB.len()].1) as u8, stp as u8, lines.iter().map(|l| h(l)).collect::<Vec<_>>().join(" ")),
            format!("{rej} {ret} {cov} {stp} {}", ms(&method)));
    }
    if rep.samples.len() < 6 && (erej || eret) { rep.sample(json!({"type": code, "lines72": lines, "mur": mur, "flag119": flag, "method": method})); }
}

fn spec_method_from(code: u32, rej: bool, ret: bool, cov: bool, stp: bool, flag: Option<&str>) -> &'static str {
    match code {
        103 => if rej { "reject" } else if ret { "return" } else if stp { "stp" } else { "normal" },
        202 | 205 => if rej || flag == Some("REJT") { "reject" } else if ret || flag == Some("RETN") { "return" } else if cov || flag == Some("COV") { "cover" } else { "normal" },
        _ => "normal",
    }
}

pub fn run(o: &Opts) -> Report {
    let mut rep = Report::new("C17");
    let plugins = Plugins::new();
    if let Some(path) = &o.replay {
        let r: Value = serde_json::from_str(&std::fs::read_to_string(path).unwrap_or_default()).unwrap_or(json!({}));
        let w = &r["witness"];
        let lines: Vec<String> = w["lines72"].as_array().map(|a| a.iter().filter_map(|x| x.as_str().map(String::from)).collect()).unwrap_or_default();
        let lr: Vec<&str> = lines.iter().map(|s| s.as_str()).collect();
        run_one(&mut rep, &plugins, w["type"].as_u64().unwrap_or(103) as u32, &lr, w["mur"].as_str(), w["flag119"].as_str(), w["seq_b"].as_u64().unwrap_or(0) as usize, w["b23"].as_str().unwrap_or("CRED"), w["with56"].as_bool().unwrap_or(false));
        return rep;
    }
    let mut rng = Rng::new(o.seed ^ 0x17);
    // exhaustive over single lines x MUR x flag for the three types; pairs of lines sampled
    for &code in &[103u32, 202, 205, 199] {
        for l in LINES.iter() {
            for mur in MURS {
                for flag in FLAGS {
                    if !o.thorough() && rng.below(3) != 0 && mur.is_some() && flag.is_some() { continue; }
                    run_one(&mut rep, &plugins, code, &[l], *mur, *flag, 0, "CRED", false);
                }
            }
        }
        let n = if o.thorough() { 4000 } else { 400 };
        for _ in 0..n {
            let k = rng.range(0, 4);
            let lines: Vec<&str> = (0..k).map(|_| *rng.pick(LINES)).collect();
            let b23 = *rng.pick(&["CRED", "SPRI", "SSTD", "SPAY", "CRTS"]);
            run_one(&mut rep, &plugins, code, &lines, *rng.pick(MURS), *rng.pick(FLAGS), if code == 202 { rng.below(SEQB.len()) } else { 0 }, b23, rng.below(3) == 0);
        }
    }
    // the reported method belongs to the message just parsed: a second parse_mt on the same dataflow message and target (a
    // repaired message after a reject, a return after a normal one) reports the second message's method, not a stale one
    {
        let samples: Vec<(u32, Vec<&str>)> = vec![(103, vec!["/REJT/12"]), (103, vec![]), (103, vec!["/RETN/99"]), (202, vec!["/REJT/"]), (202, vec![]), (205, vec!["/COV/"]), (205, vec!["/RETN/"]), (205, vec![])];
        for (c1, l1) in &samples {
            for (c2, l2) in &samples {
                if c1 != c2 { continue; }
                let t1 = envelope(*c1, None, None, &body(*c1, l1, 0, "CRED", false));
                let t2 = envelope(*c2, None, None, &body(*c2, l2, 0, "CRED", false));
                let single = plugins.parse(&t2).map(|x| x.1).unwrap_or_else(|e| format!("error:{}", e.chars().take(40).collect::<String>()));
                let twice = plugins.parse_twice(&t1, &t2).unwrap_or_else(|e| format!("error:{}", e.chars().take(40).collect::<String>()));
                rep.case(&format!("twice {c1} {l1:?} then {l2:?}"), true);
                if single != twice {
                    rep.fail(&format!("classification|MT{c2}|stale method after a second parse"), json!({"type": c2, "first_hex": hex(&t1), "input_hex": hex(&t2), "method_alone": single, "method_after_first": twice}));
                }
            }
        }
    }
    rep
}
