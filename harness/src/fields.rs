//! Stream `fields`: every field type (89 structs + 25 option enums) on contents generated from its documented format
//! (fieldspec.rs): conforming contents with boundary lengths, one-node violations (max+1, exact±1, one line too many,
//! invalid date/time/BIC/currency), string mutants (appended / deleted / replaced characters, extra lines, blank lines,
//! CR, non-ASCII of 2/3/4 bytes, tabs, empty), random strings.  Oracles (on the implementation, independent of the model):
//!   C05  accepted  <=>  the documented format matches            (keys C05|accept_invalid|..., C05|reject_valid|...)
//!   C02  accepted  =>  re-parsing the serialisation gives an equal value and the same text   (C02|...)
//!   C07  never a panic                                                                        (C07|panic|...)
//!   C08  accepted  =>  from_value(to_value(v)) == v                                           (C08|...)
//! and for the field types that have a Lean model: one `fld` request per content with the implementation's outcome
//! (acceptance, `to_swift_string`, canonical JSON) for the correspondence diff.
use crate::fieldspec::{ENUM_SPECS, FIELD_SPECS};
use crate::fmt::{self, Gen, Item, Len};
use crate::report::{Report, hex};
use crate::rng::Rng;
use crate::{Opts, with_field};
use serde_json::{Value, json};
use swift_mt_message::SwiftField;

/// field types that have a Lean model (lean/SwiftMT/Fields/Registry.lean); kept in step by check.py (driver answers `#skip`
/// for a name it does not know, which the diff ignores but the evidence counts)
pub fn modelled(o: &Opts) -> Vec<String> {
    o.extra.get("modelled").map(|s| s.split(',').map(String::from).collect()).unwrap_or_default()
}

/// field types whose value holds an amount or a rate (an f64 in the library)
pub fn holds_amount(name: &str) -> bool {
    ["Field19", "Field32", "Field33B", "Field34F", "Field36", "Field37H", "Field60", "Field61", "Field62", "Field64", "Field65", "Field71F", "Field71G", "Field90"].iter().any(|p| name.starts_with(p))
}

/// the value with every JSON number erased (see `c02msg`): two values that differ only in numbers differ only in how an
/// f64 holds a long amount
pub fn no_numbers(v: &Value) -> Value {
    match v {
        Value::Number(_) => Value::Null,
        Value::Array(a) => Value::Array(a.iter().map(no_numbers).collect()),
        Value::Object(o) => Value::Object(o.iter().map(|(k, x)| (k.clone(), no_numbers(x))).collect()),
        x => x.clone(),
    }
}

pub fn canon(v: &Value) -> String {
    match v {
        Value::Object(m) => {
            let mut ks: Vec<&String> = m.keys().collect();
            ks.sort();
            let parts: Vec<String> = ks.iter().map(|k| format!("{}:{}", serde_json::to_string(k).unwrap(), canon(&m[*k]))).collect();
            format!("{{{}}}", parts.join(","))
        }
        Value::Array(a) => format!("[{}]", a.iter().map(canon).collect::<Vec<_>>().join(",")),
        other => serde_json::to_string(other).unwrap(),
    }
}

pub enum Outcome {
    Ok { ser: String, json: Value, json_rt: Option<Value> },
    Err,
    Panic,
}

pub fn run_parse<T: SwiftField + 'static>(content: &str) -> Outcome {
    let c = content.to_string();
    let r = std::panic::catch_unwind(move || match T::parse(&c) {
        Ok(v) => {
            let ser = v.to_swift_string();
            let j = serde_json::to_value(&v).unwrap_or(Value::Null);
            // the value read back from JSON, as JSON again; when the typed value itself differs (Debug form: a date's
            // century, say, which the JSON string does not show) the difference is put into the JSON under "#typed"
            let back: Option<Value> = serde_json::from_value::<T>(j.clone()).ok().map(|v2| {
                let j2 = serde_json::to_value(&v2).unwrap_or(Value::Null);
                if j2 == j && format!("{v2:?}") != format!("{v:?}") { serde_json::json!({"#typed": format!("{v2:?}"), "#was": format!("{v:?}")}) } else { j2 }
            });
            Some((ser, j, back))
        }
        Err(_) => None,
    });
    match r {
        Ok(Some((ser, json, json_rt))) => Outcome::Ok { ser, json, json_rt },
        Ok(None) => Outcome::Err,
        Err(_) => Outcome::Panic,
    }
}

pub fn parse_named(name: &str, content: &str) -> Outcome {
    with_field!(name, T => run_parse::<T>(content))
}

fn content_of(ser: &str) -> String {
    // ":tag:content"
    ser.splitn(3, ':').nth(2).unwrap_or("").to_string()
}

pub struct Spec {
    pub name: String,
    pub tag: String,
    pub alts: Vec<Vec<Item>>,
    pub flags: String,
    pub members: Vec<String>,
}

pub fn specs() -> Vec<Spec> {
    let mut v: Vec<Spec> = FIELD_SPECS.iter().map(|(n, t, f, fl)| Spec { name: n.to_string(), tag: t.to_string(), alts: fmt::parse_alts(f), flags: fl.to_string(), members: vec![] }).collect();
    for (n, base, members) in ENUM_SPECS {
        v.push(Spec { name: n.to_string(), tag: base.to_string(), alts: vec![], flags: String::new(), members: members.iter().map(|s| s.to_string()).collect() });
    }
    v
}

fn flags_ok(flags: &str, s: &str) -> bool {
    if flags.contains("glued35") && !s.contains('\n') && s.len() > 35 {
        // the single-line form of 25P is an account directly followed by the BIC within one 35x line
        return false;
    }
    if flags.contains("glued35") && !s.contains('\n') {
        // the glued form is read with the longer BIC first (documented by the field's parser comments): a content that is
        // nothing but an 11-character BIC has no account in that reading
        let cs: Vec<char> = s.chars().collect();
        let is_bic = |b: &[char]| (b.len() == 8 || b.len() == 11) && b[..6].iter().all(|c| c.is_ascii_uppercase()) && b[6..].iter().all(|c| c.is_ascii_uppercase() || c.is_ascii_digit());
        if cs.len() >= 11 && is_bic(&cs[cs.len() - 11..]) && cs.len() == 11 {
            return false;
        }
    }
    if flags.contains("pidfirst") && s.starts_with('/') {
        // a content that starts with '/' starts with the party identifier: it is never the location
        let first = s.split('\n').next().unwrap_or("");
        let fc: Vec<char> = first.chars().collect();
        if !fmt::pid_ok(&fc[1..]) {
            return false;
        }
    }
    if flags.contains("numbered") {
        // numbered lines carry 1, 2, 3, 4 in this order (what the serialiser writes / what the field's tests require)
        let mut k = 0;
        for l in s.split('\n') {
            if l.starts_with('/') && k == 0 {
                continue;
            }
            k += 1;
            if l.chars().next().and_then(|c| c.to_digit(10)) != Some(k) {
                return false;
            }
        }
    }
    if flags.contains("f23") {
        // two digits after the three letters are the number of days (1..99) and a reference must follow
        let b: Vec<char> = s.chars().collect();
        if b.len() >= 5 && b[3].is_ascii_digit() && b[4].is_ascii_digit() {
            let days = b[3].to_digit(10).unwrap() * 10 + b[4].to_digit(10).unwrap();
            if days == 0 || b.len() < 6 {
                return false;
            }
        }
    }
    if flags.contains("rate") {
        // documented by the field's own tests: a rate lies in 0.0001 ..= 100000
        let v: f64 = s.replace(',', ".").parse().unwrap_or(0.0);
        if !(0.0001..=100000.0).contains(&v) {
            return false;
        }
    }
    if flags.contains("noslash") && (s.starts_with('/') || s.ends_with('/') || s.contains("//")) {
        return false;
    }
    if flags.contains("idx") {
        let mut p = s.splitn(2, '/');
        let a: u64 = p.next().and_then(|x| x.parse().ok()).unwrap_or(0);
        let b: u64 = p.next().and_then(|x| x.parse().ok()).unwrap_or(0);
        if a == 0 || b == 0 || a > b {
            return false;
        }
    }
    true
}

/// does the documented format accept `s` (for an enum: does the format of any member)
pub fn documented(all: &[Spec], sp: &Spec, s: &str) -> bool {
    if sp.flags.contains("strip1slash") {
        // library convention for field 25: one leading '/' is not part of the 35x value
        let t = s.strip_prefix('/').unwrap_or(s);
        return fmt::matches_any(&sp.alts, t);
    }
    if sp.flags.contains("ref61") {
        // the first "//" on the first line announces the bank reference (16x, at least one character)
        let first = s.split('\n').next().unwrap_or("");
        if let Some(p) = first.find("//") {
            let after = &first[p + 2..];
            if after.is_empty() || after.chars().count() > 16 {
                return false;
            }
        }
    }
    if sp.flags.contains("pid53b") && !s.contains('\n') {
        // documented in the parser: a single line that starts with '/' or looks like a BIC is the party identifier (34x)
        let bic_like = (8..=11).contains(&s.len()) && s.chars().all(|c| c.is_ascii_uppercase() || c.is_ascii_digit());
        if (s.starts_with('/') || bic_like) && s.chars().count() > 34 {
            return false;
        }
    }
    if sp.flags.contains("bytes9000") {
        return !s.is_empty() && s.len() <= 9000;
    }
    if sp.flags.contains("pid53d") {
        // documented in the parser's comments: the first line is a party identifier when more lines follow and it starts
        // with '/' or looks like an account (<= 34 characters, no blank, at least one digit)
        let lines: Vec<&str> = s.split('\n').collect();
        let x = |l: &str, n: usize| !l.is_empty() && l.chars().count() <= n && l.chars().all(|c| fmt::in_class(c, 'x'));
        let first = lines[0];
        let looks = first.starts_with('/') || (first.len() <= 34 && !first.contains(' ') && first.chars().any(|c| c.is_ascii_digit()));
        let (pid, rest) = if looks && !first.is_empty() && lines.len() > 1 { (Some(first), &lines[1..]) } else { (None, &lines[..]) };
        return pid.map(|p| x(p, 35)).unwrap_or(true) && (1..=4).contains(&rest.len()) && rest.iter().all(|l| x(l, 35));
    }
    if sp.members.is_empty() {
        fmt::matches_any(&sp.alts, s) && flags_ok(&sp.flags, s)
    } else {
        sp.members.iter().any(|m| {
            let msp = all.iter().find(|x| &x.name == m).unwrap();
            documented(all, msp, s)
        })
    }
}

fn gen_contents(rng: &mut Rng, all: &[Spec], sp: &Spec, thorough: bool) -> Vec<(String, String)> {
    let mut out: Vec<(String, String)> = Vec::new();
    let alts: Vec<&Vec<Item>> = if sp.members.is_empty() {
        sp.alts.iter().collect()
    } else {
        sp.members.iter().flat_map(|m| all.iter().find(|x| &x.name == m).unwrap().alts.iter()).collect()
    };
    let rounds = if thorough { 40 } else { 6 };
    for alt in &alts {
        let nodes = fmt::count_nodes(alt);
        for (len, lname) in [(Len::Min, "min"), (Len::Max, "max"), (Len::Rand, "rand")] {
            for opt in [Some(true), Some(false), None] {
                let reps = if len == Len::Rand { rounds } else { 1 };
                for _ in 0..reps {
                    let mut g = Gen { rng, len, violate: None, counter: 0, opt_all: opt, ccy: None };
                    let s = g.make(alt);
                    out.push((format!("valid_{lname}"), s));
                }
            }
        }
        // one-node violations on top of max-length and random-length contents
        for k in 0..nodes {
            for len in [Len::Max, Len::Rand] {
                let mut g = Gen { rng, len, violate: Some(k), counter: 0, opt_all: Some(true), ccy: None };
                let s = g.make(alt);
                out.push(("violate_node".to_string(), s));
            }
        }
    }
    // string mutants of a few valid contents
    let base: Vec<String> = out.iter().filter(|(c, _)| c.starts_with("valid")).map(|(_, s)| s.clone()).collect();
    let nmut = if thorough { base.len() } else { base.len().min(8) };
    for i in 0..nmut {
        let b = &base[(i * 7) % base.len()];
        for (cls, m) in fmt::mutants(rng, b) {
            out.push((cls.to_string(), m));
        }
    }
    // every prefix of a few valid contents (a content cut off after any component — exactly where a parser that indexes by
    // position runs past the end); the full-option maximum-length contents first
    {
        let mut picks: Vec<&String> = out.iter().filter(|(c, _)| c == "valid_max").map(|(_, s)| s).take(if thorough { 6 } else { 1 }).collect();
        picks.extend(out.iter().filter(|(c, _)| c == "valid_rand").map(|(_, s)| s).take(if thorough { 10 } else { 2 }));
        let mut pre: Vec<String> = Vec::new();
        for b in picks {
            let cs: Vec<char> = b.chars().collect();
            // long narratives: every prefix of the first 80 characters, then every 9th
            for n in 0..cs.len() {
                if n <= 80 || n % 9 == 0 || thorough {
                    pre.push(cs[..n].iter().collect());
                }
            }
        }
        pre.sort();
        pre.dedup();
        for p in pre {
            out.push(("prefix".to_string(), p));
        }
    }
    // random strings over the SWIFT and a non-SWIFT alphabet
    let sw: Vec<char> = "AB12/-:., \n".chars().collect();
    let ns: Vec<char> = "aZ9~^\u{e9}\u{20ac}\t\r\n/ ".chars().collect();
    for _ in 0..(if thorough { 200 } else { 20 }) {
        let n = rng.range(0, 40);
        out.push(("random_swift".into(), rng.string_from(&sw, n)));
        let n = rng.range(0, 24);
        out.push(("random_nonswift".into(), rng.string_from(&ns, n)));
    }
    out
}

pub fn run(o: &Opts) -> Report {
    let mut rep = Report::new("fields");
    let mut rng = Rng::new(o.seed);
    let all = specs();
    let only: Option<String> = o.extra.get("field").cloned();
    let props: Vec<String> = o.extra.get("prop").map(|s| s.split(',').map(String::from).collect()).unwrap_or_else(|| vec!["C05".into(), "C02".into(), "C07".into(), "C08".into()]);
    let want = |p: &str| props.iter().any(|x| x == p);
    let modelled = modelled(o);
    let replay_case: Option<(String, String)> = o.replay.as_ref().and_then(|p| {
        let v: Value = serde_json::from_str(&std::fs::read_to_string(p).ok()?).ok()?;
        let w = v.get("witness")?;
        Some((w.get("field")?.as_str()?.to_string(), crate::report::unhex(w.get("content_hex")?.as_str()?)))
    });
    for sp in &all {
        if let Some(f) = &only {
            if &sp.name != f {
                continue;
            }
        }
        let contents: Vec<(String, String)> = match &replay_case {
            Some((f, c)) => if f == &sp.name { vec![("replay".into(), c.clone())] } else { continue },
            None => gen_contents(&mut rng, &all, sp, o.thorough()),
        };
        let is_enum = !sp.members.is_empty();
        for (cls, c) in contents {
            let doc = documented(&all, sp, &c);
            let out = parse_named(&sp.name, &c);
            rep.case(&format!("{} {}", sp.name, c), doc || matches!(out, Outcome::Ok { .. }));
            rep.tally(&format!("class:{}", cls.split('_').next().unwrap_or("")));
            let wit = |why: &str, extra: Value| json!({"field": sp.name, "content_hex": hex(&c), "content": c, "class": cls, "why": why, "detail": extra});
            let line: String;
            match &out {
                Outcome::Panic => {
                    rep.tally("outcome:panic");
                    if want("C07") {
                        rep.fail(&format!("C07|panic|{}|{}", sp.name, cls), wit("the parser panicked", Value::Null));
                    }
                    line = "panic".into();
                }
                Outcome::Err => {
                    rep.tally(if doc { "outcome:err_but_documented" } else { "outcome:err" });
                    let strict_doc = doc && {
                        crate::fmt::STRICT_ND.store(true, std::sync::atomic::Ordering::Relaxed);
                        let d = documented(&all, sp, &c);
                        crate::fmt::STRICT_ND.store(false, std::sync::atomic::Ordering::Relaxed);
                        d
                    };
                    if doc && !strict_doc {
                        rep.tally("outcome:err_between_nd_readings");
                    }
                    if strict_doc && want("C05") && !is_enum {
                        rep.fail(&format!("C05|reject_valid|{}|{}", sp.name, cls), wit("content conforms to the documented format but is rejected", Value::Null));
                    }
                    line = "err".into();
                }
                Outcome::Ok { ser, json, json_rt } => {
                    rep.tally(if doc { "outcome:ok" } else { "outcome:ok_but_undocumented" });
                    if !doc && want("C05") {
                        rep.fail(&format!("C05|accept_invalid|{}|{}", sp.name, cls), wit("content outside the documented format is accepted", json!({"ser": ser, "value": json})));
                    }
                    if want("C02") {
                        let c2 = content_of(ser);
                        // an enum serialises with its option letter: re-parse through the letter
                        let again = if is_enum {
                            let tag = ser.splitn(3, ':').nth(1).unwrap_or("").to_string();
                            let letter: String = tag.chars().skip_while(|ch| ch.is_ascii_digit()).collect();
                            reparse_enum(&sp.name, &c2, if letter.is_empty() { None } else { Some(letter) }, &sp.tag)
                        } else {
                            parse_named(&sp.name, &c2)
                        };
                        match again {
                            Outcome::Ok { ser: ser2, json: json2, .. } => {
                                if canon(&json2) != canon(json) {
                                    // excused by the recorded f64 finding only when the field holds an amount, the amount is long, and nothing but numbers differs
                                    let f64_only = holds_amount(&sp.name) && crate::fmt::beyond_f64(&c) && no_numbers(&json2) == no_numbers(json);
                                    // 19 and 61 always print two decimals (recorded findings): only a content with more than two written
                                    // decimals whose re-read value differs in numbers alone is that finding
                                    let written_dec = c.find([',', '.']).map(|p| c[p + 1..].bytes().take_while(|b| b.is_ascii_digit()).count()).unwrap_or(0);
                                    let two_dec = (sp.name == "Field19" || sp.name == "Field61") && written_dec > 2 && no_numbers(&json2) == no_numbers(json);
                                    rep.fail(&format!("C02|value_changed|{}|{}", sp.name, if f64_only { "f64-precision" } else if two_dec { "more-than-two-decimals" } else { cls.as_str() }), wit("re-parsing the serialisation gives a different value", json!({"ser": ser, "first": json, "second": json2})));
                                } else if &ser2 != ser {
                                    rep.fail(&format!("C02|not_fixed_point|{}|{}", sp.name, cls), wit("second serialisation differs", json!({"ser": ser, "ser2": ser2})));
                                }
                            }
                            Outcome::Err => rep.fail(&format!("C02|reparse_rejected|{}|{}", sp.name, if holds_amount(&sp.name) && crate::fmt::beyond_f64(&c) { "f64-precision" } else { cls.as_str() }), wit("the serialisation of an accepted content is rejected", json!({"ser": ser}))),
                            Outcome::Panic => rep.fail(&format!("C02|reparse_panicked|{}|{}", sp.name, cls), wit("re-parsing the serialisation panics", json!({"ser": ser}))),
                        }
                    }
                    if want("C08") {
                        match json_rt {
                            Some(b) if canon(b) == canon(json) => {}
                            Some(b) => rep.fail(&format!("C08|json_value_changed|{}|{}", sp.name, cls), wit("from_value(to_value(v)) differs from v", json!({"json": json, "back": b}))),
                            None => rep.fail(&format!("C08|json_rejected|{}|{}", sp.name, cls), wit("from_value rejects to_value(v)", json!({"json": json}))),
                        }
                        if has_nonfinite_or_placeholder(json) {
                            rep.fail(&format!("C08|json_nonfinite|{}|{}", sp.name, cls), wit("a numeric component is not a finite JSON number", json!({"json": json})));
                        }
                    }
                    line = format!("ok {} {}", hex(ser), canon(json));
                }
            }
            if modelled.iter().any(|m| m == &sp.name) && replay_case.is_none() {
                // amounts beyond 15 significant digits are outside the exact-decimal model
                rep.model(format!("fld {} {}", sp.name, crate::extract::h(&c)), line);
            }
            if rep.samples.len() < 12 && cls.starts_with("valid") {
                rep.sample(json!({"field": sp.name, "content": c, "documented": doc}));
            }
        }
    }
    rep
}

fn has_nonfinite_or_placeholder(v: &Value) -> bool {
    match v {
        Value::Object(m) => m.values().any(has_nonfinite_or_placeholder),
        Value::Array(a) => a.iter().any(has_nonfinite_or_placeholder),
        Value::Number(n) => n.as_f64().map(|f| !f.is_finite()).unwrap_or(false),
        _ => false,
    }
}

fn reparse_enum(name: &str, content: &str, letter: Option<String>, base: &str) -> Outcome {
    fn go<T: SwiftField + 'static>(content: &str, letter: Option<String>, base: &str) -> Outcome {
        let (c, l, b) = (content.to_string(), letter, base.to_string());
        let r = std::panic::catch_unwind(move || match T::parse_with_variant(&c, l.as_deref(), Some(&b)) {
            Ok(v) => Some((v.to_swift_string(), serde_json::to_value(&v).unwrap_or(Value::Null))),
            Err(_) => None,
        });
        match r {
            Ok(Some((ser, json))) => Outcome::Ok { ser, json, json_rt: None },
            Ok(None) => Outcome::Err,
            Err(_) => Outcome::Panic,
        }
    }
    with_field!(name, T => go::<T>(content, letter, base))
}
