//! Valid messages drawn from the scenario files shipped in /repo/test_scenarios (the library's own generator).
use datafake_rs::DataGenerator;
use serde_json::Value;
use std::path::PathBuf;

pub fn scenario_root() -> PathBuf {
    PathBuf::from(std::env::var("VERIF_REPO").unwrap_or_else(|_| "/repo".into())).join("test_scenarios")
}

/// (type code, scenario name, path) of every scenario JSON (index.json excluded), sorted
pub fn all_scenarios() -> Vec<(u32, String, PathBuf)> {
    let mut out = Vec::new();
    if let Ok(rd) = std::fs::read_dir(scenario_root()) {
        for e in rd.flatten() {
            let name = e.file_name().to_string_lossy().to_string();
            if let Some(num) = name.strip_prefix("mt").and_then(|s| s.parse::<u32>().ok()) {
                if let Ok(files) = std::fs::read_dir(e.path()) {
                    for f in files.flatten() {
                        let p = f.path();
                        let fname = p.file_name().unwrap().to_string_lossy().to_string();
                        if fname.ends_with(".json") && fname != "index.json" {
                            out.push((num, fname.trim_end_matches(".json").to_string(), p));
                        }
                    }
                }
            }
        }
    }
    out.sort();
    out
}

pub fn load(path: &PathBuf) -> Option<Value> {
    serde_json::from_str(&std::fs::read_to_string(path).ok()?).ok()
}

/// One random draw of a scenario (datafake's own randomness; the drawn JSON is what gets recorded).
pub fn draw(schema: &Value) -> Result<Value, String> {
    let g = DataGenerator::from_value(schema.clone()).map_err(|e| format!("{e:?}"))?;
    g.generate().map_err(|e| format!("{e:?}"))
}
