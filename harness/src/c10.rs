//! C10 — envelope integrity: blocks 1/2/3/5 extracted and reproduced faithfully, extraction independent of characters
//! inside values, malformed headers rejected.
use crate::report::{Report, hex};
use crate::rng::Rng;
use crate::Opts;
use serde_json::{Value, json};
use swift_mt_message::headers::{ApplicationHeader, BasicHeader, Trailer, UserHeader};
use swift_mt_message::messages::MT199;
use swift_mt_message::SwiftParser;

const ALNUM: &str = "ABCDEFGHIJKLMNOPQRSTUVWXYZ0123456789";
const DIG: &str = "0123456789";

fn s_from(rng: &mut Rng, alpha: &str, n: usize) -> String {
    let a: Vec<char> = alpha.chars().collect();
    (0..n).map(|_| *rng.pick(&a)).collect()
}

pub const BLOCK3_TAGS: &[&str] = &["103", "113", "108", "119", "423", "106", "424", "111", "121", "115", "165", "433", "434"];
pub const BLOCK5_TAGS: &[&str] = &["CHK", "TNG", "PDE", "DLM", "MRF", "PDM", "SYS", "MAC"];

fn tag3_value(rng: &mut Rng, tag: &str) -> String {
    match tag {
        "103" => s_from(rng, "ABCDEFGHIJKLMNOPQRSTUVWXYZ", 3),
        "113" => s_from(rng, ALNUM, 4),
        // 16x: blanks are characters of the value, also at its ends (blank-padded fixed-width references)
        "108" | "424" if rng.below(5) == 0 => { let n = rng.range(1, 12); let core = s_from(rng, ALNUM, n); match rng.below(3) { 0 => format!("{core}  "), 1 => format!(" {core}"), _ => format!("{} {}", core, "X") } }
        "108" => { let n = rng.range(1, 16); s_from(rng, ALNUM, n) }
        "119" => rng.pick(&["STP", "REMIT", "COV", "RFDD"]).to_string(),
        // YYMMDDHHMMSS[ss]; every tenth value a near miss of another length (the library accepts those and must then keep them whole)
        "423" if rng.below(10) == 0 => { let n = *rng.pick(&[13usize, 15, 16, 18]); s_from(rng, DIG, n) }
        "423" => format!("{}{}{}", s_from(rng, DIG, 6), s_from(rng, DIG, 6), if rng.below(2) == 0 { s_from(rng, DIG, 2) } else { String::new() }),
        "106" => format!("{}{}{}{}", s_from(rng, DIG, 6), s_from(rng, ALNUM, 12), s_from(rng, DIG, 4), s_from(rng, DIG, 6)),
        "424" => { let n = rng.range(1, 16); s_from(rng, ALNUM, n) }
        "111" => s_from(rng, DIG, 3),
        // a UETR is hexadecimal: upper-case and mixed-case spellings are values too (kept as written)
        "121" if rng.below(3) == 0 => { let hexu = if rng.below(2) == 0 { "0123456789ABCDEF" } else { "0123456789abcdefABCDEF" }; format!("{}-{}-4{}-A{}-{}", s_from(rng, hexu, 8), s_from(rng, hexu, 4), s_from(rng, hexu, 3), s_from(rng, hexu, 3), s_from(rng, hexu, 12)) }
        "121" => format!("{}-{}-4{}-a{}-{}", s_from(rng, "0123456789abcdef", 8), s_from(rng, "0123456789abcdef", 4), s_from(rng, "0123456789abcdef", 3), s_from(rng, "0123456789abcdef", 3), s_from(rng, "0123456789abcdef", 12)),
        "115" => { let n = rng.range(1, 32); s_from(rng, ALNUM, n) }
        // the library documents 165 as `3!c/34x`, 433/434 as `3!a/[20x]`
        "165" => { let n = *rng.pick(&[0usize, 1, 10, 20, 21, 33, 34]); format!("{}/{}", s_from(rng, ALNUM, 3), s_from(rng, ALNUM, n)) }
        "433" => if rng.below(2) == 0 { format!("{}/", *rng.pick(&["AOK", "FPO", "NOK"])) } else { format!("{}/{}", *rng.pick(&["AOK", "FPO", "NOK"]), s_from(rng, ALNUM, 8)) },
        "434" => if rng.below(2) == 0 { format!("{}/", s_from(rng, "ABCDEFGHIJKLMNOPQRSTUVWXYZ", 3)) } else { format!("{}/{}", s_from(rng, "ABCDEFGHIJKLMNOPQRSTUVWXYZ", 3), s_from(rng, ALNUM, 8)) },
        _ => "X".into(),
    }
}

fn tag5_value(rng: &mut Rng, tag: &str) -> Option<String> {
    match tag {
        "CHK" | "MAC" => Some(s_from(rng, "0123456789ABCDEF", if tag == "CHK" { 12 } else { 8 })),
        "TNG" | "DLM" => None,
        "PDE" | "PDM" => Some(if rng.below(2) == 0 { String::new() } else { format!("{}{}{}{}{}", s_from(rng, DIG, 4), s_from(rng, DIG, 6), s_from(rng, ALNUM, 12), s_from(rng, DIG, 4), s_from(rng, DIG, 6)) }),
        "MRF" => Some(format!("{}{}{}{}{}{}", s_from(rng, DIG, 6), s_from(rng, DIG, 4), s_from(rng, DIG, 6), s_from(rng, ALNUM, 12), s_from(rng, DIG, 4), s_from(rng, DIG, 6))),
        "SYS" => Some(if rng.below(2) == 0 { String::new() } else { format!("{}{}{}{}{}", s_from(rng, DIG, 4), s_from(rng, DIG, 6), s_from(rng, ALNUM, 12), s_from(rng, DIG, 4), s_from(rng, DIG, 6)) }),
        _ => None,
    }
}

/// independent reader of `{tag:value}` items at nesting depth 1 of a block body
pub fn items(body: &str) -> Vec<(String, Option<String>)> {
    let mut out = Vec::new();
    let b: Vec<char> = body.chars().collect();
    let mut i = 0;
    while i < b.len() {
        if b[i] == '{' {
            let mut depth = 1;
            let mut j = i + 1;
            while j < b.len() && depth > 0 {
                if b[j] == '{' { depth += 1 } else if b[j] == '}' { depth -= 1 }
                j += 1;
            }
            let inner: String = b[i + 1..j.saturating_sub(1)].iter().collect();
            match inner.split_once(':') {
                Some((t, v)) => out.push((t.to_string(), Some(v.to_string()))),
                None => out.push((inner, None)),
            }
            i = j;
        } else {
            i += 1;
        }
    }
    out
}

fn block_body<'a>(msg: &'a str, n: u8) -> Option<&'a str> {
    // independent block locator for well-formed messages: top-level brace matching
    let b = msg.as_bytes();
    let mut i = 0;
    while i < b.len() {
        if b[i] == b'{' {
            let mut depth = 1;
            let mut j = i + 1;
            // block 4 ends at "-}" (its text may contain braces)
            if msg[i..].starts_with("{4:") {
                let end = msg[i..].find("\n-}").map(|p| i + p + 2)?;
                if n == 4 { return Some(&msg[i + 3..end - 1]); }
                i = end + 1;
                continue;
            }
            while j < b.len() && depth > 0 {
                if b[j] == b'{' { depth += 1 } else if b[j] == b'}' { depth -= 1 }
                j += 1;
            }
            if msg[i..].starts_with(&format!("{{{n}:")) {
                return Some(&msg[i + 3..j - 1]);
            }
            i = j;
        } else {
            i += 1;
        }
    }
    None
}

pub struct Envelope {
    pub b1: String,
    pub b2: String,
    pub b3: Option<Vec<(String, String)>>,
    pub b4: String,
    pub b5: Option<Vec<(String, Option<String>)>>,
}

impl Envelope {
    pub fn text(&self) -> String {
        let mut s = format!("{{1:{}}}{{2:{}}}", self.b1, self.b2);
        if let Some(t) = &self.b3 {
            s.push_str("{3:");
            for (k, v) in t {
                s.push_str(&format!("{{{k}:{v}}}"));
            }
            s.push('}');
        }
        s.push_str(&format!("{{4:\n{}\n-}}", self.b4));
        if let Some(t) = &self.b5 {
            s.push_str("{5:");
            for (k, v) in t {
                match v { Some(v) => s.push_str(&format!("{{{k}:{v}}}")), None => s.push_str(&format!("{{{k}}}")) }
            }
            s.push('}');
        }
        s
    }
}

/// a random block 3 / block 5 as text (used by the message-level round trip of C02 as well): any subset of the tags, in
/// any order, with the empty tags spelt the way the library reads them (`{TNG}`, `{DLM}`)
pub fn gen_b3_text(rng: &mut Rng) -> String {
    let mut tags: Vec<&str> = BLOCK3_TAGS.iter().filter(|_| rng.below(3) == 0).cloned().collect();
    if rng.below(3) == 0 { let k = tags.len(); for a in (1..k).rev() { let b = rng.below(a + 1); tags.swap(a, b); } }
    let mut s = String::from("{3:");
    for t in tags { s.push_str(&format!("{{{t}:{}}}", tag3_value(rng, t))); }
    s.push('}');
    s
}
pub fn gen_b5_text(rng: &mut Rng) -> String {
    let mut tags: Vec<&str> = BLOCK5_TAGS.iter().filter(|_| rng.below(3) == 0).cloned().collect();
    if rng.below(2) == 0 { let k = tags.len(); for a in (1..k).rev() { let b = rng.below(a + 1); tags.swap(a, b); } }
    let mut s = String::from("{5:");
    for t in tags { match tag5_value(rng, t) { Some(v) => s.push_str(&format!("{{{t}:{v}}}")), None => s.push_str(&format!("{{{t}}}")) } }
    s.push('}');
    s
}

/// block 1 as the library ACCEPTS it beyond the documented shape (for the accepted-text properties C02 / C08 only): the
/// twelve address characters may end in blanks (a blank-padded BIC8)
pub fn gen_b1_loose(rng: &mut Rng) -> String {
    if rng.below(3) == 0 {
        let keep = *rng.pick(&[8usize, 9, 11]);
        let addr = format!("{:<12}", s_from(rng, ALNUM, keep));
        format!("{}{}{}{}{}", rng.pick(&["F", "A", "L"]), rng.pick(&["01", "21"]), addr, s_from(rng, DIG, 4), s_from(rng, DIG, 6))
    } else { gen_b1(rng) }
}
/// block 2 (input) whose destination address ends in blanks, else as `gen_b2`
pub fn gen_b2_loose(rng: &mut Rng, code: &str) -> String {
    if rng.below(4) == 0 {
        let keep = *rng.pick(&[8usize, 9, 11]);
        format!("I{code}{:<12}{}", s_from(rng, ALNUM, keep), rng.pick(&["N", "U", "S"]))
    } else { gen_b2(rng, code) }
}

pub fn gen_b1(rng: &mut Rng) -> String {
    format!("{}{}{}{}{}", rng.pick(&["F", "A", "L"]), rng.pick(&["01", "21"]), s_from(rng, ALNUM, 12), s_from(rng, DIG, 4), s_from(rng, DIG, 6))
}
pub fn gen_b2(rng: &mut Rng, code: &str) -> String {
    if rng.below(2) == 0 {
        let mut s = format!("I{code}{}{}", s_from(rng, ALNUM, 12), rng.pick(&["N", "U", "S"]));
        match rng.below(3) {
            0 => {}
            1 => s.push_str(*rng.pick(&["1", "2", "3"])),
            _ => { s.push_str(*rng.pick(&["1", "2", "3"])); s.push_str(&s_from(rng, DIG, 3)); }
        }
        s
    } else {
        let mut s = format!("O{code}{}{}{}{}{}{}{}", s_from(rng, DIG, 4), s_from(rng, DIG, 6), s_from(rng, ALNUM, 12), s_from(rng, DIG, 4), s_from(rng, DIG, 6), s_from(rng, DIG, 6), s_from(rng, DIG, 4));
        if rng.below(2) == 0 { s.push_str(*rng.pick(&["N", "U", "S"])); }
        s
    }
}

fn judge(rep: &mut Report, env: &Envelope, class: &str) {
    if class != "wellformed" {
        // structure independence is judged as a whole: any difference is one finding of that class
        let mut tmp = Report::new("tmp");
        judge_inner(&mut tmp, env, class);
        if let Some((k, w)) = tmp.failures.iter().next() {
            let mut w0 = w[0].clone();
            w0["first_symptom"] = json!(k);
            rep.fail(&format!("structure_confused|{class}"), w0);
        }
        return;
    }
    judge_inner(rep, env, class)
}

fn judge_inner(rep: &mut Report, env: &Envelope, class: &str) {
    let text = env.text();
    for n in 1..=5u8 {
        if text.is_ascii() {
            let t2 = text.clone();
            let out = match std::panic::catch_unwind(move || SwiftParser::extract_block(&t2, n)) {
                Ok(Ok(Some(b))) => format!("some {}", crate::extract::h(&b)), Ok(Ok(None)) => "none".into(), Ok(Err(_)) => "err".into(), Err(_) => "panic".into() };
            rep.model(format!("blk {n} {}", crate::extract::h(&text)), out);
        }
    }
    let r = std::panic::catch_unwind(|| SwiftParser::parse::<MT199>(&text).map(|m| m.to_mt_message()));
    let w = |why: &str, extra: Value| json!({"class": class, "why": why, "input_hex": hex(&text), "detail": extra});
    match r {
        Err(_) => rep.fail(&format!("panic|parse|{class}"), w("panic", json!(null))),
        Ok(Err(e)) => rep.fail(&format!("reject_valid|envelope|{class}"), w("a well-formed envelope was rejected", json!(format!("{e:?}").chars().take(200).collect::<String>()))),
        Ok(Ok(out)) => {
            // blocks 1 and 2 reproduced exactly
            for (n, want) in [(1u8, &env.b1), (2u8, &env.b2)] {
                let got = block_body(&out, n).unwrap_or("");
                if got != want {
                    let sub = if n == 2 { if want.starts_with('I') { format!("I-len{}", want.len()) } else { format!("O-len{}", want.len()) } } else { "b1".into() };
                    rep.fail(&format!("block_changed|block{n}|{sub}"), w("block not reproduced", json!({"want": want, "got": got})));
                }
            }
            // block 3: every tag and value preserved
            match (&env.b3, block_body(&out, 3)) {
                (Some(tags), got) => {
                    if got.is_none() {
                        rep.fail("block_lost|block3|present-in-input", w("block 3 was present in the input and is missing from the output", json!({"input_tags": tags.len()})));
                    }
                    let have = items(got.unwrap_or(""));
                    for (k, v) in tags {
                        if !have.iter().any(|(k2, v2)| k2 == k && v2.as_deref() == Some(v.as_str())) {
                            let kind = if have.iter().any(|(k2, _)| k2 == k) { "value_changed" } else { "header_tag_lost" };
                            rep.fail(&format!("{kind}|block3|{k}"), w("a recognised block-3 tag or its value is not reproduced", json!({"tag": k, "value": v, "output_block3": got})));
                        }
                    }
                    if have.len() > tags.len() {
                        rep.fail("invented|block3|extra-tag", w("serialisation invented a block-3 tag", json!({"output_block3": got})));
                    }
                }
                (None, Some(g)) => rep.fail("invented|block3|present", w("block 3 appeared", json!(g))),
                (None, None) => {}
            }
            match (&env.b5, block_body(&out, 5)) {
                (Some(tags), got) => {
                    if got.is_none() {
                        rep.fail("block_lost|block5|present-in-input", w("block 5 was present in the input and is missing from the output", json!({"input_tags": tags.len()})));
                    }
                    let have = items(got.unwrap_or(""));
                    for (k, v) in tags {
                        if !have.iter().any(|(k2, v2)| k2 == k && (v2 == v || (v.is_none() && v2.is_none()))) {
                            let kind = if have.iter().any(|(k2, _)| k2 == k) { "value_changed" } else { "trailer_tag_lost" };
                            rep.fail(&format!("{kind}|block5|{k}"), w("a documented block-5 tag or its value is not reproduced", json!({"tag": k, "value": v, "output_block5": got})));
                        }
                    }
                }
                (None, Some(g)) => rep.fail("invented|block5|present", w("block 5 appeared", json!(g))),
                (None, None) => {}
            }
            // block 4 text: same fields
            let (a, _, _) = crate::tok::tokenise(&env.b4);
            let (b, _, _) = crate::tok::tokenise(block_body(&out, 4).unwrap_or(""));
            if a != b {
                rep.fail(&format!("block_changed|block4|{class}"), w("block 4 fields differ", json!({"in": format!("{a:?}"), "out": format!("{b:?}")})));
            }
        }
    }
}

fn expect_reject(rep: &mut Report, text: &str, class: &str) {
    let t = text.to_string();
    let r = std::panic::catch_unwind(move || SwiftParser::parse::<MT199>(&t).map(|m| m.to_mt_message()));
    rep.case(&format!("malformed {class} {text}"), true);
    match r {
        Err(_) => rep.fail(&format!("panic|parse|{class}"), json!({"class": class, "input_hex": hex(text)})),
        Ok(Ok(out)) => rep.fail(&format!("accept_invalid|header|{class}"), json!({"class": class, "input_hex": hex(text), "output": out, "why": "a header of wrong length, direction or shape was accepted (partly read)"})),
        Ok(Err(_)) => rep.tally(&format!("rejected:{class}")),
    }
}

/// a header outside the documented shape that the library may accept: then it must come back verbatim, never partly read
fn expect_reject_or_verbatim(rep: &mut Report, text: &str, block2: &str, class: &str) {
    let t = text.to_string();
    let r = std::panic::catch_unwind(move || SwiftParser::parse::<MT199>(&t).map(|m| m.to_mt_message()));
    rep.case(&format!("odd {class} {text}"), true);
    match r {
        Err(_) => rep.fail(&format!("panic|parse|{class}"), json!({"class": class, "input_hex": hex(text)})),
        Ok(Ok(out)) => {
            if !out.contains(&format!("{{2:{block2}}}")) {
                rep.fail(&format!("block_changed|application-header|{class}"), json!({"class": class, "input_hex": hex(text), "output": out, "why": "an accepted header was written back differently (a character was dropped or replaced)"}));
            } else { rep.tally(&format!("kept:{class}")); }
        }
        Ok(Err(_)) => rep.tally(&format!("rejected:{class}")),
    }
}

pub fn run(o: &Opts) -> Report {
    let mut rep = Report::new("C10");
    if let Some(path) = &o.replay {
        let r: Value = serde_json::from_str(&std::fs::read_to_string(path).unwrap_or_default()).unwrap_or(json!({}));
        let w = &r["witness"];
        let text = crate::report::unhex(w["input_hex"].as_str().unwrap_or(""));
        let class = w["class"].as_str().unwrap_or("replay").to_string();
        if r["finding_key"].as_str().unwrap_or("").starts_with("accept_invalid") {
            expect_reject(&mut rep, &text, &class);
        } else {
            // rebuild the envelope from the text with the independent locator
            let env = Envelope {
                b1: block_body(&text, 1).unwrap_or("").to_string(), b2: block_body(&text, 2).unwrap_or("").to_string(),
                b3: block_body(&text, 3).map(|b| items(b).into_iter().map(|(k, v)| (k, v.unwrap_or_default())).collect()),
                b4: block_body(&text, 4).unwrap_or("").trim_matches('\n').to_string(),
                b5: block_body(&text, 5).map(items),
            };
            judge(&mut rep, &env, &class);
            rep.case("replay", true);
        }
        return rep;
    }
    let mut rng = Rng::new(o.seed ^ 0x10);
    let n = if o.thorough() { 60_000 } else { 3_000 };
    let body = ":20:REF123\n:79:NARRATIVE LINE ONE\nLINE TWO";
    for i in 0..n {
        let b3 = if rng.below(4) > 0 {
            let mut tags: Vec<&str> = BLOCK3_TAGS.iter().filter(|_| rng.below(3) == 0).cloned().collect();
            if i % 50 == 0 { tags = BLOCK3_TAGS.to_vec(); }
            if i % 50 == 7 { tags.clear(); }      // an empty block 3: `{3:}`
            if rng.below(3) == 0 { let k = tags.len(); for a in (1..k).rev() { let b = rng.below(a + 1); tags.swap(a, b); } }
            Some(tags.iter().map(|t| (t.to_string(), tag3_value(&mut rng, t))).collect::<Vec<_>>())
        } else { None };
        let b5 = if rng.below(4) > 0 {
            let mut tags: Vec<&str> = BLOCK5_TAGS.iter().filter(|_| rng.below(3) == 0).cloned().collect();
            if i % 50 == 1 { tags = BLOCK5_TAGS.to_vec(); }
            if i % 50 == 9 { tags.clear(); }      // an empty block 5: `{5:}`
            // the trailer tags in any order (CHK need not come first)
            if rng.below(2) == 0 { let k = tags.len(); for a in (1..k).rev() { let b = rng.below(a + 1); tags.swap(a, b); } }
            Some(tags.iter().map(|t| (t.to_string(), tag5_value(&mut rng, t))).collect::<Vec<_>>())
        } else { None };
        let env = Envelope { b1: gen_b1(&mut rng), b2: gen_b2(&mut rng, "199"), b3, b4: body.to_string(), b5 };
        let shape = format!("{} {:?} {:?}", &env.b2[..1], env.b3.as_ref().map(|t| t.iter().map(|x| x.0.clone()).collect::<Vec<_>>()), env.b5.as_ref().map(|t| t.iter().map(|x| x.0.clone()).collect::<Vec<_>>()));
        rep.case(&shape, true);
        judge(&mut rep, &env, "wellformed");
        if i < 3 { rep.sample(json!({"class": "wellformed", "text": env.text()})); }
        // header round trips at the header API as well
        for (name, txt) in [("basic", env.b1.clone()), ("application", env.b2.clone())] {
            let t2 = txt.clone();
            let r = std::panic::catch_unwind(move || if name == "basic" { BasicHeader::parse(&t2).map(|h| h.to_string()) } else { ApplicationHeader::parse(&t2).map(|h| h.to_string()) });
            match r {
                Ok(Ok(s)) if s == txt => {}
                Ok(Ok(s)) => rep.fail(&format!("block_changed|{name}-header|display"), json!({"input": txt, "display": s})),
                Ok(Err(_)) => rep.fail(&format!("reject_valid|{name}-header|parse"), json!({"input": txt})),
                Err(_) => rep.fail(&format!("panic|{name}-header|parse"), json!({"input": txt})),
            }
            // model correspondence line
            let t3 = txt.clone();
            let out = match std::panic::catch_unwind(move || if name == "basic" { BasicHeader::parse(&t3).map(|h| h.to_string()) } else { ApplicationHeader::parse(&t3).map(|h| h.to_string()) }) {
                Ok(Ok(s)) => format!("ok {}", crate::extract::h(&s)), Ok(Err(_)) => "err".into(), Err(_) => "panic".into() };
            rep.model(format!("hdr {name} {}", crate::extract::h(&txt)), out);
        }
        // an output header whose 47th character is not one of the documented priorities U / N / S, an input header with an odd
        // priority letter: rejected, or kept as written
        if i % 5 == 2 {
            let odd = *rng.pick(&['X', 'A', 'Z', '1', 'n', ' ']);
            let mut b2: String = if env.b2.starts_with('O') { env.b2.chars().take(46).collect() } else { env.b2.chars().take(16).collect() };
            b2.push(odd);
            let e = Envelope { b1: env.b1.clone(), b2: b2.clone(), b3: None, b4: body.to_string(), b5: None };
            expect_reject_or_verbatim(&mut rep, &e.text(), &b2, if b2.starts_with('O') { "b2-O-odd-priority" } else { "b2-I-odd-priority" });
        }
        // near misses: must be rejected, not partly read
        if i % 3 == 0 {
            let good = Envelope { b1: env.b1.clone(), b2: env.b2.clone(), b3: None, b4: body.to_string(), b5: None };
            let mut bad = Envelope { ..Envelope { b1: good.b1.clone(), b2: good.b2.clone(), b3: None, b4: good.b4.clone(), b5: None } };
            match rng.below(8) {
                0 => { bad.b1.push('0'); expect_reject(&mut rep, &bad.text(), "b1-len+1"); }
                1 => { bad.b1.pop(); expect_reject(&mut rep, &bad.text(), "b1-len-1"); }
                2 => { bad.b2.replace_range(0..1, "X"); expect_reject(&mut rep, &bad.text(), "b2-direction"); }
                3 => { bad.b2.replace_range(0..1, if bad.b2.starts_with('I') { "i" } else { "o" }); expect_reject(&mut rep, &bad.text(), "b2-lowercase-direction"); }
                4 => { if bad.b2.starts_with('I') { if rng.below(4) == 0 { let mut s: String = bad.b2.chars().take(17).collect(); s.push(*rng.pick(&['-', ' ', '*'])); bad.b2 = s; expect_reject(&mut rep, &bad.text(), "b2-I-monitoring-not-a-code"); continue; } let l = *rng.pick(&[18usize, 19, 20, 22, 23]); let mut s: String = bad.b2.chars().take(17).collect(); while s.len() < l { s.push(*rng.pick(&['1', '2', '0'])); } bad.b2 = s; let c = format!("b2-I-len{l}"); if l == 18 { /* monitoring only: documented */ } else { expect_reject(&mut rep, &bad.text(), &c); } } }
                5 => { if bad.b2.starts_with('O') { let mut s: String = bad.b2.chars().take(46).collect(); s.push('N'); s.push_str("XY"); bad.b2 = s; expect_reject(&mut rep, &bad.text(), "b2-O-len49"); } }
                6 => { if bad.b2.starts_with('O') { bad.b2.truncate(45); expect_reject(&mut rep, &bad.text(), "b2-O-len45"); } else { bad.b2.truncate(16); expect_reject(&mut rep, &bad.text(), "b2-I-len16"); } }
                _ => { let p = rng.below(bad.b1.len()); bad.b1.replace_range(p..p + 1, "\u{e9}"); expect_reject(&mut rep, &bad.text(), "b1-non-ascii"); }
            }
        }
        // structure independence: characters inside values must not move block boundaries
        if i % 4 == 1 {
            let tricky_body = *rng.pick(&[":20:REF123\n:79:TEXT WITH -} INSIDE\nLINE TWO", ":20:REF123\n:79:BRACES {5:{CHK:000000000000}} IN TEXT", ":20:REF123\n:79:A {1:F01FAKEFAKEFAKE0000000000} B", ":20:REF123\n:79:LINE\n-TRAILING DASH LINE"]);
            let e2 = Envelope { b1: env.b1.clone(), b2: env.b2.clone(), b3: Some(vec![("108".into(), "MUR123".into())]), b4: tricky_body.to_string(), b5: Some(vec![("CHK".into(), Some("123456789ABC".into()))]) };
            let class = if tricky_body.contains("-}") { "b4-contains-end-marker" } else if tricky_body.contains("{5:") { "b4-contains-block5-marker" } else if tricky_body.contains("{1:") { "b4-contains-block1-marker" } else { "b4-dash-line" };
            rep.case(&format!("structure {class} {i}"), true);
            judge(&mut rep, &e2, class);
            let e3 = Envelope { b1: env.b1.clone(), b2: env.b2.clone(), b3: Some(vec![("108".into(), "A{119:STP".into()), ("121".into(), "x".into())]), b4: body.to_string(), b5: None };
            let _ = e3; // brace-bearing tag values are outside the documented value syntax; not judged
        }
    }
    let _ = (Trailer::default(), UserHeader::default());
    rep
}
