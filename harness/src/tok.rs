//! Independent block-4 tokeniser (does not use the library): a field starts at a line of the form
//! `:NN[A]:` (two digits, optional upper-case letter); its content runs to the next such line or to
//! the end-of-block line (`-` / `-}`).  Line endings are normalised to `\n`.
#[derive(Debug, Clone, PartialEq)]
pub struct Chunk {
    pub tag: String,
    pub content: String,
}

pub fn field_start(line: &str) -> Option<(String, &str)> {
    let b = line.as_bytes();
    if b.len() >= 4 && b[0] == b':' && b[1].is_ascii_digit() && b[2].is_ascii_digit() {
        if b[3] == b':' {
            return Some((line[1..3].to_string(), &line[4..]));
        }
        if b.len() >= 5 && b[3].is_ascii_uppercase() && b[4] == b':' {
            return Some((line[1..4].to_string(), &line[5..]));
        }
    }
    None
}

/// Returns (chunks, leading garbage before the first field, trailing text after the end marker)
pub fn tokenise(text: &str) -> (Vec<Chunk>, String, String) {
    let norm = text.replace("\r\n", "\n");
    let mut chunks: Vec<Chunk> = Vec::new();
    let mut lead = String::new();
    let mut trail = String::new();
    let mut ended = false;
    for line in norm.split('\n') {
        if ended {
            if !line.trim().is_empty() {
                trail.push_str(line);
                trail.push('\n');
            }
            continue;
        }
        if line == "-" || line == "-}" {
            ended = true;
            continue;
        }
        if let Some((tag, rest)) = field_start(line) {
            chunks.push(Chunk { tag, content: rest.to_string() });
        } else if let Some(last) = chunks.last_mut() {
            last.content.push('\n');
            last.content.push_str(line);
        } else if !line.trim().is_empty() {
            lead.push_str(line);
            lead.push('\n');
        }
    }
    for c in chunks.iter_mut() {
        while c.content.ends_with('\n') || c.content.ends_with('\r') {
            c.content.pop();
        }
    }
    (chunks, lead, trail)
}

pub fn render(chunks: &[Chunk], eol: &str, terminator: bool) -> String {
    let mut s = String::new();
    for c in chunks {
        s.push(':');
        s.push_str(&c.tag);
        s.push(':');
        s.push_str(&c.content.replace('\n', eol));
        s.push_str(eol);
    }
    if terminator {
        s.push('-');
    }
    s
}

/// "Equal up to the library's canonical formatting of numbers and line endings": CRs dropped, trailing
/// white space of lines dropped, and every decimal number compared by value (leading zeros, trailing
/// fraction zeros and a trailing comma ignored).
pub fn canon(content: &str) -> String {
    let s = content.replace('\r', "");
    let mut out = String::new();
    let cs: Vec<char> = s.chars().collect();
    let mut i = 0;
    while i < cs.len() {
        if cs[i].is_ascii_digit() {
            let mut j = i;
            while j < cs.len() && cs[j].is_ascii_digit() {
                j += 1;
            }
            let int: String = cs[i..j].iter().collect();
            let mut frac = String::new();
            let mut k = j;
            if k < cs.len() && cs[k] == ',' {
                let mut m = k + 1;
                while m < cs.len() && cs[m].is_ascii_digit() {
                    m += 1;
                }
                frac = cs[k + 1..m].iter().collect();
                k = m;
            }
            let int_t = int.trim_start_matches('0');
            out.push_str(if int_t.is_empty() { "0" } else { int_t });
            let frac_t = frac.trim_end_matches('0');
            if !frac_t.is_empty() {
                out.push(',');
                out.push_str(frac_t);
            }
            i = k;
        } else {
            out.push(cs[i]);
            i += 1;
        }
    }
    out.lines().map(|l| l.trim_end()).collect::<Vec<_>>().join("\n")
}
