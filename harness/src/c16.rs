//! C16 — the field-map tokeniser and sequential consumption lose and reorder nothing.
use crate::extract::h;
use crate::report::{Report, hex};
use crate::rng::Rng;
use crate::{Opts, mgen, tok};
use serde_json::{Value, json};
use std::collections::HashMap;
use swift_mt_message::parser::{FieldConsumptionTracker, SequenceConfig, find_field_with_variant_sequential_constrained, get_sequence_config, parse_block4_fields, split_into_sequences};

const PRESERVED: &[&str] = &["11", "13", "21", "23", "25", "26", "28", "32", "33", "34", "37", "50", "51", "52", "53", "54", "55", "56", "57", "58", "59", "60", "62", "71", "77", "90"];

/// documented normalisation: the option letter is dropped unless the field number is in the documented list
fn spec_normalise(tag: &str) -> String {
    let num: String = tag.chars().take_while(|c| c.is_ascii_digit()).collect();
    let suf = &tag[num.len()..];
    if suf.is_empty() || PRESERVED.contains(&num.as_str()) || !suf.chars().all(|c| c.is_ascii_uppercase()) { tag.to_string() } else { num }
}

fn canon_map(m: &HashMap<String, Vec<(String, usize)>>) -> String {
    let mut keys: Vec<&String> = m.keys().collect();
    keys.sort();
    keys.iter().map(|k| format!("{}={}", h(k), m[*k].iter().map(|(v, p)| format!("{}@{}", h(v), p)).collect::<Vec<_>>().join(","))).collect::<Vec<_>>().join(";")
}

fn judge_tokens(rep: &mut Report, text: &str, class: &str, wellformed: bool) {
    judge_tokens_with(rep, text, class, wellformed, None)
}

/// `expected`: the fields the text was rendered from, when the independent tokeniser's tag shapes (`NN`, `NNA`) do not
/// cover the tags used (numbered tags `50#1`, which the library documents as tags it keeps whole)
fn judge_tokens_with(rep: &mut Report, text: &str, class: &str, wellformed: bool, expected: Option<&[tok::Chunk]>) {
    let t2 = text.to_string();
    let r = std::panic::catch_unwind(move || parse_block4_fields(&t2));
    let out = match &r {
        Ok(Ok(m)) => format!("ok {}", if m.is_empty() { "-".to_string() } else { canon_map(m) }),
        Ok(Err(_)) => "err".to_string(),
        Err(_) => "panic".to_string(),
    };
    if text.is_ascii() {
        rep.model(format!("tok {}", h(text)), out.clone());
    }
    rep.case(&format!("tok {class} {text}"), wellformed);
    let w = |why: &str, extra: Value| json!({"class": class, "why": why, "input_hex": hex(text), "detail": extra});
    match r {
        Err(_) => rep.fail(&format!("panic|parse_block4_fields|{class}"), w("panic", json!(null))),
        Ok(Err(_)) => { if wellformed { rep.fail(&format!("reject_valid|parse_block4_fields|{class}"), w("a well-formed text block was rejected", json!(null))); } }
        Ok(Ok(m)) => {
            if !wellformed { return; }
            let (chunks, _, _) = match expected { Some(e) => (e.to_vec(), String::new(), String::new()), None => tok::tokenise(text) };
            // flatten the map back to input order by stamp
            let mut flat: Vec<(String, String, usize)> = m.iter().flat_map(|(k, v)| v.iter().map(move |(val, p)| (k.clone(), val.clone(), *p))).collect();
            flat.sort_by_key(|x| x.2);
            let want: Vec<(String, String)> = chunks.iter().map(|c| (spec_normalise(&c.tag), c.content.trim().to_string())).collect();
            let got: Vec<(String, String)> = flat.iter().map(|x| (x.0.clone(), x.1.replace("\r\n", "\n"))).collect();
            if got != want {
                let kind = if got.len() < want.len() { "field_lost" } else if got.len() > want.len() { "field_invented" } else { "field_changed" };
                rep.fail(&format!("{kind}|parse_block4_fields|{class}"), w("the map does not contain exactly the fields of the text, in order", json!({"want": want, "got": got})));
            }
            let stamps: Vec<usize> = flat.iter().map(|x| x.2).collect();
            if stamps.windows(2).any(|p| p[0] >= p[1]) {
                rep.fail(&format!("stamps_not_increasing|parse_block4_fields|{class}"), w("position stamps are not strictly increasing / distinct", json!(stamps.len())));
            }
            // within each tag the vector is in input order
            for (k, v) in m.iter() {
                if v.windows(2).any(|p| p[0].1 >= p[1].1) {
                    rep.fail(&format!("tag_order|parse_block4_fields|{class}"), w("occurrences under one tag are not in input order", json!(k)));
                }
            }
        }
    }
}

fn judge_tracker(rep: &mut Report, rng: &mut Rng) {
    // values under 3 tags with distinct increasing stamps; a random request history
    let tags = ["20", "61", "50K"];
    let mut fields: HashMap<String, Vec<(String, usize)>> = HashMap::new();
    let mut stamp = 65536;
    for t in tags {
        let n = rng.range(0, 5);
        for i in 0..n {
            stamp += rng.range(1, 3);
            fields.entry(t.to_string()).or_default().push((format!("V{t}{i}"), stamp));
        }
    }
    let nreq = rng.range(1, 14);
    let reqs: Vec<(u8, &str, usize)> = (0..nreq).map(|_| (rng.below(3) as u8, *rng.pick(&tags), 65536 + rng.below(14))).collect();
    let mut tracker = FieldConsumptionTracker::new();
    let empty: Vec<(String, usize)> = Vec::new();
    let mut outs = Vec::new();
    let mut served: HashMap<&str, Vec<usize>> = HashMap::new();
    let mut req_str = String::new();
    for (k, t, p) in &reqs {
        let vals = fields.get(*t).unwrap_or(&empty);
        match k {
            0 | 1 => {
                // next + mark (what every caller does)
                let r = tracker.get_next_available(t, vals).map(|(v, p)| (v.to_string(), p));
                if let Some((_, p)) = &r { tracker.mark_consumed(t, *p); served.entry(t).or_default().push(*p); }
                outs.push(r.map(|(v, p)| format!("{}@{p}", h(&v))).unwrap_or("none".into()));
                req_str.push_str(&format!(" n:{}", h(t)));
            }
            _ => {
                tracker.mark_consumed(t, *p);
                outs.push("ok".into());
                req_str.push_str(&format!(" m:{}:{p}", h(t)));
            }
        }
    }
    let vals_str = tags.iter().map(|t| format!("{}={}", h(t), fields.get(*t).map(|v| v.iter().map(|(s, p)| format!("{}@{p}", h(s))).collect::<Vec<_>>().join(",")).filter(|s| !s.is_empty()).unwrap_or("-".into()))).collect::<Vec<_>>().join(";");
    rep.model(format!("trk {vals_str}{req_str}"), outs.join(";"));
    rep.case(&format!("trk {vals_str}{req_str}"), true);
    // oracle: each occurrence at most once, in input order, per tag
    for (t, ps) in served {
        let mut sorted = ps.clone();
        sorted.sort();
        sorted.dedup();
        if sorted.len() != ps.len() || sorted != ps {
            rep.fail("tracker|get_next_available|twice-or-out-of-order", json!({"tag": t, "served": ps, "values": vals_str, "requests": req_str}));
        }
    }
}

fn judge_finder(rep: &mut Report, fields: &HashMap<String, Vec<(String, usize)>>, base: &str) {
    // repeated unconstrained requests for one base tag must return every occurrence of base / base+letter exactly once
    let mut tracker = FieldConsumptionTracker::new();
    let mut got: Vec<usize> = Vec::new();
    for _ in 0..200 {
        match find_field_with_variant_sequential_constrained(fields, base, &mut tracker, None) {
            Some((_, _, p)) => got.push(p),
            None => break,
        }
    }
    let mut want: Vec<usize> = fields.iter().filter(|(k, _)| k.as_str() == base || (k.starts_with(base) && k.len() == base.len() + 1 && k.chars().last().unwrap().is_ascii_uppercase())).flat_map(|(_, v)| v.iter().map(|x| x.1)).collect();
    want.sort();
    let mut g2 = got.clone();
    g2.sort();
    rep.case(&format!("finder {base} {want:?}"), !want.is_empty());
    if g2 != want {
        rep.fail("finder|sequential_constrained|lost-or-twice", json!({"base": base, "returned": got, "occurrences": want}));
    } else {
        // exact-tag occurrences first, then the lettered ones; each group in input order
        let exact: Vec<usize> = fields.get(base).map(|v| v.iter().map(|x| x.1).collect()).unwrap_or_default();
        let (a, b) = got.split_at(exact.len().min(got.len()));
        if a.windows(2).any(|p| p[0] > p[1]) || b.windows(2).any(|p| p[0] > p[1]) {
            rep.fail("finder|sequential_constrained|out-of-order", json!({"base": base, "returned": got}));
        }
    }
}

/// requests constrained to a set of option letters (what the option-family parsers do): every occurrence of
/// `base` / `base`+allowed letter is returned exactly once; the exact-tag ones first, then the lettered ones in input order
fn judge_finder_constrained(rep: &mut Report, fields: &HashMap<String, Vec<(String, usize)>>, base: &str, letters: &[&str]) {
    let mut tracker = FieldConsumptionTracker::new();
    let mut got: Vec<usize> = Vec::new();
    for _ in 0..200 {
        match find_field_with_variant_sequential_constrained(fields, base, &mut tracker, Some(letters)) {
            Some((_, _, p)) => got.push(p),
            None => break,
        }
    }
    let exact: Vec<usize> = fields.get(base).map(|v| v.iter().map(|x| x.1).collect()).unwrap_or_default();
    let mut lettered: Vec<usize> = fields.iter().filter(|(k, _)| k.starts_with(base) && k.len() == base.len() + 1 && letters.contains(&&k[base.len()..]))
        .flat_map(|(_, v)| v.iter().map(|x| x.1)).collect();
    lettered.sort();
    let mut want = exact.clone();
    want.sort();
    want.extend(lettered.iter());
    rep.case(&format!("finderc {base} {letters:?} {want:?}"), !want.is_empty());
    if got != want {
        let mut g2 = got.clone();
        g2.sort();
        let mut w2 = want.clone();
        w2.sort();
        let kind = if g2 != w2 { "lost-or-twice" } else { "out-of-order" };
        rep.fail(&format!("finder|sequential_constrained|constrained-{kind}"), json!({"base": base, "letters": letters, "returned": got, "expected": want, "fields": canon_map(fields)}));
    }
}

fn judge_split(rep: &mut Report, fields: &HashMap<String, Vec<(String, usize)>>, cfg_name: &str, cfg: &SequenceConfig) {
    let r = std::panic::catch_unwind(|| split_into_sequences(fields, cfg));
    rep.case(&format!("split {cfg_name} {}", canon_map(fields)), true);
    match r {
        Err(_) => rep.fail(&format!("panic|split_into_sequences|{cfg_name}"), json!({"fields": canon_map(fields)})),
        Ok(Err(_)) => rep.fail(&format!("split|error|{cfg_name}"), json!({"fields": canon_map(fields)})),
        Ok(Ok(s)) => {
            let mut all: Vec<(String, String, usize)> = Vec::new();
            for m in [&s.sequence_a, &s.sequence_b, &s.sequence_c] {
                for (k, v) in m.iter() { for (val, p) in v { all.push((k.clone(), val.clone(), *p)); } }
            }
            let mut want: Vec<(String, String, usize)> = fields.iter().flat_map(|(k, v)| v.iter().map(move |(val, p)| (k.clone(), val.clone(), *p))).collect();
            all.sort();
            want.sort();
            if all != want {
                rep.fail(&format!("split|not-a-partition|{cfg_name}"), json!({"fields": canon_map(fields), "a": canon_map(&s.sequence_a), "b": canon_map(&s.sequence_b), "c": canon_map(&s.sequence_c)}));
            }
        }
    }
}

pub fn run(o: &Opts) -> Report {
    let mut rep = Report::new("C16");
    if let Some(path) = &o.replay {
        let r: Value = serde_json::from_str(&std::fs::read_to_string(path).unwrap_or_default()).unwrap_or(json!({}));
        let w = &r["witness"];
        let text = crate::report::unhex(w["input_hex"].as_str().unwrap_or(""));
        let class = w["class"].as_str().unwrap_or("replay").to_string();
        judge_tokens(&mut rep, &text, &class, true);
        return rep;
    }
    let mut rng = Rng::new(o.seed ^ 0x16);
    let grammars = mgen::load_grammars();
    let pool = mgen::build_pool(if o.thorough() { 4 } else { 1 });
    let per_type = if o.thorough() { 400 } else { 25 };
    let configs: Vec<(String, SequenceConfig)> = ["MT101", "MT104", "MT107", "MT110", "MT204", "MT999"].iter().map(|n| (n.to_string(), get_sequence_config(n)))
        .chain([("m23".to_string(), SequenceConfig { sequence_b_marker: "23".into(), sequence_c_fields: vec![], has_sequence_c: false }),
                ("m61".to_string(), SequenceConfig { sequence_b_marker: "61".into(), sequence_c_fields: vec!["62".into(), "64".into(), "65".into(), "86".into()], has_sequence_c: true })]).collect();
    for (&code, g) in grammars.iter() {
        for n in 0..per_type {
            let msg = mgen::generate(code, g, &mut rng, &pool);
            let eol = if n % 4 == 3 { "\r\n" } else { "\n" };
            let text = tok::render(&msg.chunks, eol, n % 2 == 0);
            // the legacy API receives block 4 without the terminator line
            let text = match text.strip_suffix("\n-") { Some(t) => format!("{t}\n"), None => match text.strip_suffix("\r\n-") { Some(t) => format!("{t}\r\n"), None => text } };
            // contents whose line starts with ':' are outside the well-formedness hypothesis
            let wf = !msg.chunks.iter().any(|c| c.content.split('\n').skip(1).any(|l| l.starts_with(':')) || c.content.contains(':') && c.content.starts_with(':'));
            judge_tokens(&mut rep, &text, "valid", wf);
            if n < 1 { rep.sample(json!({"class": "valid", "type": code, "text": text})); }
            if let Ok(m) = parse_block4_fields(&text) {
                for base in ["50", "52", "59", "20", "61", "32"] { judge_finder(&mut rep, &m, base); }
                for (base, letters) in [("50", vec!["A", "C", "K", "L"]), ("50", vec!["C", "L"]), ("50", vec!["A", "F", "K"]), ("50", vec!["F", "G", "H"]),
                                        ("50", vec!["A", "C", "F", "G", "H", "K", "L"]), ("52", vec!["A", "D"]), ("59", vec!["A", "F"]), ("57", vec!["A", "B", "C", "D"])] {
                    judge_finder_constrained(&mut rep, &m, base, &letters);
                }
                for (name, cfg) in &configs { judge_split(&mut rep, &m, name, cfg); }
            }
            // the last field's content ends in characters that also occur in block terminators
            if n % 3 == 0 {
                for tail in ["-", " -", "--", "}", "-X-"] {
                    let mut c4 = msg.chunks.clone();
                    let last = c4.len() - 1;
                    c4[last].content.push_str(tail);
                    let t4 = tok::render(&c4, eol, false);
                    judge_tokens(&mut rep, t4.trim_end_matches(['\n', '\r']), "last-content-ends-in-dash", wf);
                    judge_tokens(&mut rep, &t4, "last-content-ends-in-dash-nl", wf);
                }
            }
            // mixed line ends: some boundaries / inner lines CRLF, the others LF (a CRLF pasted into an LF message and the reverse)
            if n % 4 == 2 && wf {
                let mut t6 = String::new();
                for c in &msg.chunks {
                    let content: String = c.content.split('\n').collect::<Vec<_>>().iter().enumerate().map(|(k, l)| if k == 0 { l.to_string() } else { format!("{}{l}", if rng.below(2) == 0 { "\r\n" } else { "\n" }) }).collect();
                    t6.push_str(&format!(":{}:{}{}", c.tag, content, if rng.below(2) == 0 { "\r\n" } else { "\n" }));
                }
                judge_tokens_with(&mut rep, &t6, "mixed-eol", true, Some(&msg.chunks));
            }
            // numbered tags (`:50#1:`, `:50#2:` — the library documents that it keeps them whole) at a non-first position
            if n % 5 == 1 && msg.chunks.len() >= 2 && wf {
                let mut c5 = msg.chunks.clone();
                let i = 1 + rng.below(c5.len() - 1);
                let num: String = c5[i].tag.chars().take_while(|c| c.is_ascii_digit()).collect();
                c5[i].tag = format!("{num}#{}", 1 + rng.below(2));
                let t5 = tok::render(&c5, eol, false);
                judge_tokens_with(&mut rep, &t5, "numbered-tag", true, Some(&c5));
            }
            // mutants: leading junk before the first field, a content line starting with ':', an empty value
            if n % 5 == 0 {
                judge_tokens(&mut rep, &format!("JUNK BEFORE\n{text}"), "leading-text", true);
                let mut c2 = msg.chunks.clone();
                let i = rng.below(c2.len());
                c2[i].content.push_str("\n:not a tag line");
                judge_tokens(&mut rep, tok::render(&c2, "\n", false).trim_end(), "colon-line-in-content", false);
                let mut c3 = msg.chunks.clone();
                let i = rng.below(c3.len());
                c3[i].content = String::new();
                judge_tokens(&mut rep, &tok::render(&c3, "\n", false), "empty-value", true);
            }
        }
    }
    // field maps with several 50a occurrences in every order of option letters (a 50K before a 50C, …)
    for _ in 0..(if o.thorough() { 4000 } else { 400 }) {
        let n = rng.range(2, 6);
        let mut m: HashMap<String, Vec<(String, usize)>> = HashMap::new();
        let mut stamp = 65536;
        for i in 0..n {
            stamp += rng.range(1, 4);
            let l = *rng.pick(&["A", "C", "F", "G", "H", "K", "L"]);
            m.entry(format!("50{l}")).or_default().push((format!("V{i}"), stamp));
        }
        for letters in [vec!["A", "C", "K", "L"], vec!["A", "C", "F", "G", "H", "K", "L"], vec!["C", "L"], vec!["A", "F", "K"], vec!["A", "K"], vec!["F", "G", "H"]] {
            judge_finder_constrained(&mut rep, &m, "50", &letters);
        }
    }
    for _ in 0..(if o.thorough() { 20000 } else { 1500 }) {
        judge_tracker(&mut rep, &mut rng);
    }
    // 65536+ fields: the low 16 bits of the stamp wrap
    if o.thorough() {
        let big: String = (0..66000).map(|i| format!(":20:R{i}\n")).collect();
        judge_tokens(&mut rep, &big, "over-65535-fields", true);
    }
    rep
}
