//! C06 — monetary amounts and rates: decimals only, preserved exactly (MT and JSON).
use crate::c11::probe_generic;
use crate::report::{Report, hex};
use crate::rng::Rng;
use crate::Opts;
use serde_json::{Value, json};

/// (field, prefix before the currency, has currency, suffix after the amount, length limit of the amount/rate)
pub const AMOUNT_FIELDS: &[(&str, &str, bool, &str, usize)] = &[
    ("19", "", false, "", 17), ("32A", "240315", true, "", 15), ("32B", "", true, "", 15), ("32C", "240315", true, "", 15),
    ("32D", "240315", true, "", 15), ("33B", "", true, "", 15), ("34F", "", true, "", 15), ("34Fd", "", true, "", 15),
    ("36", "", false, "", 12), ("37H", "C", false, "", 12), ("37Hn", "DN", false, "", 12),
    ("60F", "C240315", true, "", 15), ("60M", "D240315", true, "", 15), ("62F", "C240315", true, "", 15), ("62M", "D240315", true, "", 15),
    ("64", "C240315", true, "", 15), ("65", "D240315", true, "", 15), ("61", "240315C", false, "NTRFREF", 15),
    ("71F", "", true, "", 15), ("71G", "", true, "", 15), ("90C", "5", true, "", 15), ("90D", "12345", true, "", 15),
];

pub const ISO4217: &[&str] = &["AED","AFN","ALL","AMD","ANG","AOA","ARS","AUD","AWG","AZN","BAM","BBD","BDT","BGN","BHD","BIF","BMD","BND","BOB","BRL","BSD","BTN","BWP","BYN","BZD","CAD","CDF","CHF","CLF","CLP","CNY","COP","CRC","CUP","CVE","CZK","DJF","DKK","DOP","DZD","EGP","ERN","ETB","EUR","FJD","FKP","GBP","GEL","GHS","GIP","GMD","GNF","GTQ","GYD","HKD","HNL","HTG","HUF","IDR","ILS","INR","IQD","IRR","ISK","JMD","JOD","JPY","KES","KGS","KHR","KMF","KPW","KRW","KWD","KYD","KZT","LAK","LBP","LKR","LRD","LSL","LYD","MAD","MDL","MGA","MKD","MMK","MNT","MOP","MRU","MUR","MVR","MWK","MXN","MYR","MZN","NAD","NGN","NIO","NOK","NPR","NZD","OMR","PAB","PEN","PGK","PHP","PKR","PLN","PYG","QAR","RON","RSD","RUB","RWF","SAR","SBD","SCR","SDG","SEK","SGD","SHP","SLE","SOS","SRD","SSP","STN","SYP","SZL","THB","TJS","TMT","TND","TOP","TRY","TTD","TWD","TZS","UAH","UGX","USD","UYI","UYU","UYW","UZS","VES","VND","VUV","WST","XAF","XCD","XOF","XPF","YER","ZAR","ZMW","ZWL"];

/// ISO-4217 minor units (independent table, not read from the library)
pub fn iso_decimals(c: &str) -> usize {
    match c {
        "BIF" | "CLP" | "DJF" | "GNF" | "ISK" | "JPY" | "KMF" | "KRW" | "PYG" | "RWF" | "UGX" | "UYI" | "VND" | "VUV" | "XAF" | "XOF" | "XPF" => 0,
        "BHD" | "IQD" | "JOD" | "KWD" | "LYD" | "OMR" | "TND" => 3,
        "CLF" | "UYW" => 4,
        _ => 2,
    }
}

fn field_name(f: &str) -> &str {
    f.trim_end_matches(|c: char| c.is_ascii_lowercase())
}

fn plain_decimal(a: &str) -> bool {
    let b = a.as_bytes();
    let mut i = 0;
    while i < b.len() && b[i].is_ascii_digit() {
        i += 1;
    }
    if i == 0 {
        return false;
    }
    if i == b.len() {
        return true;
    }
    if b[i] != b',' && b[i] != b'.' {
        return false;
    }
    b[i + 1..].iter().all(|c| c.is_ascii_digit())
}

fn decimals_of(a: &str) -> usize {
    match a.find([',', '.']) {
        Some(p) => a.len() - p - 1,
        None => 0,
    }
}

/// canonical decimal of a plain decimal string: no leading zeros, no trailing fraction zeros
fn canon_dec(a: &str) -> String {
    let a = a.replace('.', ",");
    let (i, f) = a.split_once(',').unwrap_or((&a, ""));
    let i = i.trim_start_matches('0');
    let f = f.trim_end_matches('0');
    format!("{}{}{}", if i.is_empty() { "0" } else { i }, if f.is_empty() { "" } else { "," }, f)
}

fn json_numbers(v: &Value, out: &mut Vec<String>, bad: &mut Vec<String>) {
    match v {
        Value::Number(n) => out.push(n.to_string()),
        Value::Array(a) => a.iter().for_each(|x| json_numbers(x, out, bad)),
        Value::Object(m) => m.iter().for_each(|(k, x)| if k == "amount" || k == "rate" { match x { Value::Number(n) => out.push(n.to_string()), other => bad.push(other.to_string()) } } else { json_numbers(x, out, bad) }),
        _ => {}
    }
}

pub fn check(rep: &mut Report, f: &(&str, &str, bool, &str, usize), ccy: &str, a: &str) {
    let (fname, pre, has_ccy, suf, limit) = *f;
    let name = field_name(fname);
    let ind = if fname == "34Fd" { "D" } else { "" };
    let content = format!("{pre}{}{ind}{a}{suf}", if has_ccy { ccy } else { "" });
    let p = probe_generic(name, &content);
    let plain = plain_decimal(a);
    let prec = if has_ccy { Some(iso_decimals(ccy)) } else { None };
    let sig_dec = if plain { canon_dec(a).split_once(',').map(|x| x.1.len()).unwrap_or(0) } else { 0 };
    let zero = plain && canon_dec(a) == "0";
    // length as the format counts it: trailing fraction zeros (serialiser padding) are not significant
    let sig_len = if a.contains([',', '.']) { a.trim_end_matches('0').trim_end_matches([',', '.']).len() } else { a.len() };
    let commodity = ["XAU", "XAG", "XPD", "XPT"].contains(&ccy);
    // field 61 has no delimiter after its amount: characters that cannot belong to an amount end it (C05's business)
    if name == "61" && !a.bytes().all(|b| b.is_ascii_digit() || b == b',' || b == b'.') {
        return;
    }
    rep.case(&format!("{fname} {ccy} {a}"), plain || p.accepted);
    // model lines (exact-decimal region only): the currency-aware primitive through 32B, the plain one through 19
    // exact-decimal region: what has to be printed (integer digits + the larger of written / currency decimals) fits in 15 digits
    let int_d = a.bytes().take_while(|b| b.is_ascii_digit()).count();
    let exact = int_d + decimals_of(a).max(if has_ccy { iso_decimals(ccy) } else { 2 }) <= 15;
    if fname == "32B" && !commodity && ccy.bytes().all(|b| b.is_ascii_uppercase()) && a.is_ascii() && !a.is_empty() {
        let out = if p.panicked { "panic".to_string() } else if p.accepted {
            let ser = p.ser.clone().unwrap_or_default();
            format!("some {}", crate::extract::h(ser.trim_start_matches(":32B:").trim_start_matches(ccy)))
        } else if zero { "#skip".to_string() } else { "none".to_string() };
        rep.model(format!("amtccy {} {}", crate::extract::h(a), crate::extract::h(ccy)), if exact { out } else { "#skip".into() });
    }
    if fname == "19" && a.is_ascii() && !a.is_empty() {
        rep.model(format!("amtlen {} 17", crate::extract::h(a)), if p.panicked { "panic".into() } else if !exact { "#skip".into() } else if p.accepted { let d = if plain { let c = a.replace('.', ","); let (i, f) = c.split_once(',').unwrap_or((&c, "")); format!("some {} {}", format!("{i}{f}").trim_start_matches('0').parse::<u64>().unwrap_or(0), f.len()) } else { "some ? ?".into() }; d } else { "none".into() });
    }
    let w = |why: &str| json!({"field": fname, "currency": ccy, "amount": a, "content_hex": hex(&content), "why": why});
    if p.panicked {
        rep.fail(&format!("panic|Field{name}|amount"), w("panic"));
        return;
    }
    if p.accepted {
        rep.tally("accepted");
        if !plain {
            let class = if a.to_ascii_lowercase().contains("nan") { "nan" } else if a.to_ascii_lowercase().contains("inf") { "inf" } else if a.contains(['e', 'E']) { "exponent" } else if a.starts_with(['+', '-']) { "sign" } else if a.starts_with([',', '.']) { "leading-separator" } else { "other" };
            rep.fail(&format!("accept_invalid|Field{name}|{class}"), w("accepted an amount that is not digits with a single decimal separator"));
            return;
        }
        if sig_len > limit {
            rep.fail(&format!("accept_invalid|Field{name}|too-long"), w("amount longer than the field's length limit"));
        }
        if let Some(pr) = prec {
            if sig_dec > pr {
                rep.fail(&format!("accept_invalid|Field{name}|decimals>{pr}"), w("more decimals than the currency allows"));
            }
        }
        // value preserved in MT: the serialised amount denotes the same decimal
        let ser = p.ser.clone().unwrap_or_default();
        let body = ser.splitn(3, ':').nth(2).unwrap_or("");
        let after = body.strip_prefix(pre).unwrap_or(body);
        let after = if has_ccy { after.strip_prefix(ccy).unwrap_or(after) } else { after };
        let after = after.strip_prefix(ind).unwrap_or(after);
        let out_amt: String = after.chars().take_while(|c| c.is_ascii_digit() || *c == ',').collect();
        let digits = canon_dec(a).replace(',', "").trim_start_matches('0').len();
        let int_digits = canon_dec(a).split(',').next().unwrap().trim_start_matches('0').len();
        let printed_dec = decimals_of(&out_amt);
        if !plain_decimal(&out_amt) || canon_dec(&out_amt) != canon_dec(a) {
            // a whole number below 10^15 (< 2^53) is held exactly by an f64 and printed exactly by {:.N}: a change there is not the representation limit
            let exactly_held = sig_dec == 0 && digits <= 15;
            // the decimals that HAVE to be printed (the currency's / two for 19 and 61 / four for 37H / as written), not the ones
            // the serialiser happened to print: a serialiser that prints too many must not talk itself into the f64 excuse
            let due_dec = if name == "36" { sig_dec } else if name.starts_with("37") { sig_dec.max(4) } else { sig_dec.max(prec.unwrap_or(2)) };
            let _ = printed_dec;
            let class = if exactly_held { "whole-number".to_string() } else if digits > 15 || int_digits + due_dec > 15 { "f64-precision".to_string() } else if name == "36" { "rate-format".into() } else { format!("decimals={}", sig_dec.min(6)) };
            rep.fail(&format!("value_changed|Field{name}|{class}"), json!({"field": fname, "currency": ccy, "amount": a, "content_hex": hex(&content), "serialised": ser, "why": "serialising changes the numeric value"}));
        } else if p.reparse_same != Some(true) {
            rep.fail(&format!("unstable_roundtrip|Field{name}|amount"), w("re-parsing the serialised field gives another value"));
        }
        // JSON: finite number equal to the decimal
        if let Some(j) = &p.json {
            let mut nums = Vec::new();
            let mut bad = Vec::new();
            json_numbers(j, &mut nums, &mut bad);
            if !bad.is_empty() {
                rep.fail(&format!("json_mismatch|Field{name}|non-number"), json!({"field": fname, "amount": a, "content_hex": hex(&content), "json": j}));
            } else if digits <= 15 && !nums.iter().any(|n| { let n = if n.contains('e') { format!("{}", n.parse::<f64>().unwrap_or(f64::NAN)) } else { n.clone() }; plain_decimal(&n) && canon_dec(&n) == canon_dec(a) }) && !(name.starts_with("37") ) {
                rep.fail(&format!("json_mismatch|Field{name}|value"), json!({"field": fname, "amount": a, "content_hex": hex(&content), "json": j}));
            }
            if p.json_rt_same != Some(true) {
                rep.fail(&format!("json_mismatch|Field{name}|roundtrip"), json!({"field": fname, "amount": a, "content_hex": hex(&content), "json": j}));
            }
        }
    } else if plain && sig_len <= limit && !zero && decimals_of(a) <= prec.unwrap_or(99) && !commodity {
        // a decimal the format permits (rates: field 36 additionally documents a plausibility range)
        if name == "36" {
            let v: f64 = a.replace(',', ".").parse().unwrap_or(0.0);
            if !(0.0001..=100000.0).contains(&v) {
                return;
            }
        }
        let digits = canon_dec(a).replace(',', "").trim_start_matches('0').len();
        let class = if digits > 15 { "f64-precision" } else if canon_dec(a).split(',').next().unwrap().len() >= 7 && sig_dec > 0 { "large-with-decimals" } else { "other" };
        rep.fail(&format!("reject_valid|Field{name}|{class}"), w("a decimal within the field's length limit and the currency's precision was rejected"));
    }
}

pub fn run(o: &Opts) -> Report {
    let mut rep = Report::new("C06");
    if let Some(path) = &o.replay {
        let r: Value = serde_json::from_str(&std::fs::read_to_string(path).unwrap_or_default()).unwrap_or(json!({}));
        let w = &r["witness"];
        if let Some(f) = AMOUNT_FIELDS.iter().find(|f| Some(f.0) == w["field"].as_str()) {
            check(&mut rep, f, w["currency"].as_str().unwrap_or("USD"), w["amount"].as_str().unwrap_or(""));
        }
        return rep;
    }
    let mut rng = Rng::new(o.seed ^ 0x06);
    let spellings = ["NaN", "nan", "NAN", "inf", "INF", "Inf", "infinity", "+inf", "-inf", "1e3", "1E3", "1e-2", "1,5e2", "+1", "-1", "+1,00", "-0", ",5", ".5", ",", ".", "1.5", "1,5", "1,", "1.", "1,,5", "1,5,0", "1 000", " 1", "1 ", "1_000", "0x10", "١٢", "1\u{e9}", "", "00001,50", "0", "0,00", "1,2,3"];
    let ccys: Vec<&str> = if o.thorough() {
        let mut v: Vec<&str> = ISO4217.to_vec();
        v.extend(["XAU", "XAG", "XPD", "XPT", "ABC", "ZZZ", "QQQ"]);
        v
    } else {
        vec!["USD", "EUR", "JPY", "KWD", "CLF", "BHD", "KRW", "UYW", "GBP", "XAU", "ABC", *rng.pick(ISO4217), *rng.pick(ISO4217), *rng.pick(ISO4217)]
    };
    for f in AMOUNT_FIELDS {
        for (ci, ccy) in ccys.iter().enumerate() {
            if !f.2 && ci > 0 {
                break; // no currency in this field
            }
            for s in spellings {
                check(&mut rep, f, ccy, s);
            }
            // rates (12d, no currency): up to ten decimals behind a short integer part
            if f.0 == "36" {
                for dec in 6..=12usize {
                    for int in ["0", "1", "7", "12", "99999"] {
                        // up to one character beyond 12d (13 characters: must be refused, the separator counts)
                        if int.len() + 1 + dec > 13 { continue; }
                        let frac: String = (0..dec).map(|k| if k + 1 == dec { char::from(b'1' + rng.below(9) as u8) } else { char::from(b'0' + rng.below(10) as u8) }).collect();
                        check(&mut rep, f, ccy, &format!("{int},{frac}"));
                    }
                }
            }
            // whole amounts around 2^53 minor units (exactly representable; must be printed back exactly)
            for s in ["999999999999999", "987654321098765", "90071992547410", "90071992547411", "9007199254742", "900719925475", "123456789012345"] {
                check(&mut rep, f, ccy, s);
            }
            // the top of the exact region: as many integer digits as leave room for the printed decimals within 15 digits, leading
            // digit 9 (above 2^43 an f64 is spaced wider than 0,001: a serialiser that prints one decimal too many shows noise there),
            // with one decimal and with all the decimals the field prints
            if !["36", "37H", "37Hn"].contains(&f.0) {
                let printed = if f.2 { iso_decimals(ccy) } else { 2 };
                let int_d = 15 - printed;
                for k in 0..(if o.thorough() { 40 } else { 8 }) {
                    let int: String = (0..int_d).map(|i| if i == 0 { '9' } else { char::from(b'0' + rng.below(10) as u8) }).collect();
                    let dec = if printed == 0 { 0 } else if k % 2 == 0 { printed } else { 1 };
                    let frac: String = (0..dec).map(|i| if i + 1 == dec { char::from(b'1' + rng.below(9) as u8) } else { char::from(b'0' + rng.below(10) as u8) }).collect();
                    let a = if dec == 0 { int.clone() } else { format!("{int},{frac}") };
                    check(&mut rep, f, ccy, &a);
                }
            }
            // decimals 0..5 x magnitudes 0..15 (+2 beyond the limit)
            for dec in 0..=5usize {
                for mag in 0..=17usize {
                    if !o.thorough() && ci > 4 && (mag % 3 != 0) {
                        continue;
                    }
                    let int: String = if mag == 0 { "0".into() } else { (0..mag).map(|k| if k == 0 { char::from(b'1' + rng.below(9) as u8) } else { char::from(b'0' + rng.below(10) as u8) }).collect() };
                    let frac: String = (0..dec).map(|k| if k + 1 == dec { char::from(b'1' + rng.below(9) as u8) } else { char::from(b'0' + rng.below(10) as u8) }).collect();
                    let a = if dec == 0 { if rng.below(2) == 0 { format!("{int},") } else { int.clone() } } else { format!("{int},{frac}") };
                    check(&mut rep, f, ccy, &a);
                }
            }
        }
    }
    rep.sample(json!({"field": "32A", "currency": "USD", "amount": "1234567,89"}));
    rep.sample(json!({"field": "32A", "currency": "USD", "amount": "NaN"}));
    rep.sample(json!({"field": "60F", "currency": "JPY", "amount": "100,55"}));
    rep
}
