//! The 30 supported types, by number.  `with_mt!(code, T => expr, else_expr)` instantiates `expr` with
//! `T` bound to the body type for `code`.
pub use swift_mt_message::messages::*;

pub const SUPPORTED: [u32; 30] = [
    101, 103, 104, 107, 110, 111, 112, 190, 191, 192, 196, 199, 200, 202, 204, 205, 210, 290, 291, 292,
    296, 299, 900, 910, 920, 935, 940, 941, 942, 950,
];

#[macro_export]
macro_rules! with_mt {
    ($code:expr, $T:ident => $body:expr, $else:expr) => {
        match $code {
            101 => { type $T = $crate::types::MT101; $body }
            103 => { type $T = $crate::types::MT103; $body }
            104 => { type $T = $crate::types::MT104; $body }
            107 => { type $T = $crate::types::MT107; $body }
            110 => { type $T = $crate::types::MT110; $body }
            111 => { type $T = $crate::types::MT111; $body }
            112 => { type $T = $crate::types::MT112; $body }
            190 => { type $T = $crate::types::MT190; $body }
            191 => { type $T = $crate::types::MT191; $body }
            192 => { type $T = $crate::types::MT192; $body }
            196 => { type $T = $crate::types::MT196; $body }
            199 => { type $T = $crate::types::MT199; $body }
            200 => { type $T = $crate::types::MT200; $body }
            202 => { type $T = $crate::types::MT202; $body }
            204 => { type $T = $crate::types::MT204; $body }
            205 => { type $T = $crate::types::MT205; $body }
            210 => { type $T = $crate::types::MT210; $body }
            290 => { type $T = $crate::types::MT290; $body }
            291 => { type $T = $crate::types::MT291; $body }
            292 => { type $T = $crate::types::MT292; $body }
            296 => { type $T = $crate::types::MT296; $body }
            299 => { type $T = $crate::types::MT299; $body }
            900 => { type $T = $crate::types::MT900; $body }
            910 => { type $T = $crate::types::MT910; $body }
            920 => { type $T = $crate::types::MT920; $body }
            935 => { type $T = $crate::types::MT935; $body }
            940 => { type $T = $crate::types::MT940; $body }
            941 => { type $T = $crate::types::MT941; $body }
            942 => { type $T = $crate::types::MT942; $body }
            950 => { type $T = $crate::types::MT950; $body }
            _ => $else,
        }
    };
}
