//! Structure-preserving JSON mutators used to turn valid generated messages into rule-violating ones.
use crate::rng::Rng;
use serde_json::Value;

fn collect_paths(v: &Value, cur: &mut Vec<String>, out: &mut Vec<Vec<String>>) {
    match v {
        Value::Object(m) => {
            for (k, c) in m {
                cur.push(k.clone());
                out.push(cur.clone());
                collect_paths(c, cur, out);
                cur.pop();
            }
        }
        Value::Array(a) => {
            for (i, c) in a.iter().enumerate() {
                cur.push(i.to_string());
                out.push(cur.clone());
                collect_paths(c, cur, out);
                cur.pop();
            }
        }
        _ => {}
    }
}

fn get_mut<'a>(v: &'a mut Value, path: &[String]) -> Option<&'a mut Value> {
    let mut cur = v;
    for p in path {
        cur = match cur {
            Value::Object(m) => m.get_mut(p)?,
            Value::Array(a) => a.get_mut(p.parse::<usize>().ok()?)?,
            _ => return None,
        };
    }
    Some(cur)
}

fn remove(v: &mut Value, path: &[String]) {
    if path.is_empty() {
        return;
    }
    let (last, parent) = path.split_last().unwrap();
    if let Some(p) = get_mut(v, parent) {
        match p {
            Value::Object(m) => {
                m.remove(last);
            }
            Value::Array(a) => {
                if let Ok(i) = last.parse::<usize>() {
                    if i < a.len() {
                        a.remove(i);
                    }
                }
            }
            _ => {}
        }
    }
}

const CODES: &[&str] = &[
    "SDVA", "INTC", "REPA", "CORT", "HOLD", "CHQB", "PHOB", "TELB", "PHON", "TELE", "PHOI", "TELI", "CRED", "CRTS", "SPAY", "SPRI", "SSTD",
    "OUR", "SHA", "BEN", "RFDD", "AUTH", "NAUT", "OTHR", "RTND", "EQUI", "CMSW", "CMTO", "CMZB", "NETS", "URGP", "OTHR", "BASE", "PRIM", "/REJT/", "/RETN/",
    "USD", "EUR", "JPY", "GBP", "KWD", "CHF", "XAU", "C", "D", "RC", "RD", "940", "942", "941", "950",
];

/// Apply `n` random mutations below `fields` (the message body) and return the descriptions.
pub fn mutate(j: &mut Value, rng: &mut Rng, n: usize) -> Vec<String> {
    let mut desc = Vec::new();
    for _ in 0..n {
        let mut paths = Vec::new();
        if let Some(f) = j.get("fields") {
            collect_paths(f, &mut vec!["fields".to_string()], &mut paths);
        }
        if paths.is_empty() {
            break;
        }
        let p = rng.pick(&paths).clone();
        match rng.below(6) {
            0 | 1 => {
                remove(j, &p);
                desc.push(format!("remove {}", p.join("/")));
            }
            2 => {
                // copy a value from another path with the same last key shape (string ↔ string)
                let q = rng.pick(&paths).clone();
                let src = get_mut(j, &q).map(|v| v.clone());
                if let (Some(src), Some(dst)) = (src, get_mut(j, &p)) {
                    if std::mem::discriminant(&src) == std::mem::discriminant(dst) {
                        *dst = src;
                        desc.push(format!("copy {} -> {}", q.join("/"), p.join("/")));
                    }
                }
            }
            3 => {
                if let Some(Value::String(s)) = get_mut(j, &p) {
                    let c = *rng.pick(CODES);
                    desc.push(format!("set {} = {c} (was {s})", p.join("/")));
                    *s = c.to_string();
                }
            }
            4 => {
                if let Some(Value::Array(a)) = get_mut(j, &p) {
                    if !a.is_empty() && a.len() < 40 {
                        let k = rng.below(a.len());
                        let e = a[k].clone();
                        let times = *rng.pick(&[1usize, 1, 2, 9, 10]);
                        for _ in 0..times {
                            a.push(e.clone());
                        }
                        desc.push(format!("dup {}[{k}] x{times}", p.join("/")));
                    }
                }
            }
            _ => {
                if let Some(Value::Number(nm)) = get_mut(j, &p) {
                    let x = nm.as_f64().unwrap_or(0.0);
                    let y = match rng.below(4) {
                        0 => 0.0,
                        1 => x + 1.0,
                        2 => x * 2.0,
                        _ => (x * 100.0).round() / 100.0 + 0.01,
                    };
                    if let Some(n2) = serde_json::Number::from_f64(y) {
                        desc.push(format!("num {} {x} -> {y}", p.join("/")));
                        *nm = n2;
                    }
                } else if let Some(Value::String(s)) = get_mut(j, &p) {
                    // append a reject/return style line to free text
                    let add = *rng.pick(&["/REJT/", "/RETN/", "/RETN/12", "REJT", "/ACC/X", "//CONT", "/INS/ABNANL2A"]);
                    s.push_str("\n");
                    s.push_str(add);
                    desc.push(format!("append {} {add}", p.join("/")));
                }
            }
        }
    }
    desc
}
