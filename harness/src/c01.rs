//! C01 (nothing silently discarded) and C09 (mandatory structure, error names the culprit):
//! grammar-directed valid messages + mutators, judged by an oracle that tokenises input and output
//! independently of the library.
use crate::mgen::{self, GenMsg, Grammar, Item, Occ, Pool};
use crate::report::{Report, hex};
use crate::rng::Rng;
use crate::tok::{self, Chunk};
use crate::{Opts, with_mt};
use serde_json::{Value, json};
use swift_mt_message::{ParseError, SwiftMessageBody};

pub enum Outcome {
    Accepted { out: String, validation_codes: Vec<String> },
    Rejected(ParseError),
    Panicked,
}

pub fn parse_body(code: u32, text: &str) -> Outcome {
    let r = std::panic::catch_unwind(|| {
        with_mt!(code, T => <T as SwiftMessageBody>::parse_from_block4(text).map(|m| {
            let v = m.validate_network_rules(false).iter().map(|e| e.error_code().to_string()).collect::<Vec<_>>();
            (m.to_mt_string(), v)
        }), Err(ParseError::InvalidFormat { message: "unsupported".into() }))
    });
    match r {
        Ok(Ok((out, validation_codes))) => Outcome::Accepted { out, validation_codes },
        Ok(Err(e)) => Outcome::Rejected(e),
        Err(_) => Outcome::Panicked,
    }
}

pub fn err_class(e: &ParseError) -> String {
    match e {
        ParseError::MissingRequiredField { field_tag, message_type, .. } => format!("missing({field_tag},{message_type})"),
        ParseError::InvalidFieldFormat(b) => format!("invalid({})", b.field_tag),
        ParseError::InvalidFormat { message } => {
            if message.starts_with("Duplicate field") { "duplicate".into() }
            else if message.starts_with("Unparsed content") { "unparsed".into() }
            else { "format".into() }
        }
        _ => "other".into(),
    }
}

/// The C01 oracle on one text.  `class` names how the text was derived (valid, insert_unknown, …);
/// `must_reject` = the text is outside the layout (tags ∉ grammar) or carries an invalid content.
pub fn judge(rep: &mut Report, code: u32, g: &Grammar, text: &str, class: &str, must_reject: bool, overcap: bool) -> &'static str {
    let (inp, lead, trail) = tok::tokenise(text);
    if class == "valid" && std::env::var("VERIF_DEBUG").is_ok() {
        if let Outcome::Rejected(e) = parse_body(code, text) {
            rep.tally(&format!("dbg-valid-rejected:{code}:{}", err_class(&e)));
            if let ParseError::InvalidFieldFormat(b) = &e { rep.tally(&format!("dbg-invalid:{}:{}:{}", b.field_tag, b.value.replace('\n', "|"), b.inner_error)); }
        }
    }
    let in_tags: Vec<String> = inp.iter().map(|c| c.tag.clone()).collect();
    match parse_body(code, text) {
        Outcome::Panicked => {
            rep.fail(&format!("panic|MT{code}|{class}"), json!({"type": code, "class": class, "input_hex": hex(text)}));
            "panic"
        }
        Outcome::Rejected(_) => "rejected",
        Outcome::Accepted { out, validation_codes } => {
            let (outc, _, _) = tok::tokenise(&out);
            let out_tags: Vec<String> = outc.iter().map(|c| c.tag.clone()).collect();
            let w = |why: &str| json!({"type": code, "class": class, "why": why, "input_hex": hex(text), "entry": format!("MT{code}::parse_from_block4 + to_mt_string"),
                "input_tags": in_tags, "output_tags": out_tags});
            if out_tags != in_tags || !lead.is_empty() || !trail.is_empty() {
                let base = |t: &String| t.chars().take(2).collect::<String>();
                if out_tags.len() == in_tags.len() && lead.is_empty() && trail.is_empty() && in_tags.iter().zip(out_tags.iter()).all(|(a, b)| base(a) == base(b)) {
                    let (a, b) = in_tags.iter().zip(out_tags.iter()).find(|(a, b)| a != b).unwrap();
                    rep.fail(&format!("tag_changed|MT{code}|{a}->{b}"), w("accepted, but a field came back under another option letter"));
                    return "accepted-tag-changed";
                }
                rep.fail(&format!("silent_drop|MT{code}|{class}"), w("accepted, but the serialised tag sequence differs from the input's (or text outside any field was ignored)"));
                return "accepted-dropped";
            }
            for (a, b) in inp.iter().zip(outc.iter()) {
                if tok::canon(&a.content) != tok::canon(&b.content) {
                    let mut x = w("accepted, but a field's content changed beyond number/line-ending formatting");
                    x["tag"] = json!(a.tag);
                    x["input_content"] = json!(a.content);
                    x["output_content"] = json!(b.content);
                    rep.fail(&format!("content_changed|MT{code}|{}|{class}", a.tag), x);
                    return "accepted-changed";
                }
            }
            if must_reject {
                if overcap && !validation_codes.is_empty() {
                    // over the documented cap, every repetition preserved, and network validation reports it
                    return "accepted-overcap-flagged";
                }
                if !mgen::in_grammar(g, &in_tags) || class.starts_with("corrupt") {
                    rep.fail(&format!("accept_invalid|MT{code}|{class}"), w("a text outside the type's layout (or with an invalid field content) was accepted"));
                    return "accepted-invalid";
                }
            }
            "accepted"
        }
    }
}

pub fn invalid_content() -> String {
    "~".repeat(9500)
}

/// All tags the grammar mentions (for "known field out of place").
pub fn all_tags(g: &Grammar, out: &mut Vec<String>) {
    for it in g {
        match it {
            Item::F { .. } => out.extend(it.tags()),
            Item::Seq { items, .. } => all_tags(items, out),
        }
    }
}

/// A message with one hard-capped sequence repeated cap+1 times (None if the type has no hard cap).
fn overcap_message(code: u32, g: &Grammar, rng: &mut Rng, pool: &Pool) -> Option<GenMsg> {
    let mut g2 = g.clone();
    let mut found = false;
    for it in g2.iter_mut() {
        if let Item::Seq { min, max, hard, .. } = it {
            if *hard && *max > 1 {
                *min = *max + 1;
                *max = *max + 1;
                found = true;
            }
        }
    }
    if !found {
        return None;
    }
    // generate with the raised bounds (fullness is random inside)
    Some(mgen::generate(code, &g2, rng, pool))
}

pub fn run(o: &Opts) -> Report {
    let mut rep = Report::new("C01");
    let grammars = mgen::load_grammars();
    if let Some(path) = &o.replay {
        let r: Value = serde_json::from_str(&std::fs::read_to_string(path).unwrap_or_default()).unwrap_or(json!({}));
        let w = &r["witness"];
        let code = w["type"].as_u64().unwrap_or(0) as u32;
        let text = crate::report::unhex(w["input_hex"].as_str().unwrap_or(""));
        let class = w["class"].as_str().unwrap_or("replay").to_string();
        if let Some(g) = grammars.get(&code) {
            let must = class != "valid" && !class.starts_with("valid");
            let v = judge(&mut rep, code, g, &text, &class, must, class == "overcap");
            rep.case("replay", true);
            rep.notes.push(format!("replay verdict: {v}"));
        }
        return rep;
    }
    let mut rng = Rng::new(o.seed);
    let pool = mgen::build_pool(if o.thorough() { 6 } else { 2 });
    rep.notes.push(format!("content pool: {} tags, {} scenario texts", pool.by_tag.len(), pool.texts.len()));
    let per_type = if o.thorough() { 1500 } else { 60 };
    // (0) the library's own serialisations of scenario draws are valid texts too
    for (code, _name, t) in pool.texts.iter() {
        if let Some(g) = grammars.get(code) {
            let v = judge(&mut rep, *code, g, t, "valid-scenario", false, false);
            rep.case(&format!("{code} scenario {}", tok::tokenise(t).0.iter().map(|c| c.tag.as_str()).collect::<Vec<_>>().join(",")), true);
            rep.tally(&format!("valid-scenario:{v}"));
        }
    }
    for (&code, g) in grammars.iter() {
        let mut known = Vec::new();
        let mut n_sys = 0usize;
        all_tags(g, &mut known);
        known.sort();
        known.dedup();
        for n in 0..per_type {
            let msg = mgen::generate(code, g, &mut rng, &pool);
            let tags: Vec<String> = msg.chunks.iter().map(|c| c.tag.clone()).collect();
            let shape = format!("{code} {}", tags.join(","));
            let eol = if n % 3 == 2 { "\r\n" } else { "\n" };
            let term = n % 5 != 4;
            let text = tok::render(&msg.chunks, eol, term);
            let v = judge(&mut rep, code, g, &text, "valid", false, false);
            rep.case(&shape, true);
            rep.tally(&format!("valid:{v}"));
            if v != "accepted" {
                // a grammar-valid message that is not accepted is C03's business; mutants of it are still judged
                rep.tally("valid-not-accepted");
            }
            if n < 2 {
                rep.sample(json!({"type": code, "class": "valid", "verdict": v, "text": text}));
            }
            let nchunks = msg.chunks.len();
            // mutants
            let mut mutants: Vec<(String, Vec<Chunk>, bool)> = Vec::new();
            {
                let mut c = msg.chunks.clone();
                let pos = rng.below(nchunks + 1);
                c.insert(pos, Chunk { tag: rng.pick(&["99", "98A", "10", "44Z"]).to_string(), content: "JUNK".into() });
                mutants.push(("insert_unknown".into(), c, false));
            }
            {
                let mut c = msg.chunks.clone();
                let t = rng.pick(&known).clone();
                let content = pool.by_tag.get(&t).map(|v| rng.pick(v).clone()).unwrap_or("X".into());
                let pos = rng.below(nchunks + 1);
                c.insert(pos, Chunk { tag: t, content });
                mutants.push(("insert_known".into(), c, false));
            }
            {
                let mut c = msg.chunks.clone();
                let i = rng.below(nchunks);
                c.insert(i, msg.chunks[i].clone());
                mutants.push(("duplicate".into(), c, false));
            }
            if nchunks >= 2 {
                let mut c = msg.chunks.clone();
                let i = rng.below(nchunks - 1);
                c.swap(i, i + 1);
                mutants.push(("swap".into(), c, false));
            }
            {
                let mut c = msg.chunks.clone();
                let t = if rng.below(2) == 0 { "99".to_string() } else { rng.pick(&known).clone() };
                let content = pool.by_tag.get(&t).map(|v| rng.pick(v).clone()).unwrap_or("X".into());
                c.push(Chunk { tag: t, content });
                mutants.push(("append".into(), c, false));
            }
            {
                let mut c = msg.chunks.clone();
                let i = rng.below(nchunks);
                c[i].content = invalid_content();
                mutants.push((format!("corrupt:{}", c[i].tag), c, true));
            }
            {
                // the same field position under an option letter the layout does not allow there
                let mut c = msg.chunks.clone();
                let i = rng.below(nchunks);
                let base: String = c[i].tag.chars().take(2).collect();
                let l = *rng.pick(&["A", "B", "C", "D", "F", "G", "H", "K", "L", "P", "Z", ""]);
                let t = format!("{base}{l}");
                let content = if rng.below(2) == 0 { pool.by_tag.get(&t).map(|v| rng.pick(v).clone()).unwrap_or("LINE ONE\nLINE TWO".into()) } else { "LINE ONE\nLINE TWO".to_string() };
                if rng.below(2) == 0 { c[i] = Chunk { tag: t, content }; } else { c.insert(i, Chunk { tag: t, content }); }
                mutants.push(("foreign_option".into(), c, false));
            }
            // systematic relocation: every field moved / copied to every other position (first messages of each type only)
            if n_sys < (if o.thorough() { 6 } else { 2 }) && nchunks <= 24 {
                n_sys += 1;
                for i in 0..nchunks {
                    for j in 0..=nchunks {
                        if j == i || j == i + 1 { continue; }
                        let mut c = msg.chunks.clone();
                        let f = c.remove(i);
                        c.insert(if j > i { j - 1 } else { j }, f);
                        mutants.push((format!("move:{}", msg.chunks[i].tag), c, false));
                        let mut c = msg.chunks.clone();
                        c.insert(j, msg.chunks[i].clone());
                        mutants.push((format!("copy:{}", msg.chunks[i].tag), c, false));
                    }
                }
            }
            // every field in turn with an empty content (a tag with nothing behind it): whatever is still accepted must keep the tag
            if n_sys <= (if o.thorough() { 6 } else { 2 }) && nchunks <= 40 {
                for i in 0..nchunks {
                    let mut c = msg.chunks.clone();
                    c[i].content = String::new();
                    mutants.push((format!("blank:{}", msg.chunks[i].tag), c, false));
                }
            }
            for (class, chunks, corrupt) in mutants {
                let mtags: Vec<String> = chunks.iter().map(|c| c.tag.clone()).collect();
                let outside = corrupt || !mgen::in_grammar(g, &mtags);
                let text = tok::render(&chunks, eol, term);
                let cl = class.split(':').next().unwrap().to_string();
                let v = judge(&mut rep, code, g, &text, &class, outside, false);
                rep.case(&format!("{code} {cl} {}", mtags.join(",")), outside);
                rep.tally(&format!("{cl}:{}{v}", if outside { "" } else { "(still-valid)" }));
            }
            // white-space variants of the valid text: a blank line before a field, trailing blanks, leading blank line
            if nchunks >= 2 {
                let i = rng.range(1, nchunks - 1);
                let a = tok::render(&msg.chunks[..i], eol, false);
                let b = tok::render(&msg.chunks[i..], eol, term);
                let text = format!("{a}{eol}{b}");
                let v = judge(&mut rep, code, g, &text, "blank_line", false, false);
                rep.case(&format!("{code} blank {i} {}", tags.join(",")), true);
                rep.tally(&format!("blank_line:{v}"));
                let text = format!("{eol}{}{eol}", tok::render(&msg.chunks, eol, term));
                let v = judge(&mut rep, code, g, &text, "outer_blank", false, false);
                rep.tally(&format!("outer_blank:{v}"));
            }
            // text behind the block terminator / behind a lone dash line: "content after the last field of the type"
            for tail in ["\nMORE TEXT", "\nMORE\nTEXT\n-", "}TRAILING"] {
                let text = format!("{}{tail}", tok::render(&msg.chunks, eol, true));
                match parse_body(code, &text) {
                    Outcome::Accepted { .. } => {
                        rep.fail(&format!("silent_drop|MT{code}|after_terminator"), json!({"type": code, "class": "after_terminator", "input_hex": hex(&text),
                            "why": "text behind the block terminator was accepted and dropped"}));
                        rep.tally("after_terminator:accepted-dropped");
                    }
                    Outcome::Panicked => rep.fail(&format!("panic|MT{code}|after_terminator"), json!({"type": code, "class": "after_terminator", "input_hex": hex(&text)})),
                    Outcome::Rejected(_) => rep.tally("after_terminator:rejected"),
                }
                rep.case(&format!("{code} after_terminator {tail:?} {}", tags.join(",")), true);
            }
            if n % 20 == 0 {
                if let Some(m) = overcap_message(code, g, &mut rng, &pool) {
                    let text = tok::render(&m.chunks, eol, term);
                    let v = judge(&mut rep, code, g, &text, "overcap", true, true);
                    rep.case(&format!("{code} overcap {}", m.chunks.len()), true);
                    rep.tally(&format!("overcap:{v}"));
                }
            }
        }
    }
    rep
}

// -------------------------------------------------------------------------------------------------
// C09

fn mandatory_positions(msg: &GenMsg) -> Vec<usize> {
    (0..msg.chunks.len()).filter(|&i| msg.meta[i].mandatory).collect()
}

pub fn run_c09(o: &Opts) -> Report {
    let mut rep = Report::new("C09");
    let grammars = mgen::load_grammars();
    if let Some(path) = &o.replay {
        let r: Value = serde_json::from_str(&std::fs::read_to_string(path).unwrap_or_default()).unwrap_or(json!({}));
        let w = &r["witness"];
        let code = w["type"].as_u64().unwrap_or(0) as u32;
        let text = crate::report::unhex(w["input_hex"].as_str().unwrap_or(""));
        let tag = w["tag"].as_str().unwrap_or("").to_string();
        let kind = w["kind"].as_str().unwrap_or("");
        judge_c09(&mut rep, code, &text, &tag, kind.starts_with("delete"), w["content"].as_str().filter(|s| !s.is_empty()).map(String::from).unwrap_or_else(invalid_content).as_str(), kind);
        rep.case("replay", true);
        return rep;
    }
    let mut rng = Rng::new(o.seed ^ 0x9);
    let all_specs = crate::fields::specs();
    let pool = mgen::build_pool(if o.thorough() { 6 } else { 2 });
    let per_type = if o.thorough() { 600 } else { 40 };
    for (&code, g) in grammars.iter() {
        for n in 0..per_type {
            let msg = mgen::generate(code, g, &mut rng, &pool);
            let text = tok::render(&msg.chunks, "\n", true);
            if !matches!(parse_body(code, &text), Outcome::Accepted { .. }) {
                rep.tally("base-not-accepted");
                continue;
            }
            // every mandatory occurrence deleted (one at a time)
            for i in mandatory_positions(&msg) {
                let mut c = msg.chunks.clone();
                let removed = c.remove(i);
                let mtags: Vec<String> = c.iter().map(|x| x.tag.clone()).collect();
                if mgen::in_grammar(g, &mtags) {
                    rep.tally("delete:(still-valid)");
                    continue; // e.g. one of several repetitions
                }
                let t = tok::render(&c, "\n", true);
                // a deleted sequence marker: the first occurrence of the sequence or a later one (the errors differ)
                let first = !msg.chunks[..i].iter().zip(msg.meta[..i].iter()).any(|(c, m)| m.seq_marker && c.tag == removed.tag);
                let kind = if msg.meta[i].seq_marker { if first { "delete-marker" } else { "delete-marker-later" } } else { "delete" };
                let v = judge_c09(&mut rep, code, &t, &removed.tag, true, "", kind);
                rep.case(&format!("{code} del {} {}", removed.tag, i), true);
                rep.tally(&format!("{kind}:{v}"));
                if n == 0 && i < 2 {
                    rep.sample(json!({"type": code, "deleted": removed.tag, "verdict": v}));
                }
            }
            // every occurrence corrupted (one at a time; sampled when the message is long)
            let idxs: Vec<usize> = if msg.chunks.len() > 12 { (0..12).map(|_| rng.below(msg.chunks.len())).collect() } else { (0..msg.chunks.len()).collect() };
            for i in idxs {
                let mut c = msg.chunks.clone();
                c[i].content = invalid_content();
                let t = tok::render(&c, "\n", true);
                let v = judge_c09(&mut rep, code, &t, &c[i].tag.clone(), false, &invalid_content(), "corrupt");
                rep.case(&format!("{code} bad {} {}", c[i].tag, i), true);
                rep.tally(&format!("corrupt:{v}"));
                // contents outside the field's documented format (string-level mutants of the valid content that the independent
                // format matcher rejects): the message must be rejected, with an error that names this field
                if let Some(ty) = crate::fieldspec::FIELD_SPECS.iter().find(|(_, t, _, _)| *t == msg.chunks[i].tag).map(|(n, _, _, _)| *n) {
                    if let Some(sp) = all_specs.iter().find(|s| s.name == ty) {
                        let mut ms = crate::fmt::mutants(&mut rng, &msg.chunks[i].content);
                        // a random selection of the mutant classes per field occurrence
                        let k = ms.len();
                        for a in (1..k).rev() { let b = rng.below(a + 1); ms.swap(a, b); }
                        let mut used = 0;
                        for (cls, m) in ms {
                            if used >= 4 { break; }
                            if m.is_empty() || m != m.trim() || m.contains('{') || m.contains('}') || m.contains('\r')
                                || m.split('\n').any(|l| l.starts_with(':') || l.starts_with('-') || l.is_empty()) || !m.is_ascii() && false {
                                continue;
                            }
                            if crate::fields::documented(&all_specs, sp, &m) { continue; }
                            used += 1;
                            let mut c = msg.chunks.clone();
                            c[i].content = m.clone();
                            let t = tok::render(&c, "\n", true);
                            let v = judge_c09(&mut rep, code, &t, &c[i].tag.clone(), false, &m, "corrupt-doc");
                            rep.case(&format!("{code} doc {} {cls}", c[i].tag), true);
                            rep.tally(&format!("corrupt-doc:{v}"));
                        }
                    }
                }
                // a lone carriage return inside an otherwise valid content (CR is not a character of any SWIFT set but z)
                let orig = &msg.chunks[i].content;
                if orig.chars().count() >= 2 && msg.chunks[i].tag != "77T" {
                    let cs: Vec<char> = orig.chars().collect();
                    let p = 1 + rng.below(cs.len() - 1);
                    if cs[p] != '\n' {
                        let bad: String = cs[..p].iter().collect::<String>() + "\r" + &cs[p..].iter().collect::<String>();
                        let mut c = msg.chunks.clone();
                        c[i].content = bad.clone();
                        let t = tok::render(&c, "\n", true);
                        let v = judge_c09(&mut rep, code, &t, &c[i].tag.clone(), false, &bad, "corrupt-cr");
                        rep.case(&format!("{code} cr {} {}", c[i].tag, i), true);
                        rep.tally(&format!("corrupt-cr:{v}"));
                    }
                }
            }
        }
    }
    rep
}

fn base_of(tag: &str) -> &str {
    if tag.len() == 3 && tag.as_bytes()[2].is_ascii_uppercase() { &tag[..2] } else { tag }
}

fn judge_c09(rep: &mut Report, code: u32, text: &str, tag: &str, deleted: bool, content: &str, kind: &str) -> &'static str {
    let w = |why: &str, obs: String| json!({"type": code, "kind": kind, "tag": tag, "why": why, "observed": obs, "input_hex": hex(text), "content": if content.len() > 64 { "" } else { content }});
    match parse_body(code, text) {
        Outcome::Panicked => {
            rep.fail(&format!("panic|MT{code}|{kind}"), w("panic", "panic".into()));
            "panic"
        }
        Outcome::Accepted { .. } => {
            rep.fail(&format!("accepted|MT{code}|{kind}:{tag}"), w(if deleted { "a message lacking a mandatory field was accepted" } else { "a message with an invalid field content was accepted" }, "accepted".into()));
            "accepted"
        }
        Outcome::Rejected(e) => {
            if deleted {
                match &e {
                    ParseError::MissingRequiredField { field_tag, message_type, .. }
                        if (field_tag == tag || field_tag == base_of(tag)) && message_type == &format!("{code}") => "ok",
                    _ => {
                        rep.fail(&format!("wrong_error|MT{code}|{kind}:{tag}|{}", err_class(&e).split('(').next().unwrap()), w("rejected, but the error does not identify the missing tag and the message type", err_class(&e)));
                        "wrong-error"
                    }
                }
            } else {
                match &e {
                    ParseError::InvalidFieldFormat(b) if b.field_tag == tag && b.value == content => "ok",
                    _ => {
                        rep.fail(&format!("wrong_error|MT{code}|{kind}:{tag}|{}", err_class(&e).split('(').next().unwrap()), w("rejected, but the error does not name the field's tag and carry its content", err_class(&e)));
                        "wrong-error"
                    }
                }
            }
        }
    }
}
