//! C15 — shipped scenarios always generate valid, exactly round-trippable messages.
//! For every scenario file: N draws through the library's own pipeline (generate_mt → publish_mt → validate_mt →
//! parse_mt, the four dataflow plugin functions), with an EXACT comparison of the parsed JSON with the generated JSON
//! (nulls dropped, numbers compared by value, no rounding).  Besides random draws, *directed* draws: every text
//! generator (`company_name`, `street_address`, `city_name`, `name`, …) is sampled many times beforehand and the
//! extreme real draws (longest, shortest, a blank exactly at / next to the 35-character cut, an apostrophe) are put in
//! its place — rare draws that a handful of random draws never meet, yet all of them values the generator does produce.
//! The assumed generator languages of the Lean model (Generated/FakeLangs) are validated on the same samples
//! (`leaf <kind> <args> <text>` must answer `in`).
use crate::report::{Report, hex};
use crate::{Opts, plugin::Plugins, scen};
use datafake_rs::DataGenerator;
use serde_json::{Value, json};
use std::collections::BTreeMap;

const TEXT_KINDS: [&str; 8] = ["company_name", "street_address", "city_name", "city", "name", "full_name", "bs", "sentence"];

fn draw_kind(spec: &Value) -> Option<Value> {
    let g = DataGenerator::from_value(json!({"schema": {"x": {"fake": spec}}})).ok()?;
    g.generate().ok()?.get("x").cloned()
}

fn collect_fakes(v: &Value, out: &mut BTreeMap<String, Value>) {
    match v {
        Value::Object(m) => {
            if m.len() == 1 {
                if let Some(spec) = m.get("fake") {
                    if spec.is_array() {
                        out.insert(spec.to_string(), spec.clone());
                    }
                }
            }
            for c in m.values() {
                collect_fakes(c, out);
            }
        }
        Value::Array(a) => a.iter().for_each(|c| collect_fakes(c, out)),
        _ => {}
    }
}

/// drop nulls; numbers by value (an integer-valued float is the integer)
fn norm(v: &Value) -> Value {
    match v {
        Value::Number(n) => {
            if let Some(f) = n.as_f64() {
                if f.fract() == 0.0 && f.abs() < 9.0e15 {
                    return json!(f as i64);
                }
            }
            v.clone()
        }
        Value::Object(m) => Value::Object(m.iter().filter(|(_, c)| !c.is_null()).map(|(k, c)| (k.clone(), norm(c))).collect()),
        Value::Array(a) => Value::Array(a.iter().map(norm).collect()),
        _ => v.clone(),
    }
}

fn first_diff(a: &Value, b: &Value, path: &str) -> Option<(String, Value, Value)> {
    match (a, b) {
        (Value::Object(x), Value::Object(y)) => {
            for (k, v) in x {
                match y.get(k) {
                    Some(w) => if let Some(d) = first_diff(v, w, &format!("{path}/{k}")) { return Some(d); },
                    None => return Some((format!("{path}/{k}"), v.clone(), Value::Null)),
                }
            }
            for (k, w) in y {
                if !x.contains_key(k) {
                    return Some((format!("{path}/{k}"), Value::Null, w.clone()));
                }
            }
            None
        }
        (Value::Array(x), Value::Array(y)) => {
            if x.len() != y.len() {
                return Some((format!("{path}/#len"), json!(x.len()), json!(y.len())));
            }
            x.iter().zip(y.iter()).enumerate().find_map(|(i, (v, w))| first_diff(v, w, &format!("{path}/{i}")))
        }
        _ => if a == b { None } else { Some((path.to_string(), a.clone(), b.clone())) },
    }
}

/// replace every text generator by a literal chosen by `pick(kind)`
fn substitute(v: &mut Value, pick: &dyn Fn(&str) -> Option<String>) {
    match v {
        Value::Object(m) => {
            if m.len() == 1 {
                if let Some(Value::Array(spec)) = m.get("fake") {
                    if let Some(kind) = spec.first().and_then(Value::as_str) {
                        if TEXT_KINDS.contains(&kind) {
                            if let Some(s) = pick(kind) {
                                *v = Value::String(s);
                                return;
                            }
                        }
                    }
                }
            }
            for c in m.values_mut() {
                substitute(c, pick);
            }
        }
        Value::Array(a) => a.iter_mut().for_each(|c| substitute(c, pick)),
        _ => {}
    }
}

fn pipeline(rep: &mut Report, plugins: &Plugins, code: u32, name: &str, schema: &Value, class: &str) {
    let ty = code.to_string();
    let generated = match plugins.generate(schema, &ty) {
        Ok(g) => g.get("json_data").cloned().unwrap_or(g),
        Err(e) => {
            rep.fail(&format!("generate_failed|MT{code}|{name}"), json!({"type": code, "scenario": name, "class": class, "error": e.chars().take(300).collect::<String>()}));
            return;
        }
    };
    rep.case(&format!("{code} {name} {class}"), true);
    let wit = |why: &str, extra: Value| json!({"type": code, "scenario": name, "class": class, "generated": generated, "why": why, "detail": extra});
    let mt = match plugins.publish(&generated) {
        Ok(t) => t,
        Err(e) => {
            rep.fail(&format!("publish_failed|MT{code}|{name}"), wit("the generated JSON does not publish", json!(e.chars().take(400).collect::<String>())));
            return;
        }
    };
    match plugins.validate(&mt) {
        Ok(v) => {
            if v.get("valid").and_then(Value::as_bool) != Some(true) {
                rep.fail(&format!("invalid|MT{code}|{name}"), wit("the published message does not pass validate_mt", json!({"mt": mt, "result": v})));
                return;
            }
        }
        Err(e) => {
            rep.fail(&format!("validate_failed|MT{code}|{name}"), wit("validate_mt fails", json!({"mt": mt, "error": e.chars().take(400).collect::<String>()})));
            return;
        }
    }
    match plugins.parse(&mt) {
        Ok((j, _, _)) => {
            if let Some((path, a, b)) = first_diff(&norm(&generated), &norm(&j), "") {
                let comp = path.split('/').filter(|s| s.parse::<usize>().is_err()).collect::<Vec<_>>().join("/");
                rep.fail(&format!("json_differs|MT{code}|{name}"), wit("the parsed JSON differs from the generated JSON", json!({"mt": mt, "path": path, "component": comp, "generated": a, "parsed": b})));
            }
        }
        Err(e) => rep.fail(&format!("parse_failed|MT{code}|{name}"), wit("the published message does not parse", json!({"mt": mt, "error": e.chars().take(400).collect::<String>()}))),
    }
}

pub fn run(o: &Opts) -> Report {
    let mut rep = Report::new("C15");
    let plugins = Plugins::new();
    let scs = scen::all_scenarios();
    if let Some(path) = &o.replay {
        // replay: the recorded generated JSON goes through publish → validate → parse again
        let r: Value = serde_json::from_str(&std::fs::read_to_string(path).unwrap_or_default()).unwrap_or(json!({}));
        let w = &r["witness"];
        let code = w["type"].as_u64().unwrap_or(0) as u32;
        let name = w["scenario"].as_str().unwrap_or("");
        // a schema made of literals only regenerates exactly the recorded JSON
        pipeline(&mut rep, &plugins, code, name, &json!({"schema": w["generated"].clone()}), "replay");
        return rep;
    }
    // 1. samples of every generator the scenarios use: language validation + extremes of the text kinds
    let mut fakes: BTreeMap<String, Value> = BTreeMap::new();
    for (_, _, path) in &scs {
        if let Some(s) = scen::load(path) {
            collect_fakes(&s, &mut fakes);
        }
    }
    let n_lang = if o.thorough() { 3000 } else { 300 };
    let n_pool = if o.thorough() { 400_000 } else { 40_000 };
    let mut extremes: BTreeMap<String, Vec<(String, String)>> = BTreeMap::new(); // kind -> (criterion, value)
    for spec in fakes.values() {
        let arr = spec.as_array().unwrap();
        let kind = arr[0].as_str().unwrap_or("").to_string();
        let args: Vec<String> = arr[1..].iter().map(|a| a.as_str().map(String::from).unwrap_or_else(|| a.to_string())).collect();
        let argstr = if args.is_empty() { "-".to_string() } else { args.join(",") };
        rep.tally(&format!("kind:{kind}"));
        for _ in 0..n_lang {
            let Some(v) = draw_kind(spec) else { rep.tally("kind-draw-failed"); break };
            let s = v.as_str().map(String::from).unwrap_or_else(|| v.to_string());
            rep.model(format!("leaf {kind} {argstr} {}", hex(&s)), "in".to_string());
        }
        if TEXT_KINDS.contains(&kind.as_str()) && !extremes.contains_key(&kind) {
            let mut best: BTreeMap<&str, String> = BTreeMap::new();
            for _ in 0..n_pool {
                let Some(Value::String(s)) = draw_kind(spec) else { break };
                let cs: Vec<char> = s.chars().collect();
                let n = cs.len();
                let upd = |best: &mut BTreeMap<&str, String>, k: &'static str, better: bool| if better { best.insert(k, s.clone()); };
                let cur_len = |best: &BTreeMap<&str, String>, k: &str| best.get(k).map(|x| x.chars().count());
                let longer = cur_len(&best, "longest").map(|m| n > m).unwrap_or(true);
                upd(&mut best, "longest", longer);
                let shorter = cur_len(&best, "shortest").map(|m| n < m).unwrap_or(true);
                upd(&mut best, "shortest", shorter);
                for (k, i) in [("blank@33", 32usize), ("blank@34", 33), ("blank@35", 34), ("blank@36", 35)] {
                    if n > 36 && cs[i] == ' ' && !best.contains_key(k) {
                        best.insert(k, s.clone());
                    }
                }
                if s.contains('\'') && n >= 35 && !best.contains_key("apostrophe-long") {
                    best.insert("apostrophe-long", s.clone());
                }
                if n == 35 && !best.contains_key("exactly35") {
                    best.insert("exactly35", s.clone());
                }
                if n == 36 && !best.contains_key("exactly36") {
                    best.insert("exactly36", s.clone());
                }
            }
            for (k, v) in &best {
                rep.tally(&format!("extreme:{kind}:{k}"));
                rep.model(format!("leaf {kind} {argstr} {}", hex(v)), "in".to_string());
            }
            let mut ex: Vec<(String, String)> = best.into_iter().map(|(k, v)| (k.to_string(), v)).collect();
            // constructed draws: company_name is exactly "{Last} {Suffix}" | "{Last} and {Last} {Suffix}" over fake's EN lists
            // (fake-4.4 impls/company.rs), so a value with a blank at a chosen position can be composed instead of waited for
            if kind == "company_name" {
                use fake::locales::{Data, EN};
                for (crit, pos) in [("blank@33", 32usize), ("blank@34", 33), ("blank@35", 34), ("blank@36", 35)] {
                    if ex.iter().any(|(k, _)| k == crit) {
                        continue;
                    }
                    'search: for a in EN::NAME_LAST_NAME {
                        for b in EN::NAME_LAST_NAME {
                            for suf in EN::COMPANY_SUFFIX {
                                let v = format!("{a} and {b} {suf}");
                                let cs: Vec<char> = v.chars().collect();
                                if cs.len() > 36 && cs[pos] == ' ' {
                                    rep.tally(&format!("extreme:{kind}:{crit}:constructed"));
                                    rep.model(format!("leaf {kind} {argstr} {}", hex(&v)), "in".to_string());
                                    ex.push((crit.to_string(), v));
                                    break 'search;
                                }
                            }
                        }
                    }
                }
            }
            extremes.insert(kind.clone(), ex);
        }
    }
    // 2. the pipeline
    let draws = if o.thorough() { 150 } else { 8 };
    let criteria = ["longest", "shortest", "blank@33", "blank@34", "blank@35", "blank@36", "apostrophe-long", "exactly35", "exactly36"];
    for (code, name, path) in &scs {
        let Some(schema) = scen::load(path) else { continue };
        for _ in 0..draws {
            pipeline(&mut rep, &plugins, *code, name, &schema, "random");
        }
        for crit in criteria {
            let mut s2 = schema.clone();
            let mut used = false;
            let pick = |kind: &str| -> Option<String> {
                extremes.get(kind).and_then(|v| v.iter().find(|(k, _)| k == crit).map(|(_, s)| s.clone()))
            };
            // does this scenario use a text kind that has this extreme?
            let mut fs = BTreeMap::new();
            collect_fakes(&schema, &mut fs);
            for spec in fs.values() {
                if let Some(k) = spec.as_array().and_then(|a| a.first()).and_then(Value::as_str) {
                    if pick(k).is_some() {
                        used = true;
                    }
                }
            }
            if !used {
                continue;
            }
            substitute(&mut s2, &pick);
            pipeline(&mut rep, &plugins, *code, name, &s2, &format!("directed:{crit}"));
        }
    }
    rep.sample(json!({"scenarios": scs.len(), "generator_kinds": fakes.len(), "extremes": extremes.iter().map(|(k, v)| (k.clone(), v.iter().map(|(c, s)| format!("{c}: {s}")).collect::<Vec<_>>())).collect::<BTreeMap<_, _>>()}));
    rep
}
