//! Calls the four dataflow plugin functions through the real `dataflow_rs::Engine`, one task per call.
use dataflow_rs::Engine;
use dataflow_rs::engine::{AsyncFunctionHandler, Message, Workflow};
use serde_json::{Value, json};
use std::collections::HashMap;
use swift_mt_message::plugin::register_swift_mt_functions;

pub struct Plugins {
    engine: Engine,
    rt: tokio::runtime::Runtime,
}

fn wf(op: &str, func: &str, input: Value) -> Workflow {
    let j = json!({
        "id": format!("wf_{op}"), "name": op, "description": op, "priority": 0,
        "condition": {"==": [{"var": "data.op"}, op]},
        "tasks": [{"id": format!("t_{op}"), "name": op, "description": op,
                   "function": {"name": func, "input": input}}],
    });
    Workflow::from_json(&serde_json::to_string(&j).unwrap()).expect("workflow json")
}

impl Plugins {
    pub fn new() -> Self {
        let mut fns: HashMap<String, Box<dyn AsyncFunctionHandler + Send + Sync>> = HashMap::new();
        for (name, h) in register_swift_mt_functions() {
            fns.insert(name.to_string(), h);
        }
        let wfs = vec![
            wf("parse", "parse_mt", json!({"source": "mt", "target": "out"})),
            wf("validate", "validate_mt", json!({"source": "mt", "target": "out"})),
            wf("publish", "publish_mt", json!({"source": "json", "target": "out"})),
            wf("generate", "generate_mt", json!({"target": "out"})),
        ];
        let engine = Engine::new(wfs, Some(fns));
        let rt = tokio::runtime::Builder::new_current_thread().enable_all().build().unwrap();
        Plugins { engine, rt }
    }

    fn run(&self, op: &str, payload: &Value, data: Vec<(&str, Value)>) -> Result<Message, String> {
        let mut m = Message::from_value(payload);
        {
            let d = m.data_mut().as_object_mut().unwrap();
            d.insert("op".into(), json!(op));
            for (k, v) in data {
                d.insert(k.to_string(), v);
            }
        }
        m.invalidate_context_cache();
        let r = self.rt.block_on(self.engine.process_message(&mut m));
        match r {
            Ok(()) => {
                if m.has_errors() {
                    Err(format!("{:?}", m.errors))
                } else {
                    Ok(m)
                }
            }
            Err(e) => Err(format!("{e:?}")),
        }
    }

    /// parse_mt: returns (json, method) or the error text
    pub fn parse(&self, mt: &str) -> Result<(Value, String, String), String> {
        let m = self.run("parse", &json!({}), vec![("mt", json!(mt))])?;
        let out = m.data().get("out").cloned().ok_or("no output")?;
        let meta = m.metadata().get("out").cloned().unwrap_or(json!({}));
        Ok((
            out,
            meta.get("method").and_then(Value::as_str).unwrap_or("").to_string(),
            meta.get("message_type").and_then(Value::as_str).unwrap_or("").to_string(),
        ))
    }
    /// parse_mt twice on the SAME dataflow message and target (first `mt1`, then `mt2`): the method reported after the second run
    pub fn parse_twice(&self, mt1: &str, mt2: &str) -> Result<String, String> {
        let mut m = Message::from_value(&json!({}));
        for mt in [mt1, mt2] {
            {
                let d = m.data_mut().as_object_mut().unwrap();
                d.insert("op".into(), json!("parse"));
                d.insert("mt".into(), json!(mt));
            }
            m.invalidate_context_cache();
            self.rt.block_on(self.engine.process_message(&mut m)).map_err(|e| format!("{e:?}"))?;
            if m.has_errors() { return Err(format!("{:?}", m.errors)); }
        }
        Ok(m.metadata().get("out").and_then(|x| x.get("method")).and_then(Value::as_str).unwrap_or("").to_string())
    }
    /// validate_mt: returns {valid, errors, message_type?}
    pub fn validate(&self, mt: &str) -> Result<Value, String> {
        let m = self.run("validate", &json!({}), vec![("mt", json!(mt))])?;
        m.data().get("out").cloned().ok_or("no output".into())
    }
    /// publish_mt: JSON → MT text
    pub fn publish(&self, j: &Value) -> Result<String, String> {
        let m = self.run("publish", &json!({}), vec![("json", j.clone())])?;
        m.data().get("out").and_then(Value::as_str).map(|s| s.to_string()).ok_or("no output".into())
    }
    /// generate_mt from a scenario schema (payload)
    pub fn generate(&self, schema: &Value, message_type: &str) -> Result<Value, String> {
        let m = self.run("generate", schema, vec![("message_type", json!(message_type))])?;
        m.data().get("out").cloned().ok_or("no output".into())
    }
}
