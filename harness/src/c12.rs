//! C12 — message-type dispatch.  Exhaustive: 30×30 typed parses, 1000 announced codes through parse_auto and the
//! three plugin functions, the diagonal through all five entry points compared with the typed API.
use crate::report::{Report, hex};
use crate::types::SUPPORTED;
use crate::{Opts, plugin::Plugins, scen, with_mt};
use serde_json::{Value, json};
use swift_mt_message::{ParseError, SwiftMessageBody, SwiftParser};

/// one valid full message text per supported type (from the shipped scenarios)
pub fn base_messages(rep: &mut Report) -> Vec<(u32, String)> {
    let scs = scen::all_scenarios();
    let mut out = Vec::new();
    for &code in SUPPORTED.iter() {
        let mut found = None;
        // prefer standard/minimal; fall back to any scenario that publishes and re-parses
        let mut cands: Vec<_> = scs.iter().filter(|s| s.0 == code).collect();
        cands.sort_by_key(|s| (s.1 != "standard", s.1 != "minimal", s.1.clone()));
        'c: for (_, _name, path) in cands {
            let Some(schema) = scen::load(path) else { continue };
            for _ in 0..5 {
                let Ok(j) = scen::draw(&schema) else { continue };
                let text: Option<String> = with_mt!(code, T => {
                    serde_json::from_value::<swift_mt_message::SwiftMessage<T>>(j.clone()).ok().map(|m| m.to_mt_message())
                }, None);
                if let Some(t) = text {
                    let ok = with_mt!(code, T => SwiftParser::parse::<T>(&t).is_ok(), false);
                    if ok {
                        found = Some(t);
                        break 'c;
                    }
                }
            }
        }
        match found {
            Some(t) => out.push((code, t)),
            None => rep.notes.push(format!("no base message for MT{code} from scenarios")),
        }
    }
    out
}

/// Replace the announced type in block 2 (`{2:I103…` / `{2:O103…`) by `code` (three digits).
pub fn reannounce(text: &str, code: u32) -> String {
    if let Some(p) = text.find("{2:") {
        let mut s = text.to_string();
        s.replace_range(p + 4..p + 7, &format!("{:03}", code));
        s
    } else {
        text.to_string()
    }
}

fn class_typed<T: SwiftMessageBody>(text: &str) -> (String, Option<Value>) {
    match std::panic::catch_unwind(|| SwiftParser::parse::<T>(text)) {
        Ok(Ok(m)) => (format!("ok {0} {0}", T::message_type()), serde_json::to_value(&m).ok()),
        Ok(Err(ParseError::SwiftValidation(e))) if e.error_code() == "T03" => ("mismatch".into(), None),
        Ok(Err(ParseError::UnsupportedMessageType { .. })) => ("unsupported".into(), None),
        Ok(Err(e)) => (format!("other-error {}", short(&e)), None),
        Err(_) => ("panic".into(), None),
    }
}

pub fn short(e: &ParseError) -> String {
    let s = format!("{e:?}");
    s.chars().take(60).collect::<String>().replace(' ', "_").replace('\n', "_")
}

pub fn run(o: &Opts) -> Report {
    let mut rep = Report::new("C12");
    let bases = base_messages(&mut rep);
    let plugins = Plugins::new();
    let base_of = |c: u32| -> &String {
        // body of the nearest supported type (so that an unsupported code still carries a plausible body)
        &bases.iter().min_by_key(|(k, _)| (*k as i64 - c as i64).abs()).unwrap().1
    };
    // (1) 30 × 30 typed parses
    for (a, text) in &bases {
        for &r in SUPPORTED.iter() {
            let (cls, _) = with_mt!(r, T => class_typed::<T>(text), ("unsupported".to_string(), None));
            rep.case(&format!("typed {r} {a}"), true);
            rep.tally(&format!("typed:{}", cls.split(' ').next().unwrap()));
            let expect = if r == *a { format!("ok {r} {r}") } else { "mismatch".to_string() };
            if cls != expect {
                rep.fail(&format!("dispatch|typed|requested={r},announced={a}"), json!({"entry": "SwiftParser::parse", "requested": r, "announced": a, "input_hex": hex(text), "expected": expect, "observed": cls}));
            }
            rep.model(format!("c12 typed {r} {a}"), cls);
        }
    }
    // (2) every announced code 000..999 through parse_auto / plugin parse / plugin validate
    for c in 0..1000u32 {
        let supported = SUPPORTED.contains(&c);
        let text = reannounce(base_of(c), c);
        let (typed_cls, typed_json) = if supported { with_mt!(c, T => class_typed::<T>(&text), unreachable!()) } else { ("unsupported".to_string(), None) };
        // parse_auto
        let auto = std::panic::catch_unwind(|| SwiftParser::parse_auto(&text));
        let (auto_cls, auto_json) = match auto {
            Ok(Ok(p)) => {
                let mt = p.message_type().to_string();
                let j = serde_json::to_value(&p).ok();
                let body_ty = j.as_ref().and_then(|j| j.get("message_type")).and_then(Value::as_str).unwrap_or("?").to_string();
                (format!("ok {} {}", mt.trim_start_matches('0').parse::<u32>().map(|x| x.to_string()).unwrap_or(mt.clone()), body_ty.parse::<u32>().map(|x| x.to_string()).unwrap_or(body_ty)), j)
            }
            Ok(Err(ParseError::UnsupportedMessageType { message_type })) => {
                if message_type != format!("{:03}", c) {
                    rep.fail(&format!("dispatch|parse_auto|unsupported-names-wrong-type code={c}"), json!({"code": c, "reported": message_type}));
                }
                ("unsupported".to_string(), None)
            }
            Ok(Err(ParseError::SwiftValidation(e))) if e.error_code() == "T03" => ("mismatch".into(), None),
            Ok(Err(e)) => (format!("other-error {}", short(&e)), None),
            Err(_) => ("panic".into(), None),
        };
        rep.case(&format!("auto {c}"), true);
        rep.tally(&format!("auto:{}", auto_cls.split(' ').next().unwrap()));
        rep.model(format!("c12 auto {c}"), auto_cls.clone());
        let expect = if supported { format!("ok {c} {c}") } else { "unsupported".to_string() };
        if auto_cls != expect {
            rep.fail(&format!("dispatch|parse_auto|code={c}"), json!({"entry": "SwiftParser::parse_auto", "code": c, "input_hex": hex(&text), "expected": expect, "observed": auto_cls}));
        }
        // result equals the typed API's result (JSON of the SwiftMessage, ignoring the wrapper's mt_type tag)
        if let (Some(tj), Some(mut aj)) = (typed_json.clone(), auto_json) {
            let tag = aj.as_object_mut().and_then(|o| o.remove("mt_type"));
            if aj != tj {
                rep.fail(&format!("dispatch|parse_auto|result-differs code={c}"), json!({"code": c, "input_hex": hex(&text)}));
            }
            if tag != Some(json!(format!("{:03}", c))) {
                rep.fail(&format!("dispatch|wrapper|mt_type-tag code={c}"), json!({"code": c, "tag": tag}));
            }
        }
        if typed_cls != expect && supported {
            rep.fail(&format!("dispatch|typed|diagonal code={c}"), json!({"code": c, "observed": typed_cls, "input_hex": hex(&text)}));
        }
        // plugin parse
        let pp = plugins.parse(&text);
        let pp_cls = match &pp {
            Ok((j, _method, mt)) => {
                let body_ty = j.get("message_type").and_then(Value::as_str).unwrap_or("?");
                format!("ok {} {}", mt.parse::<u32>().map(|x| x.to_string()).unwrap_or(mt.clone()), body_ty.parse::<u32>().map(|x| x.to_string()).unwrap_or(body_ty.to_string()))
            }
            Err(e) if e.contains("UnsupportedMessageType") || e.contains("Unsupported message type") => "unsupported".into(),
            Err(e) if e.contains("T03") => "mismatch".into(),
            Err(e) => format!("other-error {}", e.chars().take(60).collect::<String>().replace(' ', "_")),
        };
        rep.case(&format!("pparse {c}"), true);
        rep.model(format!("c12 pparse {c}"), pp_cls.clone());
        if pp_cls != expect {
            rep.fail(&format!("dispatch|plugin_parse|code={c}"), json!({"entry": "parse_mt", "code": c, "input_hex": hex(&text), "expected": expect, "observed": pp_cls}));
        }
        if let (Some(tj), Ok((pj, _, _))) = (typed_json.clone(), &pp) {
            if *pj != tj {
                rep.fail(&format!("dispatch|plugin_parse|result-differs code={c}"), json!({"code": c, "input_hex": hex(&text)}));
            }
        }
        // plugin validate
        let pv = plugins.validate(&text);
        let pv_cls = match &pv {
            Ok(v) => {
                let errs: Vec<String> = v.get("errors").and_then(Value::as_array).map(|a| a.iter().filter_map(|x| x.as_str().map(String::from)).collect()).unwrap_or_default();
                if let Some(mt) = v.get("message_type").and_then(Value::as_str) {
                    let n = mt.parse::<u32>().map(|x| x.to_string()).unwrap_or(mt.to_string());
                    format!("ok {n} {n}")
                } else if errs.iter().any(|e| e.contains("Unsupported message type")) {
                    "unsupported".into()
                } else if errs.iter().any(|e| e.contains("T03")) {
                    "mismatch".into()
                } else {
                    format!("other-error {}", errs.first().cloned().unwrap_or_default().chars().take(60).collect::<String>().replace(' ', "_"))
                }
            }
            Err(e) => format!("other-error {}", e.chars().take(60).collect::<String>().replace(' ', "_")),
        };
        rep.case(&format!("pvalidate {c}"), true);
        rep.model(format!("c12 pvalidate {c}"), pv_cls.clone());
        if pv_cls != expect {
            rep.fail(&format!("dispatch|plugin_validate|code={c}"), json!({"entry": "validate_mt", "code": c, "input_hex": hex(&text), "expected": expect, "observed": pv_cls}));
        }
        // validation verdicts agree with the typed API on the diagonal
        if supported {
            let typed_errs: Option<Vec<String>> = with_mt!(c, T => SwiftParser::parse::<T>(&text).ok().map(|m| m.fields.validate_network_rules(false).iter().map(|e| e.error_code().to_string()).collect()), None);
            if let (Some(te), Ok(v)) = (typed_errs, &pv) {
                let valid = v.get("valid").and_then(Value::as_bool).unwrap_or(false);
                let n = v.get("errors").and_then(Value::as_array).map(|a| a.len()).unwrap_or(0);
                if valid != te.is_empty() || n != te.len() {
                    rep.fail(&format!("dispatch|plugin_validate|verdict-differs code={c}"), json!({"code": c, "typed_codes": te, "plugin": v, "input_hex": hex(&text)}));
                }
                // wrapper validate
                if let Ok(p) = SwiftParser::parse_auto(&text) {
                    let vr = p.validate();
                    if vr.is_valid != te.is_empty() || vr.errors.len() != te.len() {
                        rep.fail(&format!("dispatch|wrapper_validate|verdict-differs code={c}"), json!({"code": c, "typed_codes": te, "input_hex": hex(&text)}));
                    }
                    rep.model(format!("c12 wvalidate {c}"), format!("ok {c} {c}"));
                    rep.model(format!("c12 wrapper {c}"), format!("some {}", p.message_type().parse::<u32>().unwrap_or(9999)));
                }
            }
            // publish: JSON of the typed parse → MT text must equal the typed serialisation; both key spellings
            if let Some(tj) = typed_json {
                let direct: Option<String> = with_mt!(c, T => SwiftParser::parse::<T>(&text).ok().map(|m| m.to_mt_message()), None);
                for alias in [false, true] {
                    let mut j = tj.clone();
                    if alias {
                        j["message_type"] = json!(format!("MT{:03}", c));
                    }
                    let pubr = plugins.publish(&j);
                    let cls = match &pubr {
                        Ok(_) => format!("ok {c} {c}"),
                        Err(e) if e.contains("Unsupported message type") => "unsupported".into(),
                        Err(e) => format!("other-error {}", e.chars().take(80).collect::<String>().replace(' ', "_")),
                    };
                    rep.case(&format!("publish {alias} {c}"), true);
                    rep.model(format!("c12 publish {} {c}", alias as u8), cls.clone());
                    match (&pubr, &direct) {
                        (Ok(p), Some(d)) if !alias && p != d => rep.fail(&format!("dispatch|publish|text-differs code={c}"), json!({"code": c, "published_hex": hex(p), "direct_hex": hex(d)})),
                        (Err(e), _) if !alias => rep.fail(&format!("dispatch|publish|code={c}"), json!({"code": c, "error": e})),
                        _ => {}
                    }
                    if alias {
                        // with the alias key the body JSON carries "MT103" as message_type, which the struct keeps verbatim;
                        // only the dispatch class is compared.
                        if cls != format!("ok {c} {c}") {
                            rep.fail(&format!("dispatch|publish_alias|code={c}"), json!({"code": c, "observed": cls}));
                        }
                    }
                }
            }
        } else {
            // unsupported code through publish: a JSON announcing it must be refused as unsupported
            let j = json!({"message_type": format!("{:03}", c)});
            let cls = match plugins.publish(&j) {
                Ok(_) => "ok ? ?".to_string(),
                Err(e) if e.contains("Unsupported message type") => "unsupported".into(),
                Err(e) => format!("other-error {}", e.chars().take(80).collect::<String>().replace(' ', "_")),
            };
            rep.case(&format!("publish-unsupported {c}"), true);
            rep.model(format!("c12 publish 0 {c}"), cls.clone());
            if cls != "unsupported" {
                rep.fail(&format!("dispatch|publish|unsupported code={c}"), json!({"code": c, "observed": cls}));
            }
        }
        if c % 97 == 0 {
            rep.sample(json!({"announced": format!("{:03}", c), "parse_auto": auto_cls, "parse_mt": pp_cls, "validate_mt": pv_cls}));
        }
    }
    // (2b) type strings that merely START with a supported code (`1990`, `199X`, `MT1992`, `103STP`): publish must refuse them
    // as unsupported like every other entry point, not publish them as the three-character prefix
    for &c in SUPPORTED.iter().take(if o.thorough() { 30 } else { 8 }) {
        let text = reannounce(base_of(c), c);
        let Some(tj) = with_mt!(c, T => SwiftParser::parse::<T>(&text).ok().and_then(|m| serde_json::to_value(&m).ok()), None) else { continue };
        for suffix in ["0", "X", "2", "STP", " "] {
            for prefix in ["", "MT"] {
                let mut j = tj.clone();
                let ty = format!("{prefix}{c:03}{suffix}");
                j["message_type"] = json!(ty);
                rep.case(&format!("publish-longer {ty}"), true);
                if let Ok(p) = plugins.publish(&j) {
                    rep.fail(&format!("dispatch|publish|longer-type code={c}"), json!({"code": c, "message_type": ty, "published_hex": hex(&p), "why": "a type string that only starts with a supported code was published as that type"}));
                }
            }
        }
    }
    // (3) rule-VIOLATING messages of every type that has rules: the wrapper's validate and the validate plugin must give the
    // typed API's verdict for them as well (a dispatch table that sends a type to "nothing to check" only shows on a message
    // that breaks a rule).  The violating messages are the systematic single mutants of the shipped scenarios (C04 stream).
    let scs = scen::all_scenarios();
    for &c in SUPPORTED.iter() {
        let mut done: Vec<Vec<String>> = Vec::new();
        for (_, _, path) in scs.iter().filter(|s| s.0 == c) {
            if done.len() >= (if o.thorough() { 12 } else { 4 }) { break; }
            let Some(schema) = scen::load(path) else { continue };
            let Ok(j) = scen::draw(&schema) else { continue };
            for (_, m1) in crate::c04::single_mutants(&j) {
                if done.len() >= (if o.thorough() { 12 } else { 4 }) { break; }
                let r: Option<(Vec<String>, String)> = with_mt!(c, T => serde_json::from_value::<swift_mt_message::SwiftMessage<T>>(m1.clone()).ok().map(|m| (m.fields.validate_network_rules(false).iter().map(|e| e.error_code().to_string()).collect(), m.to_mt_message())), None);
                let Some((codes, text)) = r else { continue };
                if codes.is_empty() || done.contains(&codes) { continue; }
                // the text must read back as the same type with the same verdict (else it is not a message of this type at all)
                let te: Option<Vec<String>> = with_mt!(c, T => SwiftParser::parse::<T>(&text).ok().map(|m| m.fields.validate_network_rules(false).iter().map(|e| e.error_code().to_string()).collect()), None);
                let Some(te) = te else { continue };
                if te.is_empty() { continue; }
                done.push(codes);
                rep.case(&format!("violating {c} {:?}", te), true);
                if let Ok(v) = plugins.validate(&text) {
                    let valid = v.get("valid").and_then(Value::as_bool).unwrap_or(false);
                    let n = v.get("errors").and_then(Value::as_array).map(|a| a.len()).unwrap_or(0);
                    if valid || n != te.len() {
                        rep.fail(&format!("dispatch|plugin_validate|verdict-differs code={c}"), json!({"code": c, "typed_codes": te, "plugin": v, "input_hex": hex(&text)}));
                    }
                } else {
                    rep.fail(&format!("dispatch|plugin_validate|verdict-differs code={c}"), json!({"code": c, "typed_codes": te, "plugin": "error", "input_hex": hex(&text)}));
                }
                match SwiftParser::parse_auto(&text) {
                    Ok(p) => {
                        let vr = p.validate();
                        if vr.is_valid || vr.errors.len() != te.len() {
                            rep.fail(&format!("dispatch|wrapper_validate|verdict-differs code={c}"), json!({"code": c, "typed_codes": te, "wrapper_errors": vr.errors.len(), "input_hex": hex(&text)}));
                        }
                    }
                    Err(_) => rep.fail(&format!("dispatch|parse_auto|code={c}"), json!({"code": c, "input_hex": hex(&text), "expected": "ok", "observed": "error on a message the typed API reads"})),
                }
            }
        }
        rep.tally(&format!("violating:MT{c}:{}", done.len()));
    }
    rep
}
