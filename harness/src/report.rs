//! Run report: what was explored, what failed (with finding keys), what the Lean driver must be asked.
use serde_json::{Value, json};
use std::collections::BTreeMap;

pub fn hex(s: &str) -> String {
    s.bytes().map(|b| format!("{:02x}", b)).collect()
}
pub fn unhex(h: &str) -> String {
    let bytes: Vec<u8> = (0..h.len() / 2).map(|i| u8::from_str_radix(&h[2 * i..2 * i + 2], 16).unwrap_or(b'?')).collect();
    String::from_utf8_lossy(&bytes).into_owned()
}

#[derive(Default)]
pub struct Report {
    pub property: String,
    pub evaluations: u64,
    pub distinct: std::collections::HashSet<u64>,
    pub nontrivial: u64,
    /// implementation breaks the property on this input (oracle failure): key → first few witnesses
    pub failures: BTreeMap<String, Vec<Value>>,
    pub failure_counts: BTreeMap<String, u64>,
    /// lines for the Lean driver with the implementation's canonical outcome
    pub model_cases: Vec<(String, String)>,
    pub samples: Vec<Value>,
    pub distribution: BTreeMap<String, u64>,
    pub notes: Vec<String>,
}

fn fnv(s: &str) -> u64 {
    let mut h: u64 = 0xcbf29ce484222325;
    for b in s.bytes() {
        h ^= b as u64;
        h = h.wrapping_mul(0x100000001b3);
    }
    h
}

impl Report {
    pub fn new(p: &str) -> Self {
        Report { property: p.to_string(), ..Default::default() }
    }
    /// count one explored case; `shape` identifies the case for distinctness; `nontrivial` by the stream's rule
    pub fn case(&mut self, shape: &str, nontrivial: bool) {
        self.evaluations += 1;
        if nontrivial && self.distinct.insert(fnv(shape)) {
            self.nontrivial += 1;
        }
    }
    pub fn tally(&mut self, k: &str) {
        *self.distribution.entry(k.to_string()).or_insert(0) += 1;
    }
    pub fn sample(&mut self, v: Value) {
        if self.samples.len() < 12 {
            self.samples.push(v);
        }
    }
    /// record an oracle failure under a finding key "kind|site|class"
    pub fn fail(&mut self, key: &str, witness: Value) {
        *self.failure_counts.entry(key.to_string()).or_insert(0) += 1;
        let v = self.failures.entry(key.to_string()).or_default();
        if v.len() < 3 {
            v.push(witness);
        }
    }
    pub fn model(&mut self, request: String, impl_outcome: String) {
        self.model_cases.push((request, impl_outcome));
    }
    pub fn write(&self, dir: &str) {
        std::fs::create_dir_all(dir).ok();
        let mut req = String::new();
        let mut exp = String::new();
        for (r, o) in &self.model_cases {
            req.push_str(r);
            req.push('\n');
            exp.push_str(o);
            exp.push('\n');
        }
        std::fs::write(format!("{dir}/model_requests.txt"), req).unwrap();
        std::fs::write(format!("{dir}/impl_outcomes.txt"), exp).unwrap();
        let j = json!({
            "property": self.property,
            "evaluations": self.evaluations,
            "distinct_nontrivial": self.nontrivial,
            "failures": self.failures,
            "failure_counts": self.failure_counts,
            "model_cases": self.model_cases.len(),
            "samples": self.samples,
            "distribution": self.distribution,
            "notes": self.notes,
        });
        std::fs::write(format!("{dir}/report.json"), serde_json::to_string_pretty(&j).unwrap()).unwrap();
    }
}
