//! C14 — field option letters decide the variant and are preserved.
use crate::extract::h;
use crate::report::{Report, hex};
use crate::rng::Rng;
use crate::{Opts, mgen};
use serde_json::{Value, json};
use swift_mt_message::fields::*;
use swift_mt_message::parser::MessageParser;
use swift_mt_message::{ParseError, SwiftField};

/// (enum name, base tag, family letters; "" = no letter)
pub const ENUMS: &[(&str, &str, &[&str])] = &[
    ("Field25AccountIdentification", "25", &["", "P"]), ("Field32", "32", &["A", "B", "C", "D"]), ("Field32AB", "32", &["A", "B"]),
    ("Field32AmountCD", "32", &["C", "D"]), ("Field50InstructingParty", "50", &["C", "L"]), ("Field50OrderingCustomerFGH", "50", &["F", "G", "H"]),
    ("Field50OrderingCustomerAFK", "50", &["A", "F", "K"]), ("Field50OrderingCustomerNCF", "50", &["", "C", "F"]), ("Field50Creditor", "50", &["A", "K"]),
    ("Field52AccountServicingInstitution", "52", &["A", "C"]), ("Field52OrderingInstitution", "52", &["A", "D"]), ("Field52CreditorBank", "52", &["A", "C", "D"]),
    ("Field52DrawerBank", "52", &["A", "B", "D"]), ("Field53SenderCorrespondent", "53", &["A", "B", "D"]), ("Field54ReceiverCorrespondent", "54", &["A", "B", "D"]),
    ("Field55ThirdReimbursementInstitution", "55", &["A", "B", "D"]), ("Field56Intermediary", "56", &["A", "C", "D"]), ("Field56IntermediaryAD", "56", &["A", "D"]),
    ("Field57", "57", &["A", "B", "C", "D"]), ("Field57DebtInstitution", "57", &["A", "B", "D"]), ("Field58", "58", &["A", "D"]),
    ("Field59", "59", &["A", "F", ""]), ("Field59Debtor", "59", &["A", ""]), ("Field60", "60", &["F", "M"]), ("Field62", "62", &["F", "M"]),
];

macro_rules! with_enum {
    ($name:expr, $E:ident => $body:expr) => {
        match $name {
            "Field25AccountIdentification" => { type $E = Field25AccountIdentification; $body }
            "Field32" => { type $E = Field32; $body }
            "Field32AB" => { type $E = Field32AB; $body }
            "Field32AmountCD" => { type $E = Field32AmountCD; $body }
            "Field50InstructingParty" => { type $E = Field50InstructingParty; $body }
            "Field50OrderingCustomerFGH" => { type $E = Field50OrderingCustomerFGH; $body }
            "Field50OrderingCustomerAFK" => { type $E = Field50OrderingCustomerAFK; $body }
            "Field50OrderingCustomerNCF" => { type $E = Field50OrderingCustomerNCF; $body }
            "Field50Creditor" => { type $E = Field50Creditor; $body }
            "Field52AccountServicingInstitution" => { type $E = Field52AccountServicingInstitution; $body }
            "Field52OrderingInstitution" => { type $E = Field52OrderingInstitution; $body }
            "Field52CreditorBank" => { type $E = Field52CreditorBank; $body }
            "Field52DrawerBank" => { type $E = Field52DrawerBank; $body }
            "Field53SenderCorrespondent" => { type $E = Field53SenderCorrespondent; $body }
            "Field54ReceiverCorrespondent" => { type $E = Field54ReceiverCorrespondent; $body }
            "Field55ThirdReimbursementInstitution" => { type $E = Field55ThirdReimbursementInstitution; $body }
            "Field56Intermediary" => { type $E = Field56Intermediary; $body }
            "Field56IntermediaryAD" => { type $E = Field56IntermediaryAD; $body }
            "Field57" => { type $E = Field57; $body }
            "Field57DebtInstitution" => { type $E = Field57DebtInstitution; $body }
            "Field58" => { type $E = Field58; $body }
            "Field59" => { type $E = Field59; $body }
            "Field59Debtor" => { type $E = Field59Debtor; $body }
            "Field60" => { type $E = Field60; $body }
            "Field62" => { type $E = Field62; $body }
            _ => panic!("unknown enum"),
        }
    };
}

fn tag_of(ser: &str) -> String {
    ser.splitn(3, ':').nth(1).unwrap_or("").to_string()
}
fn content_of(ser: &str) -> String {
    ser.splitn(3, ':').nth(2).unwrap_or("").to_string()
}

/// (Ok: emitted tag, debug, ser) | Err | panic
fn pwv<E: SwiftField>(c: &str, letter: Option<&str>, base: &str) -> Result<Option<(String, String, String)>, ()> {
    let (c2, l2, b2) = (c.to_string(), letter.map(String::from), base.to_string());
    std::panic::catch_unwind(move || E::parse_with_variant(&c2, l2.as_deref(), Some(&b2)).ok().map(|v| { let s = v.to_swift_string(); (tag_of(&s), format!("{v:?}"), s) })).map_err(|_| ())
}
fn heur<E: SwiftField>(c: &str) -> Result<Option<(String, String, String)>, ()> {
    let c2 = c.to_string();
    std::panic::catch_unwind(move || E::parse(&c2).ok().map(|v| { let s = v.to_swift_string(); (tag_of(&s), format!("{v:?}"), s) })).map_err(|_| ())
}

fn check_enum(rep: &mut Report, name: &str, base: &str, family: &[&str], c: &str, src_tag: &str) {
    let wit = |why: &str, extra: Value| json!({"enum": name, "base": base, "content_hex": hex(c), "content_from": src_tag, "why": why, "detail": extra});
    // (A) letter given
    for l in ["", "A", "B", "C", "D", "F", "G", "H", "K", "L", "M", "P", "Z"] {
        let letter = if l.is_empty() { None } else { Some(l) };
        let r = with_enum!(name, E => pwv::<E>(c, letter, base));
        let in_family = family.contains(&l);
        rep.case(&format!("pwv {name} {l} {c}"), true);
        // the enum dispatch against the model built from the regenerated enum declarations and the field models
        rep.model(format!("epw {name} {} {}", if l.is_empty() { "-" } else { l }, h(c)), match &r { Err(()) => "panic".to_string(), Ok(None) => "err".to_string(), Ok(Some((_, _, ser))) => format!("ok {}", h(ser)) });
        match r {
            Err(()) => rep.fail(&format!("panic|{name}|parse_with_variant"), wit("panic", json!(l))),
            Ok(None) => {}
            Ok(Some((tag, _, _))) => {
                let want = format!("{base}{l}");
                if tag != want {
                    if l.is_empty() && !in_family {
                        // no letter given and the family has no letter-less option: the heuristic is allowed to choose (judged in part B)
                    } else if in_family {
                        rep.fail(&format!("wrong_variant|{name}|family-letter:{}", if l.is_empty() { "-" } else { l }), wit("a letter of the family returned another variant", json!({"letter": l, "emitted_tag": tag})));
                    } else {
                        rep.fail(&format!("letter_fallback|{name}|api"), wit("parse_with_variant with a letter outside the family answered with its content heuristic", json!({"letter": l, "emitted_tag": tag})));
                    }
                }
            }
        }
    }
    // (B) no letter: the heuristic
    match with_enum!(name, E => heur::<E>(c)) {
        Err(()) => rep.fail(&format!("panic|{name}|parse"), wit("panic", json!(null))),
        Ok(None) => {}
        Ok(Some((tag, dbg, ser))) => {
            rep.case(&format!("heur {name} {c}"), true);
            let l = tag.strip_prefix(base).unwrap_or("?");
            let letter = if l.is_empty() { None } else { Some(l) };
            if !family.contains(&l) {
                rep.fail(&format!("heuristic|{name}|variant-outside-family"), wit("the heuristic returned a variant outside the family", json!(tag)));
                return;
            }
            // the returned variant's own parser must accept the content and give the same value
            match with_enum!(name, E => pwv::<E>(c, letter, base)) {
                Ok(Some((t2, d2, _))) if t2 == tag && d2 == dbg => {}
                other => rep.fail(&format!("heuristic|{name}|own-parser-disagrees:{}", if l.is_empty() { "-" } else { l }), wit("the variant chosen without a letter is not what that option's own parser gives for the content", json!({"chosen": tag, "with_letter": format!("{other:?}").chars().take(200).collect::<String>()}))),
            }
            // serialise, re-parse with the letter: same value, same text
            let c2 = content_of(&ser);
            match with_enum!(name, E => pwv::<E>(&c2, letter, base)) {
                Ok(Some((t3, d3, s3))) if t3 == tag && d3 == dbg && s3 == ser => {}
                other => rep.fail(&format!("heuristic|{name}|reparse-differs:{}", if l.is_empty() { "-" } else { l }), wit("serialising and re-parsing with the letter does not give the same value", json!({"serialised": ser, "reparsed": format!("{other:?}").chars().take(200).collect::<String>()}))),
            }
        }
    }
    // (C) in a message position: MessageParser::parse_variant_field / parse_optional_variant_field, against the Lean model with
    // the enum's verdict as a sidecar
    for l in ["", "A", "B", "C", "D", "F", "G", "H", "K", "L", "P", "Z"] {
        if !c.is_ascii() { continue; }
        let text = format!(":{base}{l}:{c}\n:99:NEXT\n-");
        let letter = if l.is_empty() { None } else { Some(l) };
        let side = match with_enum!(name, E => pwv::<E>(c, letter, base)) { Ok(Some((_, _, s))) => h(&s), _ => "~".into() };
        for opt in [false, true] {
            let t2 = text.clone();
            let b2 = base.to_string();
            let out = std::panic::catch_unwind(move || {
                let mut p = MessageParser::new(&t2, "103");
                let r: Result<bool, ParseError> = with_enum!(name, E => if opt { p.parse_optional_variant_field::<E>(&b2).map(|o| o.is_some()) } else { p.parse_variant_field::<E>(&b2).map(|_| true) });
                match r {
                    Ok(true) => format!("ok {}", p.remaining().len()),
                    Ok(false) => "none".into(),
                    Err(ParseError::InvalidFieldFormat(e)) => format!("invalid:{}", h(&e.field_tag)),
                    Err(ParseError::MissingRequiredField { field_tag, .. }) => format!("err:missing:{}", h(&field_tag)),
                    Err(_) => "err:other".into(),
                }
            }).unwrap_or("panic".into());
            // content extraction may trim differently from `c` only for trailing CR/LF, which pool contents do not have
            rep.model(format!("pvw {} {} {} {}", opt as u8, h(&text), h(base), side), out.clone());
            // oracle: the letter written in the message decides — what the family's parser accepts under that letter is accepted in
            // the message position (a lettered tag the position reader does not recognise shows up here)
            if side != "~" && family.contains(&l) && !out.starts_with("ok") && !c.contains("\n:") && !c.contains("\n-") && !c.starts_with(':') {
                rep.fail(&format!("letter_not_read|{name}|message-position:{}", if l.is_empty() { "-" } else { l }), wit("content the family accepts under this letter is not read in a message position", json!({"tag": format!("{base}{l}"), "outcome": out})));
            }
            // oracle: accepted in a message ⇒ written back under the tag that was read
            if out.starts_with("ok") {
                let emitted = match with_enum!(name, E => pwv::<E>(c, letter, base)) { Ok(Some((t, _, _))) => t, _ => "?".into() };
                if emitted != format!("{base}{l}") {
                    rep.fail(&format!("wrong_variant|{name}|message-position"), wit("a field read under one tag is held as another option", json!({"read": format!("{base}{l}"), "emitted": emitted})));
                }
            }
        }
    }
}

pub fn run(o: &Opts) -> Report {
    let mut rep = Report::new("C14");
    if let Some(path) = &o.replay {
        let r: Value = serde_json::from_str(&std::fs::read_to_string(path).unwrap_or_default()).unwrap_or(json!({}));
        let w = &r["witness"];
        let name = w["enum"].as_str().unwrap_or("");
        if let Some(e) = ENUMS.iter().find(|e| e.0 == name) {
            check_enum(&mut rep, e.0, e.1, e.2, &crate::report::unhex(w["content_hex"].as_str().unwrap_or("")), "replay");
        }
        return rep;
    }
    let mut rng = Rng::new(o.seed ^ 0x14);
    let pool = mgen::build_pool(if o.thorough() { 5 } else { 2 });
    let ambiguous = ["CHASUS33", "DEUTDEFFXXX", "/12345678", "/12345678\nCHASUS33", "/12345678\nJOHN DOE", "1/JOHN DOE\n2/MAIN ST", "/12345678\n1/JOHN DOE", "JOHN DOE", "JOHN DOE\nMAIN ST",
        "/C/12345678\nCHASUS33", "//FW021000021", "/FW021000021", "12345678\nCHASUS33", "PARTYID", "240315USD1000,00", "USD1000,00", "C240315USD1000,00", "", "/ACCOUNT\nBANKDEFF\nEXTRA", "ABCDEFGH12345678CHASUS33",
        // blank-padded look-alikes: a blank is a character of 35x contents but not of a BIC or an account line
        // a first line shaped like a BIC followed by name lines / a second BIC; one-line names that look like an account
        "ACMECORP\n12 HIGH STREET\nLONDON", "DEUTDEFF\nCHASUS33", "DEUTDEFFXXX\nMAIN STREET 1", "BANK24", "HSBC1865", "BANK24\nLONDON", "NEW YORK\nUSA",
        // slash-led one-liners that are NOT a valid party identifier (lone slash, 35 characters, a character outside the x set)
        "/", "/ABCDEFGHIJKLMNOPQRSTUVWXYZ123456789", "/ABC{DEF", "/ABC\u{e9}", "//", "/C/",
        "DEUTDEFF ", " CHASUS33XXX", "CHASUS33  ", " /12345678", "/12345678 \nCHASUS33", "JOHN DOE ", " JOHN DOE", "DEUTDEFF\t"];
    for (name, base, family) in ENUMS {
        let mut contents: Vec<(String, String)> = Vec::new();
        for l in ["", "A", "B", "C", "D", "F", "G", "H", "K", "L", "M", "P"] {
            let t = format!("{base}{l}");
            if let Some(v) = pool.by_tag.get(&t) {
                let k = if o.thorough() { v.len() } else { v.len().min(12) };
                for _ in 0..k { contents.push((rng.pick(v).clone(), t.clone())); }
            }
        }
        for a in ambiguous { contents.push((a.to_string(), "ambiguous".into())); }
        // splices of two members' contents: the first line of one option's content in front of the remaining lines of
        // another's (contents that start like one option and continue like another)
        {
            let n = contents.len();
            let mut spliced: Vec<(String, String)> = Vec::new();
            for _ in 0..(if o.thorough() { 200 } else { 30 }) {
                if n < 2 { break; }
                let (a, sa) = contents[rng.below(n)].clone();
                let (b, sb) = contents[rng.below(n)].clone();
                if sa == sb { continue; }
                let first = a.split('\n').next().unwrap_or("").to_string();
                let rest: Vec<&str> = b.split('\n').skip(1).collect();
                let c = if rest.is_empty() { format!("{first}\n{b}") } else { format!("{first}\n{}", rest.join("\n")) };
                // (a content never ends in a line break in a message position: extraction trims it)
                let c = c.trim_end_matches(['\n', '\r']).to_string();
                spliced.push((c, format!("splice:{sa}+{sb}")));
            }
            contents.extend(spliced);
        }
        for (c, src) in contents {
            check_enum(&mut rep, name, base, family, &c, &src);
        }
    }
    rep.sample(json!({"enum": "Field59", "content": "/12345678\nCHASUS33", "note": "valid for 59A and for 59 (account + name)"}));
    rep.sample(json!({"enum": "Field50OrderingCustomerAFK", "content": "/X\nNAME", "letter": "C"}));
    rep
}
