//! C11 — dates and times: calendar-valid only, one meaning everywhere, round-trip stable.
//! Exhaustive over all 10^6 six-digit strings / 10^4 HHMM strings / signed offsets in the thorough tier, boundary-directed
//! sample in quick; plus non-digit spellings.  Oracle: an independent days-in-month table.
use crate::report::{Report, hex};
use crate::rng::Rng;
use crate::Opts;
use serde_json::json;
use swift_mt_message::SwiftField;
use swift_mt_message::fields::*;

pub struct Probe {
    pub reparse_same: Option<bool>,
    pub json: Option<serde_json::Value>,
    pub accepted: bool,
    pub panicked: bool,
    pub date: Option<String>,   // first YYYY-MM-DD in the Debug rendering of the parsed value
    pub ser: Option<String>,    // to_swift_string
    pub json_rt_same: Option<bool>,
    pub json_date: Option<String>, // date after JSON round trip
}

fn first_date(s: &str) -> Option<String> {
    let b = s.as_bytes();
    for i in 0..b.len().saturating_sub(9) {
        let w = &b[i..i + 10];
        if w[4] == b'-' && w[7] == b'-' && w.iter().enumerate().all(|(k, c)| k == 4 || k == 7 || c.is_ascii_digit()) {
            return Some(s[i..i + 10].to_string());
        }
    }
    None
}

pub fn probe<F: SwiftField>(content: &str) -> Probe {
    let c = content.to_string();
    let r = std::panic::catch_unwind(move || {
        match F::parse(&c) {
            Ok(f) => {
                let dbg = format!("{f:?}");
                let ser = f.to_swift_string();
                let body = ser.splitn(3, ':').nth(2).unwrap_or("").to_string();
                let re = F::parse(&body).ok().map(|g| format!("{g:?}") == dbg && g.to_swift_string() == ser);
                let jv = serde_json::to_value(&f).ok();
                let (same, jd) = match serde_json::to_value(&f).ok().and_then(|v| serde_json::from_value::<F>(v).ok()) {
                    Some(g) => { let d2 = format!("{g:?}"); (Some(d2 == dbg), first_date(&d2)) }
                    None => (Some(false), None),
                };
                Some((first_date(&dbg), ser, same, jd, re, jv))
            }
            Err(_) => None,
        }
    });
    match r {
        Ok(Some((date, ser, same, jd, re, jv))) => Probe { accepted: true, panicked: false, date, ser: Some(ser), json_rt_same: same, json_date: jd, reparse_same: Some(re.unwrap_or(false)), json: jv },
        Ok(None) => Probe { accepted: false, panicked: false, date: None, ser: None, json_rt_same: None, json_date: None, reparse_same: None, json: None },
        Err(_) => Probe { accepted: false, panicked: true, date: None, ser: None, json_rt_same: None, json_date: None, reparse_same: None, json: None },
    }
}

/// (name, prefix, suffix): the date digits are placed between prefix and suffix
pub const DATE_FIELDS: &[(&str, &str, &str)] = &[
    ("30", "", ""), ("32A", "", "USD1,00"), ("32C", "", "USD1,00"), ("32D", "", "USD1,00"),
    ("60F", "C", "USD1,00"), ("60M", "C", "USD1,00"), ("62F", "C", "USD1,00"), ("62M", "C", "USD1,00"),
    ("64", "C", "USD1,00"), ("65", "C", "USD1,00"), ("61", "", "C1,00NTRFREF"), ("13D", "", "1200+0100"),
    ("11R", "103", ""), ("11S", "103", ""), ("11", "103", ""),
];

pub fn probe_generic(name: &str, content: &str) -> Probe {
    match name {
        "19" => probe::<Field19>(content), "32B" => probe::<Field32B>(content), "33B" => probe::<Field33B>(content),
        "34F" => probe::<Field34F>(content), "36" => probe::<Field36>(content), "37H" => probe::<Field37H>(content),
        "71F" => probe::<Field71F>(content), "71G" => probe::<Field71G>(content), "90C" => probe::<Field90C>(content),
        "90D" => probe::<Field90D>(content),
        other => probe_field(other, content),
    }
}

pub fn probe_field(name: &str, content: &str) -> Probe {
    match name {
        "30" => probe::<Field30>(content), "32A" => probe::<Field32A>(content), "32C" => probe::<Field32C>(content),
        "32D" => probe::<Field32D>(content), "60F" => probe::<Field60F>(content), "60M" => probe::<Field60M>(content),
        "62F" => probe::<Field62F>(content), "62M" => probe::<Field62M>(content), "64" => probe::<Field64>(content),
        "65" => probe::<Field65>(content), "61" => probe::<Field61>(content), "13D" => probe::<Field13D>(content),
        "13C" => probe::<Field13C>(content), "11R" => probe::<Field11R>(content), "11S" => probe::<Field11S>(content),
        "11" => probe::<Field11>(content),
        _ => panic!("unknown field {name}"),
    }
}

fn days_in_month(y: u32, m: u32) -> u32 {
    match m {
        1 | 3 | 5 | 7 | 8 | 10 | 12 => 31,
        4 | 6 | 9 | 11 => 30,
        2 => if (y % 4 == 0 && y % 100 != 0) || y % 400 == 0 { 29 } else { 28 },
        _ => 0,
    }
}

/// Independent oracle: the date six ASCII digits denote (pivot: 00–49 → 20yy, 50–99 → 19yy), if any.
pub fn expected_date(d: &str) -> Option<String> {
    if d.len() != 6 || !d.bytes().all(|b| b.is_ascii_digit()) {
        return None;
    }
    let yy: u32 = d[0..2].parse().ok()?;
    let mm: u32 = d[2..4].parse().ok()?;
    let dd: u32 = d[4..6].parse().ok()?;
    let y = if yy <= 49 { 2000 + yy } else { 1900 + yy };
    if mm < 1 || mm > 12 || dd < 1 || dd > days_in_month(y, mm) {
        return None;
    }
    Some(format!("{y:04}-{mm:02}-{dd:02}"))
}

fn model_date(rep: &mut Report, d: &str) {
    // implementation side of the `date` request: Field30 is parse_date_yymmdd + the {:02} printer
    let p = probe_field("30", d);
    let out = if p.panicked { "panic".to_string() } else if let (true, Some(dt)) = (p.accepted, &p.date) {
        let y: u32 = dt[0..4].parse().unwrap();
        let m: u32 = dt[5..7].parse().unwrap();
        let dd: u32 = dt[8..10].parse().unwrap();
        let printed = p.ser.clone().unwrap_or_default().trim_start_matches(":30:").to_string();
        format!("some {y} {m} {dd} {}", crate::extract::h(&printed))
    } else { "none".to_string() };
    rep.model(format!("date {}", crate::extract::h(d)), out);
    // Field13D JSON codec on the same characters
    let j = serde_json::json!({"date": d, "time": "1200", "offset_sign": "+", "offset": "0100"});
    let out = match std::panic::catch_unwind(|| serde_json::from_value::<Field13D>(j)) {
        Ok(Ok(f)) => match first_date(&format!("{f:?}")) {
            Some(dt) => format!("some {} {} {}", dt[0..4].parse::<u32>().unwrap(), dt[5..7].parse::<u32>().unwrap(), dt[8..10].parse::<u32>().unwrap()),
            None => "none".into(),
        },
        Ok(Err(_)) => "none".into(),
        Err(_) => "panic".into(),
    };
    rep.model(format!("json13d {}", crate::extract::h(d)), out);
}

fn check_date(rep: &mut Report, d: &str, fields: &[(&str, &str, &str)]) {
    let exp = expected_date(d);
    if fields.len() > 1 {
        model_date(rep, d);
    }
    for (name, pre, suf) in fields {
        if name.starts_with("11") && d.len() != 6 {
            continue; // what follows the six date characters of field 11a is its optional session number (C05's business)
        }
        let content = format!("{pre}{d}{suf}");
        let p = probe_field(name, &content);
        let nontrivial = exp.is_some() || !d.bytes().all(|b| b.is_ascii_digit());
        rep.case(&format!("{name} {d}"), nontrivial);
        let w = |why: &str| json!({"field": name, "content_hex": hex(&content), "digits": d, "expected": exp, "why": why});
        if p.panicked {
            rep.fail(&format!("panic|Field{name}|date"), w("panic"));
            continue;
        }
        match (&exp, p.accepted) {
            (None, true) => {
                let class = if d.bytes().all(|b| b.is_ascii_digit()) { "not-a-calendar-date" } else { "not-six-digits" };
                rep.fail(&format!("accept_invalid|Field{name}|{class}"), w("accepted although the six characters do not denote a calendar date"));
            }
            (Some(_), false) => rep.fail(&format!("reject_valid|Field{name}|date"), w("a real calendar date was rejected")),
            (Some(e), true) => {
                if p.date.as_deref() != Some(e.as_str()) {
                    let class = if d[0..2].parse::<u32>().unwrap() >= 50 { "yy>=50" } else { "yy<50" };
                    rep.fail(&format!("other_meaning|Field{name}|{class}"), json!({"field": name, "content_hex": hex(&content), "digits": d, "expected": e, "observed": p.date, "why": "the same six digits denote another date in this field than in the others"}));
                }
                let ser = p.ser.clone().unwrap_or_default();
                if !ser.contains(d) {
                    rep.fail(&format!("digits_changed|Field{name}|mt"), json!({"field": name, "content_hex": hex(&content), "digits": d, "serialised": ser, "why": "serialising the parsed value does not reproduce the digits read"}));
                }
                if p.json_rt_same != Some(true) {
                    let class = if p.json_date != p.date { "date" } else { "other" };
                    rep.fail(&format!("json_mismatch|Field{name}|{class}"), json!({"field": name, "content_hex": hex(&content), "digits": d, "mt_date": p.date, "json_date": p.json_date, "why": "the value does not survive to_value / from_value"}));
                }
            }
            (None, false) => {}
        }
    }
}

fn check_time(rep: &mut Report, t: &str) {
    let ok = t.len() == 4 && t.bytes().all(|b| b.is_ascii_digit()) && t[0..2].parse::<u32>().unwrap() <= 23 && t[2..4].parse::<u32>().unwrap() <= 59;
    for (name, content) in [("13C", format!("/SNDTIME/{t}+0100")), ("13D", format!("240315{t}+0100"))] {
        let p = probe_field(name, &content);
        if name == "13D" && t.len() == 4 {
            rep.model(format!("time {}", crate::extract::h(t)), if p.panicked { "panic".into() } else if p.accepted { format!("some {} {}", t[0..2].parse::<u32>().unwrap_or(99), t[2..4].parse::<u32>().unwrap_or(99)) } else { "none".into() });
        }
        rep.case(&format!("{name} time {t}"), true);
        let w = |why: &str| json!({"field": name, "content_hex": hex(&content), "time": t, "why": why});
        if p.panicked {
            rep.fail(&format!("panic|Field{name}|time"), w("panic"));
        } else if p.accepted && !ok {
            rep.fail(&format!("accept_invalid|Field{name}|time"), w("not a clock time"));
        } else if !p.accepted && ok {
            rep.fail(&format!("reject_valid|Field{name}|time"), w("a real clock time was rejected"));
        } else if p.accepted {
            if !p.ser.clone().unwrap_or_default().contains(t) {
                rep.fail(&format!("digits_changed|Field{name}|time"), w("time digits not reproduced"));
            }
            if p.json_rt_same != Some(true) {
                rep.fail(&format!("json_mismatch|Field{name}|time"), w("JSON round trip changed the value"));
            }
        }
    }
}

/// the JSON side reads the same strings as times as the MT side does (13C / 13D carry the time as an HHMM string in JSON)
fn check_time_json(rep: &mut Report, t: &str) {
    let ok = t.len() == 4 && t.bytes().all(|b| b.is_ascii_digit()) && t[0..2].parse::<u32>().unwrap() <= 23 && t[2..4].parse::<u32>().unwrap() <= 59;
    for (name, j) in [("13D", json!({"date": "240315", "time": t, "offset_sign": "+", "offset": "0100"})), ("13C", json!({"code": "SNDTIME", "time": t, "sign": "+", "offset": "0100"}))] {
        let jj = j.clone();
        let r = std::panic::catch_unwind(move || if name == "13D" { serde_json::from_value::<Field13D>(jj).map(|f| f.to_swift_string()) } else { serde_json::from_value::<swift_mt_message::fields::Field13C>(jj).map(|f| f.to_swift_string()) });
        rep.case(&format!("{name} json time {t}"), true);
        let w = |why: &str, extra: serde_json::Value| json!({"field": name, "json": j, "time": t, "why": why, "detail": extra});
        match r {
            Err(_) => rep.fail(&format!("panic|Field{name}|json-time"), w("panic", json!(null))),
            Ok(Ok(ser)) => {
                if !ok { rep.fail(&format!("json_accepts_invalid|Field{name}|time"), w("JSON accepts as a time a string the MT side refuses", json!(ser))); }
                else if !ser.contains(t) { rep.fail(&format!("digits_changed|Field{name}|json-time"), w("the time read from JSON is written with other digits", json!(ser))); }
            }
            Ok(Err(_)) => if ok { rep.fail(&format!("json_rejects_valid|Field{name}|time"), w("JSON refuses a clock time the MT side accepts", json!(null))); },
        }
    }
}

fn check_offset(rep: &mut Report, sign: char, o: &str) {
    let digits = o.len() == 4 && o.bytes().all(|b| b.is_ascii_digit());
    let ok = (sign == '+' || sign == '-') && digits && o[0..2].parse::<u32>().unwrap() <= 14 && o[2..4].parse::<u32>().unwrap() <= 59;
    for (name, content) in [("13C", format!("/SNDTIME/1200{sign}{o}")), ("13D", format!("2403151200{sign}{o}"))] {
        let p = probe_field(name, &content);
        if name == "13D" && o.len() == 4 && sign.is_ascii() {
            rep.model(format!("offset {} {}", crate::extract::h(&sign.to_string()), crate::extract::h(o)), if p.panicked { "panic".into() } else if p.accepted { format!("some {} {}", o[0..2].parse::<u32>().unwrap_or(99), o[2..4].parse::<u32>().unwrap_or(99)) } else { "none".into() });
        }
        rep.case(&format!("{name} offset {sign}{o}"), true);
        let w = |why: &str| json!({"field": name, "content_hex": hex(&content), "offset": format!("{sign}{o}"), "why": why});
        if p.panicked {
            rep.fail(&format!("panic|Field{name}|offset"), w("panic"));
        } else if p.accepted && !ok {
            rep.fail(&format!("accept_invalid|Field{name}|offset"), w("not a UTC offset (sign, HH<=14, MM<=59)"));
        } else if !p.accepted && ok {
            rep.fail(&format!("reject_valid|Field{name}|offset"), w("a valid offset was rejected"));
        } else if p.accepted && !p.ser.clone().unwrap_or_default().contains(&format!("{sign}{o}")) {
            rep.fail(&format!("digits_changed|Field{name}|offset"), w("offset not reproduced"));
        }
    }
}

pub fn run(o: &Opts) -> Report {
    let mut rep = Report::new("C11");
    if let Some(path) = &o.replay {
        let r: serde_json::Value = serde_json::from_str(&std::fs::read_to_string(path).unwrap_or_default()).unwrap_or(json!({}));
        let w = &r["witness"];
        if let Some(d) = w["digits"].as_str() {
            let name = w["field"].as_str().unwrap_or("30").to_string();
            let fs: Vec<(&str, &str, &str)> = DATE_FIELDS.iter().filter(|f| f.0 == name).cloned().collect();
            check_date(&mut rep, d, &fs);
        } else if let Some(t) = w["time"].as_str() {
            check_time(&mut rep, t);
        } else if let Some(of) = w["offset"].as_str() {
            let mut cs = of.chars();
            let s = cs.next().unwrap_or('+');
            check_offset(&mut rep, s, cs.as_str());
        }
        return rep;
    }
    let mut rng = Rng::new(o.seed ^ 0x11);
    if o.thorough() {
        for n in 0..1_000_000u32 {
            check_date(&mut rep, &format!("{n:06}"), DATE_FIELDS);
        }
        for n in 0..10_000u32 {
            check_time(&mut rep, &format!("{n:04}"));
            check_time_json(&mut rep, &format!("{n:04}"));
            check_offset(&mut rep, '+', &format!("{n:04}"));
            check_offset(&mut rep, '-', &format!("{n:04}"));
        }
        rep.notes.push("exhaustive: 10^6 six-digit strings x 15 fields, 10^4 HHMM, 2x10^4 signed offsets".into());
    } else {
        // every year x every month-end / leap-day boundary, plus random strings
        for yy in 0..100u32 {
            for mm in [0u32, 1, 2, 3, 4, 6, 9, 11, 12, 13, 99] {
                for dd in [0u32, 1, 28, 29, 30, 31, 32, 99] {
                    check_date(&mut rep, &format!("{yy:02}{mm:02}{dd:02}"), DATE_FIELDS);
                }
            }
        }
        for _ in 0..3000 {
            check_date(&mut rep, &format!("{:06}", rng.below(1_000_000)), DATE_FIELDS);
        }
        for n in (0..10_000u32).step_by(7) {
            check_time(&mut rep, &format!("{n:04}"));
            check_time_json(&mut rep, &format!("{n:04}"));
        }
        for t in ["2400", "2359", "0000", "2360", "2500", "9999", "240", "24000"] { check_time_json(&mut rep, t); }
        for hh in 0..100u32 {
            for mm in [0u32, 1, 30, 59, 60, 99] {
                check_time(&mut rep, &format!("{hh:02}{mm:02}"));
                check_offset(&mut rep, '+', &format!("{hh:02}{mm:02}"));
                check_offset(&mut rep, '-', &format!("{hh:02}{mm:02}"));
            }
        }
    }
    // non-digit spellings (both tiers)
    let odd = ["+1+1+1", "-10101", " 10101", "2401 1", "24O101", "24-1-1", "240101 ", "24010", "2401011", "", "١٢٣٤٥٦", "24\u{e9}101", "2\u{e9}0101", "ab0101", "24.1.1", "1e0101", "+20101", "0x0101",
        // eight digits (a four-digit year) are not `6!n`, whatever date they spell
        "20240719", "19490101", "20491231", "20000229", "24071900", "00240719", "2024071", "202407190"];
    for d in odd {
        check_date(&mut rep, d, DATE_FIELDS);
    }
    for t in ["+1+1", "-100", " 100", "1 00", "12:0", "", "12000", "١٢٠٠", "1\u{e9}0", "+100", "1e00"] {
        check_time(&mut rep, t);
    }
    for (s, of) in [('+', "+1+1"), ('*', "0100"), (' ', "0100"), ('+', "01 0"), ('+', "١٢٠٠"), ('+', "1\u{e9}0"), ('+', ""), ('\u{e9}', "0100"), ('+', "-100")] {
        check_offset(&mut rep, s, of);
    }
    rep.sample(json!({"field": "32A", "content": "240229USD1,00", "expected": expected_date("240229")}));
    rep.sample(json!({"field": "13D", "content": "7901011200+0100", "expected": expected_date("790101")}));
    rep.sample(json!({"field": "30", "content": "+1+1+1", "expected": null}));
    rep
}
