//! C08 — JSON conversion is lossless and agrees with the MT serialisation (message level).
//! Messages of all 30 types are generated from the independent layout grammar (every option letter, 0..max repetitions;
//! contents from the library's own spellings plus dates across the century window and currencies of every precision),
//! wrapped in headers (with and without user header / trailer), parsed with the typed API, and then:
//!   json_roundtrip   from_value(to_value(m)) serialises to the same JSON and the same MT text
//!   publish_agrees   publish_mt(to_value(m)) == m.to_mt_message()
//!   placeholders     no `{}`, `[]` member stands where the MT text has no field; every number is finite
//!   order            repeated sequences / fields appear in the JSON in input order (checked through the MT text both ways)
//! The JSON value of the body is also sent to the Lean driver (`conf <Type> <json>`): conformance of the real serde
//! output with the regenerated declarations (Generated/Shapes.lean).
use crate::fields::canon;
use crate::report::{Report, hex};
use crate::types::SUPPORTED;
use crate::{Opts, mgen, plugin::Plugins, rng::Rng, tok, with_mt};
use serde_json::{Value, json};
use swift_mt_message::{SwiftMessage, SwiftMessageBody, SwiftParser};

fn placeholders(v: &Value, path: &str, out: &mut Vec<String>) {
    match v {
        Value::Object(m) => {
            if m.is_empty() && !path.is_empty() {
                out.push(format!("{path}={{}}"));
            }
            for (k, c) in m {
                placeholders(c, &format!("{path}/{k}"), out);
            }
        }
        Value::Array(a) => {
            if a.is_empty() {
                out.push(format!("{path}=[]"));
            }
            for (i, c) in a.iter().enumerate() {
                placeholders(c, &format!("{path}/{i}"), out);
            }
        }
        Value::Number(n) => {
            if !n.as_f64().map(|f| f.is_finite()).unwrap_or(true) {
                out.push(format!("{path}=non-finite"));
            }
        }
        _ => {}
    }
}

fn one<T: SwiftMessageBody + serde::de::DeserializeOwned + serde::Serialize + Clone + 'static>(
    rep: &mut Report, code: u32, text: &str, plugins: &Plugins, class: &str,
) {
    let parsed = std::panic::catch_unwind(|| SwiftParser::parse::<T>(text));
    let m: SwiftMessage<T> = match parsed {
        Ok(Ok(m)) => m,
        Ok(Err(_)) => {
            rep.tally("generated-text-rejected");
            return;
        }
        Err(_) => {
            rep.fail(&format!("panic|MT{code}|parse"), json!({"type": code, "input_hex": hex(text)}));
            return;
        }
    };
    rep.case(&format!("{code} {class} {}", text.len()), true);
    let wit = |why: &str, extra: Value| json!({"type": code, "class": class, "input_hex": hex(text), "why": why, "detail": extra});
    let direct = m.to_mt_message();
    let j = match serde_json::to_value(&m) {
        Ok(j) => j,
        Err(e) => {
            rep.fail(&format!("json_error|MT{code}|to_value"), wit("to_value failed", json!(e.to_string())));
            return;
        }
    };
    // lossless
    match serde_json::from_value::<SwiftMessage<T>>(j.clone()) {
        Ok(m2) => {
            let j2 = serde_json::to_value(&m2).unwrap_or(Value::Null);
            if canon(&j2) != canon(&j) {
                rep.fail(&format!("json_value_changed|MT{code}|roundtrip"), wit("from_value(to_value(m)) differs from m", json!({"first": j, "second": j2})));
            } else if format!("{:?}", m2) != format!("{:?}", m) {
                // same JSON, different typed value (e.g. a date read back into another century)
                rep.fail(&format!("json_typed_value_changed|MT{code}|roundtrip"), wit("from_value(to_value(m)) is not equal to m (Debug forms differ)", json!({"json": j})));
            } else if m2.to_mt_message() != direct {
                rep.fail(&format!("json_mt_differs|MT{code}|roundtrip"), wit("the message read back from JSON serialises to a different MT text", json!({"direct": direct, "via_json": m2.to_mt_message()})));
            }
        }
        Err(e) => rep.fail(&format!("json_rejected|MT{code}|from_value"), wit("from_value rejects to_value(m)", json!({"error": e.to_string(), "json": j}))),
    }
    // publish agrees
    match plugins.publish(&j) {
        Ok(p) => {
            if p != direct {
                rep.fail(&format!("publish_differs|MT{code}|text"), wit("publish_mt(to_value(m)) differs from to_mt_message()", json!({"direct": direct, "published": p})));
            }
        }
        Err(e) => rep.fail(&format!("publish_failed|MT{code}|{}", class_of_err(&e)), wit("publish_mt fails on to_value(m)", json!({"error": e.chars().take(300).collect::<String>()}))),
    }
    // placeholders and numbers
    let mut ph = Vec::new();
    if let Some(f) = j.get("fields") {
        placeholders(f, "", &mut ph);
    }
    for p in ph {
        let kind = if p.ends_with("non-finite") { "json_nonfinite" } else { "json_placeholder" };
        let site = p.split('/').filter(|s| s.parse::<usize>().is_err()).last().unwrap_or("").split('=').next().unwrap_or("").to_string();
        rep.fail(&format!("{kind}|MT{code}|{site}"), wit("empty placeholder / non-finite number in the JSON form", json!({"path": p})));
    }
    // conformance of the body with the regenerated declarations
    if let Some(f) = j.get("fields") {
        rep.model(format!("conf MT{code} {}", hex(&canon(f))), "ok".to_string());
    }
    for (key, ty) in [("basic_header", "BasicHeader"), ("user_header", "UserHeader"), ("trailer", "Trailer")] {
        if let Some(h) = j.get(key) {
            if !h.is_null() {
                rep.model(format!("conf {ty} {}", hex(&canon(h))), "ok".to_string());
            }
        }
    }
    if rep.samples.len() < 8 {
        rep.sample(json!({"type": code, "class": class, "json_keys": j.get("fields").and_then(Value::as_object).map(|o| o.keys().cloned().collect::<Vec<_>>())}));
    }
}

fn class_of_err(e: &str) -> String {
    if e.contains("missing field") { "missing-field".into() } else if e.contains("Failed to parse JSON") { "from_value".into() } else { "other".into() }
}

pub fn run(o: &Opts) -> Report {
    let mut rep = Report::new("C08");
    let plugins = Plugins::new();
    if let Some(path) = &o.replay {
        let r: Value = serde_json::from_str(&std::fs::read_to_string(path).unwrap_or_default()).unwrap_or(json!({}));
        let code = r["witness"]["type"].as_u64().unwrap_or(0) as u32;
        let text = crate::report::unhex(r["witness"]["input_hex"].as_str().unwrap_or(""));
        with_mt!(code, T => one::<T>(&mut rep, code, &text, &plugins, "replay"), ());
        return rep;
    }
    let mut rng = Rng::new(o.seed);
    let grammars = mgen::load_grammars();
    let mut pool = mgen::build_pool(if o.thorough() { 6 } else { 2 });
    // dates across the century window and currencies of every precision
    let special: Vec<(&str, &str)> = vec![("32A", "500101KWD1,234"), ("32A", "491231JPY1500"), ("32A", "991231CLF12,3456"), ("32A", "000229USD0,01"), ("30", "500101"), ("30", "491231"),
                   ("32B", "BHD0,001"), ("32B", "JPY1"), ("33B", "KWD999,999"), ("60F", "C500101KWD1000,123"), ("62F", "D491231JPY1000"), ("13D", "5001012359+1400"),
                   ("13D", "4912310000-1459"), ("11S", "103500101"), ("11R", "1034912311234123456"), ("61", "500101C5,NTRFNONREF"), ("71F", "JPY100"), ("34F", "KWDD1,001"),
                   ("61", "2401020102D100,00NTRF//BANKREF01"), ("61", "240315D99,50NCHG"), ("61", "240315C1,NMSC\nSUPPLEMENTARY"),
                   ("13D", "6812312359+0000"), ("13D", "6901010000+0000"), ("32A", "681231USD1,00"), ("30", "681231"), ("30", "690101"), ("60F", "C681231USD1,00"), ("62F", "C690101USD1,00")];
    for &(t, c) in special.iter() {
        let v = pool.by_tag.entry(t.to_string()).or_default();
        if !v.contains(&c.to_string()) {
            v.push(c.to_string());
        }
    }
    let per_type = if o.thorough() { 400 } else { 40 };
    // the documented contents at their minimum / maximum component lengths as well (a component may legitimately be the empty
    // string: the account-owner reference of 61, …): publishing must not lose or re-interpret those
    mgen::add_spec_contents(&mut pool, &mut rng, if o.thorough() { 12 } else { 3 }, false);
    let envelopes: [(&str, &str); 5] = [("", ""), ("{3:{108:MUR12345}{121:180f1e65-90e0-44d5-a49a-92b55eb3025f}}", ""), ("{3:{113:URGT}{108:REF1}}", "{5:{CHK:123456789ABC}}"),
        ("{3:{108:}}", "{5:{CHK:123456789ABC}{TNG}}"), ("{3:{113:}{108:X}{119:}}", "{5:{PDE:}{DLM}}")];
    for &code in SUPPORTED.iter() {
        let Some(g) = grammars.get(&code) else { continue };
        let mut made = 0;
        let mut tries = 0;
        while made < per_type && tries < per_type * 6 {
            tries += 1;
            let mut gm = mgen::generate(code, g, &mut rng, &pool);
            // every fourth message carries the boundary contents (century window ends, every currency precision) wherever their tag occurs
            if tries % 4 == 0 {
                for ch in gm.chunks.iter_mut() {
                    let cands: Vec<&str> = special.iter().filter(|(t, _)| *t == ch.tag).map(|(_, c)| *c).collect();
                    if !cands.is_empty() {
                        ch.content = rng.pick(&cands).to_string();
                    }
                }
            }
            let body = tok::render(&gm.chunks, "\n", false);
            let (b3s, b5s) = envelopes[rng.below(envelopes.len())];
            // one envelope in three generated: any subset of the block-3 / block-5 tags in any order
            let (gb3, gb5) = (crate::c10::gen_b3_text(&mut rng), crate::c10::gen_b5_text(&mut rng));
            let (b3, b5): (&str, &str) = if tries % 3 == 0 { (&gb3, &gb5) } else { (b3s, b5s) };
            // every other message under generated headers (any terminal / branch code, input and output block 2 in all
            // their shapes): the JSON form of the headers must survive the round trip as well
            let text = if tries % 2 == 0 {
                format!("{{1:F01BANKBEBBAXXX0000000000}}{{2:I{:03}BANKDEFFXXXXN}}{b3}{{4:\n{}\n-}}{b5}", code, body.trim_end_matches('\n'))
            } else {
                format!("{{1:{}}}{{2:{}}}{b3}{{4:\n{}\n-}}{b5}", crate::c10::gen_b1_loose(&mut rng), crate::c10::gen_b2_loose(&mut rng, &format!("{code:03}")), body.trim_end_matches('\n'))
            };
            let before = rep.evaluations;
            with_mt!(code, T => one::<T>(&mut rep, code, &text, &plugins, if b3.is_empty() { "plain" } else { "with-block3" }), ());
            if rep.evaluations > before {
                made += 1;
            }
        }
        rep.tally(&format!("made:MT{code}:{made}"));
    }
    rep
}
