//! Correspondence stream `extract`: adversarial texts through `extract_field_content` and random operation
//! sequences through the public `MessageParser` API, printed in the line protocol of the Lean driver.
use crate::report::{Report, hex};
use crate::rng::Rng;
use crate::Opts;
use serde::{Deserialize, Serialize};
use swift_mt_message::parser::{MessageParser, extract_field_content};
use swift_mt_message::{ParseError, SwiftField};

/// A field type that accepts every content: makes the extraction itself observable through `parse_field`.
#[derive(Debug, Clone, Serialize, Deserialize)]
pub struct Raw(pub String, pub Option<String>, pub Option<String>);
impl SwiftField for Raw {
    fn parse(value: &str) -> swift_mt_message::Result<Self> {
        Ok(Raw(value.to_string(), None, None))
    }
    fn parse_with_variant(value: &str, variant: Option<&str>, t: Option<&str>) -> swift_mt_message::Result<Self> {
        Ok(Raw(value.to_string(), variant.map(String::from), t.map(String::from)))
    }
    fn to_swift_string(&self) -> String {
        format!(":{}{}:{}", self.2.as_deref().unwrap_or(""), self.1.as_deref().unwrap_or(""), self.0)
    }
}

pub fn h(s: &str) -> String {
    if s.is_empty() { "-".into() } else { hex(s) }
}

const PIECES: &[&str] = &[
    ":20:", ":21:", ":32A:", ":50K:", ":50A:", ":59:", ":59F:", ":72:", ":13C:", ":5A:", ":ABCDE:", ":1:", ":é1:", ":\u{3a9}\u{3a9}:", ":20", "20:", "::", ":",
    "REF123", "LINE ONE", "/ACC/123", "X", "240101USD1,00", "A:B:C", "-", "-}", "}", "{", "TEXT-WITH-DASH", "é", "\u{416}", "\u{663}", "~",
    "\n", "\n", "\n", "\r\n", "\r", " ", "\t", "\u{a0}", "\u{2003}", "\n-", "\n-}", "\n-\n", "\n\n", "\n:", "\n:20:", "\n:21:", "\n:59:", "\n:99:",
];
const TAGS: &[&str] = &["20", "21", "32A", "50K", "50A", "59", "59F", "72", "13C", "5A", "99", "é1", "1", "ABCDE", ""];
const BASES: &[&str] = &["50", "59", "52", "20", "32", "5"];

fn adversarial(rng: &mut Rng) -> String {
    let n = rng.range(0, 14);
    let mut s = String::new();
    for _ in 0..n {
        s.push_str(*rng.pick(PIECES));
    }
    s
}

fn fieldish(rng: &mut Rng) -> String {
    // mostly well-formed block-4 text with occasional adversarial pieces
    let n = rng.range(1, 6);
    let mut s = String::new();
    if rng.chance(1, 4) {
        s.push_str(*rng.pick(&["\n", " ", "\r\n", "\u{a0}", "\t\n"]));
    }
    for _ in 0..n {
        let t = *rng.pick(&["20", "21", "32A", "50K", "50A", "50F", "59", "59A", "72", "13C", "52A", "52D", "99"]);
        s.push(':');
        s.push_str(t);
        s.push(':');
        let lines = rng.range(1, 3);
        for l in 0..lines {
            if l > 0 {
                s.push_str(if rng.chance(1, 5) { "\r\n" } else { "\n" });
            }
            s.push_str(*rng.pick(&["REF123", "LINE ONE", "/ACC/123", "A:B", "-DASH", ":X", "", "é", "TEXT -} END"]));
        }
        s.push_str(*rng.pick(&["\n", "\n", "\n", "\r\n", "\n\n", ""]));
    }
    s.push_str(*rng.pick(&["-", "-}", "", "\n-", "-\n", " - "]));
    s
}

fn perr(e: &ParseError) -> String {
    match e {
        ParseError::MissingRequiredField { field_tag, .. } => format!("missing:{}", h(field_tag)),
        ParseError::InvalidFormat { message } if message.starts_with("Duplicate field") => "dup".into(),
        ParseError::InvalidFormat { message } if message.starts_with("Optional field") => "nfo".into(),
        other => format!("other:{}", crate::c12::short(other)),
    }
}

pub fn run(o: &Opts) -> Report {
    let mut rep = Report::new("extract");
    let mut rng = Rng::new(o.seed ^ 0xE7);
    let n = if o.thorough() { 200_000 } else { 6_000 };
    for i in 0..n {
        let text = if i % 2 == 0 { adversarial(&mut rng) } else { fieldish(&mut rng) };
        // (a) extract_field_content
        let tag = *rng.pick(TAGS);
        let r = std::panic::catch_unwind(|| extract_field_content(&text, tag));
        let out = match r {
            Ok(Some((c, n))) => format!("some {} {}", h(&c), n),
            Ok(None) => "none".into(),
            Err(_) => "panic".into(),
        };
        rep.case(&format!("ext {text} {tag}"), out != "none");
        rep.tally(&format!("ext:{}", out.split(' ').next().unwrap()));
        rep.model(format!("ext {} {}", h(&text), h(tag)), out.clone());
        if i < 3 {
            rep.sample(serde_json::json!({"op": "extract_field_content", "input": text, "tag": tag, "impl": out}));
        }
        // (b) a random operation sequence on MessageParser
        let nops = rng.range(1, 8);
        let mut req = format!("mp {}", h(&text));
        let mut outs: Vec<String> = Vec::new();
        let ops: Vec<(u8, String)> = (0..nops).map(|_| {
            let k = rng.below(10) as u8;
            let arg = match k { 2 | 3 | 5 | 6 => rng.pick(BASES).to_string(), _ => rng.pick(TAGS).to_string() };
            (k, arg)
        }).collect();
        let text2 = text.clone();
        let res = std::panic::catch_unwind(move || {
            let mut p = MessageParser::new(&text2, "103");
            let mut outs = Vec::new();
            for (k, arg) in &ops {
                let o = match k {
                    0 => match p.parse_field::<Raw>(arg) { Ok(r) => format!("ok:{}", h(&r.0)), Err(e) => format!("err:{}", perr(&e)) },
                    1 => match p.parse_optional_field::<Raw>(arg) { Ok(Some(r)) => format!("some:{}", h(&r.0)), Ok(None) => "none".into(), Err(e) => format!("err:{}", perr(&e)) },
                    2 => match p.parse_variant_field::<Raw>(arg) { Ok(r) => format!("ok:{}:{}", h(r.1.as_deref().unwrap_or("")), h(&r.0)), Err(e) => format!("err:{}", perr(&e)) },
                    3 => match p.parse_optional_variant_field::<Raw>(arg) { Ok(Some(r)) => format!("some:{}:{}", h(r.1.as_deref().unwrap_or("")), h(&r.0)), Ok(None) => "none".into(), Err(e) => format!("err:{}", perr(&e)) },
                    4 => format!("{}", p.detect_field(arg)),
                    5 => match p.detect_variant_optional(arg) { Some(v) => format!("some:{}", h(&v)), None => "none".into() },
                    6 => match p.peek_field_variant(arg) { Some(v) => format!("some:{}", h(&v)), None => "none".into() },
                    7 => format!("{}", p.is_complete()),
                    8 => format!("{}", p.remaining().len()),
                    _ => { let b = arg.len() % 2 == 0; p = p.with_duplicates(b); "ok".into() }
                };
                outs.push(o);
            }
            (outs, ops)
        });
        match res {
            Ok((o2, ops)) => {
                for (k, arg) in &ops {
                    let name = ["pf", "po", "pv", "pov", "df", "dvo", "pk", "ic", "rem", "dup"][*k as usize];
                    match k {
                        7 | 8 => req.push_str(&format!(" {name}")),
                        9 => req.push_str(&format!(" dup:{}", (arg.len() % 2 == 0) as u8)),
                        _ => req.push_str(&format!(" {name}:{}", h(arg))),
                    }
                }
                outs = o2;
                rep.model(req, outs.join(";"));
            }
            Err(_) => {
                rep.tally("mp:panic");
                rep.fail("panic|MessageParser|op-sequence", serde_json::json!({"input_hex": hex(&text)}));
            }
        }
        rep.case(&format!("mp {text} {nops}"), true);
    }
    rep
}
