//! C13 — validation entry points coherent, order-stable, side-effect free (oracle on the implementation).
use crate::report::{Report, hex};
use crate::types::SUPPORTED;
use crate::{Opts, jsonmut, plugin::Plugins, rng::Rng, scen, with_mt};
use serde_json::{Value, json};
use swift_mt_message::{SwiftMessage, SwiftMessageBody, SwiftParser};

fn errs_of<T: SwiftMessageBody>(m: &T, stop: bool) -> Vec<(String, String)> {
    m.validate_network_rules(stop).iter().map(|e| (e.error_code().to_string(), format!("{e}"))).collect()
}

pub struct Verdict {
    pub full: Vec<(String, String)>,
    pub stop: Vec<(String, String)>,
}

/// All C13 oracle checks on one message value; returns failure keys.
fn check_one<T: SwiftMessageBody + serde::de::DeserializeOwned + Clone>(
    code: u32, j: &Value, plugins: &Plugins, plugin_mode: u8, fails: &mut Vec<(String, Value)>,
) -> Option<Verdict> {
    let m: SwiftMessage<T> = serde_json::from_value(j.clone()).ok()?;
    let before = serde_json::to_value(&m).ok()?;
    let r = std::panic::catch_unwind(std::panic::AssertUnwindSafe(|| {
        let full = errs_of(&m.fields, false);
        let stop = errs_of(&m.fields, true);
        let full2 = errs_of(&m.fields, false);
        let stop2 = errs_of(&m.fields, true);
        (full, stop, full2, stop2)
    }));
    let (full, stop, full2, stop2) = match r {
        Ok(x) => x,
        Err(_) => {
            fails.push((format!("panic|MT{code}|validate_network_rules"), json!({"json": j})));
            return None;
        }
    };
    let codes = |v: &Vec<(String, String)>| v.iter().map(|x| x.0.clone()).collect::<Vec<_>>();
    if stop.len() > full.len() || full[..stop.len()] != stop[..] {
        // distinguish "same codes, different text" (e.g. hash-order dependent wording) from a real prefix break
        if stop.len() <= full.len() && codes(&full)[..stop.len()] == codes(&stop)[..] {
            fails.push((format!("text_order|MT{code}|stop-vs-full wording"), json!({"type": code, "full": full, "stop": stop, "json": j})));
        } else {
            fails.push((format!("not_prefix|MT{code}|stop"), json!({"type": code, "full": full, "stop": stop, "json": j})));
        }
    }
    if stop.is_empty() != full.is_empty() {
        fails.push((format!("empty_mismatch|MT{code}|stop"), json!({"type": code, "full": full, "stop": stop, "json": j})));
    }
    if full != full2 || stop != stop2 {
        if codes(&full) == codes(&full2) && codes(&stop) == codes(&stop2) {
            fails.push((format!("text_order|MT{code}|repeat wording"), json!({"type": code, "first": full, "second": full2, "json": j})));
        } else {
            fails.push((format!("unstable|MT{code}|repeat"), json!({"type": code, "first": full, "second": full2, "json": j})));
        }
    }
    let after = serde_json::to_value(&m).ok()?;
    if after != before {
        fails.push((format!("mutated|MT{code}|message changed by validation"), json!({"type": code, "json": j})));
    }
    // message-level flag
    let vr = m.validate();
    let vr_codes: Vec<String> = vr.errors.iter().map(|e| match e {
        swift_mt_message::ValidationError::BusinessRuleValidation { rule_name, .. } => rule_name.clone(),
        other => format!("{other:?}"),
    }).collect();
    if vr.is_valid != full.is_empty() || vr_codes != codes(&full) {
        fails.push((format!("adapter|SwiftMessage::validate|MT{code}"), json!({"type": code, "flag": vr.is_valid, "adapter_codes": vr_codes, "full": full, "json": j})));
    }
    // the auto-detecting wrapper built from the same value (its JSON form is the message's with an `mt_type` tag): reaches messages
    // the MT parser would refuse (a rule violation that only a message built in memory / from JSON can carry)
    {
        let mut jw = after.clone();
        if let Value::Object(o) = &mut jw { o.insert("mt_type".into(), json!(format!("{code:03}"))); }
        if let Ok(p) = serde_json::from_value::<swift_mt_message::ParsedSwiftMessage>(jw) {
            let w = p.validate();
            if w.is_valid != full.is_empty() || w.errors.len() != full.len() {
                fails.push((format!("adapter|ParsedSwiftMessage::validate|MT{code} (from value)"), json!({"type": code, "flag": w.is_valid, "wrapper_errors": w.errors.len(), "full": full, "json": j})));
            }
        }
    }
    // plugin_mode: 0 never, 1 always, 2 whenever the message violates a rule
    if plugin_mode == 1 || (plugin_mode == 2 && !full.is_empty()) {
        // wrapper + plugin verdicts on the serialised text, against the typed API on the same text
        let text = m.to_mt_message();
        if let Ok(tm) = SwiftParser::parse::<T>(&text) {
            let tfull = errs_of(&tm.fields, false);
            if let Ok(p) = SwiftParser::parse_auto(&text) {
                let w = p.validate();
                if w.is_valid != tfull.is_empty() || w.errors.len() != tfull.len() {
                    fails.push((format!("adapter|ParsedSwiftMessage::validate|MT{code}"), json!({"type": code, "input_hex": hex(&text), "full": tfull, "flag": w.is_valid})));
                }
            }
            match plugins.validate(&text) {
                Ok(v) => {
                    let valid = v.get("valid").and_then(Value::as_bool);
                    let errors: Vec<String> = v.get("errors").and_then(Value::as_array).map(|a| a.iter().filter_map(|x| x.as_str().map(String::from)).collect()).unwrap_or_default();
                    let mut ok = valid == Some(tfull.is_empty()) && errors.len() == tfull.len();
                    for (i, (c, _)) in tfull.iter().enumerate() {
                        if !errors.get(i).map(|e| e.starts_with(&format!("[{c}]"))).unwrap_or(false) {
                            ok = false;
                        }
                    }
                    if !ok {
                        fails.push((format!("adapter|validate_mt|MT{code}"), json!({"type": code, "input_hex": hex(&text), "full": tfull, "plugin": v})));
                    }
                }
                Err(e) => fails.push((format!("adapter|validate_mt|MT{code} error"), json!({"type": code, "input_hex": hex(&text), "error": e}))),
            }
        }
    }
    Some(Verdict { full, stop })
}

pub fn run(o: &Opts) -> Report {
    let mut rep = Report::new("C13");
    let plugins = Plugins::new();
    if let Some(path) = &o.replay {
        let r: Value = serde_json::from_str(&std::fs::read_to_string(path).unwrap_or_default()).unwrap_or(json!({}));
        let code = r["witness"]["type"].as_u64().unwrap_or(0) as u32;
        let j = r["witness"]["json"].clone();
        let mut fails = Vec::new();
        with_mt!(code, T => { check_one::<T>(code, &j, &plugins, 1, &mut fails); }, {});
        rep.case("replay", true);
        for (k, w) in fails {
            rep.fail(&k, w);
        }
        return rep;
    }
    let mut rng = Rng::new(o.seed);
    let scs = scen::all_scenarios();
    let draws = if o.thorough() { 12 } else { 2 };
    let muts = if o.thorough() { 40 } else { 6 };
    let shapes = crate::c04::load_shapes();
    for &code in SUPPORTED.iter() {
        let mut type_pairs_done = false;
        for (_, name, path) in scs.iter().filter(|s| s.0 == code) {
            let Some(schema) = scen::load(path) else { continue };
            for d in 0..draws {
                let Ok(j) = scen::draw(&schema) else {
                    rep.tally("draw-failed");
                    continue;
                };
                // random structural mutants, then (first draw) the systematic single mutants of the C04 stream and random
                // pairs of them: every rule of every type is violated alone and together with a second one, and each
                // violating message goes through all four entry points
                let mut cases: Vec<(Vec<String>, Value, u8)> = Vec::new();
                for k in 0..=muts {
                    let mut jj = j.clone();
                    let desc = if k == 0 { vec![] } else { let n = rng.range(1, 4); jsonmut::mutate(&mut jj, &mut rng, n) };
                    cases.push((desc, jj, if k % 3 == 0 { 1 } else { 0 }));
                }
                if d == 0 {
                    let singles = crate::c04::single_mutants(&j);
                    for _ in 0..(if o.thorough() { 120 } else { 30 }).min(singles.len()) {
                        let (d1, m1) = rng.pick(&singles).clone();
                        let s2 = crate::c04::single_mutants(&m1);
                        if !s2.is_empty() {
                            let (d2, m2) = rng.pick(&s2).clone();
                            cases.push((vec![d1, d2], m2, 2));
                        }
                    }
                    for (d1, m1) in singles {
                        // the group removals always go through the plugin as well: its dispatch is separate from the typed API's
                        let mode = if d1.starts_with("remove-all") { 1 } else { 2 };
                        cases.push((vec![d1], m1, mode));
                    }
                    for (d1, m1) in crate::c04::charge_mutants(code, &j) {
                        cases.push((vec![d1], m1, 2));
                    }
                    for (d1, m1) in crate::c04::absent_member_mutants(code, &j, &shapes) {
                        cases.push((vec![d1], m1, 2));
                    }
                    // every pair of single mutants that violate *different* rules, composed (first scenario of the type):
                    // messages with two or more violated rule groups, where stop-on-first and the full list differ
                    if !type_pairs_done {
                        type_pairs_done = true;
                        // on a message with at least two sequence elements, so that the two violations can sit in DIFFERENT
                        // elements (rule X in the second sequence, rule Y in the first: the order of the full list and the
                        // stop-on-first result then depend on whether the code walks rules or sequences first)
                        let mut j2 = j.clone();
                        if let Some(Value::Array(seq)) = j2.get_mut("fields").and_then(|f| f.get_mut("#")) {
                            if seq.len() == 1 { let e = seq[0].clone(); seq.push(e); }
                        }
                        let elem_of = |d: &str| -> usize { d.split("#/").nth(1).and_then(|r| r.split('/').next()).and_then(|n| n.split(' ').next()).and_then(|n| n.parse::<usize>().ok()).map(|n| n + 1).unwrap_or(0) };
                        let mut singles = crate::c04::single_mutants(&j2);
                        singles.extend(crate::c04::absent_member_mutants(code, &j2, &shapes));
                        let mut violating: Vec<(String, Value, Vec<String>, usize)> = Vec::new();
                        for (d1, m1) in &singles {
                            let codes: Option<Vec<String>> = with_mt!(code, T => serde_json::from_value::<SwiftMessage<T>>(m1.clone()).ok().map(|m| m.fields.validate_network_rules(false).iter().map(|e| e.error_code().to_string()).collect()), None);
                            if let Some(c) = codes {
                                let e = elem_of(d1);
                                if !c.is_empty() && e <= 2 && !violating.iter().any(|v| v.2 == c && v.3 == e) {
                                    violating.push((d1.clone(), m1.clone(), c, e));
                                }
                            }
                        }
                        for (d1, m1, c1, e1) in &violating {
                            let mut s2 = crate::c04::single_mutants(m1);
                            s2.extend(crate::c04::absent_member_mutants(code, m1, &shapes));
                            for (d2, _, c2, e2) in &violating {
                                if c1 == c2 && e1 == e2 { continue; }
                                if c1 == c2 && (*e1 == 0 || *e2 == 0) { continue; }
                                if let Some((_, m2)) = s2.iter().find(|x| &x.0 == d2) {
                                    cases.push((vec![d1.clone(), d2.clone()], m2.clone(), 1));
                                }
                            }
                        }
                    }
                }
                for (desc, jj, mode) in cases {
                    let mut fails = Vec::new();
                    rep.tally(&format!("mutation:{}", desc.first().map(|d| d.split(' ').next().unwrap_or("")).unwrap_or("base")));
                    if desc.first().is_some_and(|d| d.starts_with("add-absent")) { rep.tally(&format!("add-absent:MT{code}")); }
                    let v = with_mt!(code, T => check_one::<T>(code, &jj, &plugins, mode, &mut fails), None);
                    match v {
                        None => rep.tally("not-deserialisable"),
                        Some(v) => {
                            let shape = format!("{code}:{:?}", v.full.iter().map(|x| &x.0).collect::<Vec<_>>());
                            rep.case(&shape, !v.full.is_empty());
                            rep.tally(&format!("errors:{}", v.full.len().min(5)));
                            if v.full.len() >= 2 {
                                rep.tally("multi-rule-violation");
                            }
                            if v.full.len() >= 2 && d == 0 {
                                rep.sample(json!({"type": code, "scenario": name, "mutations": desc, "full": v.full.iter().map(|x| &x.0).collect::<Vec<_>>(), "stop": v.stop.iter().map(|x| &x.0).collect::<Vec<_>>()}));
                            }
                        }
                    }
                    for (key, w) in fails {
                        rep.fail(&key, w);
                    }
                }
            }
        }
    }
    rep
}
