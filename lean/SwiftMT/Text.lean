/-
Text primitives shared by all models.  `Text = List Char`; positions are *character* positions.  Rust's API is
byte-indexed, but every search pattern used by the modelled code is valid UTF-8, so a match always lies on a
character boundary and the char-level model is exact; byte lengths (`blen`) are used where the Rust compares
`len()`.
-/
namespace SwiftMT

abbrev Text := List Char

/-- UTF-8 byte length (`str::len`). -/
def blen (t : Text) : Nat := (t.map (fun c => c.utf8Size)).sum

/-- `char::is_whitespace` (Unicode White_Space). -/
def isWs (c : Char) : Bool :=
  let n := c.toNat
  (9 ≤ n && n ≤ 13) || n == 32 || n == 0x85 || n == 0xA0 || n == 0x1680 || (0x2000 ≤ n && n ≤ 0x200A) ||
  n == 0x2028 || n == 0x2029 || n == 0x202F || n == 0x205F || n == 0x3000

/-- `char::is_alphanumeric`: exact on ASCII; for non-ASCII a documented sample (Latin-1 letters, Greek, Cyrillic,
Arabic-Indic digits) — the harness's non-ASCII generators draw only from ranges on which this table is exact. -/
def isAlnumU (c : Char) : Bool :=
  let n := c.toNat
  c.isAlphanum ||
  (0xC0 ≤ n && n ≤ 0xFF && n != 0xD7 && n != 0xF7) || n == 0xAA || n == 0xB5 || n == 0xBA ||
  n == 0xB2 || n == 0xB3 || n == 0xB9 || (0xBC ≤ n && n ≤ 0xBE) ||
  (0x391 ≤ n && n ≤ 0x3A1) || (0x3A3 ≤ n && n ≤ 0x3C9) || (0x410 ≤ n && n ≤ 0x44F) || (0x660 ≤ n && n ≤ 0x669)

/-- First occurrence of a (non-empty) pattern: `str::find(&str)`. -/
def findSub (pat : Text) : Text → Option Nat
  | [] => none
  | c :: cs => if pat.isPrefixOf (c :: cs) then some 0 else (findSub pat cs).map (· + 1)

/-- `str::find(char)`. -/
def findChar (ch : Char) : Text → Option Nat
  | [] => none
  | c :: cs => if c == ch then some 0 else (findChar ch cs).map (· + 1)

/-- `trim_end_matches(ch)`. -/
def trimEndChar (ch : Char) (t : Text) : Text := (t.reverse.dropWhile (· == ch)).reverse

/-- `str::replace("\r\n", "\n")`: every CR that is directly followed by LF is dropped (matches are non-overlapping and
a CRLF never overlaps another). -/
def replaceCrLf : Text → Text
  | [] => []
  | '\r' :: '\n' :: rest => '\n' :: replaceCrLf rest
  | c :: rest => c :: replaceCrLf rest

/-- `trim_start_matches(char::is_whitespace)` / `trim_start`. -/
def trimStart (t : Text) : Text := t.dropWhile isWs

/-- `trim`. -/
def trim (t : Text) : Text := ((t.dropWhile isWs).reverse.dropWhile isWs).reverse

def hexDigit (n : Nat) : Char := if n < 10 then Char.ofNat (48 + n) else Char.ofNat (87 + n)

end SwiftMT
