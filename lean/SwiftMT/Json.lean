import SwiftMT.Prim
/-
JSON text → `J` (the form in which the harness hands a message value to the model: `serde_json::to_value` of the typed
message, printed canonically), and the accessors the rule models (C04) and the codec models (C08) read it with.
The parser is a plain recursive descent with fuel (the text length bounds the recursion depth).
-/
namespace SwiftMT
namespace J

def skipWs : Text → Text
  | c :: cs => if c == ' ' || c == '\n' || c == '\t' || c == '\r' then skipWs cs else c :: cs
  | [] => []

def hexVal? (c : Char) : Option Nat :=
  if '0' ≤ c && c ≤ '9' then some (c.toNat - 48)
  else if 'a' ≤ c && c ≤ 'f' then some (c.toNat - 87)
  else if 'A' ≤ c && c ≤ 'F' then some (c.toNat - 55)
  else none

/-- after the opening quote: the string and the rest after the closing quote -/
def parseStr : Nat → Text → Text → Option (Text × Text)
  | 0, _, _ => none
  | _ + 1, _, [] => none
  | f + 1, acc, c :: cs =>
    if c == '"' then some (acc.reverse, cs)
    else if c == '\\' then
      match cs with
      | 'n' :: r => parseStr f ('\n' :: acc) r
      | 'r' :: r => parseStr f ('\r' :: acc) r
      | 't' :: r => parseStr f ('\t' :: acc) r
      | 'b' :: r => parseStr f (Char.ofNat 8 :: acc) r
      | 'f' :: r => parseStr f (Char.ofNat 12 :: acc) r
      | '"' :: r => parseStr f ('"' :: acc) r
      | '\\' :: r => parseStr f ('\\' :: acc) r
      | '/' :: r => parseStr f ('/' :: acc) r
      | 'u' :: a :: b :: c2 :: d :: r =>
        match hexVal? a, hexVal? b, hexVal? c2, hexVal? d with
        | some a, some b, some c2, some d => parseStr f (Char.ofNat (a * 4096 + b * 256 + c2 * 16 + d) :: acc) r
        | _, _, _, _ => none
      | _ => none
    else parseStr f (c :: acc) cs

def isNumChar (c : Char) : Bool := c.isDigit || c == '-' || c == '+' || c == '.' || c == 'e' || c == 'E'

mutual
  def parseVal : Nat → Text → Option (J × Text)
    | 0, _ => none
    | f + 1, t =>
      match skipWs t with
      | 'n' :: 'u' :: 'l' :: 'l' :: r => some (.null, r)
      | 't' :: 'r' :: 'u' :: 'e' :: r => some (.bool true, r)
      | 'f' :: 'a' :: 'l' :: 's' :: 'e' :: r => some (.bool false, r)
      | '"' :: r => (parseStr (r.length + 1) [] r).map (fun (s, r') => (.str s, r'))
      | '[' :: r =>
        match skipWs r with
        | ']' :: r' => some (.arr [], r')
        | r' => parseElems f r' []
      | '{' :: r =>
        match skipWs r with
        | '}' :: r' => some (.obj [], r')
        | r' => parseMembers f r' []
      | c :: r =>
        if isNumChar c then
          let n := (c :: r).takeWhile isNumChar
          some (.num n, (c :: r).dropWhile isNumChar)
        else none
      | [] => none
  def parseElems : Nat → Text → List J → Option (J × Text)
    | 0, _, _ => none
    | f + 1, t, acc =>
      match parseVal f t with
      | some (v, r) =>
        match skipWs r with
        | ',' :: r' => parseElems f r' (v :: acc)
        | ']' :: r' => some (.arr (v :: acc).reverse, r')
        | _ => none
      | none => none
  def parseMembers : Nat → Text → List (String × J) → Option (J × Text)
    | 0, _, _ => none
    | f + 1, t, acc =>
      match skipWs t with
      | '"' :: r =>
        match parseStr (r.length + 1) [] r with
        | some (k, r1) =>
          match skipWs r1 with
          | ':' :: r2 =>
            match parseVal f r2 with
            | some (v, r3) =>
              match skipWs r3 with
              | ',' :: r4 => parseMembers f r4 ((String.ofList k, v) :: acc)
              | '}' :: r4 => some (.obj ((String.ofList k, v) :: acc).reverse, r4)
              | _ => none
            | none => none
          | _ => none
        | none => none
      | _ => none
end

def parse (t : Text) : Option J :=
  match parseVal (t.length + 2) t with
  | some (v, r) => if (skipWs r).isEmpty then some v else none
  | none => none

/-! ### accessors -/

/-- object member (`None` for a missing key and for a non-object) -/
def get (j : J) (k : String) : Option J :=
  match j with
  | .obj kv => (kv.find? (fun p => p.1 == k)).map (·.2)
  | _ => none

/-- member that is present and not `null` (what `Option<T>` / a flattened option enum reads as `Some`) -/
def getSome (j : J) (k : String) : Option J :=
  match j.get k with
  | some .null => none
  | r => r

def has (j : J) (k : String) : Bool := (j.getSome k).isSome

/-- first of several keys that is present (a flattened option enum: one key per variant) -/
def firstOf (j : J) : List String → Option (String × J)
  | [] => none
  | k :: ks => match j.getSome k with
    | some v => some (k, v)
    | none => firstOf j ks

def hasAny (j : J) (ks : List String) : Bool := (j.firstOf ks).isSome

def elems (j : J) : List J :=
  match j with
  | .arr l => l
  | _ => []

/-- `Option<Vec<T>>` / `Vec<T>` member as a list (absent, null → empty) -/
def list (j : J) (k : String) : List J :=
  match j.getSome k with
  | some v => v.elems
  | none => []

def str? (j : J) : Option Text :=
  match j with
  | .str t => some t
  | _ => none

/-- string member -/
def strAt (j : J) (k : String) : Option Text := (j.getSome k).bind str?

/-- a JSON number printed by serde_json as a plain decimal (`123`, `123.45`, `0.001`) → exact decimal; exponent forms → none -/
def dec? (j : J) : Option Dec :=
  match j with
  | .num t =>
    let ip := t.takeWhile Char.isDigit
    let rest := t.dropWhile Char.isDigit
    if ip.isEmpty then none else
    match rest with
    | [] => some ⟨digitsVal ip 0, 0⟩
    | '.' :: fr => if fr.all Char.isDigit && !fr.isEmpty then some ⟨digitsVal (ip ++ fr) 0, fr.length⟩ else none
    | _ => none
  | _ => none

def decAt (j : J) (k : String) : Option Dec := (j.getSome k).bind dec?

end J
end SwiftMT
