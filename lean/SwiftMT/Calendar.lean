import SwiftMT.Text
/-
Dates and times as the library reads and writes them (after the `fix:` commits).
`parse_date_yymmdd`, `parse_time_hhmm`, the 13C/13D offset check, the `%y%m%d` / `{:02}` printers and the
Field13D JSON date codec.  `NaiveDate::from_ymd_opt` is taken to be Gregorian validity (assumption, validated
exhaustively by the harness for 1950–2049).
-/
namespace SwiftMT

def isLeap (y : Nat) : Bool := (y % 4 == 0 && y % 100 != 0) || y % 400 == 0

def daysInMonth (y m : Nat) : Nat :=
  if m == 1 || m == 3 || m == 5 || m == 7 || m == 8 || m == 10 || m == 12 then 31
  else if m == 4 || m == 6 || m == 9 || m == 11 then 30
  else if m == 2 then (if isLeap y then 29 else 28)
  else 0

/-- `NaiveDate::from_ymd_opt(y, m, d).is_some()` -/
def validYMD (y m d : Nat) : Bool := 1 ≤ m && m ≤ 12 && 1 ≤ d && d ≤ daysInMonth y m

/-- the century window of `parse_date_yymmdd`: 00–49 → 20yy, 50–99 → 19yy -/
def pivot (yy : Nat) : Nat := if yy ≤ 49 then 2000 + yy else 1900 + yy

def digitVal (c : Char) : Option Nat :=
  if 48 ≤ c.toNat && c.toNat ≤ 57 then some (c.toNat - 48) else none

def digitChar (k : Nat) : Char := Char.ofNat (48 + k)

structure YMD where
  y : Nat
  m : Nat
  d : Nat
  deriving DecidableEq, Repr

/-- `parse_date_yymmdd`: exactly six ASCII digits that denote a calendar date. -/
def parseDateYYMMDD (t : Text) : Option YMD :=
  match t with
  | [a, b, c, d, e, f] =>
    match digitVal a, digitVal b, digitVal c, digitVal d, digitVal e, digitVal f with
    | some a, some b, some c, some d, some e, some f =>
      if validYMD (pivot (10 * a + b)) (10 * c + d) (10 * e + f)
      then some ⟨pivot (10 * a + b), 10 * c + d, 10 * e + f⟩ else none
    | _, _, _, _, _, _ => none
  | _ => none

def fmt2 (n : Nat) : Text := [digitChar (n / 10 % 10), digitChar (n % 10)]

/-- `date.format("%y%m%d")` and `format!("{:02}{:02}{:02}", year % 100, month, day)` (both are used). -/
def printYYMMDD (x : YMD) : Text := fmt2 (x.y % 100) ++ fmt2 x.m ++ fmt2 x.d

/-- The Field13D JSON date codec (`date_format::deserialize`) on the six characters the serialiser wrote. -/
def json13dDecode (t : Text) : Option YMD :=
  match t with
  | [a, b, c, d, e, f] =>
    match digitVal a, digitVal b, digitVal c, digitVal d, digitVal e, digitVal f with
    | some a, some b, some c, some d, some e, some f =>
      if validYMD (if 10 * a + b ≥ 50 then 1900 + (10 * a + b) else 2000 + (10 * a + b)) (10 * c + d) (10 * e + f)
      then some ⟨if 10 * a + b ≥ 50 then 1900 + (10 * a + b) else 2000 + (10 * a + b), 10 * c + d, 10 * e + f⟩
      else none
    | _, _, _, _, _, _ => none
  | _ => none

/-- `parse_time_hhmm` (after `parse_numeric` in the callers): four ASCII digits, HH ≤ 23, MM ≤ 59. -/
def parseTimeHHMM (t : Text) : Option (Nat × Nat) :=
  match t with
  | [a, b, c, d] =>
    match digitVal a, digitVal b, digitVal c, digitVal d with
    | some a, some b, some c, some d =>
      if 10 * a + b ≤ 23 && 10 * c + d ≤ 59 then some (10 * a + b, 10 * c + d) else none
    | _, _, _, _ => none
  | _ => none

/-- UTC offset of 13C/13D: sign `+`/`-`, four ASCII digits, HH ≤ 14, MM ≤ 59. -/
def parseOffset (sign : Char) (t : Text) : Option (Char × Nat × Nat) :=
  if sign == '+' || sign == '-' then
    match t with
    | [a, b, c, d] =>
      match digitVal a, digitVal b, digitVal c, digitVal d with
      | some a, some b, some c, some d =>
        if 10 * a + b ≤ 14 && 10 * c + d ≤ 59 then some (sign, 10 * a + b, 10 * c + d) else none
      | _, _, _, _ => none
    | _ => none
  else none

end SwiftMT
