def hello := "world"
