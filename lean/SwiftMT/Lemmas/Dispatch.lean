import SwiftMT.Dispatch
/- Helper lemmas for C12: a table that is "the identity on S" answers every lookup, bounded or not. -/
namespace SwiftMT.Dispatch

theorem lookup_some_mem {t : List (Nat × Nat)} {c v : Nat} (h : lookup t c = some v) : (c, v) ∈ t := by
  induction t with
  | nil => simp [lookup] at h
  | cons p r ih =>
    obtain ⟨k, w⟩ := p
    simp only [lookup] at h
    split at h
    · rename_i hk
      have hk' : k = c := by simpa using hk
      cases h
      simp [hk']
    · exact List.mem_cons_of_mem _ (ih h)

/-- Decidable: every row of `t` is `(c, c)` with `c ∈ S`, and every `c ∈ S` is found (first match) as itself. -/
def DiagOn (t : List (Nat × Nat)) (S : List Nat) : Bool :=
  t.all (fun p => p.2 == p.1 && S.contains p.1) && S.all (fun c => lookup t c == some c)

theorem lookup_diag {t : List (Nat × Nat)} {S : List Nat} (h : DiagOn t S = true) (c : Nat) :
    lookup t c = if c ∈ S then some c else none := by
  simp only [DiagOn, Bool.and_eq_true, List.all_eq_true] at h
  obtain ⟨ha, hb⟩ := h
  by_cases hc : c ∈ S
  · simp only [hc, if_true]
    simpa using hb c hc
  · simp only [hc, if_false]
    cases hl : lookup t c with
    | none => rfl
    | some v =>
      have hm := lookup_some_mem hl
      have := ha (c, v) hm
      simp only [List.contains_iff_mem] at this
      exact absurd this.2 hc

end SwiftMT.Dispatch
