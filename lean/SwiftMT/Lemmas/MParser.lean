import SwiftMT.MParser
import SwiftMT.Lemmas.Extract
/- The accounting invariant of `MessageParser`: every successful extraction consumes exactly one region
`ws ++ :tag: ++ raw ++ nl` from the front of the remaining text. -/
namespace SwiftMT

/-- The text consumed by one successful extraction. -/
structure Region where
  ws : Text
  tag : Text
  raw : Text
  nl : Text
  deriving Repr

def Region.text (r : Region) : Text := r.ws ++ marker r.tag ++ r.raw ++ r.nl
def Region.content (r : Region) : Text := replaceCrLf (trimEndChar '\r' (trimEndChar '\n' r.raw))

/-- Nothing but white space before the tag, no other field hidden inside the content, at most one newline after. -/
def Region.Good (r : Region) : Prop :=
  r.ws.all isWs = true ∧ findBoundary r.raw = none ∧ (r.nl = [] ∨ r.nl = ['\n'])

theorem take_append_nl_drop (body : Text) (n : Nat) (b : Bool) (hn : n ≤ body.length)
    (hb : b = true → body[n]? = some '\n') :
    body = body.take n ++ (if b then ['\n'] else []) ++ body.drop (n + (if b then 1 else 0)) := by
  cases b with
  | false => simp
  | true =>
    have h := hb rfl
    simp only [if_true]
    have hlt : n < body.length := by
      rcases Nat.lt_or_ge n body.length with h' | h'
      · exact h'
      · rw [List.getElem?_eq_none h'] at h; cases h
    have : body.drop n = '\n' :: body.drop (n + 1) := by
      rw [List.drop_eq_getElem_cons hlt]
      congr 1
      rw [List.getElem?_eq_getElem hlt] at h
      exact Option.some.inj h
    calc body = body.take n ++ body.drop n := (List.take_append_drop n body).symm
      _ = body.take n ++ ('\n' :: body.drop (n + 1)) := by rw [this]
      _ = body.take n ++ ['\n'] ++ body.drop (n + 1) := by simp

theorem detect_split {s : PState} {tag : Text} (h : detectField s tag = true) :
    ∃ ws body, ws.all isWs = true ∧ s.rest = ws ++ marker tag ++ body := by
  unfold detectField trimStart at h
  obtain ⟨body, hb⟩ := List.isPrefixOf_iff_prefix.mp h
  refine ⟨s.rest.takeWhile isWs, body, ?_, ?_⟩
  · exact List.all_takeWhile
  · rw [List.append_assoc, hb]
    exact (List.takeWhile_append_dropWhile (p := isWs) (l := s.rest)).symm

theorem extractField_region {s s' : PState} {tag c : Text} {opt : Bool}
    (h : extractField s tag opt = .ok (c, s')) :
    ∃ r : Region, r.tag = tag ∧ r.Good ∧ s.rest = r.text ++ s'.rest ∧ c = r.content ∧
      s'.allowDup = s.allowDup := by
  unfold extractField at h
  split at h
  · cases h
  · by_cases hd : detectField s tag = true
    · obtain ⟨ws, body, hws, hrest⟩ := detect_split hd
      have hx := extract_head_anchored ws tag body hws
      rw [← hrest] at hx
      simp only [hd, if_true, hx] at h
      have hspec := contentEnd_spec body
      injection h with h
      injection h with hc hs
      subst hc
      let n := (contentEnd body).1
      let b := (contentEnd body).2
      refine ⟨⟨ws, tag, body.take n, if b then ['\n'] else []⟩, rfl, ⟨hws, hspec.2.1, ?_⟩, ?_, rfl, ?_⟩
      · cases hb : b <;> simp [b] at hb ⊢ <;> simp [hb]
      · subst hs
        simp only [Region.text]
        have hbody := take_append_nl_drop body n b hspec.1 hspec.2.2
        have hdrop : s.rest.drop (ws.length + (marker tag).length + n + (if b then 1 else 0)) =
            body.drop (n + (if b then 1 else 0)) := by
          rw [hrest, List.append_assoc, List.drop_append]
          have e1 : ws.length + (marker tag).length + n + (if b then 1 else 0) - ws.length =
              (marker tag).length + (n + (if b then 1 else 0)) := by omega
          have e0 : ws.length ≤ ws.length + (marker tag).length + n + (if b then 1 else 0) := by omega
          rw [List.drop_eq_nil_of_le e0, List.nil_append, e1, List.drop_append]
          simp
        show s.rest = ws ++ marker tag ++ body.take n ++ (if b then ['\n'] else []) ++
          s.rest.drop (ws.length + (marker tag).length + n + (if b then 1 else 0))
        rw [hdrop, hrest]
        conv => lhs; rw [hbody]
        simp [List.append_assoc]
      · subst hs; rfl
    · simp only [hd] at h
      cases opt <;> simp at h

/-- Requests a client can make that touch the cursor or the duplicate flag. -/
inductive Req where
  | extract (tag : Text) (optional : Bool)
  | setDup (b : Bool)

def step (s : PState) : Req → PState × Option (Text × Text)
  | .extract tag opt =>
    match extractField s tag opt with
    | .ok (c, s') => (s', some (tag, c))
    | .error _ => (s, none)
  | .setDup b => ({ s with allowDup := b }, none)

/-- Run a whole history of requests; returns the final state and the (tag, content) pairs handed to field parsers. -/
def run (s : PState) : List Req → PState × List (Text × Text)
  | [] => (s, [])
  | r :: rs => ((run (step s r).1 rs).1, (step s r).2.toList ++ (run (step s r).1 rs).2)

theorem step_region (s : PState) (r : Req) :
    ((step s r).2 = none ∧ (step s r).1.rest = s.rest) ∨
    (∃ reg : Region, reg.Good ∧ s.rest = reg.text ++ (step s r).1.rest ∧
      (step s r).2 = some (reg.tag, reg.content)) := by
  cases r with
  | setDup b => exact Or.inl ⟨rfl, rfl⟩
  | extract tag opt =>
    simp only [step]
    cases h : extractField s tag opt with
    | error e => exact Or.inl ⟨rfl, rfl⟩
    | ok p =>
      obtain ⟨c, s'⟩ := p
      obtain ⟨reg, ht, hg, hr, hc, _⟩ := extractField_region h
      exact Or.inr ⟨reg, hg, hr, by simp [ht.symm, hc]⟩

theorem run_accounting (s : PState) (reqs : List Req) :
    ∃ regions : List Region, (∀ r ∈ regions, r.Good) ∧
      s.rest = (regions.map Region.text).flatten ++ (run s reqs).1.rest ∧
      (run s reqs).2 = regions.map (fun r => (r.tag, r.content)) := by
  induction reqs generalizing s with
  | nil => exact ⟨[], by simp, by simp [run], by simp [run]⟩
  | cons r rs ih =>
    obtain ⟨regs, hg, hrest, hout⟩ := ih (step s r).1
    rcases step_region s r with ⟨hnone, hsame⟩ | ⟨reg, hgood, hsplit, hsome⟩
    · refine ⟨regs, hg, ?_, ?_⟩
      · simp only [run]; rw [← hsame]; exact hrest
      · simp only [run, hnone, Option.toList_none, List.nil_append]; exact hout
    · refine ⟨reg :: regs, ?_, ?_, ?_⟩
      · intro x hx
        rcases List.mem_cons.mp hx with rfl | hx
        · exact hgood
        · exact hg x hx
      · simp only [run, List.map_cons, List.flatten_cons, List.append_assoc]
        rw [hsplit, hrest]
      · simp only [run, hsome, Option.toList_some, List.map_cons, hout]
        rfl

end SwiftMT
