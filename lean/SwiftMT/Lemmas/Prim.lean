import SwiftMT.Prim
import SwiftMT.Lemmas.Text
/- Lemmas about the field-layer primitives: byte lengths of ASCII texts, byte slicing, lines. -/
namespace SwiftMT

theorem utf8Size_ascii (c : Char) (h : isAsciiC c = true) : c.utf8Size = 1 := by
  unfold isAsciiC at h
  have h' : c.toNat < 128 := by simpa using h
  have : c.val.toNat < 128 := h'
  unfold Char.utf8Size
  simp only [UInt32.le_iff_toNat_le]
  split
  · rfl
  · rename_i h1; exfalso; apply h1; simp; omega

theorem alnum_ascii (c : Char) (h : c.isAlphanum = true) : isAsciiC c = true := by
  simp only [Char.isAlphanum, Char.isAlpha, Char.isUpper, Char.isLower, Char.isDigit, Bool.or_eq_true, Bool.and_eq_true,
    decide_eq_true_eq, UInt32.le_iff_toNat_le] at h
  have : c.toNat = c.val.toNat := rfl
  unfold isAsciiC
  simp at h
  simp
  omega

theorem swiftSpecial_ascii : ∀ c ∈ swiftSpecial, isAsciiC c = true := by decide

theorem swiftX_ascii (c : Char) (h : isSwiftX c = true) : isAsciiC c = true := by
  unfold isSwiftX at h
  rcases Bool.or_eq_true _ _ |>.mp h with h | h
  · exact alnum_ascii c h
  · exact swiftSpecial_ascii c (List.contains_iff_mem.mp h)

theorem swiftX_not_nl (c : Char) (h : isSwiftX c = true) : c ≠ '\n' := by
  intro hc; subst hc; revert h; decide

theorem all_swiftX_ascii (t : Text) (h : t.all isSwiftX = true) : isAsciiT t = true := by
  unfold isAsciiT
  rw [List.all_eq_true] at *
  intro c hc; exact swiftX_ascii c (h c hc)

theorem blen_ascii (t : Text) (h : isAsciiT t = true) : blen t = t.length := by
  induction t with
  | nil => rfl
  | cons c cs ih =>
    unfold isAsciiT at h
    simp only [List.all_cons, Bool.and_eq_true] at h
    have := utf8Size_ascii c h.1
    have ih' := ih (by unfold isAsciiT; exact h.2)
    unfold blen at *
    simp only [List.map_cons, List.sum_cons, List.length_cons]
    omega

theorem blen_nil : blen [] = 0 := rfl
theorem blen_cons (c : Char) (t : Text) : blen (c :: t) = c.utf8Size + blen t := by
  unfold blen; simp
theorem blen_append (a b : Text) : blen (a ++ b) = blen a + blen b := by
  unfold blen; simp
theorem blen_eq_zero (t : Text) : blen t = 0 ↔ t = [] := by
  cases t with
  | nil => simp [blen_nil]
  | cons c cs =>
    have := Char.utf8Size_pos c
    rw [blen_cons]; simp; omega
theorem length_le_blen (t : Text) : t.length ≤ blen t := by
  induction t with
  | nil => simp [blen_nil]
  | cons c cs ih => have := Char.utf8Size_pos c; rw [blen_cons]; simp; omega

/-- On ASCII text byte splitting is `take`/`drop`. -/
theorem bsplit_ascii (n : Nat) (t : Text) (h : isAsciiT t = true) (hn : n ≤ t.length) :
    bsplit n t = some (t.take n, t.drop n) := by
  induction t generalizing n with
  | nil => simp at hn; subst hn; simp [bsplit]
  | cons c cs ih =>
    unfold isAsciiT at h
    simp only [List.all_cons, Bool.and_eq_true] at h
    have h1 := utf8Size_ascii c h.1
    cases n with
    | zero => simp [bsplit]
    | succ n =>
      unfold bsplit
      simp only [h1, Nat.add_one_ne_zero, if_false]
      have : 1 ≤ n + 1 := by omega
      simp only [this, if_true]
      have e : n + 1 - 1 = n := by omega
      rw [e, ih n (by unfold isAsciiT; exact h.2) (by simpa using hn)]
      simp

/-- A successful byte split cuts the text at exactly `n` bytes. -/
theorem bsplit_some_length {n : Nat} {t a b : Text} (h : bsplit n t = some (a, b)) : t = a ++ b ∧ blen a = n := by
  induction t generalizing n a b with
  | nil =>
    unfold bsplit at h
    split at h
    · rename_i h0; cases h; simp [blen_nil, h0]
    · cases h
  | cons c cs ih =>
    unfold bsplit at h
    split at h
    · rename_i h0; cases h; simp [blen_nil, h0]
    · split at h
      · rename_i hle
        split at h
        · rename_i a' b' heq
          cases h
          have := ih heq
          refine ⟨by simp [this.1], ?_⟩
          rw [blen_cons, this.2]; omega
        · cases h
      · cases h

theorem bslice_ascii (t : Text) (a b : Nat) (h : isAsciiT t = true) (hab : a ≤ b) (hb : b ≤ t.length) :
    bslice t a b = .ok ((t.drop a).take (b - a)) := by
  unfold bslice
  simp only [hab, if_true]
  rw [bsplit_ascii a t h (by omega)]
  have hd : isAsciiT (t.drop a) = true := by
    unfold isAsciiT at *
    rw [List.all_eq_true] at *
    intro c hc; exact h c (List.mem_of_mem_drop hc)
  simp only
  rw [bsplit_ascii (b - a) (t.drop a) hd (by simp; omega)]

theorem bfrom_ascii (t : Text) (a : Nat) (h : isAsciiT t = true) (ha : a ≤ t.length) : bfrom t a = .ok (t.drop a) := by
  unfold bfrom; rw [bsplit_ascii a t h ha]
theorem bto_ascii (t : Text) (a : Nat) (h : isAsciiT t = true) (ha : a ≤ t.length) : bto t a = .ok (t.take a) := by
  unfold bto; rw [bsplit_ascii a t h ha]

/-! ### lines -/

theorem splitNl_ne_nil (t : Text) : splitNl t ≠ [] := by
  induction t with
  | nil => simp [splitNl]
  | cons c cs ih =>
    unfold splitNl
    split
    · simp
    · split <;> simp

theorem joinNl_splitNl (t : Text) : joinNl (splitNl t) = t := by
  induction t with
  | nil => simp [splitNl, joinNl]
  | cons c cs ih =>
    unfold splitNl
    split
    · rename_i h
      have hc : c = '\n' := by simpa using h
      have hne := splitNl_ne_nil cs
      cases hs : splitNl cs with
      | nil => exact absurd hs hne
      | cons l ls =>
        rw [hs] at ih
        simp only [joinNl, List.nil_append]
        rw [ih, hc]
    · cases hs : splitNl cs with
      | nil => exact absurd hs (splitNl_ne_nil cs)
      | cons l ls =>
        rw [hs] at ih
        cases ls with
        | nil => simp only [joinNl] at *; rw [ih]
        | cons l2 ls2 => simp only [joinNl] at *; rw [← ih]; simp

theorem splitNl_no_nl (l : Text) (h : ∀ c ∈ l, c ≠ '\n') : splitNl l = [l] := by
  induction l with
  | nil => simp [splitNl]
  | cons c cs ih =>
    have hc : c ≠ '\n' := h c (by simp)
    have ih' := ih (fun x hx => h x (by simp [hx]))
    unfold splitNl
    simp [hc, ih']

theorem splitNl_append_nl (l rest : Text) (h : ∀ c ∈ l, c ≠ '\n') :
    splitNl (l ++ '\n' :: rest) = l :: splitNl rest := by
  induction l with
  | nil => simp [splitNl]
  | cons c cs ih =>
    have hc : c ≠ '\n' := h c (by simp)
    have ih' := ih (fun x hx => h x (by simp [hx]))
    simp only [List.cons_append]
    rw [splitNl]
    simp only [beq_iff_eq, hc, ↓reduceIte]
    rw [ih']

/-- Lines without line breaks survive join + split. -/
theorem splitNl_joinNl (ls : List Text) (hne : ls ≠ []) (h : ∀ l ∈ ls, ∀ c ∈ l, c ≠ '\n') :
    splitNl (joinNl ls) = ls := by
  induction ls with
  | nil => exact absurd rfl hne
  | cons l rest ih =>
    cases rest with
    | nil => simp only [joinNl]; exact splitNl_no_nl l (h l (by simp))
    | cons l2 rest2 =>
      simp only [joinNl]
      rw [splitNl_append_nl l _ (h l (by simp))]
      rw [ih (by simp) (fun x hx => h x (by simp [hx]))]

theorem splitNl_lines_no_nl (t : Text) : ∀ l ∈ splitNl t, ∀ c ∈ l, c ≠ '\n' := by
  induction t with
  | nil => simp [splitNl]
  | cons c cs ih =>
    unfold splitNl
    split
    · intro l hl; simp at hl; rcases hl with rfl | hl
      · simp
      · exact ih l hl
    · rename_i hc
      cases hs : splitNl cs with
      | nil => exact absurd hs (splitNl_ne_nil cs)
      | cons l ls =>
        rw [hs] at ih
        intro l' hl'
        simp at hl'
        rcases hl' with rfl | hl'
        · intro x hx; simp at hx; rcases hx with rfl | hx
          · simpa using hc
          · exact ih l (by simp) x hx
        · exact ih l' (by simp [hl'])

end SwiftMT

namespace SwiftMT

theorem findChar_split {ch : Char} {t : Text} {p : Nat} (h : findChar ch t = some p) :
    t = t.take p ++ ch :: t.drop (p + 1) ∧ ∀ c ∈ t.take p, c ≠ ch := by
  induction t generalizing p with
  | nil => simp [findChar] at h
  | cons c cs ih =>
    simp only [findChar] at h
    split at h
    · rename_i hc
      cases h
      have : c = ch := by simpa using hc
      simp [this]
    · rename_i hc
      cases hf : findChar ch cs with
      | none => simp [hf] at h
      | some j =>
        simp only [hf, Option.map_some, Option.some.injEq] at h
        subst h
        obtain ⟨h1, h2⟩ := ih hf
        refine ⟨?_, ?_⟩
        · simp only [List.take_succ_cons, List.cons_append, List.drop_succ_cons]
          congr 1
        · intro x hx
          simp only [List.take_succ_cons, List.mem_cons] at hx
          rcases hx with rfl | hx
          · intro he; subst he; simp at hc
          · exact h2 x hx

theorem findChar_append {ch : Char} (a b : Text) (h : ∀ c ∈ a, c ≠ ch) :
    findChar ch (a ++ ch :: b) = some a.length := by
  induction a with
  | nil => simp [findChar]
  | cons c cs ih =>
    have hc : c ≠ ch := h c (by simp)
    have := ih (fun x hx => h x (by simp [hx]))
    simp [findChar, hc, this]

theorem findChar_none {ch : Char} (t : Text) (h : ∀ c ∈ t, c ≠ ch) : findChar ch t = none := by
  induction t with
  | nil => rfl
  | cons c cs ih =>
    have hc : c ≠ ch := h c (by simp)
    simp [findChar, hc, ih (fun x hx => h x (by simp [hx]))]

theorem splitAtFirst_append (d : Char) (a b : Text) (h : ∀ c ∈ a, c ≠ d) (hb : b ≠ []) :
    splitAtFirst d (a ++ d :: b) = (a, some b) := by
  unfold splitAtFirst
  rw [findChar_append a b h]
  have hbe : b.isEmpty = false := by cases b <;> simp_all
  simp [hbe]

end SwiftMT

namespace SwiftMT

theorem isDigit_iff (c : Char) : c.isDigit = isDigitC c := by
  unfold isDigitC digitVal Char.isDigit
  have e : c.toNat = c.val.toNat := rfl
  have h1 : ((48 : UInt32) ≤ c.val) ↔ 48 ≤ c.toNat := by rw [UInt32.le_iff_toNat_le, e]; simp
  have h2 : (c.val ≤ (57 : UInt32)) ↔ c.toNat ≤ 57 := by rw [UInt32.le_iff_toNat_le, e]; simp
  by_cases a : 48 ≤ c.toNat <;> by_cases b : c.toNat ≤ 57 <;> simp [a, b, h1, h2]

theorem digitsVal_lt (t : Text) (acc : Nat) (h : t.all isDigitC = true) :
    digitsVal t acc < (acc + 1) * 10 ^ t.length := by
  induction t generalizing acc with
  | nil => simp [digitsVal]
  | cons c cs ih =>
    simp only [List.all_cons, Bool.and_eq_true] at h
    unfold digitsVal
    have hc : (digitVal c).getD 0 < 10 := by
      unfold isDigitC at h
      cases hd : digitVal c with
      | none => simp [hd] at h
      | some k =>
        simp only [Option.getD_some]
        unfold digitVal at hd
        split at hd
        · rename_i hr; cases hd; simp at hr; omega
        · cases hd
    have := ih (10 * acc + (digitVal c).getD 0) h.2
    calc digitsVal cs (10 * acc + (digitVal c).getD 0)
        < (10 * acc + (digitVal c).getD 0 + 1) * 10 ^ cs.length := this
      _ ≤ ((acc + 1) * 10) * 10 ^ cs.length := by apply Nat.mul_le_mul_right; omega
      _ = (acc + 1) * 10 ^ (c :: cs).length := by simp [Nat.pow_succ, Nat.mul_assoc, Nat.mul_comm]

end SwiftMT
