import SwiftMT.Extract
import SwiftMT.Lemmas.Text
/- Helper lemmas about the extraction kernel. -/
namespace SwiftMT

theorem findSub_get {c : Char} {ps t : Text} {i : Nat} (h : findSub (c :: ps) t = some i) :
    t[i]? = some c ∧ i < t.length := by
  induction t generalizing i with
  | nil => simp [findSub] at h
  | cons d ds ih =>
    simp only [findSub] at h
    by_cases hp : (c :: ps).isPrefixOf (d :: ds) = true
    · simp only [hp, if_true, Option.some.injEq] at h
      subst h
      simp only [List.isPrefixOf, Bool.and_eq_true, beq_iff_eq] at hp
      simp [hp.1]
    · simp only [hp] at h
      cases hf : findSub (c :: ps) ds with
      | none => simp [hf] at h
      | some j =>
        simp only [hf, Option.map_some, Bool.false_eq_true, if_false, Option.some.injEq] at h
        subst h
        have := ih hf
        refine ⟨?_, by simp only [List.length_cons]; omega⟩
        rw [List.getElem?_cons_succ]
        exact this.1

theorem isFieldMarker_take {t : Text} {k : Nat} (h : isFieldMarker (t.take k) = true) :
    isFieldMarker t = true := by
  cases t with
  | nil => simp [isFieldMarker] at h
  | cons c rest =>
    cases k with
    | zero => simp [isFieldMarker] at h
    | succ k =>
      simp only [List.take_succ_cons] at h
      unfold isFieldMarker at h ⊢
      split at h
      · rename_i r' heq
        injection heq with hc hr
        subst hc hr
        simp only
        cases hf : findChar ':' (List.take k rest) with
        | none => simp [hf] at h
        | some close =>
          simp only [hf] at h
          have hlt := findChar_lt hf
          have hf' := findChar_take hf
          simp only [hf']
          have hk : close ≤ k := by
            have : (List.take k rest).length ≤ k := by simp [List.length_take]; omega
            omega
          have : List.take close (List.take k rest) = List.take close rest := by
            rw [List.take_take]; congr 1; omega
          rw [this] at h
          exact h
      · simp at h

theorem findBoundary_lt {t : Text} {j : Nat} (h : findBoundary t = some j) : j < t.length := by
  induction t generalizing j with
  | nil => simp [findBoundary] at h
  | cons c cs ih =>
    simp only [findBoundary] at h
    split at h
    · cases h; simp
    · cases hf : findBoundary cs with
      | none => simp [hf] at h
      | some i =>
        simp only [hf, Option.map_some, Option.some.injEq] at h
        have := ih hf
        simp only [List.length_cons]; omega

theorem findBoundary_get {t : Text} {j : Nat} (h : findBoundary t = some j) : t[j]? = some '\n' := by
  induction t generalizing j with
  | nil => simp [findBoundary] at h
  | cons c cs ih =>
    simp only [findBoundary] at h
    split at h
    · rename_i hc
      cases h
      simp only [Bool.and_eq_true, beq_iff_eq] at hc
      simp [hc.1]
    · cases hf : findBoundary cs with
      | none => simp [hf] at h
      | some i =>
        simp only [hf, Option.map_some, Option.some.injEq] at h
        subst h
        simpa using ih hf

/-- Truncating a text cannot create an earlier field boundary. -/
theorem findBoundary_take {t : Text} {k j : Nat} (h : findBoundary (t.take k) = some j) :
    ∃ j', j' ≤ j ∧ findBoundary t = some j' := by
  induction t generalizing k j with
  | nil => simp [findBoundary] at h
  | cons c cs ih =>
    cases k with
    | zero => simp [findBoundary] at h
    | succ k =>
      simp only [List.take_succ_cons, findBoundary] at h ⊢
      by_cases hc : (c == '\n' && isFieldMarker (List.take k cs)) = true
      · simp only [hc, if_true, Option.some.injEq] at h
        subst h
        simp only [Bool.and_eq_true] at hc
        have := isFieldMarker_take hc.2
        exact ⟨0, Nat.le_refl _, by simp [hc.1, this]⟩
      · simp only [hc] at h
        cases hf : findBoundary (List.take k cs) with
        | none => simp [hf] at h
        | some i =>
          simp only [hf, Option.map_some, Bool.false_eq_true, if_false, Option.some.injEq] at h
          subst h
          obtain ⟨j', hj', hfj⟩ := ih hf
          by_cases hc2 : (c == '\n' && isFieldMarker cs) = true
          · exact ⟨0, Nat.zero_le _, by simp [hc2]⟩
          · exact ⟨j' + 1, by omega, by simp [hc2, hfj]⟩

theorem findBoundary_take_none {t : Text} {n : Nat} (h : findBoundary t = some n ∨ findBoundary t = none) :
    findBoundary (t.take n) = none ∨ (findBoundary t = none ∧ findBoundary (t.take n) = none) := by
  cases hf : findBoundary (t.take n) with
  | none => exact Or.inl rfl
  | some j =>
    exfalso
    obtain ⟨j', hj', hfj⟩ := findBoundary_take hf
    have hjn : j < n := by
      have := findBoundary_lt hf
      have : (t.take n).length ≤ n := by simp [List.length_take]; omega
      omega
    rcases h with h | h
    · rw [h] at hfj
      cases hfj
      omega
    · rw [h] at hfj
      cases hfj

/-- Whatever `contentEnd` returns, the raw content (`take n`) contains no field boundary, fits in the text, and the
consumed newline (if any) really is a newline. -/
theorem contentEnd_spec (r : Text) :
    (contentEnd r).1 ≤ r.length ∧ findBoundary (r.take (contentEnd r).1) = none ∧
    ((contentEnd r).2 = true → r[(contentEnd r).1]? = some '\n') := by
  unfold contentEnd
  cases hb : findBoundary r with
  | some e =>
    simp only
    refine ⟨Nat.le_of_lt (findBoundary_lt hb), ?_, fun _ => findBoundary_get hb⟩
    rcases findBoundary_take_none (n := e) (Or.inl hb) with h | h
    · exact h
    · exact h.2
  | none =>
    have hnone : ∀ n, findBoundary (r.take n) = none := by
      intro n
      rcases findBoundary_take_none (n := n) (Or.inr hb) with h | h
      · exact h
      · exact h.2
    simp only
    cases h1 : findSub ['\n', '-', '}'] r with
    | some p =>
      simp only
      have := findSub_get h1
      exact ⟨Nat.le_of_lt this.2, hnone p, fun _ => this.1⟩
    | none =>
      simp only
      cases h2 : findSub ['\n', '-', '\n'] r with
      | some p =>
        simp only
        have := findSub_get h2
        exact ⟨Nat.le_of_lt this.2, hnone p, fun _ => this.1⟩
      | none =>
        simp only
        split
        · rename_i hs
          simp only [Bool.and_eq_true, decide_eq_true_eq, beq_iff_eq] at hs
          refine ⟨by omega, hnone _, fun _ => ?_⟩
          have hl := hs.1
          have hd := hs.2
          have : (r.drop (r.length - 2))[0]? = some '\n' := by rw [hd]; rfl
          rw [List.getElem?_drop] at this
          simpa using this
        · cases h4 : findSub ['-', '}'] r with
          | some p =>
            simp only
            have := findSub_get h4
            exact ⟨Nat.le_of_lt this.2, hnone p, fun h => by simp at h⟩
          | none =>
            simp only
            exact ⟨Nat.le_refl _, hnone _, fun h => by simp at h⟩

/-- Head-anchored extraction: when only white space precedes `:tag:`, nothing is skipped — the consumed prefix is
exactly `ws ++ :tag: ++ raw ++ nl`. -/
theorem extract_head_anchored (ws tag body : Text) (hws : ws.all isWs = true) :
    extractFieldContent (ws ++ marker tag ++ body) tag =
      some (replaceCrLf (trimEndChar '\r' (trimEndChar '\n' (body.take (contentEnd body).1))),
            ws.length + (marker tag).length + (contentEnd body).1 + (if (contentEnd body).2 then 1 else 0)) := by
  have hne : ∀ c ∈ ws, c ≠ ':' := by
    intro c hc heq
    have := List.all_eq_true.mp hws c hc
    rw [heq, isWs_colon] at this
    cases this
  have hfind : findSub (marker tag) (ws ++ marker tag ++ body) = some ws.length :=
    findSub_head ':' (tag ++ [':']) ws body hne
  unfold extractFieldContent
  rw [hfind]
  have hdrop : (ws ++ marker tag ++ body).drop (ws.length + (marker tag).length) = body := by
    rw [List.append_assoc, List.drop_append]
    simp
  simp only [hdrop]

end SwiftMT
