import SwiftMT.Text
/- Helper lemmas about the text primitives. -/
namespace SwiftMT

theorem isPrefixOf_append_self (p b : Text) : p.isPrefixOf (p ++ b) = true := by
  induction p with
  | nil => simp [List.isPrefixOf]
  | cons c cs ih => simp [ih]

theorem findSub_split {pat t : Text} {i : Nat} (h : findSub pat t = some i) :
    t = t.take i ++ pat ++ t.drop (i + pat.length) := by
  induction t generalizing i with
  | nil => simp [findSub] at h
  | cons c cs ih =>
    simp only [findSub] at h
    split at h
    · rename_i hp
      cases h
      have := List.isPrefixOf_iff_prefix.mp hp
      obtain ⟨r, hr⟩ := this
      simp only [List.take_zero, List.nil_append, Nat.zero_add]
      rw [← hr]
      simp
    · cases hf : findSub pat cs with
      | none => simp [hf] at h
      | some j =>
        simp only [hf, Option.map_some, Option.some.injEq] at h
        subst h
        have := ih hf
        simp only [List.take_succ_cons, List.cons_append]
        have e : j + 1 + pat.length = (j + pat.length) + 1 := by omega
        rw [e, List.drop_succ_cons]
        congr 1

/-- If nothing before the pattern can start it, the search lands exactly on it. -/
theorem findSub_head (p : Char) (ps ws body : Text) (hws : ∀ c ∈ ws, c ≠ p) :
    findSub (p :: ps) (ws ++ (p :: ps) ++ body) = some ws.length := by
  induction ws with
  | nil =>
    simp only [List.nil_append, List.length_nil]
    have h := isPrefixOf_append_self (p :: ps) body
    simp only [List.cons_append] at h ⊢
    simp [findSub, h]
  | cons c cs ih =>
    have hc : c ≠ p := hws c (List.mem_cons_self)
    have ih' := ih (fun x hx => hws x (List.mem_cons_of_mem _ hx))
    have hne : (p == c) = false := by
      simp only [beq_eq_false_iff_ne, ne_eq]
      exact fun h => hc h.symm
    show findSub (p :: ps) (c :: (cs ++ (p :: ps) ++ body)) = some (cs.length + 1)
    simp only [findSub, List.isPrefixOf, hne, Bool.false_and, Bool.false_eq_true, if_false, ih',
      Option.map_some]

theorem isWs_colon : isWs ':' = false := by decide

theorem findChar_take {ch : Char} {t : Text} {k i : Nat} (h : findChar ch (t.take k) = some i) :
    findChar ch t = some i := by
  induction t generalizing k i with
  | nil => simp [findChar] at h
  | cons c cs ih =>
    cases k with
    | zero => simp [findChar] at h
    | succ k =>
      simp only [List.take_succ_cons, findChar] at h ⊢
      by_cases hc : (c == ch) = true
      · simp only [hc, if_true] at h ⊢
        exact h
      · simp only [hc, if_false] at h ⊢
        cases hf : findChar ch (cs.take k) with
        | none => simp [hf] at h
        | some j =>
          rw [hf] at h
          rw [ih hf]
          exact h

theorem findChar_lt {ch : Char} {t : Text} {i : Nat} (h : findChar ch t = some i) : i < t.length := by
  induction t generalizing i with
  | nil => simp [findChar] at h
  | cons c cs ih =>
    simp only [findChar] at h
    split at h
    · cases h; simp
    · cases hf : findChar ch cs with
      | none => simp [hf] at h
      | some j =>
        simp only [hf, Option.map_some, Option.some.injEq] at h
        have := ih hf
        simp only [List.length_cons]
        omega

end SwiftMT
