import SwiftMT.Block
import SwiftMT.Lemmas.Extract
/-
Render → extract at message level: a text block written as `:tag:content` regions separated by LF or CRLF (what the
serialisers produce: `append_field` writes the field and CRLF, `finalize_mt_string` drops the last CRLF; the block
terminator `-` may follow) is read back by successive `extract_field` calls exactly: every content comes back
unchanged, in order, and the parser ends complete.  For ALL tag / content lists satisfying `wfTag` / `wfc`.
-/
namespace SwiftMT

theorem isAlnumU_colon : isAlnumU ':' = false := by decide

theorem findChar_colon_tag (t x : Text) (h : t.all isAlnumU = true) : findChar ':' (t ++ ':' :: x) = some t.length := by
  induction t with
  | nil => simp [findChar]
  | cons a t ih =>
    simp only [List.all_cons, Bool.and_eq_true] at h
    have ha : a ≠ ':' := by
      intro he; rw [he, isAlnumU_colon] at h; exact absurd h.1 (by simp)
    simp [findChar, ha, ih h.2]

theorem isFieldMarker_marker (t x : Text) (h : wfTag t = true) : isFieldMarker (marker t ++ x) = true := by
  unfold wfTag at h
  simp only [Bool.and_eq_true, decide_eq_true_eq] at h
  obtain ⟨⟨h1, h2⟩, h3⟩ := h
  unfold isFieldMarker marker
  simp only [List.cons_append, List.append_assoc, List.singleton_append, List.nil_append]
  rw [findChar_colon_tag t x h3]
  simp [h1, h2, h3]

theorem isFieldMarker_not_colon (b : Char) (t : Text) (h : b ≠ ':') : isFieldMarker (b :: t) = false := by
  unfold isFieldMarker
  split
  · rename_i rest heq
    simp only [List.cons.injEq] at heq
    exact absurd heq.1 h
  · rfl

theorem isFieldMarker_nil : isFieldMarker [] = false := by simp [isFieldMarker]

/-- inside a well-formed content nothing looks like a field boundary: the search continues behind it -/
theorem findBoundary_wfc (c t : Text) (h : wfc c = true) (ht : ∀ b rest, t = b :: rest → b ≠ ':') :
    findBoundary (c ++ t) = (findBoundary t).map (· + c.length) := by
  induction c with
  | nil => simp
  | cons a c ih =>
    simp only [wfc, Bool.and_eq_true] at h
    obtain ⟨⟨⟨_, h2⟩, _⟩, h4⟩ := h
    simp only [List.cons_append, findBoundary]
    have hnot : (a == '\n' && isFieldMarker (c ++ t)) = false := by
      by_cases ha : a = '\n'
      · subst ha
        cases c with
        | nil => simp at h2
        | cons b c' =>
          simp only [bne_self_eq_false, Bool.false_or, Bool.and_eq_true, bne_iff_ne, ne_eq] at h2
          simp [isFieldMarker_not_colon b (c' ++ t) h2.1]
      · simp [ha]
    rw [hnot, ih h4]
    cases findBoundary t <;> simp [Nat.add_assoc]

/-- … nor like one of the block-end patterns that start with newline and dash -/
theorem findSub_nlDash_wfc (p c t : Text) (h : wfc c = true) :
    findSub ('\n' :: '-' :: p) (c ++ t) = (findSub ('\n' :: '-' :: p) t).map (· + c.length) := by
  induction c with
  | nil => simp
  | cons a c ih =>
    simp only [wfc, Bool.and_eq_true] at h
    obtain ⟨⟨⟨_, h2⟩, _⟩, h4⟩ := h
    simp only [List.cons_append, findSub]
    have hnot : ('\n' :: '-' :: p).isPrefixOf (a :: (c ++ t)) = false := by
      by_cases ha : a = '\n'
      · subst ha
        cases c with
        | nil => simp at h2
        | cons b c' =>
          simp only [bne_self_eq_false, Bool.false_or, Bool.and_eq_true, bne_iff_ne, ne_eq] at h2
          have : ('-' == b) = false := by simp; exact fun he => h2.2 he.symm
          simp [List.isPrefixOf, this]
      · have : ('\n' == a) = false := by simp; exact fun he => ha he.symm
        simp [List.isPrefixOf, this]
    rw [hnot, ih h4]
    cases findSub ('\n' :: '-' :: p) t <;> simp [Nat.add_assoc]

theorem findSub_dashBrace_wfc (c t : Text) (h : wfc c = true) (ht : ∀ b rest, t = b :: rest → b ≠ '}') :
    findSub ['-', '}'] (c ++ t) = (findSub ['-', '}'] t).map (· + c.length) := by
  induction c with
  | nil => simp
  | cons a c ih =>
    simp only [wfc, Bool.and_eq_true] at h
    obtain ⟨⟨⟨_, _⟩, h3⟩, h4⟩ := h
    simp only [List.cons_append, findSub]
    have hnot : (['-', '}'] : Text).isPrefixOf (a :: (c ++ t)) = false := by
      by_cases ha : a = '-'
      · subst ha
        cases c with
        | nil =>
          cases t with
          | nil => simp [List.isPrefixOf]
          | cons b rest =>
            have := ht b rest rfl
            have hb : ('}' == b) = false := by simp; exact fun he => this he.symm
            simp [List.isPrefixOf, hb]
        | cons b c' =>
          simp only [bne_self_eq_false, Bool.false_or, bne_iff_ne, ne_eq] at h3
          have hb : ('}' == b) = false := by simp; exact fun he => h3 he.symm
          simp [List.isPrefixOf, hb]
      · have : ('-' == a) = false := by simp; exact fun he => ha he.symm
        simp [List.isPrefixOf, this]
    rw [hnot, ih h4]
    cases findSub ['-', '}'] t <;> simp [Nat.add_assoc]

theorem wfc_no_cr (c : Text) (h : wfc c = true) : '\r' ∉ c := by
  induction c with
  | nil => simp
  | cons a c ih =>
    simp only [wfc, Bool.and_eq_true, bne_iff_ne, ne_eq] at h
    intro hm
    rcases List.mem_cons.mp hm with he | hm'
    · exact h.1.1.1 he.symm
    · exact ih h.2 hm'

theorem wfc_getLast (c : Text) (h : wfc c = true) : c.getLast? ≠ some '\n' := by
  induction c with
  | nil => simp
  | cons a c ih =>
    simp only [wfc, Bool.and_eq_true] at h
    obtain ⟨⟨⟨_, h2⟩, _⟩, h4⟩ := h
    cases c with
    | nil =>
      simp only [List.getLast?_singleton, ne_eq, Option.some.injEq]
      intro he; subst he; simp at h2
    | cons b c' =>
      rw [List.getLast?_cons_cons]
      exact ih h4

theorem replaceCrLf_no_cr (c : Text) (h : '\r' ∉ c) : replaceCrLf c = c := by
  induction c with
  | nil => rfl
  | cons a c ih =>
    have ha : a ≠ '\r' := fun he => h (by simp [he])
    have hc : '\r' ∉ c := fun hm => h (List.mem_cons_of_mem _ hm)
    unfold replaceCrLf
    split
    · rename_i heq; cases heq
    · rename_i heq; simp only [List.cons.injEq] at heq; exact absurd heq.1 ha
    · rename_i c0 rest _ heq
      simp only [List.cons.injEq] at heq
      obtain ⟨h1, h2⟩ := heq
      subst h1; subst h2
      rw [ih hc]

theorem trimEndChar_noop (ch : Char) (t : Text) (h : t.getLast? ≠ some ch) : trimEndChar ch t = t := by
  unfold trimEndChar
  cases hr : t.reverse with
  | nil => simp [List.reverse_eq_nil_iff.mp hr]
  | cons l r =>
    have hl : t.getLast? = some l := by
      rw [List.getLast?_eq_head?_reverse, hr]; rfl
    have : l ≠ ch := fun he => h (by rw [hl, he])
    simp only [List.dropWhile_cons, beq_iff_eq, this, if_false]
    rw [← hr, List.reverse_reverse]

theorem trimEndChar_snoc (ch : Char) (t : Text) : trimEndChar ch (t ++ [ch]) = trimEndChar ch t := by
  unfold trimEndChar
  simp

theorem getLast_of_not_mem (ch : Char) (t : Text) (h : ch ∉ t) : t.getLast? ≠ some ch := by
  intro he
  exact h (List.mem_of_getLast? he)

/-- what the extraction makes of `content ++ CR?` : the content -/
theorem clean_content (c pre : Text) (h : wfc c = true) (hp : pre = [] ∨ pre = ['\r']) :
    replaceCrLf (trimEndChar '\r' (trimEndChar '\n' (c ++ pre))) = c := by
  have hcr := wfc_no_cr c h
  have hnl := wfc_getLast c h
  rcases hp with hp | hp
  · subst hp
    rw [List.append_nil, trimEndChar_noop '\n' c hnl, trimEndChar_noop '\r' c (getLast_of_not_mem _ _ hcr)]
    exact replaceCrLf_no_cr c hcr
  · subst hp
    have h1 : trimEndChar '\n' (c ++ ['\r']) = c ++ ['\r'] := by
      apply trimEndChar_noop
      simp
    rw [h1, trimEndChar_snoc, trimEndChar_noop '\r' c (getLast_of_not_mem _ _ hcr)]
    exact replaceCrLf_no_cr c hcr

end SwiftMT

namespace SwiftMT

theorem findSub_append_isSome (p : Char) (ps a b : Text) : (findSub (p :: ps) (a ++ (p :: ps) ++ b)).isSome = true := by
  induction a with
  | nil =>
    simp only [List.nil_append, List.cons_append, findSub]
    have : (p :: ps).isPrefixOf (p :: (ps ++ b)) = true :=
      List.isPrefixOf_iff_prefix.mpr ⟨b, by simp⟩
    rw [this]; rfl
  | cons x a ih =>
    simp only [List.cons_append, findSub]
    split
    · rfl
    · cases h : findSub (p :: ps) (a ++ p :: ps ++ b) with
      | none => rw [h] at ih; cases ih
      | some k => rfl

theorem wfc_not_ends_nlDash (c : Text) (h : wfc c = true) :
    (decide (2 ≤ c.length) && c.drop (c.length - 2) == ['\n', '-']) = false := by
  cases hh : (decide (2 ≤ c.length) && c.drop (c.length - 2) == ['\n', '-']) with
  | false => rfl
  | true =>
    simp only [Bool.and_eq_true, decide_eq_true_eq, beq_iff_eq] at hh
    have hc : c = c.take (c.length - 2) ++ ['\n', '-'] ++ [] := by
      rw [List.append_nil, ← hh.2, List.take_append_drop]
    have hs := findSub_append_isSome '\n' ['-'] (c.take (c.length - 2)) []
    rw [← hc] at hs
    have hn := findSub_nlDash_wfc [] c [] h
    simp only [List.append_nil] at hn
    rw [hn] at hs
    simp [findSub] at hs

/-- `contentEnd` behind a content that is followed by the next field -/
theorem contentEnd_mid (c pre tag' x : Text) (h : wfc c = true) (hp : pre = [] ∨ pre = ['\r']) (ht : wfTag tag' = true) :
    contentEnd (c ++ pre ++ '\n' :: (marker tag' ++ x)) = (c.length + pre.length, true) := by
  have hm := isFieldMarker_marker tag' x ht
  have hb : findBoundary (c ++ (pre ++ '\n' :: (marker tag' ++ x))) = some (c.length + pre.length) := by
    rw [findBoundary_wfc c _ h]
    · rcases hp with hp | hp <;> subst hp
      · simp [findBoundary, hm]
      · simp [findBoundary, hm]; omega
    · intro b rest he
      rcases hp with hp | hp <;> subst hp <;> simp at he <;> rw [← he.1] <;> decide
  unfold contentEnd
  rw [List.append_assoc, hb]

/-- `contentEnd` behind the last content of the block -/
theorem contentEnd_last (c : Text) (h : wfc c = true) :
    contentEnd c = (c.length, false) ∧
    contentEnd (c ++ ['\n', '-']) = (c.length, true) ∧
    contentEnd (c ++ ['\r', '\n', '-']) = (c.length + 1, true) := by
  have fb : ∀ t : Text, (∀ b rest, t = b :: rest → b ≠ ':') → findBoundary t = none → findBoundary (c ++ t) = none := by
    intro t ht hn; rw [findBoundary_wfc c t h ht, hn]; rfl
  have f1 : ∀ t : Text, findSub ['\n', '-', '}'] t = none → findSub ['\n', '-', '}'] (c ++ t) = none := by
    intro t hn; rw [findSub_nlDash_wfc ['}'] c t h, hn]; rfl
  have f2 : ∀ t : Text, findSub ['\n', '-', '\n'] t = none → findSub ['\n', '-', '\n'] (c ++ t) = none := by
    intro t hn; rw [findSub_nlDash_wfc ['\n'] c t h, hn]; rfl
  refine ⟨?_, ?_, ?_⟩
  · have h0 := fb [] (by intro b rest he; cases he) rfl
    have h1 := f1 [] rfl
    have h2 := f2 [] rfl
    have h4 := findSub_dashBrace_wfc c [] h (by intro b rest he; cases he)
    simp only [List.append_nil] at h0 h1 h2 h4
    unfold contentEnd
    rw [h0, h1, h2]
    simp only [wfc_not_ends_nlDash c h, h4, findSub]
    rfl
  · have h0 := fb ['\n', '-'] (by intro b rest he; simp at he; rw [← he.1]; decide) (by decide)
    have h1 := f1 ['\n', '-'] (by decide)
    have h2 := f2 ['\n', '-'] (by decide)
    unfold contentEnd
    rw [h0, h1, h2]
    have : (decide (2 ≤ (c ++ ['\n', '-']).length) && (c ++ ['\n', '-']).drop ((c ++ ['\n', '-']).length - 2) == ['\n', '-']) = true := by
      simp [List.length_append]
    simp only [this, if_true, List.length_append, List.length_cons, List.length_nil]
    simp
  · have h0 := fb ['\r', '\n', '-'] (by intro b rest he; simp at he; rw [← he.1]; decide) (by decide)
    have h1 := f1 ['\r', '\n', '-'] (by decide)
    have h2 := f2 ['\r', '\n', '-'] (by decide)
    unfold contentEnd
    rw [h0, h1, h2]
    have : (decide (2 ≤ (c ++ ['\r', '\n', '-']).length) && (c ++ ['\r', '\n', '-']).drop ((c ++ ['\r', '\n', '-']).length - 2) == ['\n', '-']) = true := by
      simp [List.length_append]
    simp only [this, if_true, List.length_append, List.length_cons, List.length_nil]
    simp

end SwiftMT

namespace SwiftMT

theorem trimStart_marker (tag x : Text) : trimStart (marker tag ++ x) = marker tag ++ x := by
  simp [trimStart, marker, List.dropWhile, isWs_colon]

theorem detect_marker (s : PState) (tag x : Text) (h : s.rest = marker tag ++ x) : detectField s tag = true := by
  unfold detectField
  rw [h, trimStart_marker]
  exact List.isPrefixOf_iff_prefix.mpr ⟨x, rfl⟩

theorem take_len_append (a b : Text) : (a ++ b).take a.length = a := by simp
theorem drop_len_append (a b : Text) : (a ++ b).drop a.length = b := by simp
theorem drop_len_add (a b : Text) (i : Nat) : (a ++ b).drop (a.length + i) = b.drop i := by
  rw [List.drop_append]
  have h1 : a.drop (a.length + i) = [] := List.drop_eq_nil_of_le (by omega)
  have h2 : a.length + i - a.length = i := by omega
  rw [h1, h2]; rfl

theorem isComplete_nil (s : PState) (h : s.rest = []) : isComplete s = true := by
  unfold isComplete; rw [h]; rfl
theorem isComplete_dash (s : PState) (h : s.rest = ['-']) : isComplete s = true := by
  unfold isComplete; rw [h]; decide

theorem extractField_of_content (s : PState) (tag body c rest' : Text) (n : Nat) (b : Bool)
    (hr : s.rest = marker tag ++ body) (hce : contentEnd body = (n, b))
    (hcl : replaceCrLf (trimEndChar '\r' (trimEndChar '\n' (body.take n))) = c)
    (hrest : body.drop (n + (if b then 1 else 0)) = rest')
    (hd : s.allowDup = true ∨ tag ∉ s.seen) :
    extractField s tag false = .ok (c, s.after tag rest') := by
  have hdet := detect_marker s tag body hr
  have hx := extract_head_anchored [] tag body (by simp)
  simp only [List.nil_append, List.length_nil, Nat.zero_add] at hx
  unfold extractField
  have hdup : (!s.allowDup && s.seen.contains tag && !false) = false := by
    rcases hd with hd | hd
    · rw [hd]; rfl
    · have : s.seen.contains tag = false := by
        cases hc : s.seen.contains tag with
        | false => rfl
        | true => exact absurd (List.contains_iff_mem.mp hc) hd
      rw [this]; simp
  rw [hdup]
  simp only [Bool.false_eq_true, if_false, hdet, if_true]
  rw [hr, hx, hce]
  simp only [hcl]
  congr 2
  unfold PState.after
  congr 1
  rw [Nat.add_assoc, drop_len_add, hrest]

theorem readAll_cons_ok (s s' s'' : PState) (t c : Text) (ts cs : List Text)
    (h1 : extractField s t false = .ok (c, s')) (h2 : readAll s' ts = .ok (cs, s'')) :
    readAll s (t :: ts) = .ok (c :: cs, s'') := by
  simp only [readAll, h1, h2]

theorem renderFrom_head (sep tail : Text) (p : Text × Text) (rest : List (Text × Text)) :
    ∃ x, renderFrom sep tail (p :: rest) = marker p.1 ++ x := by
  cases rest with
  | nil => exact ⟨p.2 ++ tail, rfl⟩
  | cons q r => exact ⟨p.2 ++ (sep ++ renderFrom sep tail (q :: r)), rfl⟩

/-- **Render → read**: a block of well-formed fields written with LF or CRLF separators, with or without the block
terminator, is read back exactly — every content unchanged and in order — and the parser ends complete. -/
theorem read_render (pre tail : Text) (hp : pre = [] ∨ pre = ['\r'])
    (htail : tail = [] ∨ tail = ['\n', '-'] ∨ tail = ['\r', '\n', '-']) :
    ∀ (toks : List (Text × Text)) (s : PState), toks ≠ [] →
      (∀ p ∈ toks, wfTag p.1 = true ∧ wfc p.2 = true) →
      s.rest = renderFrom (pre ++ ['\n']) tail toks →
      (s.allowDup = true ∨ ((toks.map (·.1)).Nodup ∧ ∀ t ∈ toks.map (·.1), t ∉ s.seen)) →
      ∃ s', readAll s (toks.map (·.1)) = .ok (toks.map (·.2), s') ∧ isComplete s' = true := by
  intro toks
  induction toks with
  | nil => intro s h; exact absurd rfl h
  | cons p rest ih =>
    intro s _ hwf hr hd
    obtain ⟨t, c⟩ := p
    have hwfp := hwf (t, c) (by simp)
    have hdt : s.allowDup = true ∨ t ∉ s.seen := by
      rcases hd with hd | hd
      · exact Or.inl hd
      · exact Or.inr (hd.2 t (by simp))
    cases rest with
    | nil =>
      -- the last field of the block
      simp only [renderFrom] at hr
      obtain ⟨l0, l1, l2⟩ := contentEnd_last c hwfp.2
      simp only [List.map_cons, List.map_nil]
      rcases htail with ht | ht | ht <;> subst ht
      · have hx := extractField_of_content s t (c ++ []) c [] c.length false hr (by simpa using l0)
          (by simpa using clean_content c [] hwfp.2 (Or.inl rfl)) (by simp) hdt
        exact ⟨_, readAll_cons_ok s _ _ t c [] [] hx rfl, isComplete_nil _ rfl⟩
      · have hx := extractField_of_content s t (c ++ ['\n', '-']) c ['-'] c.length true hr l1
          (by rw [take_len_append]; simpa using clean_content c [] hwfp.2 (Or.inl rfl))
          (by simp only [if_true]; rw [drop_len_add]; rfl) hdt
        exact ⟨_, readAll_cons_ok s _ _ t c [] [] hx rfl, isComplete_dash _ rfl⟩
      · have hx := extractField_of_content s t (c ++ ['\r', '\n', '-']) c ['-'] (c.length + 1) true hr l2
          (by
            have : (c ++ ['\r', '\n', '-']).take (c.length + 1) = c ++ ['\r'] := by
              rw [show c ++ ['\r', '\n', '-'] = (c ++ ['\r']) ++ ['\n', '-'] by simp,
                  show c.length + 1 = (c ++ ['\r']).length by simp, take_len_append]
            rw [this]
            exact clean_content c ['\r'] hwfp.2 (Or.inr rfl))
          (by simp only [if_true]; rw [Nat.add_assoc, drop_len_add]; rfl) hdt
        exact ⟨_, readAll_cons_ok s _ _ t c [] [] hx rfl, isComplete_dash _ rfl⟩
    | cons q rest' =>
      simp only [renderFrom] at hr
      obtain ⟨x, hx⟩ := renderFrom_head (pre ++ ['\n']) tail q rest'
      have hwfq := hwf q (by simp)
      have hbody : c ++ (pre ++ ['\n'] ++ renderFrom (pre ++ ['\n']) tail (q :: rest')) =
          c ++ pre ++ '\n' :: (marker q.1 ++ x) := by
        rw [hx]; simp [List.append_assoc]
      rw [hbody] at hr
      have hce := contentEnd_mid c pre q.1 x hwfp.2 hp hwfq.1
      have hstep := extractField_of_content s t (c ++ pre ++ '\n' :: (marker q.1 ++ x)) c (marker q.1 ++ x)
        (c.length + pre.length) true hr hce
        (by
          rw [← List.length_append, take_len_append]
          exact clean_content c pre hwfp.2 hp)
        (by
          simp only [if_true]
          rw [show c ++ pre ++ '\n' :: (marker q.1 ++ x) = (c ++ pre ++ ['\n']) ++ (marker q.1 ++ x) by simp,
              show c.length + pre.length + 1 = (c ++ pre ++ ['\n']).length by simp [List.length_append]; omega, drop_len_append]) hdt
      have hnext := ih (s.after t (marker q.1 ++ x)) (by simp)
        (fun p hp' => hwf p (List.mem_cons_of_mem _ hp'))
        (by simp [PState.after, hx])
        (by
          rcases hd with hd | hd
          · exact Or.inl (by simpa [PState.after] using hd)
          · by_cases ha : s.allowDup = true
            · exact Or.inl (by simpa [PState.after] using ha)
            · refine Or.inr ⟨?_, ?_⟩
              · have := hd.1
                simp only [List.map_cons, List.nodup_cons] at this
                simpa using this.2
              · intro t' ht'
                have hnd := hd.1
                simp only [List.map_cons, List.nodup_cons] at hnd
                have hns := hd.2 t' (by simp only [List.map_cons]; exact List.mem_cons_of_mem _ ht')
                simp only [PState.after, ha, Bool.false_eq_true, if_false, List.mem_cons, not_or]
                refine ⟨?_, hns⟩
                intro he
                subst he
                exact hnd.1 (by simpa using ht'))
      obtain ⟨s', hread, hcomp⟩ := hnext
      exact ⟨s', readAll_cons_ok s _ s' t c _ _ hstep hread, hcomp⟩

end SwiftMT
