import SwiftMT.Amount
/- Helper lemmas for C06: digits ↔ numbers, take/dropWhile on a formatted amount. -/
namespace SwiftMT

theorem digitVal_digitChar_lt {k : Nat} (h : k < 10) : digitVal (digitChar k) = some k := by
  have : ∀ k, k < 10 → digitVal (digitChar k) = some k := by decide
  exact this k h

theorem isDigitC_digitChar {k : Nat} (h : k < 10) : isDigitC (digitChar k) = true := by
  simp [isDigitC, digitVal_digitChar_lt h]

theorem digitsVal_append_single (xs : Text) (c : Char) (acc : Nat) :
    digitsVal (xs ++ [c]) acc = 10 * digitsVal xs acc + (digitVal c).getD 0 := by
  induction xs generalizing acc with
  | nil => simp [digitsVal]
  | cons x xs ih => simp [digitsVal, ih]

theorem digitsVal_natDigits (n : Nat) : digitsVal (natDigits n) 0 = n := by
  induction n using Nat.strongRecOn with
  | _ n ih =>
    unfold natDigits
    split
    · rename_i h
      simp [digitsVal, digitVal_digitChar_lt h]
    · rename_i h
      rw [digitsVal_append_single, ih (n / 10) (by omega), digitVal_digitChar_lt (by omega)]
      simp only [Option.getD_some]
      omega

theorem natDigits_all (n : Nat) : (natDigits n).all isDigitC = true := by
  induction n using Nat.strongRecOn with
  | _ n ih =>
    unfold natDigits
    split
    · rename_i h
      simp [isDigitC_digitChar h]
    · rename_i h
      simp [ih (n / 10) (by omega), isDigitC_digitChar (show n % 10 < 10 by omega)]

theorem natDigits_ne_nil (n : Nat) : natDigits n ≠ [] := by
  unfold natDigits
  split <;> simp

theorem natDigits_length_le (p n : Nat) (hp : 0 < p) (h : n < 10 ^ p) : (natDigits n).length ≤ p := by
  induction p generalizing n with
  | zero => omega
  | succ p ih =>
    unfold natDigits
    split
    · simp
    · rename_i h10
      have hp' : 0 < p := by
        rcases Nat.eq_zero_or_pos p with h0 | h0
        · subst h0; simp at h; omega
        · exact h0
      have : n / 10 < 10 ^ p := by
        rw [Nat.pow_succ] at h
        exact Nat.div_lt_of_lt_mul (by omega)
      have := ih (n / 10) hp' this
      simp only [List.length_append, List.length_cons, List.length_nil]
      omega

theorem digitsVal_fold (a b : Text) (acc : Nat) : digitsVal (a ++ b) acc = digitsVal b (digitsVal a acc) := by
  induction a generalizing acc with
  | nil => rfl
  | cons x xs ih => simp [digitsVal, ih]

theorem digitsVal_acc (b : Text) (acc : Nat) : digitsVal b acc = acc * 10 ^ b.length + digitsVal b 0 := by
  induction b generalizing acc with
  | nil => simp [digitsVal]
  | cons x xs ih =>
    simp only [digitsVal, List.length_cons]
    rw [ih (10 * acc + (digitVal x).getD 0), ih (10 * 0 + (digitVal x).getD 0)]
    rw [Nat.pow_succ]
    simp only [Nat.mul_zero, Nat.zero_add]
    rw [Nat.add_mul, Nat.add_assoc]
    congr 1
    rw [Nat.mul_comm 10 acc, Nat.mul_assoc, Nat.mul_comm 10 (10 ^ xs.length)]

theorem digitsVal_zeros (k : Nat) (acc : Nat) (t : Text) :
    digitsVal (List.replicate k '0' ++ t) 0 = digitsVal t 0 := by
  induction k with
  | zero => simp
  | succ k ih =>
    simp only [List.replicate_succ, List.cons_append, digitsVal]
    have : (digitVal '0').getD 0 = 0 := by decide
    simp only [this, Nat.mul_zero, Nat.add_zero]
    exact ih

theorem takeWhile_digits_sep (ip fr : Text) (c : Char) (hip : ip.all isDigitC = true) (hc : isDigitC c = false) :
    (ip ++ c :: fr).takeWhile isDigitC = ip ∧ (ip ++ c :: fr).dropWhile isDigitC = c :: fr := by
  induction ip with
  | nil => simp [List.takeWhile, List.dropWhile, hc]
  | cons x xs ih =>
    simp only [List.all_cons, Bool.and_eq_true] at hip
    have := ih hip.2
    simp [List.takeWhile, List.dropWhile, hip.1, this.1, this.2]

theorem takeWhile_digits_all (ip : Text) (hip : ip.all isDigitC = true) :
    ip.takeWhile isDigitC = ip ∧ ip.dropWhile isDigitC = [] := by
  induction ip with
  | nil => simp
  | cons x xs ih =>
    simp only [List.all_cons, Bool.and_eq_true] at hip
    have := ih hip.2
    simp [List.takeWhile, List.dropWhile, hip.1, this.1, this.2]

theorem padLeft_length (t : Text) (p : Nat) (h : t.length ≤ p) : (padLeft t p).length = p := by
  simp [padLeft]; omega

theorem padLeft_all (t : Text) (p : Nat) (h : t.all isDigitC = true) : (padLeft t p).all isDigitC = true := by
  simp only [padLeft, List.all_append, Bool.and_eq_true]
  refine ⟨?_, h⟩
  rw [List.all_eq_true]
  intro c hc
  have := List.eq_of_mem_replicate hc
  subst this
  decide

end SwiftMT
