import SwiftMT.Text
/-
Blocks 1 and 2 (src/headers/mod.rs, after the `fix:` commits) and block location (src/parser/swift_parser.rs
`extract_block`, `find_matching_brace`).  Header parsing slices by byte offsets, so the header models are stated for
ASCII texts (one byte per character); non-ASCII input is C07's business.
-/
namespace SwiftMT

def padRightTo (c : Char) (n : Nat) (t : Text) : Text := t ++ List.replicate (n - t.length) c
def padLeftTo (c : Char) (n : Nat) (t : Text) : Text := List.replicate (n - t.length) c ++ t

structure BasicHeader where
  appId : Text
  service : Text
  lt : Text
  session : Text
  seq : Text
  deriving Repr, DecidableEq

/-- `BasicHeader::parse` -/
def BasicHeader.parse (t : Text) : Option BasicHeader :=
  if t.length == 25 then
    some ⟨t.take 1, (t.drop 1).take 2, (t.drop 3).take 12, (t.drop 15).take 4, (t.drop 19).take 6⟩
  else none

/-- `Display for BasicHeader` -/
def BasicHeader.display (h : BasicHeader) : Text :=
  h.appId ++ h.service ++ (if h.lt.length > 12 then h.lt.take 12 else padRightTo 'X' 12 h.lt) ++
    padLeftTo '0' 4 (h.session.take 4) ++ padLeftTo '0' 6 (h.seq.take 6)

structure InputAppHeader where
  mtype : Text
  dest : Text
  priority : Text
  monitoring : Option Text
  obsolescence : Option Text
  deriving Repr, DecidableEq

structure OutputAppHeader where
  mtype : Text
  inputTime : Text
  mirDate : Text
  mirLt : Text
  mirSession : Text
  mirSeq : Text
  outDate : Text
  outTime : Text
  priority : Option Text
  deriving Repr, DecidableEq

inductive AppHeader where
  | input (h : InputAppHeader)
  | output (h : OutputAppHeader)
  deriving Repr, DecidableEq

def isAsciiAlnum (c : Char) : Bool := c.isAlphanum

/-- `ApplicationHeader::parse` -/
def AppHeader.parse (t : Text) : Option AppHeader :=
  if t.length < 4 then none
  else match t with
    | 'I' :: _ =>
      if t.length == 17 || t.length == 18 || t.length == 21 then
        let mon := if t.length ≥ 18 then some ((t.drop 17).take 1) else none
        match mon with
        | some m =>
          if m.all isAsciiAlnum then
            some (.input ⟨(t.drop 1).take 3, (t.drop 4).take 12, (t.drop 16).take 1, some m,
              if t.length ≥ 21 then some ((t.drop 18).take 3) else none⟩)
          else none
        | none => some (.input ⟨(t.drop 1).take 3, (t.drop 4).take 12, (t.drop 16).take 1, none, none⟩)
      else none
    | 'O' :: _ =>
      if t.length == 46 || t.length == 47 then
        some (.output ⟨(t.drop 1).take 3, (t.drop 4).take 4, (t.drop 8).take 6, (t.drop 14).take 12, (t.drop 26).take 4,
          (t.drop 30).take 6, (t.drop 36).take 6, (t.drop 42).take 4,
          if t.length ≥ 47 then some ((t.drop 46).take 1) else none⟩)
      else none
    | _ => none

/-- `Display for ApplicationHeader` -/
def AppHeader.display : AppHeader → Text
  | .input h =>
    ['I'] ++ padLeftTo '0' 3 (h.mtype.take 3) ++
      (if h.dest.length > 12 then h.dest.take 12 else padRightTo 'X' 12 h.dest) ++ h.priority ++
      h.monitoring.getD [] ++ h.obsolescence.getD []
  | .output h =>
    ['O'] ++ h.mtype ++ h.inputTime ++ h.mirDate ++ h.mirLt ++ h.mirSession ++ h.mirSeq ++ h.outDate ++ h.outTime ++
      h.priority.getD []

/-- `find_matching_brace` on a text that starts with `{`: index of the brace closing it. -/
def matchBraceAux : Text → Nat → Nat → Option Nat
  | [], _, _ => none
  | c :: cs, depth, i =>
    if c == '{' then matchBraceAux cs (depth + 1) (i + 1)
    else if c == '}' then (if depth == 1 then some i else matchBraceAux cs (depth - 1) (i + 1))
    else matchBraceAux cs depth (i + 1)

def findMatchingBrace (t : Text) : Option Nat :=
  match t with
  | '{' :: cs => matchBraceAux cs 1 1
  | _ => none

/-- `extract_block(raw, n)` for n = 1..5 (content between `{n:` and its end). -/
def extractBlock (raw : Text) (n : Nat) : Option Text :=
  let mk : Text := ['{', Char.ofNat (48 + n), ':']
  match findSub mk raw with
  | none => none
  | some start =>
    let from_ := raw.drop start
    let fin : Option Nat :=
      if n == 1 || n == 2 then findChar '}' from_
      else if n == 3 || n == 5 then findMatchingBrace from_
      else if n == 4 then findSub ['-', '}'] from_
      else none
    match fin with
    | some e => some ((from_.take e).drop 3)
    | none => none

end SwiftMT
