import SwiftMT.Extract
/-
Model of src/parser/message_parser.rs (`MessageParser`), after the `fix:` commits: the cursor is the remaining
text, `fields_seen` a list, errors a small enum.
-/
namespace SwiftMT

structure PState where
  rest : Text
  seen : List Text
  allowDup : Bool
  deriving Repr, DecidableEq

inductive PErr where
  | duplicate (tag : Text)
  | notFoundOptional (tag : Text)
  | missing (tag : Text)
  deriving Repr, DecidableEq

def PState.init (input : Text) : PState := { rest := input, seen := [], allowDup := false }

/-- `detect_field`. -/
def detectField (s : PState) (tag : Text) : Bool := (marker tag).isPrefixOf (trimStart s.rest)

/-- `extract_field(tag, optional)`. -/
def extractField (s : PState) (tag : Text) (optional : Bool) : Except PErr (Text × PState) :=
  if !s.allowDup && s.seen.contains tag && !optional then .error (.duplicate tag)
  else
    match (if detectField s tag then extractFieldContent s.rest tag else none) with
    | some (content, consumed) =>
      .ok (content, { s with rest := s.rest.drop consumed, seen := if s.allowDup then s.seen else tag :: s.seen })
    | none => if optional then .error (.notFoundOptional tag) else .error (.missing tag)

def upperLetters : List Char := "ABCDEFGHIJKLMNOPQRSTUVWXYZ".toList

/-- the letters `detect_variant` / `detect_variant_optional` look for (every option letter, after the fix) -/
def variantLetters : List Char := upperLetters

/-- `detect_variant_optional(base)`: `Some(letter)` / `Some("")` / `None`. -/
def detectVariantOptional (s : PState) (base : Text) : Option Text :=
  let t := trimStart s.rest
  match variantLetters.find? (fun l => (marker (base ++ [l])).isPrefixOf t) with
  | some l => some [l]
  | none => if (marker base).isPrefixOf t then some [] else none

/-- `peek_field_variant(base)`. -/
def peekFieldVariant (s : PState) (base : Text) : Option Text :=
  let t := trimStart s.rest
  match upperLetters.find? (fun l => (marker (base ++ [l])).isPrefixOf t) with
  | some l => some [l]
  | none => if (marker base).isPrefixOf t then some [] else none

/-- `is_complete`. -/
def isComplete (s : PState) : Bool :=
  s.rest.isEmpty || (trim s.rest).isEmpty || trim s.rest == ['-']

end SwiftMT

namespace SwiftMT

/-! The four `parse_*` methods with the field-type parser abstracted away (`Raw`: every content accepted). -/

def parseFieldRaw (s : PState) (tag : Text) : Except PErr (Text × PState) := extractField s tag false

def parseOptionalRaw (s : PState) (tag : Text) : Option Text × PState :=
  if !detectField s tag then (none, s)
  else match extractField s tag true with
    | .ok (c, s') => (some c, s')
    | .error _ => (none, s)

def detectVariant (s : PState) (base : Text) : Except PErr Text :=
  match detectVariantOptional s base with
  | some v => .ok v
  | none => .error (.missing base)

def parseVariantRaw (s : PState) (base : Text) : Except PErr ((Text × Text) × PState) :=
  match detectVariant s base with
  | .error e => .error e
  | .ok v =>
    match extractField s (base ++ v) false with
    | .ok (c, s') => .ok ((v, c), s')
    | .error e => .error e

def parseOptionalVariantRaw (s : PState) (base : Text) : Option (Text × Text) × PState :=
  match detectVariantOptional s base with
  | some v =>
    match extractField s (base ++ v) true with
    | .ok (c, s') => (some (v, c), s')
    | .error _ => (none, s)
  | none => (none, s)

end SwiftMT

namespace SwiftMT

/-! `parse_field::<T>` with the field type's parser abstracted as an acceptance predicate. -/

inductive MErr where
  | parser (e : PErr)
  /-- `InvalidFieldFormat { field_tag, value, .. }` -/
  | invalid (tag : Text) (value : Text)
  deriving Repr, DecidableEq

def parseFieldWith (accept : Text → Bool) (s : PState) (tag : Text) : Except MErr (Text × PState) :=
  match extractField s tag false with
  | .error e => .error (.parser e)
  | .ok (c, s') => if accept c then .ok (c, s') else .error (.invalid tag c)

end SwiftMT

namespace SwiftMT

/-! `parse_variant_field::<T>` / `parse_optional_variant_field::<T>` with the option enum abstracted:
`pwv content letter` = `T::parse_with_variant` (None = rejected), `ser` = `to_swift_string`.  After reading
`:<base><letter>:` the parser checks that the value is written back under that same tag. -/

def letterArg (v : Text) : Option Text := if v.isEmpty then none else some v

def parseVariantWith {α : Type} (pwv : Text → Option Text → Option α) (ser : α → Text) (s : PState) (base : Text) :
    Except MErr (α × PState) :=
  match detectVariant s base with
  | .error e => .error (.parser e)
  | .ok v =>
    match extractField s (base ++ v) false with
    | .error e => .error (.parser e)
    | .ok (c, s') =>
      match pwv c (letterArg v) with
      | none => .error (.invalid (base ++ v) c)
      | some a =>
        if (marker (base ++ v)).isPrefixOf (ser a) then .ok (a, s') else .error (.invalid (base ++ v) c)

def parseOptionalVariantWith {α : Type} (pwv : Text → Option Text → Option α) (ser : α → Text) (s : PState)
    (base : Text) : Except MErr (Option α × PState) :=
  match detectVariantOptional s base with
  | none => .ok (none, s)
  | some v =>
    match extractField s (base ++ v) true with
    | .error _ => .ok (none, s)
    | .ok (c, s') =>
      match pwv c (letterArg v) with
      | none => .error (.invalid (base ++ v) c)
      | some a =>
        if (marker (base ++ v)).isPrefixOf (ser a) then .ok (some a, s') else .error (.invalid (base ++ v) c)

end SwiftMT
