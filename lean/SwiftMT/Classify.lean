import SwiftMT.Text
import SwiftMT.Generated.Tables
/-
Reject / return / cover classification (src/swift_message.rs, mt103/202/205.rs, plugin/parse.rs) over the regenerated
word tables and method chains (T5).
-/
namespace SwiftMT
open Generated.Tables

/-- `str::contains` -/
def containsSub (pat t : Text) : Bool := (findSub pat t).isSome || pat.isEmpty

/-- ASCII `to_uppercase` (exact on ASCII; the harness feeds ASCII user references) -/
def upperAscii (t : Text) : Text := t.map Char.toUpper

def wordsOf (tbl : List (Nat × List Text)) (ty : Nat) : List Text :=
  match tbl.find? (fun p => p.1 == ty) with
  | some p => p.2
  | none => []

/-- body-level `has_reject_codes` / `has_return_codes` of MT103/202/205 on the lines of field 72 -/
def bodyHas (tbl : List (Nat × List Text)) (ty : Nat) (lines72 : List Text) : Bool :=
  lines72.any (fun l => (wordsOf tbl ty).any (fun w => containsSub w l))

structure ClsInput where
  ty : Nat
  lines72 : List Text
  mur : Option Text
  flag119 : Option Text
  seqBCover : Bool        -- MT202: sequence B present with 50a or 59a
  stp : Bool              -- MT103::is_stp_compliant (C04's business; an input here)

/-- `SwiftMessage::has_reject_codes` -/
def msgReject (x : ClsInput) : Bool :=
  (match x.mur with | some m => containsSub murRejectWord (upperAscii m) | none => false) ||
  (murDispatch.contains x.ty && bodyHas rejectWords x.ty x.lines72)

/-- `SwiftMessage::has_return_codes` -/
def msgReturn (x : ClsInput) : Bool :=
  (match x.mur with | some m => containsSub murReturnWord (upperAscii m) | none => false) ||
  (murDispatch.contains x.ty && bodyHas returnWords x.ty x.lines72)

/-- `SwiftMessage::is_cover_message` -/
def msgCover (x : ClsInput) : Bool :=
  if x.ty == 202 then x.seqBCover
  else if x.ty == 205 then bodyHas coverWords 205 x.lines72
  else false

def msgStp (x : ClsInput) : Bool := x.ty == 103 && x.stp

def atomHolds (x : ClsInput) : Atom → Bool
  | .rej => msgReject x
  | .ret => msgReturn x
  | .stp => msgStp x
  | .cov => msgCover x
  | .flag v => x.flag119 == some v

def evalChain (x : ClsInput) : List (List Atom × Nat) → Nat
  | [] => 4
  | (atoms, m) :: rest => if atoms.isEmpty || atoms.any (atomHolds x) then m else evalChain x rest

/-- the `method` the parse plugin reports (0 reject, 1 return, 2 cover, 3 stp, 4 normal) -/
def pluginMethod (x : ClsInput) : Nat :=
  match methodChains.find? (fun p => p.1 == x.ty) with
  | some p => evalChain x p.2
  | none => 4

end SwiftMT
