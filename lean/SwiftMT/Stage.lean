/-
Model of the *aggregation* done by every `validate_network_rules(&self, stop_on_first_error)`:
a list of stages, each calling one rule function and (optionally) returning early in stop mode.
The three shapes are exactly the statement shapes the translator (T6) recognises in the Rust source.
-/
namespace SwiftMT

/-- Shape of one stage as it appears in the source; `ret` = the stage is followed by the early return. -/
inductive StageShape where
  | opt (ret : Bool)      -- `if let Some(e) = self.f() { all.push(e); [if stop { return all; }] }`
  | vec (ret : Bool)      -- `all.extend(self.f()); [if stop && !all.is_empty() { return all; }]`
  | vecStop (ret : Bool)  -- as `vec`, but the rule itself receives the stop flag (`self.f(stop)`)
  deriving DecidableEq, Repr

/-- A stage together with the rule function it calls (`M` = message, `E` = error). -/
inductive Stage (M E : Type) where
  | opt (f : M → Option E) (ret : Bool)
  | vec (f : M → List E) (ret : Bool)
  | vecStop (f : Bool → M → List E) (ret : Bool)

variable {M E : Type}

/-- `validate_network_rules` as the source computes it: `acc` is `all_errors`. -/
def runStages (stop : Bool) (m : M) : List (Stage M E) → List E → List E
  | [], acc => acc
  | .opt f ret :: ss, acc =>
      match f m with
      | some e => if stop && ret then acc ++ [e] else runStages stop m ss (acc ++ [e])
      | none => runStages stop m ss acc
  | .vec f ret :: ss, acc =>
      if stop && ret && !(acc ++ f m).isEmpty then acc ++ f m else runStages stop m ss (acc ++ f m)
  | .vecStop f ret :: ss, acc =>
      if stop && ret && !(acc ++ f stop m).isEmpty then acc ++ f stop m
      else runStages stop m ss (acc ++ f stop m)

/-- What a rule that itself receives the stop flag must satisfy (an obligation on that rule's model),
and the stage must carry the early return. -/
def Stage.WB (m : M) : Stage M E → Prop
  | .opt _ _ => True
  | .vec _ _ => True
  | .vecStop f ret => ret = true ∧ f true m <+: f false m ∧ (f true m = [] ↔ f false m = [])

theorem acc_prefix_run (stop : Bool) (m : M) (ss : List (Stage M E)) (acc : List E) :
    acc <+: runStages stop m ss acc := by
  induction ss generalizing acc with
  | nil => exact List.prefix_refl _
  | cons s ss ih =>
    cases s with
    | opt f ret =>
      simp only [runStages]
      split
      · split
        · exact List.prefix_append _ _
        · exact List.IsPrefix.trans (List.prefix_append _ _) (ih _)
      · exact ih _
    | vec f ret =>
      simp only [runStages]
      split
      · exact List.prefix_append _ _
      · exact List.IsPrefix.trans (List.prefix_append _ _) (ih _)
    | vecStop f ret =>
      simp only [runStages]
      split
      · exact List.prefix_append _ _
      · exact List.IsPrefix.trans (List.prefix_append _ _) (ih _)

theorem run_nil_acc (stop : Bool) (m : M) (ss : List (Stage M E)) (acc : List E)
    (h : runStages stop m ss acc = []) : acc = [] :=
  List.prefix_nil.mp (h ▸ acc_prefix_run stop m ss acc)

/-- Stop-mode output is a prefix of full-mode output, from any accumulator. -/
theorem stop_prefix_acc (m : M) (ss : List (Stage M E)) (hwb : ∀ s ∈ ss, s.WB m) (acc : List E) :
    runStages true m ss acc <+: runStages false m ss acc := by
  induction ss generalizing acc with
  | nil => exact List.prefix_refl _
  | cons s ss ih =>
    have ih' := fun acc => ih (fun s hs => hwb s (List.mem_cons_of_mem _ hs)) acc
    cases s with
    | opt f ret =>
      simp only [runStages, Bool.true_and, Bool.false_and]
      cases hf : f m with
      | none => simpa using ih' acc
      | some e =>
        simp only [Bool.false_eq_true, if_false]
        split
        · exact acc_prefix_run false m ss _
        · exact ih' _
    | vec f ret =>
      simp only [runStages, Bool.true_and, Bool.false_and, Bool.false_eq_true, if_false]
      split
      · exact acc_prefix_run false m ss _
      · exact ih' _
    | vecStop f ret =>
      have h := hwb (.vecStop f ret) (List.mem_cons_self)
      obtain ⟨hret, hpre, hnil⟩ := h
      subst hret
      simp only [runStages, Bool.true_and, Bool.false_and, Bool.false_eq_true, if_false]
      split
      · exact List.IsPrefix.trans ((List.prefix_append_right_inj acc).mpr hpre)
          (acc_prefix_run false m ss _)
      · rename_i hne
        have hempty : acc ++ f true m = [] := by
          simpa using hne
        have ha : acc = [] := (List.append_eq_nil_iff.mp hempty).1
        have hf : f true m = [] := (List.append_eq_nil_iff.mp hempty).2
        have hf' : f false m = [] := hnil.mp hf
        rw [hf, hf']
        exact ih' _

/-- Stop-mode output is empty exactly when full-mode output is empty. -/
theorem stop_nil_iff_acc (m : M) (ss : List (Stage M E)) (hwb : ∀ s ∈ ss, s.WB m) (acc : List E) :
    runStages true m ss acc = [] ↔ runStages false m ss acc = [] := by
  induction ss generalizing acc with
  | nil => exact Iff.rfl
  | cons s ss ih =>
    have ih' := fun acc => ih (fun s hs => hwb s (List.mem_cons_of_mem _ hs)) acc
    cases s with
    | opt f ret =>
      simp only [runStages, Bool.true_and, Bool.false_and]
      cases hf : f m with
      | none => simpa using ih' acc
      | some e =>
        simp only [Bool.false_eq_true, if_false]
        split
        · constructor
          · intro h; simp at h
          · intro h; have := run_nil_acc false m ss _ h; simp at this
        · exact ih' _
    | vec f ret =>
      simp only [runStages, Bool.true_and, Bool.false_and, Bool.false_eq_true, if_false]
      split
      · rename_i hc
        have hne : acc ++ f m ≠ [] := by
          intro h; simp [h] at hc
        constructor
        · intro h; exact absurd h hne
        · intro h; exact absurd (run_nil_acc false m ss _ h) hne
      · exact ih' _
    | vecStop f ret =>
      obtain ⟨hret, hpre, hnil⟩ := hwb (.vecStop f ret) (List.mem_cons_self)
      subst hret
      simp only [runStages, Bool.true_and, Bool.false_and, Bool.false_eq_true, if_false]
      split
      · rename_i hc
        have hne : acc ++ f true m ≠ [] := by
          intro h; simp [h] at hc
        constructor
        · intro h; exact absurd h hne
        · intro h
          have h2 := run_nil_acc false m ss _ h
          have ha : acc = [] := (List.append_eq_nil_iff.mp h2).1
          have hf' : f false m = [] := (List.append_eq_nil_iff.mp h2).2
          have hf : f true m = [] := hnil.mpr hf'
          exact absurd (by rw [ha, hf]; rfl) hne
      · rename_i hne
        have hempty : acc ++ f true m = [] := by simpa using hne
        have hf : f true m = [] := (List.append_eq_nil_iff.mp hempty).2
        have hf' : f false m = [] := hnil.mp hf
        rw [hf, hf']
        exact ih' _

/-- Build the stage list of a type from its translated shapes and an environment of rule functions. -/
structure RuleEnv (M E : Type) where
  opt : String → M → Option E
  vec : String → M → List E
  vecStop : String → Bool → M → List E

def instantiate (env : RuleEnv M E) : List (String × StageShape) → List (Stage M E)
  | [] => []
  | (n, .opt r) :: t => .opt (env.opt n) r :: instantiate env t
  | (n, .vec r) :: t => .vec (env.vec n) r :: instantiate env t
  | (n, .vecStop r) :: t => .vecStop (env.vecStop n) r :: instantiate env t

/-- `validate_network_rules(stop)` of a type whose source has stage list `sh`. -/
def validate (env : RuleEnv M E) (sh : List (String × StageShape)) (stop : Bool) (m : M) : List E :=
  runStages stop m (instantiate env sh) []

/-- Names of the rules that receive the stop flag, with whether their stage returns early. -/
def flagRules : List (String × StageShape) → List (String × Bool)
  | [] => []
  | (n, .vecStop r) :: t => (n, r) :: flagRules t
  | _ :: t => flagRules t

theorem instantiate_wb (env : RuleEnv M E) (m : M) (sh : List (String × StageShape))
    (h : ∀ p ∈ flagRules sh, p.2 = true ∧ env.vecStop p.1 true m <+: env.vecStop p.1 false m ∧
        (env.vecStop p.1 true m = [] ↔ env.vecStop p.1 false m = [])) :
    ∀ s ∈ instantiate env sh, s.WB m := by
  induction sh with
  | nil => intro s hs; simp [instantiate] at hs
  | cons p t ih =>
    obtain ⟨n, shp⟩ := p
    cases shp with
    | opt r =>
      intro s hs
      simp only [instantiate, List.mem_cons] at hs
      rcases hs with rfl | hs
      · trivial
      · exact ih (fun p hp => h p (by simpa [flagRules] using hp)) s hs
    | vec r =>
      intro s hs
      simp only [instantiate, List.mem_cons] at hs
      rcases hs with rfl | hs
      · trivial
      · exact ih (fun p hp => h p (by simpa [flagRules] using hp)) s hs
    | vecStop r =>
      intro s hs
      simp only [instantiate, List.mem_cons] at hs
      rcases hs with rfl | hs
      · exact h (n, r) (by simp [flagRules])
      · exact ih (fun p hp => h p (by simp [flagRules, hp])) s hs

end SwiftMT
