import SwiftMT.JsonShape
import SwiftMT.Props.C11
/-
C08 — JSON conversion is lossless and agrees with the MT serialisation.

(1) generic: in an object whose keys are distinct every member is read back (`get_of_nodup`), and flattening two key-disjoint
    parts into one object does not let one part shadow the other (`get_append_left/right`) — the two facts serde's derived
    struct decoder needs to invert the derived encoder;
(2) instances: the kernel re-decides on the *regenerated* declarations that every struct of the library has pairwise
    distinct / disjoint keys (flattened option enums included), that `skip_serializing_if` only sits on options, and that no
    struct has two catch-all maps;
(3) the hand-written codecs (13C/13D time and date strings, `date_string`) invert each other on every value;
(4) `clean_null_fields` (publish plugin): what it removes, and which required members that makes undecodable.
-/
namespace SwiftMT.Props.C08
open SwiftMT SwiftMT.Generated.Shapes

/-! ### (1) objects with distinct keys -/

theorem get_of_nodup (kvs : List (String × J)) (h : (kvs.map (·.1)).Nodup) :
    ∀ p ∈ kvs, (J.obj kvs).get p.1 = some p.2 := by
  intro p hp
  simp only [J.get]
  induction kvs with
  | nil => simp at hp
  | cons q rest ih =>
    simp only [List.map_cons, List.nodup_cons] at h
    rcases List.mem_cons.mp hp with rfl | hp'
    · simp [List.find?]
    · have hne : (q.1 == p.1) = false := by
        rw [beq_eq_false_iff_ne]
        intro he
        exact h.1 (he ▸ List.mem_map_of_mem (f := (·.1)) hp')
      simp only [List.find?, hne]
      exact ih h.2 hp'

/-- flattening: a key of the left part is found in the merged object exactly as in the left part -/
theorem get_append_left (a b : List (String × J)) (k : String) (hk : k ∈ a.map (·.1)) :
    (J.obj (a ++ b)).get k = (J.obj a).get k := by
  simp only [J.get]
  induction a with
  | nil => simp at hk
  | cons q rest ih =>
    by_cases he : (q.1 == k) = true
    · simp [List.find?, he]
    · have he' : (q.1 == k) = false := by simpa using he
      simp only [List.cons_append, List.find?, he']
      apply ih
      simp only [List.map_cons, List.mem_cons] at hk
      rcases hk with rfl | hk
      · simp at he
      · exact hk

/-- … and a key that the left part does not own is found as in the right part -/
theorem get_append_right (a b : List (String × J)) (k : String) (hk : k ∉ a.map (·.1)) :
    (J.obj (a ++ b)).get k = (J.obj b).get k := by
  simp only [J.get]
  induction a with
  | nil => simp
  | cons q rest ih =>
    simp only [List.map_cons, List.mem_cons, not_or] at hk
    have he : (q.1 == k) = false := by rw [beq_eq_false_iff_ne]; exact fun h => hk.1 h.symm
    simp only [List.cons_append, List.find?, he]
    exact ih hk.2

/-! ### (2) every declared struct satisfies the conditions -/

/-- structs in which two fields could claim the same JSON key (must be none) -/
def ambiguousStructs : List String := (structs.filter (fun d => !keysDistinct d)).map (·.name)
def unsoundSkips : List String := (structs.filter (fun d => !skipsSound d)).map (·.name)
def manyCatchAlls : List String := (structs.filter (fun d => catchAlls d > 1)).map (·.name)

theorem keys_distinct_everywhere : ambiguousStructs = [] := by decide +kernel
theorem skips_sound_everywhere : unsoundSkips = [] := by decide +kernel
theorem one_catch_all_at_most : manyCatchAlls = [] := by decide +kernel
theorem translated : Generated.Shapes.untranslated = [] := by decide

/-! ### (3) hand-written codecs -/

/-- 13C / 13D `time_format`: "HHMM" written for a clock time is read back as that time -/
theorem time_json_roundtrip (h m : Nat) (hh : h ≤ 23) (hm : m ≤ 59) :
    parseTimeHHMM (fmt2 h ++ fmt2 m) = some (h, m) := by
  have h1 : h / 10 % 10 < 10 := Nat.mod_lt _ (by omega)
  have h2 : h % 10 < 10 := Nat.mod_lt _ (by omega)
  have m1 : m / 10 % 10 < 10 := Nat.mod_lt _ (by omega)
  have m2 : m % 10 < 10 := Nat.mod_lt _ (by omega)
  simp only [fmt2, List.cons_append, List.nil_append, parseTimeHHMM, C11.digitVal_digitChar h1, C11.digitVal_digitChar h2,
    C11.digitVal_digitChar m1, C11.digitVal_digitChar m2]
  have e1 : 10 * (h / 10 % 10) + h % 10 = h := by omega
  have e2 : 10 * (m / 10 % 10) + m % 10 = m := by omega
  simp [e1, e2, hh, hm]

/-- 13D `date_format`: the six digits written are read back as the same date by the JSON codec (= C11) -/
theorem date13d_json_roundtrip (t : Text) (x : YMD) (h : parseDateYYMMDD t = some x) :
    json13dDecode (printYYMMDD x) = some x := C11.json13d_roundtrip t x h

/-! ### (4) clean_null_fields -/

/-- a null member is removed, whatever follows -/
theorem clean_drops_null (k : String) (rest : List (String × J)) :
    cleanMembers ((k, .null) :: rest) = cleanMembers rest := by simp [cleanMembers]
/-- a member object whose members are all null is removed entirely (the 52B/53B/… all-`None` value) -/
theorem clean_drops_all_null_object (k a b : String) (rest : List (String × J)) :
    cleanMembers ((k, .obj [(a, .null), (b, .null)]) :: rest) = cleanMembers rest := by
  simp [cleanMembers]
/-- an empty array member is removed: a required `Vec` without `#[serde(default)]` cannot be decoded afterwards -/
theorem clean_drops_empty_array (k : String) (rest : List (String × J)) :
    cleanMembers ((k, .arr []) :: rest) = cleanMembers rest := by simp [cleanMembers, cleanElems]
/-- strings, numbers and booleans are kept as they are -/
theorem clean_keeps_leaf (k : String) (t : Text) (rest : List (String × J)) :
    cleanMembers ((k, .str t) :: rest) = (k, .str t) :: cleanMembers rest := by simp [cleanMembers]

/-- required `Vec` members without a serde default: an empty one does not survive publish (listed in known_findings) -/
def vecsWithoutDefault : List String := structs.flatMap vecsNoDefault

end SwiftMT.Props.C08
