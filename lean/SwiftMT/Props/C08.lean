import SwiftMT.JsonShape
import SwiftMT.Props.C11
import SwiftMT.Lemmas.Prim
/-
C08 — JSON conversion is lossless and agrees with the MT serialisation.

(1) generic: in an object whose keys are distinct every member is read back (`get_of_nodup`), and flattening two key-disjoint
    parts into one object does not let one part shadow the other (`get_append_left/right`) — the two facts serde's derived
    struct decoder needs to invert the derived encoder;
(2) instances: the kernel re-decides on the *regenerated* declarations that every struct of the library has pairwise
    distinct / disjoint keys (flattened option enums included), that `skip_serializing_if` only sits on options, and that no
    struct has two catch-all maps;
(3) the hand-written codecs (13C/13D time and date strings, `date_string`) invert each other on every value;
(4) `clean_null_fields` (publish plugin): what it removes, and which required members that makes undecodable.
-/
namespace SwiftMT.Props.C08
open SwiftMT SwiftMT.Generated.Shapes

/-! ### (1) objects with distinct keys -/

theorem get_of_nodup (kvs : List (String × J)) (h : (kvs.map (·.1)).Nodup) :
    ∀ p ∈ kvs, (J.obj kvs).get p.1 = some p.2 := by
  intro p hp
  simp only [J.get]
  induction kvs with
  | nil => simp at hp
  | cons q rest ih =>
    simp only [List.map_cons, List.nodup_cons] at h
    rcases List.mem_cons.mp hp with rfl | hp'
    · simp [List.find?]
    · have hne : (q.1 == p.1) = false := by
        rw [beq_eq_false_iff_ne]
        intro he
        exact h.1 (he ▸ List.mem_map_of_mem (f := (·.1)) hp')
      simp only [List.find?, hne]
      exact ih h.2 hp'

/-- flattening: a key of the left part is found in the merged object exactly as in the left part -/
theorem get_append_left (a b : List (String × J)) (k : String) (hk : k ∈ a.map (·.1)) :
    (J.obj (a ++ b)).get k = (J.obj a).get k := by
  simp only [J.get]
  induction a with
  | nil => simp at hk
  | cons q rest ih =>
    by_cases he : (q.1 == k) = true
    · simp [List.find?, he]
    · have he' : (q.1 == k) = false := by simpa using he
      simp only [List.cons_append, List.find?, he']
      apply ih
      simp only [List.map_cons, List.mem_cons] at hk
      rcases hk with rfl | hk
      · simp at he
      · exact hk

/-- … and a key that the left part does not own is found as in the right part -/
theorem get_append_right (a b : List (String × J)) (k : String) (hk : k ∉ a.map (·.1)) :
    (J.obj (a ++ b)).get k = (J.obj b).get k := by
  simp only [J.get]
  induction a with
  | nil => simp
  | cons q rest ih =>
    simp only [List.map_cons, List.mem_cons, not_or] at hk
    have he : (q.1 == k) = false := by rw [beq_eq_false_iff_ne]; exact fun h => hk.1 h.symm
    simp only [List.cons_append, List.find?, he]
    exact ih hk.2

/-! ### (2) every declared struct satisfies the conditions -/

/-- structs in which two fields could claim the same JSON key (must be none) -/
def ambiguousStructs : List String := (structs.filter (fun d => !keysDistinct d)).map (·.name)
def unsoundSkips : List String := (structs.filter (fun d => !skipsSound d)).map (·.name)
def manyCatchAlls : List String := (structs.filter (fun d => catchAlls d > 1)).map (·.name)

theorem keys_distinct_everywhere : ambiguousStructs = [] := by decide +kernel
theorem skips_sound_everywhere : unsoundSkips = [] := by decide +kernel
theorem one_catch_all_at_most : manyCatchAlls = [] := by decide +kernel
theorem translated : Generated.Shapes.untranslated = [] := by decide

/-! ### (3) hand-written codecs -/

/-- 13C / 13D `time_format`: "HHMM" written for a clock time is read back as that time -/
theorem time_json_roundtrip (h m : Nat) (hh : h ≤ 23) (hm : m ≤ 59) :
    parseTimeHHMM (fmt2 h ++ fmt2 m) = some (h, m) := by
  have h1 : h / 10 % 10 < 10 := Nat.mod_lt _ (by omega)
  have h2 : h % 10 < 10 := Nat.mod_lt _ (by omega)
  have m1 : m / 10 % 10 < 10 := Nat.mod_lt _ (by omega)
  have m2 : m % 10 < 10 := Nat.mod_lt _ (by omega)
  simp only [fmt2, List.cons_append, List.nil_append, parseTimeHHMM, C11.digitVal_digitChar h1, C11.digitVal_digitChar h2,
    C11.digitVal_digitChar m1, C11.digitVal_digitChar m2]
  have e1 : 10 * (h / 10 % 10) + h % 10 = h := by omega
  have e2 : 10 * (m / 10 % 10) + m % 10 = m := by omega
  simp [e1, e2, hh, hm]

/-- 13D `date_format`: the six digits written are read back as the same date by the JSON codec (= C11) -/
theorem date13d_json_roundtrip (t : Text) (x : YMD) (h : parseDateYYMMDD t = some x) :
    json13dDecode (printYYMMDD x) = some x := C11.json13d_roundtrip t x h

/-- `normalize_address_12` (BasicHeader.logical_terminal, InputApplicationHeader.destination_address in the JSON codecs):
cut to 12 characters / padded with `X` to 12. -/
def norm12 (t : Text) : Text :=
  if blen t > 12 then t.take 12 else if blen t < 12 then t ++ List.replicate (12 - t.length) 'X' else t

/-- a 12-character ASCII address (what `parse` produces from a 25-character block 1 / a block 2) is written and read back unchanged -/
theorem norm12_id_on_parsed (t : Text) (ha : isAsciiT t = true) (hl : t.length = 12) : norm12 t = t := by
  unfold norm12
  rw [blen_ascii t ha, hl]; simp

/-- the codec is a normalisation: applying it twice (serialise, then deserialise) changes nothing further (ASCII) -/
theorem norm12_idempotent (t : Text) (ha : isAsciiT t = true) : norm12 (norm12 t) = norm12 t := by
  have hlen : (norm12 t).length = 12 ∨ norm12 t = t := by
    unfold norm12
    rw [blen_ascii t ha]
    by_cases h1 : t.length > 12
    · left; simp [h1, List.length_take]; omega
    · by_cases h2 : t.length < 12
      · left; simp [h1, h2]; omega
      · right; simp [h1, h2]
  have hasc : isAsciiT (norm12 t) = true := by
    unfold norm12 isAsciiT at *
    rw [List.all_eq_true] at ha
    split
    · rw [List.all_eq_true]; intro c hc; exact ha c (List.mem_of_mem_take hc)
    · split
      · rw [List.all_eq_true]; intro c hc
        rcases List.mem_append.mp hc with h | h
        · exact ha c h
        · rw [List.mem_replicate] at h; rw [h.2]; decide
      · rw [List.all_eq_true]; exact ha
  rcases hlen with h | h
  · exact norm12_id_on_parsed _ hasc h
  · rw [h]; exact h

/-! ### (4) clean_null_fields -/

/-- a null member is removed, whatever follows -/
theorem clean_drops_null (k : String) (rest : List (String × J)) :
    cleanMembers ((k, .null) :: rest) = cleanMembers rest := by simp [cleanMembers]
/-- a member object whose members are all null is removed entirely (the 52B/53B/… all-`None` value) -/
theorem clean_drops_all_null_object (k a b : String) (rest : List (String × J)) :
    cleanMembers ((k, .obj [(a, .null), (b, .null)]) :: rest) = cleanMembers rest := by
  simp [cleanMembers]
/-- an empty array member is removed: a required `Vec` without `#[serde(default)]` cannot be decoded afterwards -/
theorem clean_drops_empty_array (k : String) (rest : List (String × J)) :
    cleanMembers ((k, .arr []) :: rest) = cleanMembers rest := by simp [cleanMembers, cleanElems]
/-- strings, numbers and booleans are kept as they are -/
theorem clean_keeps_leaf (k : String) (t : Text) (rest : List (String × J)) :
    cleanMembers ((k, .str t) :: rest) = (k, .str t) :: cleanMembers rest := by simp [cleanMembers]

/-- required `Vec` members without a serde default: an empty one does not survive publish (listed in known_findings) -/
def vecsWithoutDefault : List String := structs.flatMap vecsNoDefault

/-- The required `Vec` members that have no `#[serde(default)]`: the sequences and line lists that the parsers never leave
empty (at least one transaction / rate change / statement line / text line).  A new such member, or one whose parser
allows zero occurrences, must be added here deliberately (MT942.statement_lines was one: repaired). -/
theorem vecs_without_default_eq : vecsWithoutDefault =
    ["MT101.transactions", "MT104.transactions", "MT107.transactions", "MT920.sequence", "MT935.rate_changes",
     "MT935RateChange.field_37h", "MT940.statement_lines", "Field50NoOption.name_and_address",
     "Field50A.name_and_address", "Field50K.name_and_address", "Field50H.name_and_address", "Field52D.name_and_address",
     "Field53D.name_and_address", "Field54D.name_and_address", "Field55D.name_and_address", "Field56D.name_and_address",
     "Field57D.name_and_address", "Field58D.name_and_address", "Field59F.name_and_address",
     "Field59NoOption.name_and_address", "Field70.narrative", "Field71B.details", "Field72.information",
     "Field75.information", "Field76.information", "Field77A.narrative", "Field77B.narrative", "Field79.information",
     "Field86.narrative"] := by decide +kernel

end SwiftMT.Props.C08
