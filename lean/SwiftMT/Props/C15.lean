import SwiftMT.Scenario
import SwiftMT.Generated.Scenarios
import SwiftMT.Spec.FieldDocs
import SwiftMT.Props.C05
/-
C15 — shipped scenarios always generate valid, exactly round-trippable messages.  PARTIAL (see DESIGN.md §5 C15).

The ∀ of the property ranges over the draws of `datafake-rs` / `fake`, external generators.  What is proved here:

* `langOf_sound`: for ANY behaviour `gen` of the external generators that stays inside the assumed languages
  (`GenOK gen`), every value an expression can draw lies in the language `langOf` computes for it (induction over the
  derivation: literals, `cat`, `substr`, `var` inlined by the translator).
* `leafCheck_sound`: if `leafCheck` answers `ok` for a leaf, every value the leaf can draw satisfies the documented
  format of the field component it is written to (`ReqHolds`: `nx` text, slash-free reference, BIC, currency code).
* `no_leaf_fails` / `coverage`: the kernel re-decides, on the scenario files as they are now (T8), that no leaf of any of
  the shipped scenarios is refuted and how many are covered.
* `xtext_lines_accepted`, `reference_accepted`: what `ReqHolds` buys — the field models (proved equivalent to the
  documented formats in C05 and tied to the parsers by the `fields` stream) accept such components and return them
  unchanged, which is what the round trip needs.

Not covered by the abstraction (decided only by the pipeline stream `c15`, which draws, publishes, validates, parses and
compares exactly): amounts, dates, code words, structured lines (50F, 59F, 61, 77T), network rules across fields.
-/
namespace SwiftMT.Props.C15
open SwiftMT SwiftMT.Scenario Generated.Scenarios

def fakeLang (k : String) (a : List String) : Option Lang :=
  (fakeLangs.find? (fun p => p.1 == k && p.2.1 == a)).map (·.2.2)

/-- the assumption on the external generators: every draw of a kind lies in the language listed for it, and the two BIC
kinds draw texts that `parse_bic` accepts -/
structure GenOK (gen : String → List String → Text → Prop) : Prop where
  inLang : ∀ k a s L, gen k a s → fakeLang k a = some L → L.Mem s
  bic8 : ∀ s, gen "bic8" [] s → bicB s = true
  bic11 : ∀ s, gen "bic11" [] s → bicB s = true

theorem langOf_sound (gen : String → List String → Text → Prop)
    (H : ∀ k a s L, gen k a s → fakeLang k a = some L → L.Mem s) :
    ∀ (e : Expr) (s : Text), Draws gen e s → ∀ L, langOf fakeLang e = some L → L.Mem s := by
  intro e s d
  induction d with
  | lit s => intro L h; simp [langOf] at h; subst h; exact ⟨Nat.le_refl _, Nat.le_refl _, fun c hc => hc⟩
  | num s => intro L h; simp [langOf] at h; subst h; exact ⟨Nat.le_refl _, Nat.le_refl _, fun c hc => hc⟩
  | fake k a s hg => intro L h; exact H k a s L hg (by simpa [langOf] using h)
  | cat2 a b x y _ _ iha ihb =>
    intro L h
    simp only [langOf] at h
    cases ha : langOf fakeLang a with
    | none => simp [ha] at h
    | some la =>
      cases hb : langOf fakeLang b with
      | none => simp [ha, hb] at h
      | some lb =>
        simp [ha, hb] at h; subst h
        obtain ⟨a1, a2, a3⟩ := iha la ha
        obtain ⟨b1, b2, b3⟩ := ihb lb hb
        refine ⟨by simp [List.length_append]; omega, by simp [List.length_append]; omega, ?_⟩
        intro c hc
        rcases List.mem_append.mp hc with h1 | h1
        · exact List.mem_append_left _ (a3 c h1)
        · exact List.mem_append_right _ (b3 c h1)
  | substr e st ln x _ ih =>
    intro L h
    simp only [langOf] at h
    cases he : langOf fakeLang e with
    | none => simp [he] at h
    | some le =>
      simp [he] at h; subst h
      obtain ⟨e1, e2, e3⟩ := ih le he
      refine ⟨?_, ?_, ?_⟩
      · simp [List.length_take, List.length_drop]; omega
      · simp [List.length_take, List.length_drop]; omega
      · intro c hc; exact e3 c (List.mem_of_mem_drop (List.mem_of_mem_take hc))
  | unknown w s => intro L h; simp [langOf] at h

/-- the documented requirement as a proposition -/
def ReqHolds : Req → Text → Prop
  | .xtext n _, s => Doc.XText n s
  | .ref n, s => Doc.Reference n s
  | .bic, s => bicB s = true
  | .ccy, s => ccyB s = true
  | .uncovered, _ => True

theorem xtextB_iff (n : Nat) (s : Text) : xtextB n s = true ↔ Doc.XText n s := by
  simp [xtextB, Doc.XText, List.all_eq_true, and_assoc]

theorem refB_iff (n : Nat) (s : Text) : refB n s = true ↔ Doc.Reference n s := by
  have hs := C05.hasSub_iff_infix ['/', '/'] s (by simp)
  unfold refB Doc.Reference
  rw [← xtextB_iff]
  constructor
  · intro h
    simp only [Bool.and_eq_true, bne_iff_ne, ne_eq, Bool.not_eq_true'] at h
    obtain ⟨⟨⟨h1, h2⟩, h3⟩, h4⟩ := h
    refine ⟨h1, h2, h3, ?_⟩
    intro hi
    have := hs.mpr hi
    simp [this] at h4
  · rintro ⟨h1, h2, h3, h4⟩
    simp only [Bool.and_eq_true, bne_iff_ne, ne_eq, Bool.not_eq_true']
    refine ⟨⟨⟨h1, h2⟩, h3⟩, ?_⟩
    cases hh : hasSub ['/', '/'] s with
    | false => rfl
    | true => exact absurd (hs.mp hh) h4

theorem holdsB_sound (r : Req) (s : Text) (h : r.holdsB s = true) : ReqHolds r s := by
  cases r with
  | xtext n m => exact (xtextB_iff n s).mp h
  | ref n => exact (refB_iff n s).mp h
  | bic => exact h
  | ccy => exact h
  | uncovered => trivial

/-- membership in a language of x-characters with lengths inside `1..n` is `nx` text -/
theorem xtext_of_lang (L : Lang) (n : Nat) (s : Text) (hm : L.Mem s) (hx : L.chars.all isSwiftX = true) (h1 : 1 ≤ L.min)
    (h2 : L.max ≤ n) : Doc.XText n s := by
  obtain ⟨m1, m2, m3⟩ := hm
  refine ⟨by omega, by omega, ?_⟩
  intro c hc
  exact (List.all_eq_true.mp hx) c (m3 c hc)

theorem no_double_slash_of_no_slash (s : Text) (h : '/' ∉ s) : ¬ (['/', '/'] <:+: s) := by
  intro hi
  exact h (hi.subset (by simp))

theorem litOf_draws (gen : String → List String → Text → Prop) (e : Expr) (t s : Text) (h : litOf e = some t)
    (d : Draws gen e s) : s = t := by
  cases d <;> simp [litOf] at h <;> exact h

theorem langCheck_ok (L : Lang) (n : Nat) (ns : Bool) (h : langCheck L n ns = .ok) :
    L.chars.all isSwiftX = true ∧ 1 ≤ L.min ∧ L.max ≤ n ∧ (ns = true → '/' ∉ L.chars) := by
  unfold langCheck at h
  split at h; · cases h
  split at h; · cases h
  split at h; · cases h
  split at h; · cases h
  rename_i h1 h2 h3 h4
  refine ⟨by simpa using h1, by omega, by omega, ?_⟩
  intro hns
  simp [hns] at h2
  exact h2

theorem isBicFake_draws (gen : String → List String → Text → Prop) (H : GenOK gen) (e : Expr) (s : Text)
    (h : isBicFake e = true) (d : Draws gen e s) : bicB s = true := by
  cases d with
  | fake k a s hg =>
    simp [isBicFake] at h
    obtain ⟨hk, ha⟩ := h
    subst ha
    rcases hk with hk | hk
    · subst hk; exact H.bic8 s hg
    · subst hk; exact H.bic11 s hg
  | _ => simp [isBicFake] at h

theorem approxCheck_sound (gen : String → List String → Text → Prop) (H : GenOK gen) (r : Req) (e : Expr)
    (hok : approxCheck fakeLang r e = .ok) : ∀ s, Draws gen e s → ReqHolds r s := by
  intro s d
  cases r with
  | uncovered => trivial
  | ccy => simp [approxCheck] at hok
  | bic =>
    simp only [approxCheck] at hok
    split at hok
    · exact isBicFake_draws gen H e s ‹_› d
    · cases hok
  | xtext n m =>
    simp only [approxCheck] at hok
    cases hl : langOf fakeLang e with
    | none => simp [hl] at hok
    | some L =>
      simp only [hl] at hok
      obtain ⟨h1, h2, h3, _⟩ := langCheck_ok L n false hok
      exact xtext_of_lang L n s (langOf_sound gen H.inLang e s d L hl) h1 h2 h3
  | ref n =>
    simp only [approxCheck] at hok
    cases hl : langOf fakeLang e with
    | none => simp [hl] at hok
    | some L =>
      simp only [hl] at hok
      obtain ⟨h1, h2, h3, h4⟩ := langCheck_ok L n true hok
      have hm := langOf_sound gen H.inLang e s d L hl
      have hx := xtext_of_lang L n s hm h1 h2 h3
      have hns : '/' ∉ s := fun hc => h4 rfl (hm.2.2 _ hc)
      refine ⟨hx, ?_, ?_, no_double_slash_of_no_slash s hns⟩
      · intro hh; exact hns (List.mem_of_mem_head? hh)
      · intro hh; exact hns (List.mem_of_getLast? hh)

/-- **Soundness of the per-leaf decision**: a leaf answered `ok` can only draw values that satisfy the documented format
of the component it is written to — for any behaviour of the external generators inside the assumed languages. -/
theorem leafCheck_sound (gen : String → List String → Text → Prop) (H : GenOK gen) (lf : Leaf)
    (hok : leafCheck fakeLang lf = .ok) : ∀ s, Draws gen lf.e s → ReqHolds (reqOf lf.tag lf.path) s := by
  intro s d
  unfold leafCheck at hok
  simp only at hok
  split at hok; · cases hok
  split at hok; · cases hok
  split at hok
  · rename_i t ht
    split at hok
    · rw [litOf_draws gen lf.e t s ht d]; exact holdsB_sound _ _ ‹_›
    · cases hok
  · exact approxCheck_sound gen H _ _ hok s d

/-- the verdicts of all leaves of all shipped scenarios, on the files as they are now -/
def verdicts : List Verdict := leaves.map (leafCheck fakeLang)
def failing : List (Nat × String × String × String) :=
  leaves.filterMap (fun lf => match leafCheck fakeLang lf with | .fail w => some (lf.ty, lf.scenario, String.ofList (lf.tag ++ '.' :: lf.path), w) | _ => none)

/-- **No leaf of any shipped scenario is refuted**: none may draw a value outside the documented format of its component. -/
theorem no_leaf_fails : failing = [] := by decide +kernel

/-- how much of the scenarios the abstraction decides -/
def okCount : Nat := (verdicts.filter (· == .ok)).length

/-- Non-vacuity: the abstraction decides (answers `ok` for) more than half of all leaves of the shipped scenarios. -/
theorem majority_decided : 2 * okCount ≥ leaves.length := by decide +kernel

theorem translated : Generated.Scenarios.untranslated = [] := by decide +kernel
theorem all_scenarios_present : perScenario.length ≥ scenarioCount ∧ scenarioCount ≥ 195 := by decide +kernel

/-- what `ReqHolds` buys, 1: a list of at most `ml` lines that are each `mx`-x-text is accepted by the narrative /
name-and-address model and returned unchanged -/
theorem xtext_lines_accepted (ml mx : Nat) (ls : List Text) (h1 : 1 ≤ ls.length) (h2 : ls.length ≤ ml)
    (hl : ∀ l ∈ ls, Doc.XText mx l) : (Fields.Narr.parse ml mx (joinNl ls)).isOk = true :=
  (C05.accepts_iff_narrative ml mx (joinNl ls)).mpr ⟨ls, rfl, h1, h2, hl⟩

/-- what `ReqHolds` buys, 2: a documented reference is accepted and kept as written -/
theorem reference_accepted (n : Nat) (s : Text) (h : Doc.Reference n s) : (Fields.Ref.parse n s).isOk = true :=
  (C05.accepts_iff_reference n s).mpr h

/-- Non-vacuity: a leaf the check refutes (a 36-character literal line), and one it accepts through a language. -/
example : leafCheck fakeLang ⟨103, "x", "70".toList, "narrative[]".toList, 0, .lit "123456789012345678901234567890123456".toList⟩ = .fail "literal outside the documented format" := by decide +kernel
example : leafCheck fakeLang ⟨103, "x", "59".toList, "name_and_address[]".toList, 0, .substr (.fake "company_name" []) 0 35⟩ = .ok := by decide +kernel
example : leafCheck fakeLang ⟨103, "x", "59".toList, "name_and_address[]".toList, 0, .fake "company_name" []⟩ = .fail "may exceed the documented length" := by decide +kernel

end SwiftMT.Props.C15
