import SwiftMT.Tokeniser
import SwiftMT.Lemmas.Text
/-
C16 — the field-map tokeniser and sequential consumption lose and reorder nothing.  Property theorems only.
-/
namespace SwiftMT.Props.C16
open SwiftMT

/-! ### position stamps -/

theorem stampOf_eq (l p : Nat) (hp : p < 65536) : stampOf l p = l * 65536 + p := by
  unfold stampOf
  have h1 : p &&& 0xFFFF = p := by
    have := Nat.and_two_pow_sub_one_eq_mod p 16
    simp at this
    rw [this]; omega
  rw [h1, ← Nat.shiftLeft_add_eq_or_of_lt (by omega : p < 2 ^ 16), Nat.shiftLeft_eq]

theorem stamp_lt (l l' p p' : Nat) (hl : l ≤ l') (hp : p < p') (hp' : p' < 65536) : stampOf l p < stampOf l' p' := by
  rw [stampOf_eq l p (by omega), stampOf_eq l' p' hp']
  have : l * 65536 ≤ l' * 65536 := Nat.mul_le_mul_right _ hl
  omega

/-- stamps of consecutive fields whose line numbers are `lines`, the first field having index `fp` -/
def stampsFrom : List Nat → Nat → List Nat
  | [], _ => []
  | l :: ls, fp => stampOf l fp :: stampsFrom ls (fp + 1)

theorem stampsFrom_lower (lines : List Nat) (fp : Nat) (l0 : Nat) (p0 : Nat) (hl : ∀ l ∈ lines, l0 ≤ l)
    (hp0 : p0 < fp) (hb : fp + lines.length ≤ 65536) : ∀ s ∈ stampsFrom lines fp, stampOf l0 p0 < s := by
  induction lines generalizing fp with
  | nil => intro s hs; simp [stampsFrom] at hs
  | cons l ls ih =>
    intro s hs
    simp only [stampsFrom, List.mem_cons] at hs
    simp only [List.length_cons] at hb
    rcases hs with rfl | hs
    · exact stamp_lt l0 l p0 fp (hl l (List.mem_cons_self)) hp0 (by omega)
    · exact ih (fp + 1) (fun x hx => hl x (List.mem_cons_of_mem _ hx)) (by omega) (by omega) s hs

theorem stampsFrom_sorted (lines : List Nat) (fp : Nat) (hs : lines.Pairwise (· ≤ ·))
    (hb : fp + lines.length ≤ 65536) : (stampsFrom lines fp).Pairwise (· < ·) := by
  induction lines generalizing fp with
  | nil => simp [stampsFrom]
  | cons l ls ih =>
    simp only [stampsFrom, List.pairwise_cons]
    simp only [List.length_cons] at hb
    have hp := List.pairwise_cons.mp hs
    refine ⟨?_, ih (fp + 1) hp.2 (by omega)⟩
    exact stampsFrom_lower ls (fp + 1) l fp hp.1 (by omega) (by omega)

/-- The loop stamps its fields with a running index and a line number that never decreases. -/
theorem tokLoop_stamps (fuel : Nat) (rest : Text) (prev : Option Char) (fp ln : Nat) (acc out : List Tok)
    (h : tokLoop fuel rest prev fp ln acc = some out) :
    ∃ (tail : List Tok) (lines : List Nat), out = acc.reverse ++ tail ∧ (∀ l ∈ lines, ln ≤ l) ∧
      lines.Pairwise (· ≤ ·) ∧ tail.map (·.stamp) = stampsFrom lines fp := by
  induction fuel generalizing rest prev fp ln acc with
  | zero =>
    simp only [tokLoop, Option.some.injEq] at h
    exact ⟨[], [], by simp [h], by simp, by simp, by simp [stampsFrom]⟩
  | succ fuel ih =>
    unfold tokLoop at h
    split at h
    · simp only [Option.some.injEq] at h
      exact ⟨[], [], by simp [h], by simp, by simp, by simp [stampsFrom]⟩
    · cases hf : findChar ':' rest with
      | none =>
        simp only [hf, Option.some.injEq] at h
        exact ⟨[], [], by simp [h], by simp, by simp, by simp [stampsFrom]⟩
      | some fs =>
        simp only [hf] at h
        cases ht : findChar ':' (rest.drop (fs + 1)) with
        | none => simp [ht] at h
        | some te =>
          simp only [ht] at h
          obtain ⟨tail, lines, hout, hge, hsorted, hst⟩ := ih _ _ _ _ _ h
          have hln : ln ≤ (if prev == some '\n' then ln + 1 else ln) := by split <;> omega
          refine ⟨(tokStep rest fs te (if prev == some '\n' then ln + 1 else ln) fp).1 :: tail,
            (if prev == some '\n' then ln + 1 else ln) :: lines, ?_, ?_, ?_, ?_⟩
          · rw [hout]; simp
          · intro l hl
            rcases List.mem_cons.mp hl with rfl | hl
            · exact hln
            · exact Nat.le_trans hln (hge l hl)
          · exact List.pairwise_cons.mpr ⟨hge, hsorted⟩
          · simp only [List.map_cons, stampsFrom, hst]
            rfl

/-- Position stamps increase strictly in input order (fewer than 65536 fields: beyond that the 16-bit index wraps). -/
theorem stamps_strictly_increasing (block4 : Text) (out : List Tok) (h : tokenise block4 = some out)
    (hn : out.length ≤ 65536) : (out.map (·.stamp)).Pairwise (· < ·) := by
  unfold tokenise at h
  obtain ⟨tail, lines, hout, _, hsorted, hst⟩ := tokLoop_stamps _ _ _ _ _ _ _ h
  simp only [List.reverse_nil, List.nil_append] at hout
  subst hout
  rw [hst]
  have hlen : lines.length = out.length := by
    have := congrArg List.length hst
    simp only [List.length_map] at this
    have aux : ∀ (ls : List Nat) (k : Nat), (stampsFrom ls k).length = ls.length := by
      intro ls; induction ls with
      | nil => intro k; rfl
      | cons a b ih => intro k; simp [stampsFrom, ih]
    rw [aux] at this; exact this.symm
  exact stampsFrom_sorted lines 0 hsorted (by omega)

/-! ### tag normalisation -/

/-- The option letter is removed exactly for numbers outside the documented list. -/
theorem normalise_documented (num suffix : Text) (hnum : num.all isAsciiDigitC = true)
    (hsuf : suffix ≠ [] ∧ suffix.all isAsciiUpperC = true) :
    normalizeTag (num ++ suffix) = if preservedNumbers.contains num then num ++ suffix else num := by
  have hsd : ∀ c ∈ suffix, isAsciiDigitC c = false := by
    intro c hc
    have := List.all_eq_true.mp hsuf.2 c hc
    simp only [isAsciiUpperC, Bool.and_eq_true, decide_eq_true_eq] at this
    simp only [isAsciiDigitC, Bool.and_eq_false_iff, decide_eq_false_iff_not]
    omega
  have hhash : (num ++ suffix).contains '#' = false := by
    rw [Bool.eq_false_iff]
    intro hc
    rw [List.contains_iff_mem] at hc
    rcases List.mem_append.mp hc with hc | hc
    · have := List.all_eq_true.mp hnum _ hc; revert this; decide
    · have := List.all_eq_true.mp hsuf.2 _ hc; revert this; decide
  obtain ⟨s0, srest, hs⟩ : ∃ a b, suffix = a :: b := by
    cases suffix with
    | nil => exact absurd rfl hsuf.1
    | cons a b => exact ⟨a, b, rfl⟩
  have htw : (num ++ suffix).takeWhile isAsciiDigitC = num ∧ (num ++ suffix).dropWhile isAsciiDigitC = suffix := by
    subst hs
    have h0 := hsd s0 (List.mem_cons_self)
    clear hhash hsd hsuf
    induction num with
    | nil => simp [List.takeWhile, List.dropWhile, h0]
    | cons x xs ih =>
      simp only [List.all_cons, Bool.and_eq_true] at hnum
      have := ih hnum.2
      simp [List.takeWhile, List.dropWhile, hnum.1, this.1, this.2]
  unfold normalizeTag
  simp only [hhash, Bool.false_eq_true, if_false, htw.1, htw.2]
  have hne : suffix.isEmpty = false := by subst hs; rfl
  simp only [hne, Bool.false_eq_true, if_false, hsuf.2, if_true]

/-! ### sequential consumption -/

theorem find_after_consumed (pre post : List (Text × Nat)) (x : Text × Nat) (c : Consumed)
    (hpre : ∀ v ∈ pre, v.2 ∈ c) (hx : x.2 ∉ c) :
    getNextAvailable c (pre ++ x :: post) = some x := by
  unfold getNextAvailable
  induction pre with
  | nil => simp [List.find?, hx]
  | cons p ps ih =>
    have hp := hpre p (List.mem_cons_self)
    have hneg : (!c.contains p.2) = false := by simp [List.contains_iff_mem, hp]
    rw [List.cons_append, List.find?_cons, hneg]
    exact ih (fun v hv => hpre v (List.mem_cons_of_mem _ hv))

theorem find_all_consumed (vals : List (Text × Nat)) (c : Consumed) (h : ∀ v ∈ vals, v.2 ∈ c) :
    getNextAvailable c vals = none := by
  unfold getNextAvailable
  rw [List.find?_eq_none]
  intro v hv
  simp [h v hv]

/-- Consuming a tag's values through the tracker returns each occurrence exactly once, in input order: the k-th
request returns the k-th occurrence, and `none` once they are exhausted (stamps distinct). -/
theorem tracker_once_in_order (vals : List (Text × Nat)) (hd : (vals.map (·.2)).Nodup) (n : Nat) :
    serve vals n [] = (vals.take n).map some ++ List.replicate (n - vals.length) none := by
  have key : ∀ (n k : Nat) (c : Consumed), k ≤ vals.length →
      (∀ s, s ∈ c ↔ s ∈ (vals.take k).map (·.2)) →
      serve vals n c = ((vals.drop k).take n).map some ++ List.replicate (n - (vals.length - k)) none := by
    intro n
    induction n with
    | zero => intro k c _ _; simp [serve]
    | succ n ih =>
      intro k c hk hc
      by_cases hlt : k < vals.length
      · -- the k-th value is the next one
        have hsplit : vals = vals.take k ++ vals[k] :: vals.drop (k + 1) := by
          rw [← List.drop_eq_getElem_cons hlt, List.take_append_drop]
        have hpre : ∀ v ∈ vals.take k, v.2 ∈ c := by
          intro v hv
          exact (hc v.2).mpr (List.mem_map.mpr ⟨v, hv, rfl⟩)
        have hx : vals[k].2 ∉ c := by
          intro hmem
          have hin := (hc _).mp hmem
          rw [hsplit, List.map_append, List.map_cons] at hd
          have := (List.nodup_append.mp hd).2.2 _ hin _ (List.mem_cons_self)
          exact this rfl
        have hnext : getNextAvailable c vals = some vals[k] := by
          conv => lhs; rw [hsplit]
          exact find_after_consumed _ _ _ c hpre hx
        have hc' : ∀ s, s ∈ (vals[k].2 :: c) ↔ s ∈ (vals.take (k + 1)).map (·.2) := by
          intro s
          rw [List.take_succ_eq_append_getElem hlt, List.map_append, List.mem_append, List.mem_cons]
          simp only [List.map_cons, List.map_nil, List.mem_singleton]
          constructor
          · rintro (h | h)
            · exact Or.inr h
            · exact Or.inl ((hc s).mp h)
          · rintro (h | h)
            · exact Or.inr ((hc s).mpr h)
            · exact Or.inl h
        have hrec := ih (k + 1) (vals[k].2 :: c) (by omega) hc'
        have hcount : n + 1 - (vals.length - k) = n - (vals.length - (k + 1)) := by omega
        have hserve : serve vals (n + 1) c = some vals[k] :: serve vals n (vals[k].2 :: c) := by
          simp only [serve, takeNext, hnext]
        rw [hserve, hrec, hcount]
        conv => rhs; rw [List.drop_eq_getElem_cons hlt, List.take_succ_cons, List.map_cons]
        rfl
      · have hk' : k = vals.length := by omega
        subst hk'
        have hall : ∀ v ∈ vals, v.2 ∈ c := by
          intro v hv
          apply (hc v.2).mpr
          rw [List.take_length]
          exact List.mem_map_of_mem hv
        have hnone := find_all_consumed vals c hall
        have hrec := ih vals.length c (Nat.le_refl _) hc
        have hserve : serve vals (n + 1) c = none :: serve vals n c := by
          simp only [serve, takeNext, hnone]
        rw [hserve, hrec]
        simp [List.replicate_succ]
  have := key n 0 [] (Nat.zero_le _) (by simp)
  simpa using this

/-! ### sequence split -/

/-- Every field is assigned to exactly one sequence: the three sequences are a partition (as multisets) of the
fields, whatever boundaries the first half of `split_into_sequences` computed. -/
theorem split_partition (alwaysA : List Text) (bStart cStart : Option Nat) (fields : List (Text × Text × Nat)) :
    let d := distribute alwaysA bStart cStart fields
    (d.map (·.2) = fields) ∧
    ((d.filter (·.1 == .a)) ++ ((d.filter (·.1 == .b)) ++ (d.filter (·.1 == .c)))).Perm d := by
  intro d
  refine ⟨?_, ?_⟩
  · show (distribute alwaysA bStart cStart fields).map (·.2) = fields
    simp only [distribute, List.map_map]
    have : ((fun (x : SeqId × Text × Text × Nat) => x.2) ∘ fun (p : (Text × Text × Nat) × Nat) =>
        (assignSeq alwaysA bStart cStart p.2 p.1.1, p.1)) = (fun p => p.1) := rfl
    rw [this]
    exact List.zipIdx_map_fst _ _
  · have h1 := List.filter_append_perm (fun (x : SeqId × Text × Text × Nat) => x.1 == .a) d
    have hrest : (d.filter (fun x => !(x.1 == SeqId.a))).Perm
        ((d.filter (·.1 == .b)) ++ (d.filter (·.1 == .c))) := by
      have h2 := List.filter_append_perm (fun (x : SeqId × Text × Text × Nat) => x.1 == .b)
        (d.filter (fun x => !(x.1 == SeqId.a)))
      refine h2.symm.trans ?_
      apply List.Perm.append
      · rw [List.filter_filter]
        apply List.Perm.of_eq
        apply List.filter_congr
        intro x _
        cases x.1 <;> rfl
      · rw [List.filter_filter]
        apply List.Perm.of_eq
        apply List.filter_congr
        intro x _
        cases x.1 <;> rfl
    exact (List.Perm.append_left _ hrest.symm).trans h1

/-- Non-vacuity. -/
example : (tokenise ":20:REF\n:50K:/ACC\nNAME\n:61:X".toList).map (fun l => l.map (fun t => (t.tag, t.stamp))) =
    some [("20".toList, stampOf 1 0), ("50K".toList, stampOf 1 1), ("61".toList, stampOf 1 2)] := by decide
example : serve [("a".toList, 7), ("b".toList, 9)] 3 [] = [some ("a".toList, 7), some ("b".toList, 9), none] := by decide
example : normalizeTag "61A".toList = "61".toList ∧ normalizeTag "50K".toList = "50K".toList ∧
    normalizeTag "50#1".toList = "50#1".toList := by decide

end SwiftMT.Props.C16
