import SwiftMT.Headers
import SwiftMT.Lemmas.Text
import SwiftMT.Generated.Tables
/-
C10 — envelope integrity.  Property theorems only.
-/
namespace SwiftMT.Props.C10
open SwiftMT

theorem take_drop_25 (t : Text) (h : t.length = 25) :
    t.take 1 ++ (t.drop 1).take 2 ++ (t.drop 3).take 12 ++ (t.drop 15).take 4 ++ (t.drop 19).take 6 = t := by
  match t, h with
  | [a0,a1,a2,a3,a4,a5,a6,a7,a8,a9,a10,a11,a12,a13,a14,a15,a16,a17,a18,a19,a20,a21,a22,a23,a24], _ => rfl

/-- Block 1: a header of exactly 25 characters is reproduced character for character … -/
theorem basic_roundtrip (t : Text) (h : t.length = 25) :
    (BasicHeader.parse t).map BasicHeader.display = some t := by
  match t, h with
  | [a0,a1,a2,a3,a4,a5,a6,a7,a8,a9,a10,a11,a12,a13,a14,a15,a16,a17,a18,a19,a20,a21,a22,a23,a24], _ => rfl

/-- … and any other length is rejected, never partly read. -/
theorem basic_wrong_length_rejected (t : Text) (h : t.length ≠ 25) : BasicHeader.parse t = none := by
  simp [BasicHeader.parse, h]

theorem app_rt_17 (t : Text) (h : t.length = 17) (a : AppHeader) (hp : AppHeader.parse t = some a) :
    a.display = t := by
  match t, h with
  | [c0,c1,c2,c3,c4,c5,c6,c7,c8,c9,c10,c11,c12,c13,c14,c15,c16], _ =>
    unfold AppHeader.parse at hp
    simp only [List.length_cons, List.length_nil] at hp
    split at hp
    · simp at hp
    · split at hp
      · rename_i hI
        injection hI with hI _
        subst hI
        simp at hp
        
        subst hp
        rfl
      · simp at hp
      · cases hp

theorem app_rt_18 (t : Text) (h : t.length = 18) (a : AppHeader) (hp : AppHeader.parse t = some a) :
    a.display = t := by
  match t, h with
  | [c0,c1,c2,c3,c4,c5,c6,c7,c8,c9,c10,c11,c12,c13,c14,c15,c16,c17], _ =>
    unfold AppHeader.parse at hp
    simp only [List.length_cons, List.length_nil] at hp
    split at hp
    · simp at hp
    · split at hp
      · rename_i hI
        injection hI with hI _
        subst hI
        simp at hp
        obtain ⟨_, hp⟩ := hp
        subst hp
        rfl
      · simp at hp
      · cases hp

theorem app_rt_21 (t : Text) (h : t.length = 21) (a : AppHeader) (hp : AppHeader.parse t = some a) :
    a.display = t := by
  match t, h with
  | [c0,c1,c2,c3,c4,c5,c6,c7,c8,c9,c10,c11,c12,c13,c14,c15,c16,c17,c18,c19,c20], _ =>
    unfold AppHeader.parse at hp
    simp only [List.length_cons, List.length_nil] at hp
    split at hp
    · simp at hp
    · split at hp
      · rename_i hI
        injection hI with hI _
        subst hI
        simp at hp
        obtain ⟨_, hp⟩ := hp
        subst hp
        rfl
      · simp at hp
      · cases hp

theorem app_rt_46 (t : Text) (h : t.length = 46) (a : AppHeader) (hp : AppHeader.parse t = some a) :
    a.display = t := by
  match t, h with
  | c0 :: c1 :: c2 :: c3 :: c4 :: c5 :: c6 :: c7 :: c8 :: c9 :: c10 :: c11 :: c12 :: c13 :: c14 :: c15 :: c16 :: c17 :: c18 :: c19 :: c20 :: c21 :: c22 :: c23 :: c24 :: c25 :: c26 :: c27 :: c28 :: c29 :: c30 :: c31 :: c32 :: c33 :: c34 :: c35 :: c36 :: c37 :: c38 :: c39 :: c40 :: c41 :: c42 :: c43 :: c44 :: c45 :: [], _ =>
    unfold AppHeader.parse at hp
    simp only [List.length_cons, List.length_nil] at hp
    split at hp
    · simp at hp
    · split at hp
      · simp at hp
      · rename_i hO
        injection hO with hO _
        subst hO
        simp at hp
        subst hp
        rfl
      · cases hp

theorem app_rt_47 (t : Text) (h : t.length = 47) (a : AppHeader) (hp : AppHeader.parse t = some a) :
    a.display = t := by
  match t, h with
  | c0 :: c1 :: c2 :: c3 :: c4 :: c5 :: c6 :: c7 :: c8 :: c9 :: c10 :: c11 :: c12 :: c13 :: c14 :: c15 :: c16 :: c17 :: c18 :: c19 :: c20 :: c21 :: c22 :: c23 :: c24 :: c25 :: c26 :: c27 :: c28 :: c29 :: c30 :: c31 :: c32 :: c33 :: c34 :: c35 :: c36 :: c37 :: c38 :: c39 :: c40 :: c41 :: c42 :: c43 :: c44 :: c45 :: c46 :: [], _ =>
    unfold AppHeader.parse at hp
    simp only [List.length_cons, List.length_nil] at hp
    split at hp
    · simp at hp
    · split at hp
      · simp at hp
      · rename_i hO
        injection hO with hO _
        subst hO
        simp at hp
        subst hp
        rfl
      · cases hp

theorem app_accept_length (t : Text) (a : AppHeader) (hp : AppHeader.parse t = some a) :
    t.length = 17 ∨ t.length = 18 ∨ t.length = 21 ∨ t.length = 46 ∨ t.length = 47 := by
  unfold AppHeader.parse at hp
  split at hp
  · cases hp
  · split at hp
    · split at hp
      · rename_i hl
        simp only [Bool.or_eq_true, beq_iff_eq] at hl
        rcases hl with (hl | hl) | hl
        · exact Or.inl hl
        · exact Or.inr (Or.inl hl)
        · exact Or.inr (Or.inr (Or.inl hl))
      · cases hp
    · split at hp
      · rename_i hl
        simp only [Bool.or_eq_true, beq_iff_eq] at hl
        rcases hl with hl | hl
        · exact Or.inr (Or.inr (Or.inr (Or.inl hl)))
        · exact Or.inr (Or.inr (Or.inr (Or.inr hl)))
      · cases hp
    · cases hp

/-- Block 2: whatever is accepted is reproduced character for character (input and output headers alike). -/
theorem app_roundtrip (t : Text) (a : AppHeader) (h : AppHeader.parse t = some a) : a.display = t := by
  rcases app_accept_length t a h with hl | hl | hl | hl | hl
  · exact app_rt_17 t hl a h
  · exact app_rt_18 t hl a h
  · exact app_rt_21 t hl a h
  · exact app_rt_46 t hl a h
  · exact app_rt_47 t hl a h

/-- and the accepted lengths are exactly the documented ones: nothing is partly read. -/
theorem app_wrong_length_rejected (t : Text) (h17 : t.length ≠ 17) (h18 : t.length ≠ 18) (h21 : t.length ≠ 21)
    (h46 : t.length ≠ 46) (h47 : t.length ≠ 47) : AppHeader.parse t = none := by
  cases hp : AppHeader.parse t with
  | none => rfl
  | some a =>
    rcases app_accept_length t a hp with hl | hl | hl | hl | hl <;> contradiction

/-- [instances] every block-3 tag that `UserHeader::parse` reads is written back by `Display` (13 tags), and nothing
else is written. -/
theorem user_header_tags :
    Generated.Tables.block3Parsed.all (Generated.Tables.block3Displayed.contains ·) = true ∧
    Generated.Tables.block3Displayed.all (Generated.Tables.block3Parsed.contains ·) = true ∧
    Generated.Tables.block3Parsed.length = 13 := by decide

/-- [instances] every block-5 tag that `Trailer::parse` reads is written back. -/
theorem trailer_parsed_tags_displayed :
    Generated.Tables.block5Parsed.all (Generated.Tables.block5Displayed.contains ·) = true := by decide

/-- The documented block-5 tags (the eight of the `Trailer` struct, SR2025) that are NOT read by `parse`: a listed
finding (known_findings.json: F-C10-trailer-tags); the obligation pins exactly these four. -/
def documentedTrailerTags : List (List Char) :=
  ["CHK".toList, "TNG".toList, "PDE".toList, "DLM".toList, "MRF".toList, "PDM".toList, "SYS".toList, "MAC".toList]

theorem trailer_unparsed_tags :
    documentedTrailerTags.filter (fun t => !Generated.Tables.block5Parsed.contains t) =
      ["PDE".toList, "MRF".toList, "PDM".toList, "SYS".toList] := by decide

theorem translated : Generated.Tables.untranslated = [] := by decide

/-- Block location depends only on structure, block 1: whatever follows, if the message starts with `{1:`, block 1 is
the text up to the first `}` — in particular a brace-free header value is extracted exactly. -/
theorem extract_block1 (b1 rest : Text) (h : ∀ c ∈ b1, c ≠ '}') :
    extractBlock (['{', '1', ':'] ++ b1 ++ '}' :: rest) 1 = some b1 := by
  have hmk : (['{', Char.ofNat (48 + 1), ':'] : Text) = ['{', '1', ':'] := by decide
  unfold extractBlock
  simp only [hmk]
  have hfind : findSub ['{', '1', ':'] (['{', '1', ':'] ++ b1 ++ '}' :: rest) = some 0 := by
    have := findSub_head '{' ['1', ':'] [] (b1 ++ '}' :: rest) (by simp)
    simpa using this
  rw [hfind]
  simp only [List.drop_zero, beq_self_eq_true, Bool.true_or, if_true]
  have hfc : findChar '}' (['{', '1', ':'] ++ b1 ++ '}' :: rest) = some (3 + b1.length) := by
    have aux : ∀ (pre : Text), (∀ c ∈ pre, c ≠ '}') → findChar '}' (pre ++ '}' :: rest) = some pre.length := by
      intro pre hp
      induction pre with
      | nil => simp [findChar]
      | cons x xs ih =>
        have hx : x ≠ '}' := hp x (List.mem_cons_self)
        have := ih (fun c hc => hp c (List.mem_cons_of_mem _ hc))
        simp [findChar, hx, this]
    have := aux (['{', '1', ':'] ++ b1) (by
      intro c hc
      rcases List.mem_append.mp hc with hc | hc
      · simp at hc; rcases hc with rfl | rfl | rfl <;> decide
      · exact h c hc)
    have e : (['{', '1', ':'] ++ b1).length = 3 + b1.length := by simp; omega
    rw [e] at this
    exact this
  rw [hfc]
  simp only
  have : (['{', '1', ':'] ++ b1 ++ '}' :: rest).take (3 + b1.length) = ['{', '1', ':'] ++ b1 := by
    have e : 3 + b1.length = (['{', '1', ':'] ++ b1).length := by simp; omega
    rw [e, List.take_left']
    rfl
  rw [this]
  simp

/-- Non-vacuity. -/
example : (BasicHeader.parse "F01BANKBEBBAXXX0000000000".toList).map BasicHeader.display = some "F01BANKBEBBAXXX0000000000".toList ∧
    AppHeader.parse "I103BANKDEFFXXXXN12".toList = none ∧
    (AppHeader.parse "I103BANKDEFFXXXXU3003".toList).map AppHeader.display = some "I103BANKDEFFXXXXU3003".toList ∧
    extractBlock "{1:F01X}{2:I103Y}{4:\n:20:A\n-}".toList 2 = some "I103Y".toList ∧
    extractBlock "{1:F01X}{2:I103Y}{4:\n:20:A\n-}".toList 4 = some "\n:20:A\n".toList := by decide

end SwiftMT.Props.C10
