import SwiftMT.Lemmas.Amount
import SwiftMT.Spec.Iso4217
import SwiftMT.Fields.Simple
/-
C06 — monetary amounts and rates are accepted only as decimals and preserved exactly.  Property theorems only.
Values are exact decimals; the f64 the library stores in between is outside the model (assumption: decimal → f64 →
decimal is the identity up to 15 significant digits; beyond that the `f64-precision` finding class applies).
-/
namespace SwiftMT.Props.C06
open SwiftMT

/-- digits, then optionally one separator followed by digits; at least one integer digit -/
def PlainDecimal (t : Text) : Prop :=
  ∃ ip : Text, ip ≠ [] ∧ ip.all isDigitC = true ∧
    (t = ip ∨ ∃ c fr, isSep c = true ∧ fr.all isDigitC = true ∧ t = ip ++ c :: fr)

/-- Every accepted amount or rate is a plain decimal — whatever the field. -/
theorem amount_is_plain_decimal (t : Text) (d : Dec) (h : parseAmount t = some d) : PlainDecimal t := by
  unfold parseAmount at h
  cases hs : splitAmount t with
  | none => simp [hs] at h
  | some p =>
    obtain ⟨ip, fr⟩ := p
    unfold splitAmount at hs
    simp only at hs
    have hall : (t.takeWhile isDigitC).all isDigitC = true := List.all_takeWhile
    have hsplit := (List.takeWhile_append_dropWhile (p := isDigitC) (l := t)).symm
    split at hs
    · cases hs
    · rename_i hne
      cases hd : t.dropWhile isDigitC with
      | nil =>
        rw [hd] at hs hsplit
        simp only [Option.some.injEq, Prod.mk.injEq] at hs
        refine ⟨t.takeWhile isDigitC, ?_, hall, Or.inl (by simpa using hsplit)⟩
        intro h0; simp [h0] at hne
      | cons c fr' =>
        rw [hd] at hs hsplit
        simp only at hs
        split at hs
        · rename_i hc
          simp only [Bool.and_eq_true] at hc
          refine ⟨t.takeWhile isDigitC, ?_, hall, Or.inr ⟨c, fr', hc.1, hc.2, hsplit⟩⟩
          intro h0; simp [h0] at hne
        · cases hs

/-- hence no sign, exponent, letter or blank can occur in an accepted amount, and at most one separator. -/
theorem accepted_chars (t : Text) (d : Dec) (h : parseAmount t = some d) :
    (∀ c ∈ t, isDigitC c = true ∨ isSep c = true) ∧ (t.filter isSep).length ≤ 1 := by
  obtain ⟨ip, _, hip, h1 | ⟨c, fr, hc, hfr, h2⟩⟩ := amount_is_plain_decimal t d h
  · rw [h1]
    refine ⟨fun c hc => Or.inl (List.all_eq_true.mp hip c hc), ?_⟩
    have : List.filter isSep ip = [] := by
      rw [List.filter_eq_nil_iff]
      intro c hc hs
      have hd := List.all_eq_true.mp hip c hc
      revert hd hs
      simp only [isDigitC, isSep, digitVal]
      intro hs hd
      rcases (Bool.or_eq_true _ _).mp hs with h' | h' <;> (simp at h'; subst h'; simp at hd)
    simp [this]
  · rw [h2]
    have nosep : ∀ l : Text, l.all isDigitC = true → List.filter isSep l = [] := by
      intro l hl
      rw [List.filter_eq_nil_iff]
      intro c hc hs
      have hd := List.all_eq_true.mp hl c hc
      revert hd hs
      simp only [isDigitC, isSep, digitVal]
      intro hs hd
      rcases (Bool.or_eq_true _ _).mp hs with h' | h' <;> (simp at h'; subst h'; simp at hd)
    refine ⟨?_, ?_⟩
    · intro x hx
      rcases List.mem_append.mp hx with hx | hx
      · exact Or.inl (List.all_eq_true.mp hip x hx)
      · rcases List.mem_cons.mp hx with rfl | hx
        · exact Or.inr hc
        · exact Or.inl (List.all_eq_true.mp hfr x hx)
    · simp [List.filter_append, List.filter_cons, nosep ip hip, nosep fr hfr, hc]

theorem max_len_respected (t : Text) (n : Nat) (d : Dec) (h : parseAmountMaxLen t n = some d) : sigLen t ≤ n := by
  unfold parseAmountMaxLen at h
  cases hp : parseAmount t with
  | none => simp [hp] at h
  | some d' =>
    simp only [hp] at h
    split at h
    · assumption
    · cases h

/-- Where the field carries a currency: no more (significant) decimals than the currency allows, and at most the
15 characters of format 15d. -/
theorem decimals_and_length_respected (t ccy : Text) (d : Dec) (h : parseAmountWithCurrency t ccy = some d) :
    sigDecimals t ≤ currencyDecimals ccy ∧ sigLen t ≤ 15 ∧ parseAmount t = some d := by
  unfold parseAmountWithCurrency at h
  cases hml : parseAmountMaxLen t 15 with
  | none => simp [hml] at h
  | some d' =>
    simp only [hml] at h
    split at h
    · rename_i hd
      injection h with h
      subst h
      refine ⟨hd, max_len_respected t 15 d' hml, ?_⟩
      unfold parseAmountMaxLen at hml
      cases hp : parseAmount t with
      | none => simp [hp] at hml
      | some d'' =>
        simp only [hp] at hml
        split at hml
        · cases hml; rfl
        · cases hml
    · cases h

/-- [instances] the library's precision table (regenerated, T5) agrees with ISO 4217 minor units on every listed code. -/
theorem currency_table_is_iso : ∀ c ∈ Spec.isoCodes, currencyDecimals c = Spec.minorUnits c := by decide +kernel

theorem translated : Generated.Tables.untranslated = [] := by decide

/-- Value preserved in MT, for every precision p (0, 2, 3, 4, …) and every magnitude: a value with at most p decimals,
written with precision p, is read back as the same number. -/
theorem format_then_parse_same_value (d : Dec) (p : Nat) (hs : d.scale ≤ p) :
    ∃ d', parseAmount (formatAmount d p) = some d' ∧ d'.eqv d := by
  unfold formatAmount
  simp only
  generalize hm : d.mant * 10 ^ (p - d.scale) = m
  have hmp : m * 10 ^ d.scale = d.mant * 10 ^ p := by
    rw [← hm, Nat.mul_assoc, ← Nat.pow_add, Nat.sub_add_cancel hs]
  by_cases hp : p = 0
  · subst hp
    have hs0 : d.scale = 0 := by omega
    simp only [beq_self_eq_true, if_true, Nat.pow_zero, Nat.div_one]
    have hall := natDigits_all m
    have htw := takeWhile_digits_all _ hall
    refine ⟨⟨m, 0⟩, ?_, ?_⟩
    · unfold parseAmount splitAmount
      simp only [htw.1, htw.2]
      have hne : (natDigits m).isEmpty = false := by
        cases h : natDigits m with
        | nil => exact absurd h (natDigits_ne_nil m)
        | cons _ _ => rfl
      simp [hne, digitsVal_natDigits]
    · simp only [Dec.eqv, hs0, Nat.pow_zero, Nat.mul_one]
      rw [hs0] at hmp; simpa using hmp
  · have hp0 : (p == 0) = false := by simp [hp]
    simp only [hp0, Bool.false_eq_true, if_false]
    have hpp : 0 < p := Nat.pos_of_ne_zero hp
    have hip := natDigits_all (m / 10 ^ p)
    have hfrlen : (natDigits (m % 10 ^ p)).length ≤ p :=
      natDigits_length_le p _ hpp (Nat.mod_lt _ (Nat.pow_pos (by omega)))
    have hfr := padLeft_all _ p (natDigits_all (m % 10 ^ p))
    have hlen := padLeft_length _ p hfrlen
    have hcomma : isDigitC ',' = false := by decide
    have htw := takeWhile_digits_sep (natDigits (m / 10 ^ p)) (padLeft (natDigits (m % 10 ^ p)) p) ',' hip hcomma
    refine ⟨⟨m, p⟩, ?_, ?_⟩
    · unfold parseAmount splitAmount
      rw [List.append_assoc, List.singleton_append]
      simp only [htw.1, htw.2]
      have hne : (natDigits (m / 10 ^ p)).isEmpty = false := by
        cases h : natDigits (m / 10 ^ p) with
        | nil => exact absurd h (natDigits_ne_nil _)
        | cons _ _ => rfl
      have hsep : isSep ',' = true := by decide
      simp only [hne, Bool.false_eq_true, if_false, hsep, hfr, Bool.and_self, if_true, hlen]
      congr 1
      congr 1
      rw [digitsVal_fold, digitsVal_acc, hlen, digitsVal_natDigits]
      unfold padLeft
      rw [digitsVal_zeros _ 0, digitsVal_natDigits]
      exact Nat.div_add_mod' m (10 ^ p)
    · simp only [Dec.eqv]
      exact hmp

/-- Non-vacuity and the float spellings (tests on literals, labelled as such): -/
example : parseAmount "NaN".toList = none ∧ parseAmount "inf".toList = none ∧ parseAmount "1e3".toList = none ∧
    parseAmount "+1".toList = none ∧ parseAmount "-0".toList = none ∧ parseAmount ",5".toList = none ∧
    parseAmount "1,5,0".toList = none ∧ parseAmount "".toList = none ∧
    parseAmount "1234567,89".toList = some ⟨123456789, 2⟩ ∧ parseAmount "1000,".toList = some ⟨1000, 0⟩ := by decide

example : parseAmountWithCurrency "100,55".toList "JPY".toList = none ∧
    parseAmountWithCurrency "0,213".toList "KWD".toList = some ⟨213, 3⟩ ∧
    parseAmountWithCurrency "2088054,9".toList "USD".toList = some ⟨20880549, 1⟩ := by decide

example : formatAmount ⟨213, 3⟩ 3 = "0,213".toList ∧ formatAmount ⟨15, 1⟩ 2 = "1,50".toList := by
  constructor <;> (simp [formatAmount, natDigits, padLeft]; decide)

/-! ### The amount-bearing field types (models in Fields/Simple.lean, tied by the `fields` stream)

What an accepted content of 32B / 33B / 71F / 71G, 32A / 32C / 32D, 34F, the balances 60F–65 and 19 looks like: the amount
part is a plain decimal within the 15d (17d) length and within the currency's precision. -/
open SwiftMT.Fields

theorem amountPart_spec (a ccy : Text) (pos : Bool) (d : Dec) (h : amountPart a ccy pos = .ok d) :
    PlainDecimal a ∧ sigLen a ≤ 15 ∧ sigDecimals a ≤ currencyDecimals ccy ∧ (pos = true → d.mant ≠ 0) := by
  unfold amountPart at h
  split at h
  · cases h
  · split at h
    · rename_i d' hp
      obtain ⟨h1, h2, h3⟩ := decimals_and_length_respected a ccy d' hp
      split at h
      · cases h
      · rename_i hz
        cases h
        refine ⟨amount_is_plain_decimal a _ h3, h2, h1, ?_⟩
        intro hpos
        subst hpos
        simpa using hz
    · cases h

/-- 32B, 33B (positive), 71F, 71G: currency then amount, nothing else. -/
theorem ccyAmt_accepted (pos : Bool) (s : Text) (v : CcyAmt) (h : CcyAmt.parse pos s = .ok v) :
    parseCurrencyNonCommodity (s.take 3) = .ok v.ccy ∧
    PlainDecimal (s.drop 3) ∧ sigLen (s.drop 3) ≤ 15 ∧ sigDecimals (s.drop 3) ≤ currencyDecimals v.ccy ∧
    (pos = true → v.amt.mant ≠ 0) := by
  unfold CcyAmt.parse at h
  split at h; · cases h
  split at h; · cases h
  split at h
  · rename_i ccy hc
    split at h
    · rename_i d hd
      cases h
      exact ⟨hc, amountPart_spec _ _ _ _ hd⟩
    · cases h
    · cases h
  · cases h
  · cases h

/-- 32A, 32C, 32D: a valid date, a currency, a positive amount within the currency's precision. -/
theorem dateCcyAmt_accepted (s : Text) (v : DateCcyAmt) (h : DateCcyAmt.parse s = .ok v) :
    parseDateYYMMDD (s.take 6) = some v.date ∧ parseCurrencyNonCommodity ((s.drop 6).take 3) = .ok v.ccy ∧
    PlainDecimal (s.drop 9) ∧ sigLen (s.drop 9) ≤ 15 ∧ sigDecimals (s.drop 9) ≤ currencyDecimals v.ccy ∧ v.amt.mant ≠ 0 := by
  unfold DateCcyAmt.parse at h
  split at h; · cases h
  split at h; · cases h
  split at h
  · cases h
  · rename_i d hd
    split at h
    · rename_i ccy hc
      split at h
      · rename_i a ha
        cases h
        obtain ⟨h1, h2, h3, h4⟩ := amountPart_spec _ _ _ _ ha
        exact ⟨hd, hc, h1, h2, h3, h4 rfl⟩
      · cases h
      · cases h
    · cases h
    · cases h

/-- the balances 60F, 60M, 62F, 62M, 64, 65 -/
theorem balance_accepted (s : Text) (v : Balance) (h : Balance.parse s = .ok v) :
    (v.dc = ['D'] ∨ v.dc = ['C']) ∧ s.take 1 = v.dc ∧ parseDateYYMMDD ((s.drop 1).take 6) = some v.date ∧
    parseCurrency ((s.drop 7).take 3) = .ok v.ccy ∧ sigLen (s.drop 10) ≤ 15 ∧ sigDecimals (s.drop 10) ≤ currencyDecimals v.ccy ∧
    PlainDecimal (s.drop 10) := by
  unfold Balance.parse at h
  split at h; · cases h
  split at h; · cases h
  simp only at h
  split at h; · cases h
  rename_i hdc
  split at h
  · cases h
  · rename_i d hd
    split at h
    · rename_i ccy hc
      split at h
      · rename_i a ha
        cases h
        obtain ⟨h1, h2, h3⟩ := decimals_and_length_respected _ _ _ ha
        refine ⟨?_, rfl, hd, hc, h2, h1, amount_is_plain_decimal _ _ h3⟩
        simp only [Bool.and_eq_true, bne_iff_ne, ne_eq, not_and, Decidable.not_not] at hdc
        by_cases hD : s.take 1 = ['D']
        · exact Or.inl hD
        · exact Or.inr (hdc hD)
      · cases h
    · cases h
    · cases h

/-- Non-vacuity -/
example : (CcyAmt.parse true "USD1000,5".toList).isOk = true := by decide
example : (CcyAmt.parse true "JPY1000,5".toList).isOk = false := by decide
example : (Balance.parse "C240315KWD1000,123".toList).isOk = true := by decide

end SwiftMT.Props.C06
