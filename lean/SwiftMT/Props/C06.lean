import SwiftMT.Lemmas.Amount
import SwiftMT.Spec.Iso4217
import SwiftMT.Fields.Simple
import SwiftMT.Lemmas.Prim
import SwiftMT.Lemmas.RoundTrip
/-
C06 — monetary amounts and rates are accepted only as decimals and preserved exactly.  Property theorems only.
Values are exact decimals; the f64 the library stores in between is outside the model (assumption: decimal → f64 →
decimal is the identity up to 15 significant digits; beyond that the `f64-precision` finding class applies).
-/
namespace SwiftMT.Props.C06
open SwiftMT

/-- digits, then optionally one separator followed by digits; at least one integer digit -/
def PlainDecimal (t : Text) : Prop :=
  ∃ ip : Text, ip ≠ [] ∧ ip.all isDigitC = true ∧
    (t = ip ∨ ∃ c fr, isSep c = true ∧ fr.all isDigitC = true ∧ t = ip ++ c :: fr)

/-- Every accepted amount or rate is a plain decimal — whatever the field. -/
theorem amount_is_plain_decimal (t : Text) (d : Dec) (h : parseAmount t = some d) : PlainDecimal t := by
  unfold parseAmount at h
  cases hs : splitAmount t with
  | none => simp [hs] at h
  | some p =>
    obtain ⟨ip, fr⟩ := p
    unfold splitAmount at hs
    simp only at hs
    have hall : (t.takeWhile isDigitC).all isDigitC = true := List.all_takeWhile
    have hsplit := (List.takeWhile_append_dropWhile (p := isDigitC) (l := t)).symm
    split at hs
    · cases hs
    · rename_i hne
      cases hd : t.dropWhile isDigitC with
      | nil =>
        rw [hd] at hs hsplit
        simp only [Option.some.injEq, Prod.mk.injEq] at hs
        refine ⟨t.takeWhile isDigitC, ?_, hall, Or.inl (by simpa using hsplit)⟩
        intro h0; simp [h0] at hne
      | cons c fr' =>
        rw [hd] at hs hsplit
        simp only at hs
        split at hs
        · rename_i hc
          simp only [Bool.and_eq_true] at hc
          refine ⟨t.takeWhile isDigitC, ?_, hall, Or.inr ⟨c, fr', hc.1, hc.2, hsplit⟩⟩
          intro h0; simp [h0] at hne
        · cases hs

/-- hence no sign, exponent, letter or blank can occur in an accepted amount, and at most one separator. -/
theorem accepted_chars (t : Text) (d : Dec) (h : parseAmount t = some d) :
    (∀ c ∈ t, isDigitC c = true ∨ isSep c = true) ∧ (t.filter isSep).length ≤ 1 := by
  obtain ⟨ip, _, hip, h1 | ⟨c, fr, hc, hfr, h2⟩⟩ := amount_is_plain_decimal t d h
  · rw [h1]
    refine ⟨fun c hc => Or.inl (List.all_eq_true.mp hip c hc), ?_⟩
    have : List.filter isSep ip = [] := by
      rw [List.filter_eq_nil_iff]
      intro c hc hs
      have hd := List.all_eq_true.mp hip c hc
      revert hd hs
      simp only [isDigitC, isSep, digitVal]
      intro hs hd
      rcases (Bool.or_eq_true _ _).mp hs with h' | h' <;> (simp at h'; subst h'; simp at hd)
    simp [this]
  · rw [h2]
    have nosep : ∀ l : Text, l.all isDigitC = true → List.filter isSep l = [] := by
      intro l hl
      rw [List.filter_eq_nil_iff]
      intro c hc hs
      have hd := List.all_eq_true.mp hl c hc
      revert hd hs
      simp only [isDigitC, isSep, digitVal]
      intro hs hd
      rcases (Bool.or_eq_true _ _).mp hs with h' | h' <;> (simp at h'; subst h'; simp at hd)
    refine ⟨?_, ?_⟩
    · intro x hx
      rcases List.mem_append.mp hx with hx | hx
      · exact Or.inl (List.all_eq_true.mp hip x hx)
      · rcases List.mem_cons.mp hx with rfl | hx
        · exact Or.inr hc
        · exact Or.inl (List.all_eq_true.mp hfr x hx)
    · simp [List.filter_append, List.filter_cons, nosep ip hip, nosep fr hfr, hc]

theorem max_len_respected (t : Text) (n : Nat) (d : Dec) (h : parseAmountMaxLen t n = some d) : sigLen t ≤ n := by
  unfold parseAmountMaxLen at h
  cases hp : parseAmount t with
  | none => simp [hp] at h
  | some d' =>
    simp only [hp] at h
    split at h
    · assumption
    · cases h

/-- Where the field carries a currency: no more (significant) decimals than the currency allows, and at most the
15 characters of format 15d. -/
theorem decimals_and_length_respected (t ccy : Text) (d : Dec) (h : parseAmountWithCurrency t ccy = some d) :
    sigDecimals t ≤ currencyDecimals ccy ∧ sigLen t ≤ 15 ∧ parseAmount t = some d := by
  unfold parseAmountWithCurrency at h
  cases hml : parseAmountMaxLen t 15 with
  | none => simp [hml] at h
  | some d' =>
    simp only [hml] at h
    split at h
    · rename_i hd
      injection h with h
      subst h
      refine ⟨hd, max_len_respected t 15 d' hml, ?_⟩
      unfold parseAmountMaxLen at hml
      cases hp : parseAmount t with
      | none => simp [hp] at hml
      | some d'' =>
        simp only [hp] at hml
        split at hml
        · cases hml; rfl
        · cases hml
    · cases h

/-- [instances] the library's precision table (regenerated, T5) agrees with ISO 4217 minor units on every listed code. -/
theorem currency_table_is_iso : ∀ c ∈ Spec.isoCodes, currencyDecimals c = Spec.minorUnits c := by decide +kernel

theorem translated : Generated.Tables.untranslated = [] := by decide

/-- Value preserved in MT, for every precision p (0, 2, 3, 4, …) and every magnitude: a value with at most p decimals,
written with precision p, is read back as the same number. -/
theorem format_then_parse_same_value (d : Dec) (p : Nat) (hs : d.scale ≤ p) :
    ∃ d', parseAmount (formatAmount d p) = some d' ∧ d'.eqv d := by
  unfold formatAmount
  simp only
  generalize hm : d.mant * 10 ^ (p - d.scale) = m
  have hmp : m * 10 ^ d.scale = d.mant * 10 ^ p := by
    rw [← hm, Nat.mul_assoc, ← Nat.pow_add, Nat.sub_add_cancel hs]
  by_cases hp : p = 0
  · subst hp
    have hs0 : d.scale = 0 := by omega
    simp only [beq_self_eq_true, if_true, Nat.pow_zero, Nat.div_one]
    have hall := natDigits_all m
    have htw := takeWhile_digits_all _ hall
    refine ⟨⟨m, 0⟩, ?_, ?_⟩
    · unfold parseAmount splitAmount
      simp only [htw.1, htw.2]
      have hne : (natDigits m).isEmpty = false := by
        cases h : natDigits m with
        | nil => exact absurd h (natDigits_ne_nil m)
        | cons _ _ => rfl
      simp [hne, digitsVal_natDigits]
    · simp only [Dec.eqv, hs0, Nat.pow_zero, Nat.mul_one]
      rw [hs0] at hmp; simpa using hmp
  · have hp0 : (p == 0) = false := by simp [hp]
    simp only [hp0, Bool.false_eq_true, if_false]
    have hpp : 0 < p := Nat.pos_of_ne_zero hp
    have hip := natDigits_all (m / 10 ^ p)
    have hfrlen : (natDigits (m % 10 ^ p)).length ≤ p :=
      natDigits_length_le p _ hpp (Nat.mod_lt _ (Nat.pow_pos (by omega)))
    have hfr := padLeft_all _ p (natDigits_all (m % 10 ^ p))
    have hlen := padLeft_length _ p hfrlen
    have hcomma : isDigitC ',' = false := by decide
    have htw := takeWhile_digits_sep (natDigits (m / 10 ^ p)) (padLeft (natDigits (m % 10 ^ p)) p) ',' hip hcomma
    refine ⟨⟨m, p⟩, ?_, ?_⟩
    · unfold parseAmount splitAmount
      rw [List.append_assoc, List.singleton_append]
      simp only [htw.1, htw.2]
      have hne : (natDigits (m / 10 ^ p)).isEmpty = false := by
        cases h : natDigits (m / 10 ^ p) with
        | nil => exact absurd h (natDigits_ne_nil _)
        | cons _ _ => rfl
      have hsep : isSep ',' = true := by decide
      simp only [hne, Bool.false_eq_true, if_false, hsep, hfr, Bool.and_self, if_true, hlen]
      congr 1
      congr 1
      rw [digitsVal_fold, digitsVal_acc, hlen, digitsVal_natDigits]
      unfold padLeft
      rw [digitsVal_zeros _ 0, digitsVal_natDigits]
      exact Nat.div_add_mod' m (10 ^ p)
    · simp only [Dec.eqv]
      exact hmp

/-- Non-vacuity and the float spellings (tests on literals, labelled as such): -/
example : parseAmount "NaN".toList = none ∧ parseAmount "inf".toList = none ∧ parseAmount "1e3".toList = none ∧
    parseAmount "+1".toList = none ∧ parseAmount "-0".toList = none ∧ parseAmount ",5".toList = none ∧
    parseAmount "1,5,0".toList = none ∧ parseAmount "".toList = none ∧
    parseAmount "1234567,89".toList = some ⟨123456789, 2⟩ ∧ parseAmount "1000,".toList = some ⟨1000, 0⟩ := by decide

example : parseAmountWithCurrency "100,55".toList "JPY".toList = none ∧
    parseAmountWithCurrency "0,213".toList "KWD".toList = some ⟨213, 3⟩ ∧
    parseAmountWithCurrency "2088054,9".toList "USD".toList = some ⟨20880549, 1⟩ := by decide

example : formatAmount ⟨213, 3⟩ 3 = "0,213".toList ∧ formatAmount ⟨15, 1⟩ 2 = "1,50".toList := by
  constructor <;> (simp [formatAmount, natDigits, padLeft]; decide)

/-! ### The amount-bearing field types (models in Fields/Simple.lean, tied by the `fields` stream)

What an accepted content of 32B / 33B / 71F / 71G, 32A / 32C / 32D, 34F, the balances 60F–65 and 19 looks like: the amount
part is a plain decimal within the 15d (17d) length and within the currency's precision. -/
open SwiftMT.Fields

theorem amountPart_spec (a ccy : Text) (pos : Bool) (d : Dec) (h : amountPart a ccy pos = .ok d) :
    PlainDecimal a ∧ sigLen a ≤ 15 ∧ sigDecimals a ≤ currencyDecimals ccy ∧ (pos = true → d.mant ≠ 0) := by
  unfold amountPart at h
  split at h
  · cases h
  · split at h
    · rename_i d' hp
      obtain ⟨h1, h2, h3⟩ := decimals_and_length_respected a ccy d' hp
      split at h
      · cases h
      · rename_i hz
        cases h
        refine ⟨amount_is_plain_decimal a _ h3, h2, h1, ?_⟩
        intro hpos
        subst hpos
        simpa using hz
    · cases h

/-- 32B, 33B (positive), 71F, 71G: currency then amount, nothing else. -/
theorem ccyAmt_accepted (pos : Bool) (s : Text) (v : CcyAmt) (h : CcyAmt.parse pos s = .ok v) :
    parseCurrencyNonCommodity (s.take 3) = .ok v.ccy ∧
    PlainDecimal (s.drop 3) ∧ sigLen (s.drop 3) ≤ 15 ∧ sigDecimals (s.drop 3) ≤ currencyDecimals v.ccy ∧
    (pos = true → v.amt.mant ≠ 0) := by
  unfold CcyAmt.parse at h
  split at h; · cases h
  split at h; · cases h
  split at h
  · rename_i ccy hc
    split at h
    · rename_i d hd
      cases h
      exact ⟨hc, amountPart_spec _ _ _ _ hd⟩
    · cases h
    · cases h
  · cases h
  · cases h

/-- 32A, 32C, 32D: a valid date, a currency, a positive amount within the currency's precision. -/
theorem dateCcyAmt_accepted (s : Text) (v : DateCcyAmt) (h : DateCcyAmt.parse s = .ok v) :
    parseDateYYMMDD (s.take 6) = some v.date ∧ parseCurrencyNonCommodity ((s.drop 6).take 3) = .ok v.ccy ∧
    PlainDecimal (s.drop 9) ∧ sigLen (s.drop 9) ≤ 15 ∧ sigDecimals (s.drop 9) ≤ currencyDecimals v.ccy ∧ v.amt.mant ≠ 0 := by
  unfold DateCcyAmt.parse at h
  split at h; · cases h
  split at h; · cases h
  split at h
  · cases h
  · rename_i d hd
    split at h
    · rename_i ccy hc
      split at h
      · rename_i a ha
        cases h
        obtain ⟨h1, h2, h3, h4⟩ := amountPart_spec _ _ _ _ ha
        exact ⟨hd, hc, h1, h2, h3, h4 rfl⟩
      · cases h
      · cases h
    · cases h
    · cases h

/-- the balances 60F, 60M, 62F, 62M, 64, 65 -/
theorem balance_accepted (s : Text) (v : Balance) (h : Balance.parse s = .ok v) :
    (v.dc = ['D'] ∨ v.dc = ['C']) ∧ s.take 1 = v.dc ∧ parseDateYYMMDD ((s.drop 1).take 6) = some v.date ∧
    parseCurrency ((s.drop 7).take 3) = .ok v.ccy ∧ sigLen (s.drop 10) ≤ 15 ∧ sigDecimals (s.drop 10) ≤ currencyDecimals v.ccy ∧
    PlainDecimal (s.drop 10) := by
  unfold Balance.parse at h
  split at h; · cases h
  split at h; · cases h
  simp only at h
  split at h; · cases h
  rename_i hdc
  split at h
  · cases h
  · rename_i d hd
    split at h
    · rename_i ccy hc
      split at h
      · rename_i a ha
        cases h
        obtain ⟨h1, h2, h3⟩ := decimals_and_length_respected _ _ _ ha
        refine ⟨?_, rfl, hd, hc, h2, h1, amount_is_plain_decimal _ _ h3⟩
        simp only [Bool.and_eq_true, bne_iff_ne, ne_eq, not_and, Decidable.not_not] at hdc
        by_cases hD : s.take 1 = ['D']
        · exact Or.inl hD
        · exact Or.inr (hdc hD)
      · cases h
    · cases h
    · cases h

/-- Non-vacuity -/
example : (CcyAmt.parse true "USD1000,5".toList).isOk = true := by decide
example : (CcyAmt.parse true "JPY1000,5".toList).isOk = false := by decide
example : (Balance.parse "C240315KWD1000,123".toList).isOk = true := by decide

/-! ### The written amount denotes the number that was read (field level)

`normalize` only drops trailing fraction zeros (the value stays the same), it leaves no more decimals than the text had
significant ones, so the serialiser's precision `p` of the currency is enough and `format_then_parse_same_value` applies:
what an amount-bearing field writes back is read as exactly the number that was accepted. -/

theorem normAux_eqv (m s : Nat) : (normAux m s).eqv ⟨m, s⟩ := by
  induction s generalizing m with
  | zero => simp [normAux, Dec.eqv]
  | succ k ih =>
    unfold normAux
    split
    · rename_i h
      have hm : m % 10 = 0 := by simpa using h
      have hk := ih (m / 10)
      simp only [Dec.eqv] at hk ⊢
      have hmd : m / 10 * 10 = m := by omega
      calc (normAux (m / 10) k).mant * 10 ^ (k + 1)
          = (normAux (m / 10) k).mant * 10 ^ k * 10 := by rw [Nat.pow_succ, Nat.mul_assoc]
        _ = m / 10 * 10 ^ (normAux (m / 10) k).scale * 10 := by rw [hk]
        _ = m / 10 * 10 * 10 ^ (normAux (m / 10) k).scale := by
            rw [Nat.mul_assoc, Nat.mul_comm (10 ^ _) 10, ← Nat.mul_assoc]
        _ = m * 10 ^ (normAux (m / 10) k).scale := by rw [hmd]
    · simp [Dec.eqv]

theorem normalize_eqv (d : Dec) : d.normalize.eqv d := normAux_eqv d.mant d.scale

theorem normAux_scale_le (m s : Nat) : (normAux m s).scale ≤ s := by
  induction s generalizing m with
  | zero => simp [normAux]
  | succ k ih =>
    unfold normAux
    split
    · exact Nat.le_succ_of_le (ih _)
    · exact Nat.le_refl _

theorem digitVal_zero : digitVal '0' = some 0 := by decide

/-- normalising strips at least the trailing `0` characters of the fraction that was written -/
theorem normalize_scale_le_trimmed (ip fr : Text) :
    (normAux (digitsVal (ip ++ fr) 0) fr.length).scale ≤ (trimZeros fr).length := by
  generalize hn : fr.length = n
  induction n generalizing fr with
  | zero =>
    have : fr = [] := List.eq_nil_of_length_eq_zero hn
    subst this
    simp [normAux, trimZeros, trimEndChar]
  | succ k ih =>
    rcases List.eq_nil_or_concat fr with he | ⟨fr', c, he⟩
    · subst he; simp at hn
    · rw [List.concat_eq_append] at he
      subst he
      have hk : fr'.length = k := by simpa using hn
      by_cases hc : c = '0'
      · subst hc
        have hv : digitsVal (ip ++ (fr' ++ ['0'])) 0 = 10 * digitsVal (ip ++ fr') 0 := by
          rw [← List.append_assoc, digitsVal_append_single, digitVal_zero]; simp
        rw [hv]
        unfold normAux
        have h0 : (10 * digitsVal (ip ++ fr') 0 % 10 == 0) = true := by simp
        simp only [h0, if_true]
        have hd : 10 * digitsVal (ip ++ fr') 0 / 10 = digitsVal (ip ++ fr') 0 := by omega
        rw [hd]
        have ht : trimZeros (fr' ++ ['0']) = trimZeros fr' := by
          unfold trimZeros; exact trimEndChar_snoc '0' fr'
        rw [ht]
        exact ih fr' hk
      · have ht : trimZeros (fr' ++ [c]) = fr' ++ [c] := by
          unfold trimZeros
          apply trimEndChar_noop
          simp [hc]
        rw [ht]
        have := normAux_scale_le (digitsVal (ip ++ (fr' ++ [c])) 0) (k + 1)
        simpa [hk] using this

theorem sigDecimals_ge_normalize (a : Text) (d : Dec) (h : parseAmount a = some d) : d.normalize.scale ≤ sigDecimals a := by
  unfold parseAmount at h
  unfold sigDecimals
  cases hs : splitAmount a with
  | none => simp [hs] at h
  | some p =>
    obtain ⟨ip, ofr⟩ := p
    cases ofr with
    | none =>
      simp only [hs] at h
      cases h
      simp [Dec.normalize, normAux]
    | some fr =>
      simp only [hs] at h
      cases h
      exact normalize_scale_le_trimmed ip fr

/-- **Value preserved by the amount-bearing fields**: whatever amount text a currency-carrying field accepted, the text
its serialiser writes for it (the normalised value at the currency's precision) is read as exactly the same number. -/
theorem written_amount_is_the_same_number (a ccy : Text) (d : Dec) (h : parseAmountWithCurrency a ccy = some d) :
    ∃ d', parseAmount (formatAmount d.normalize (currencyDecimals ccy)) = some d' ∧ d'.eqv d := by
  obtain ⟨h1, _, h3⟩ := decimals_and_length_respected a ccy d h
  have hs : d.normalize.scale ≤ currencyDecimals ccy := Nat.le_trans (sigDecimals_ge_normalize a d h3) h1
  obtain ⟨d', hp, he⟩ := format_then_parse_same_value d.normalize (currencyDecimals ccy) hs
  refine ⟨d', hp, ?_⟩
  -- eqv is transitive through the normalised value
  have hn := normalize_eqv d
  simp only [Dec.eqv] at he hn ⊢
  -- d'.m * 10^n.s = n.m * 10^d'.s ;  n.m * 10^d.s = d.m * 10^n.s   ⊢  d'.m * 10^d.s = d.m * 10^d'.s
  have hpos : 0 < 10 ^ d.normalize.scale := Nat.pow_pos (by omega)
  apply Nat.eq_of_mul_eq_mul_right hpos
  calc d'.mant * 10 ^ d.scale * 10 ^ d.normalize.scale
      = (d'.mant * 10 ^ d.normalize.scale) * 10 ^ d.scale := by simp [Nat.mul_assoc, Nat.mul_comm, Nat.mul_left_comm]
    _ = (d.normalize.mant * 10 ^ d'.scale) * 10 ^ d.scale := by rw [he]
    _ = (d.normalize.mant * 10 ^ d.scale) * 10 ^ d'.scale := by simp [Nat.mul_assoc, Nat.mul_comm, Nat.mul_left_comm]
    _ = (d.mant * 10 ^ d.normalize.scale) * 10 ^ d'.scale := by rw [hn]
    _ = d.mant * 10 ^ d'.scale * 10 ^ d.normalize.scale := by simp [Nat.mul_assoc, Nat.mul_comm, Nat.mul_left_comm]

theorem parseCurrency_value (t c : Text) (h : parseCurrency t = .ok c) : c = t ∧ t.length = 3 := by
  unfold parseCurrency at h
  split at h; · cases h
  rename_i hb
  split at h; · cases h
  rename_i hup
  cases h
  refine ⟨rfl, ?_⟩
  have hu : t.all Char.isUpper = true := by simpa using hup
  have hasc : isAsciiT t = true := by
    unfold isAsciiT; rw [List.all_eq_true]; intro x hx
    exact alnum_ascii x (by simp [Char.isAlphanum, Char.isAlpha, (List.all_eq_true.mp hu) x hx])
  have hbl : blen t = 3 := by simpa using hb
  rw [blen_ascii _ hasc] at hbl
  exact hbl

theorem pcnc_value (t c : Text) (h : parseCurrencyNonCommodity t = .ok c) : c = t ∧ t.length = 3 := by
  unfold parseCurrencyNonCommodity at h
  cases hp : parseCurrency t with
  | ok c0 =>
    simp only [hp] at h
    split at h
    · cases h
    · cases h; exact parseCurrency_value t _ hp
  | err => simp [hp] at h
  | panic => simp [hp] at h

/-- the same for the field models: 32B / 33B / 71F / 71G -/
theorem ccyAmt_value_preserved (pos : Bool) (s : Text) (v : CcyAmt) (h : CcyAmt.parse pos s = .ok v) :
    ∃ d', parseAmount ((CcyAmt.ser v).drop 3) = some d' ∧ d'.eqv v.amt := by
  unfold CcyAmt.parse at h
  split at h; · cases h
  split at h; · cases h
  split at h
  · rename_i ccy hcc
    split at h
    · rename_i d hd
      cases h
      obtain ⟨_, hlen⟩ := pcnc_value _ _ hcc
      have hcl : ccy.length = 3 := by rw [(pcnc_value _ _ hcc).1]; exact hlen
      unfold amountPart at hd
      split at hd; · cases hd
      split at hd
      · rename_i d0 hp
        split at hd
        · cases hd
        · cases hd
          have hdrop : (CcyAmt.ser ⟨ccy, d⟩).drop 3 = formatAmount d.normalize (currencyDecimals ccy) := by
            unfold CcyAmt.ser
            rw [← hcl]; simp
          rw [hdrop]
          exact written_amount_is_the_same_number _ _ _ hp
      · cases hd
    · cases h
    · cases h
  · cases h
  · cases h

/-- 32A / 32C / 32D: the amount part that is written denotes the amount that was read -/
theorem dateCcyAmt_value_preserved (s : Text) (v : DateCcyAmt) (h : DateCcyAmt.parse s = .ok v) :
    ∃ d', parseAmount (formatAmount v.amt.normalize (currencyDecimals v.ccy)) = some d' ∧ d'.eqv v.amt := by
  unfold DateCcyAmt.parse at h
  split at h; · cases h
  split at h; · cases h
  split at h
  · cases h
  · split at h
    · rename_i ccy hc
      split at h
      · rename_i a ha
        cases h
        unfold amountPart at ha
        split at ha; · cases ha
        split at ha
        · rename_i d0 hp
          split at ha
          · cases ha
          · cases ha; exact written_amount_is_the_same_number _ _ _ hp
        · cases ha
      · cases h
      · cases h
    · cases h
    · cases h

/-- the balances 60F, 60M, 62F, 62M, 64, 65 -/
theorem balance_value_preserved (s : Text) (v : Balance) (h : Balance.parse s = .ok v) :
    ∃ d', parseAmount (formatAmount v.amt.normalize (currencyDecimals v.ccy)) = some d' ∧ d'.eqv v.amt := by
  unfold Balance.parse at h
  split at h; · cases h
  split at h; · cases h
  simp only at h
  split at h; · cases h
  split at h
  · cases h
  · split at h
    · rename_i ccy hc
      split at h
      · rename_i a ha
        cases h
        exact written_amount_is_the_same_number _ _ _ ha
      · cases h
    · cases h
    · cases h

theorem amountPart_some (a ccy : Text) (pos : Bool) (d : Dec) (h : amountPart a ccy pos = .ok d) :
    parseAmountWithCurrency a ccy = some d := by
  unfold amountPart at h
  split at h; · cases h
  split at h
  · rename_i d0 hp
    split at h
    · cases h
    · cases h; exact hp
  · cases h

/-- 34F -/
theorem f34F_value_preserved (s : Text) (v : F34F) (h : F34F.parse s = .ok v) :
    ∃ d', parseAmount (formatAmount v.amt.normalize (currencyDecimals v.ccy)) = some d' ∧ d'.eqv v.amt := by
  unfold F34F.parse at h
  split at h; · cases h
  split at h; · cases h
  split at h
  · rename_i ccy hc
    simp only at h
    split at h
    · rename_i d hd
      cases h
      exact written_amount_is_the_same_number _ _ _ (amountPart_some _ _ _ _ hd)
    · cases h
    · cases h
  · cases h
  · cases h

/-! ### the shortest form is a normal form; "same number" is an equivalence -/

/-- a normal form stays as it is -/
theorem normAux_fixed (m s : Nat) (h : s = 0 ∨ m % 10 ≠ 0) : normAux m s = ⟨m, s⟩ := by
  cases s with
  | zero => rfl
  | succ k =>
    unfold normAux
    rcases h with h | h
    · cases h
    · simp [h]

/-- the normal form has no trailing zero to drop -/
theorem normAux_normal (m s : Nat) : (normAux m s).scale = 0 ∨ (normAux m s).mant % 10 ≠ 0 := by
  induction s generalizing m with
  | zero => left; rfl
  | succ k ih =>
    unfold normAux
    by_cases h : m % 10 = 0
    · have hb : (m % 10 == 0) = true := by simp [h]
      simp only [hb, if_true]; exact ih (m / 10)
    · have hb : (m % 10 == 0) = false := by simp [h]
      simp only [hb, Bool.false_eq_true, if_false]; right; exact h

/-- **normalising is idempotent**: writing a value in its shortest form and reading that gives the same shortest form -/
theorem normalize_idem (d : Dec) : d.normalize.normalize = d.normalize := by
  unfold Dec.normalize
  exact normAux_fixed _ _ (normAux_normal d.mant d.scale)

/-- the equivalence "same number" is reflexive, symmetric and transitive (so `normalize_eqv` chains) -/
theorem eqv_refl (a : Dec) : a.eqv a := rfl
theorem eqv_symm (a b : Dec) (h : a.eqv b) : b.eqv a := by unfold Dec.eqv at *; exact h.symm
theorem eqv_trans (a b c : Dec) (h1 : a.eqv b) (h2 : b.eqv c) : a.eqv c := by
  unfold Dec.eqv at *
  have hb : 0 < 10 ^ b.scale := Nat.pow_pos (by decide)
  apply Nat.eq_of_mul_eq_mul_right hb
  calc a.mant * 10 ^ c.scale * 10 ^ b.scale = (a.mant * 10 ^ b.scale) * 10 ^ c.scale := Nat.mul_right_comm _ _ _
    _ = (b.mant * 10 ^ a.scale) * 10 ^ c.scale := by rw [h1]
    _ = (b.mant * 10 ^ c.scale) * 10 ^ a.scale := Nat.mul_right_comm _ _ _
    _ = (c.mant * 10 ^ b.scale) * 10 ^ a.scale := by rw [h2]
    _ = c.mant * 10 ^ a.scale * 10 ^ b.scale := Nat.mul_right_comm _ _ _
end SwiftMT.Props.C06
