import SwiftMT.Rules
/-
C04 — network validation reports exactly the documented rule violations.

For each modelled type T: (1) `stages_T`: the regenerated stage list of `validate_network_rules` names exactly the
modelled rule functions, so `validate_T v` is the concatenation of the rule results in source order; (2) per rule a
theorem `code is reported ↔ the documented condition is violated`, for EVERY abstract message `v : V_T` (any number of
sequence occurrences, any currencies / codes / amounts); (3) `valid_iff_T`: the error list is empty iff no rule is
violated.  The documented conditions are stated outright in the theorem statements (from the rule's doc comment / SR2025).
-/
namespace SwiftMT.Props.C04
open SwiftMT SwiftMT.Rules

/-- every stage of a modelled type's regenerated `validate_network_rules` has a rule model of the same name and kind,
and no model is left without a stage (a rule added to or dropped from the Rust breaks this) -/
theorem stages_modelled : ∀ p ∈ modelled, stagesOf p.1 = p.2 := by decide

/-! ### MT110 -/
theorem validate110_eq (v : V110) : rs110.validate v = (r110_c1 v).toList ++ (r110_c2 v).toList := by
  simp only [RuleSet.validate, rs110, List.map, runStages]
  cases h1 : r110_c1 v <;> cases h2 : r110_c2 v <;> simp_all

/-- T10: more than ten cheque sequences -/
theorem r110_c1_iff (v : V110) : r110_c1 v = some "T10" ↔ v.cheques.length > 10 := by
  unfold r110_c1; split <;> simp_all
/-- C02: the currency of field 32a differs between two cheques -/
theorem r110_c2_iff (v : V110) : r110_c2 v = some "C02" ↔ ∃ a ∈ v.cheques, ∃ b ∈ v.cheques, a ≠ b := by
  unfold r110_c2
  cases hc : v.cheques with
  | nil => simp
  | cons first rest =>
    simp only
    constructor
    · intro h
      split at h
      · rename_i hany
        obtain ⟨x, hx, hne⟩ := List.any_eq_true.mp hany
        exact ⟨x, by simp [hx], first, by simp, by simpa using hne⟩
      · cases h
    · intro ⟨a, ha, b, hb, hab⟩
      have : rest.any (· != first) = true := by
        rw [List.any_eq_true]
        by_cases h1 : a = first
        · subst h1
          have hb' : b ∈ rest := by
            rcases List.mem_cons.mp hb with rfl | h
            · exact absurd rfl hab
            · exact h
          exact ⟨b, hb', by simpa using fun h => hab h.symm⟩
        · have ha' : a ∈ rest := by
            rcases List.mem_cons.mp ha with rfl | h
            · exact absurd rfl h1
            · exact h
          exact ⟨a, ha', by simpa using h1⟩
      simp [this]
theorem valid_iff_110 (v : V110) :
    rs110.validate v = [] ↔ v.cheques.length ≤ 10 ∧ ∀ a ∈ v.cheques, ∀ b ∈ v.cheques, a = b := by
  rw [validate110_eq]
  have h1 := r110_c1_iff v
  have h2 := r110_c2_iff v
  constructor
  · intro h
    have e1 : r110_c1 v = none := by cases hh : r110_c1 v <;> simp_all
    have e2 : r110_c2 v = none := by cases hh : r110_c2 v <;> simp_all
    refine ⟨?_, ?_⟩
    · by_cases hl : v.cheques.length > 10
      · rw [h1.mpr hl] at e1; cases e1
      · omega
    · intro a ha b hb
      by_cases hab : a = b
      · exact hab
      · rw [h2.mpr ⟨a, ha, b, hb, hab⟩] at e2; cases e2
  · intro ⟨hl, hall⟩
    have e1 : r110_c1 v = none := by unfold r110_c1; split <;> simp_all; omega
    have e2 : r110_c2 v = none := by
      unfold r110_c2
      cases hc : v.cheques with
      | nil => rfl
      | cons first rest =>
        have : rest.any (· != first) = false := by
          rw [Bool.eq_false_iff]; intro h
          obtain ⟨x, hx, hne⟩ := List.any_eq_true.mp h
          have := hall x (by simp [hc, hx]) first (by simp [hc])
          simp [this] at hne
        simp [this]
    simp [e1, e2]

/-! ### MT202, MT205, MT910 (presence rules) -/
theorem validate202_eq (v : V202) : rs202.validate v = (r202_c1 v).toList ++ (r202_c2 v).toList := by
  simp only [RuleSet.validate, rs202, List.map, runStages]
  cases h1 : r202_c1 v <;> cases h2 : r202_c2 v <;> simp_all
/-- C81: 56a present in sequence A without 57a -/
theorem r202_c1_iff (v : V202) : r202_c1 v = some "C81" ↔ (v.a56 = true ∧ v.a57 = false) := by
  unfold r202_c1; cases v.a56 <;> cases v.a57 <;> simp
/-- C68: 56a present in sequence B without 57a -/
theorem r202_c2_iff (v : V202) : r202_c2 v = some "C68" ↔ (v.b56 = true ∧ v.b57 = false) := by
  unfold r202_c2; cases v.b56 <;> cases v.b57 <;> simp
theorem valid_iff_202 (v : V202) :
    rs202.validate v = [] ↔ (v.a56 = true → v.a57 = true) ∧ (v.b56 = true → v.b57 = true) := by
  rw [validate202_eq]; unfold r202_c1 r202_c2
  cases v.a56 <;> cases v.a57 <;> cases v.b56 <;> cases v.b57 <;> simp

theorem validate205_eq (v : V205) : rs205.validate v = (r205_c1 v).toList := by
  simp only [RuleSet.validate, rs205, List.map, runStages]
  cases h1 : r205_c1 v <;> simp_all
theorem valid_iff_205 (v : V205) : rs205.validate v = [] ↔ (v.i56 = true → v.i57 = true) := by
  rw [validate205_eq]; unfold r205_c1; cases v.i56 <;> cases v.i57 <;> simp
theorem codes_205 (v : V205) : rs205.validate v = ["C81"] ↔ (v.i56 = true ∧ v.i57 = false) := by
  rw [validate205_eq]; unfold r205_c1; cases v.i56 <;> cases v.i57 <;> simp

theorem validate910_eq (v : V910) : rs910.validate v = (r910_c1 v).toList := by
  simp only [RuleSet.validate, rs910, List.map, runStages]
  cases h1 : r910_c1 v <;> simp_all
/-- C06: neither 50a nor 52a -/
theorem valid_iff_910 (v : V910) : rs910.validate v = [] ↔ (v.has50 = true ∨ v.has52 = true) := by
  rw [validate910_eq]; unfold r910_c1; cases v.has50 <;> cases v.has52 <;> simp
theorem codes_910 (v : V910) : rs910.validate v = ["C06"] ↔ (v.has50 = false ∧ v.has52 = false) := by
  rw [validate910_eq]; unfold r910_c1; cases v.has50 <;> cases v.has52 <;> simp

/-! ### MT210 -/
theorem validate210_eq (v : V210) :
    rs210.validate v = (r210_c1 v).toList ++ r210_c2 v ++ (r210_c3 v).toList := by
  simp only [RuleSet.validate, rs210, List.map, runStages]
  cases h1 : r210_c1 v <;> cases h3 : r210_c3 v <;> simp_all
/-- C06 is reported once per sequence in which 50a and 52a are both present or both absent -/
theorem r210_c2_eq (v : V210) :
    r210_c2 v = (v.txs.filter (fun t => t.has50 == t.has52)).map (fun _ => "C06") := by
  unfold r210_c2
  induction v.txs with
  | nil => simp
  | cons t ts ih =>
    simp only [List.flatMap_cons, List.filter_cons, ih]
    cases h5 : t.has50 <;> cases h2 : t.has52 <;> simp
/-- the documented cap of ten repetitions is what the regenerated constant says -/
theorem cap210 : numConst 210 "MAX_REPETITIVE_SEQUENCES" = 10 := by decide
theorem cap204 : numConst 204 "MAX_SEQUENCE_B_OCCURRENCES" = 10 := by decide
theorem r210_c1_iff (v : V210) : r210_c1 v = some "T10" ↔ v.txs.length > 10 := by
  unfold r210_c1; rw [cap210]; split <;> simp_all

/-! ### MT920 -/
theorem validate920_eq (v : V920) :
    rs920.validate v = r920_t88 v ++ r920_c1 v ++ r920_c2 v ++ r920_c3 v := by
  simp only [RuleSet.validate, rs920, List.map, runStages]
  simp
/-- T88 is reported exactly for the sequences whose field 12 is not 940, 941, 942 or 950 -/
theorem r920_t88_nil_iff (v : V920) : r920_t88 v = [] ↔ ∀ s ∈ v.seqs, s.type12 ∈ types920 := by
  unfold r920_t88
  induction v.seqs with
  | nil => simp
  | cons s ss ih =>
    simp only [List.flatMap_cons, List.append_eq_nil_iff, List.mem_cons, forall_eq_or_imp]
    rw [ih]
    by_cases h : types920.contains s.type12 = true
    · simp [h, List.contains_iff_mem.mp h]
    · have : s.type12 ∉ types920 := fun hm => h (List.contains_iff_mem.mpr hm)
      simp [h, this]
/-- C22: a sequence asks for MT942 without a floor limit (field 34F) -/
theorem r920_c1_nil_iff (v : V920) : r920_c1 v = [] ↔ ∀ s ∈ v.seqs, s.type12 = "942".toList → s.debit.isSome = true := by
  unfold r920_c1
  induction v.seqs with
  | nil => simp
  | cons s ss ih =>
    simp only [List.flatMap_cons, List.append_eq_nil_iff, List.mem_cons, forall_eq_or_imp]
    rw [ih]
    by_cases h : s.type12 = "942".toList <;> cases hd : s.debit <;> simp [h, hd]
/-- C40: the two floor limits of a sequence are in different currencies -/
theorem r920_c3_nil_iff (v : V920) :
    r920_c3 v = [] ↔ ∀ s ∈ v.seqs, ∀ d c, s.debit = some d → s.credit = some c → d.ccy = c.ccy := by
  unfold r920_c3
  induction v.seqs with
  | nil => simp
  | cons s ss ih =>
    simp only [List.flatMap_cons, List.append_eq_nil_iff, List.mem_cons, forall_eq_or_imp]
    rw [ih]
    cases hd : s.debit <;> cases hc : s.credit <;> simp

/-! ### MT941 / MT950 -/
theorem validate941_eq (v : V941) : rs941.validate v = r941_c1 v := by
  simp only [RuleSet.validate, rs941, List.map, runStages]
  simp
/-- C27 once per balance field whose currency does not start with the same two letters as 62F -/
theorem r941_count (v : V941) :
    (rs941.validate v).length = (v.others.filter (fun c => pre2 c != pre2 v.base)).length ∧
    (rs941.validate v = [] ↔ ∀ c ∈ v.others, pre2 c = pre2 v.base) := by
  rw [validate941_eq]; unfold r941_c1
  refine ⟨by simp, ?_⟩
  simp only [List.map_eq_nil_iff, List.filter_eq_nil_iff]
  constructor
  · intro h c hc; have := h c hc; simpa using this
  · intro h c hc; simp [h c hc]

theorem validate950_eq (v : V950) : rs950.validate v = r950_c1 v := by
  simp only [RuleSet.validate, rs950, List.map, runStages]
  simp
theorem valid_iff_950 (v : V950) :
    rs950.validate v = [] ↔ pre2 v.c62 = pre2 v.c60 ∧ ∀ c, v.c64 = some c → pre2 c = pre2 v.c60 := by
  rw [validate950_eq]; unfold r950_c1
  cases h : v.c64 with
  | none => by_cases h1 : pre2 v.c62 = pre2 v.c60 <;> simp [h1]
  | some c => by_cases h1 : pre2 v.c62 = pre2 v.c60 <;> by_cases h2 : pre2 c = pre2 v.c60 <;> simp [h1, h2]

/-! ### MT204 -/
theorem validate204_eq (v : V204) :
    rs204.validate v = (r204_c1 v).toList ++ (r204_c2 v).toList ++ (r204_c3 v).toList := by
  simp only [RuleSet.validate, rs204, List.map, runStages]
  cases h1 : r204_c1 v <;> cases h2 : r204_c2 v <;> cases h3 : r204_c3 v <;> simp_all
theorem r204_c3_iff (v : V204) : r204_c3 v = some "T10" ↔ v.txs.length > 10 := by
  unfold r204_c3; rw [cap204]; split <;> simp_all

/-! ### MT200 -/
theorem validate200_eq (v : V200) : rs200.validate v = r200_t80 v := by
  simp only [RuleSet.validate, rs200, List.map, runStages]
  simp
/-- T80 once per field-72 line whose leading /code/ is REJT or RETN -/
theorem r200_nil_iff (v : V200) : rs200.validate v = [] ↔ ∀ l ∈ v.lines72, ∀ c, code72 l = some c → c ∉ special72 := by
  rw [validate200_eq]; unfold r200_t80
  simp only [List.map_eq_nil_iff, List.filter_eq_nil_iff, List.mem_filterMap]
  constructor
  · intro h l hl c hc hm
    exact h c ⟨l, hl, hc⟩ (List.contains_iff_mem.mpr hm)
  · intro h c ⟨l, hl, hc⟩ hcon
    exact h l hl c hc (List.contains_iff_mem.mp hcon)

/-- the types without any network rule: their regenerated stage list is empty, so validation reports nothing -/
theorem ruleless_types : (Generated.Stages.table.filter (fun p => p.2.isEmpty)).map (·.1) = [111, 112, 190, 191, 199, 290, 291, 299, 900] := by
  decide
/-- the types whose rules are NOT modelled yet (covered by the oracle streams of C13 only) -/
theorem unmodelled_types :
    (Generated.Stages.table.filter (fun p => !p.2.isEmpty && !(modelled.any (·.1 == p.1)))).map (·.1) = [101, 104, 107] := by
  decide

/-- Non-vacuity: concrete abstract messages on which rules fire. -/
example : rs110.validate ⟨["USD".toList, "EUR".toList]⟩ = ["C02"] := by decide
example : rs210.validate ⟨[⟨true, true, "USD".toList⟩, ⟨false, false, "EUR".toList⟩]⟩ = ["C06", "C06", "C02"] := by decide
example : rs920.validate ⟨[⟨"942".toList, none, none⟩]⟩ = ["C22"] := by decide

end SwiftMT.Props.C04
