import SwiftMT.Rules
/-
C04 — network validation reports exactly the documented rule violations.

For each modelled type T: (1) `stages_T`: the regenerated stage list of `validate_network_rules` names exactly the
modelled rule functions, so `validate_T v` is the concatenation of the rule results in source order; (2) per rule a
theorem `code is reported ↔ the documented condition is violated`, for EVERY abstract message `v : V_T` (any number of
sequence occurrences, any currencies / codes / amounts); (3) `valid_iff_T`: the error list is empty iff no rule is
violated.  The documented conditions are stated outright in the theorem statements (from the rule's doc comment / SR2025).
-/
namespace SwiftMT.Props.C04
open SwiftMT SwiftMT.Rules

theorem run_opt {M E : Type} (m : M) (f : M → Option E) (r : Bool) (ss : List (Stage M E)) (acc : List E) :
    runStages false m (.opt f r :: ss) acc = runStages false m ss (acc ++ (f m).toList) := by
  simp only [runStages]; cases f m <;> simp
theorem run_vec {M E : Type} (m : M) (f : M → List E) (r : Bool) (ss : List (Stage M E)) (acc : List E) :
    runStages false m (.vec f r :: ss) acc = runStages false m ss (acc ++ f m) := by
  simp [runStages]
theorem run_vecStop {M E : Type} (m : M) (f : Bool → M → List E) (r : Bool) (ss : List (Stage M E)) (acc : List E) :
    runStages false m (.vecStop f r :: ss) acc = runStages false m ss (acc ++ f false m) := by
  simp [runStages]
theorem run_nil {M E : Type} (m : M) (acc : List E) : runStages false m ([] : List (Stage M E)) acc = acc := rfl

/-- every stage of a modelled type's regenerated `validate_network_rules` has a rule model of the same name and kind,
and no model is left without a stage (a rule added to or dropped from the Rust breaks this) -/
theorem stages_modelled : ∀ p ∈ modelled, stagesOf p.1 = p.2 := by decide

/-! ### MT110 -/
theorem validate110_eq (v : V110) : rs110.validate v = (r110_c1 v).toList ++ (r110_c2 v).toList := by
  simp only [RuleSet.validate, rs110, List.map, runStages]
  cases h1 : r110_c1 v <;> cases h2 : r110_c2 v <;> simp_all

/-- T10: more than ten cheque sequences -/
theorem r110_c1_iff (v : V110) : r110_c1 v = some "T10" ↔ v.cheques.length > 10 := by
  unfold r110_c1; split <;> simp_all
/-- C02: the currency of field 32a differs between two cheques -/
theorem r110_c2_iff (v : V110) : r110_c2 v = some "C02" ↔ ∃ a ∈ v.cheques, ∃ b ∈ v.cheques, a ≠ b := by
  unfold r110_c2
  cases hc : v.cheques with
  | nil => simp
  | cons first rest =>
    simp only
    constructor
    · intro h
      split at h
      · rename_i hany
        obtain ⟨x, hx, hne⟩ := List.any_eq_true.mp hany
        exact ⟨x, by simp [hx], first, by simp, by simpa using hne⟩
      · cases h
    · intro ⟨a, ha, b, hb, hab⟩
      have : rest.any (· != first) = true := by
        rw [List.any_eq_true]
        by_cases h1 : a = first
        · subst h1
          have hb' : b ∈ rest := by
            rcases List.mem_cons.mp hb with rfl | h
            · exact absurd rfl hab
            · exact h
          exact ⟨b, hb', by simpa using fun h => hab h.symm⟩
        · have ha' : a ∈ rest := by
            rcases List.mem_cons.mp ha with rfl | h
            · exact absurd rfl h1
            · exact h
          exact ⟨a, ha', by simpa using h1⟩
      simp [this]
theorem valid_iff_110 (v : V110) :
    rs110.validate v = [] ↔ v.cheques.length ≤ 10 ∧ ∀ a ∈ v.cheques, ∀ b ∈ v.cheques, a = b := by
  rw [validate110_eq]
  have h1 := r110_c1_iff v
  have h2 := r110_c2_iff v
  constructor
  · intro h
    have e1 : r110_c1 v = none := by cases hh : r110_c1 v <;> simp_all
    have e2 : r110_c2 v = none := by cases hh : r110_c2 v <;> simp_all
    refine ⟨?_, ?_⟩
    · by_cases hl : v.cheques.length > 10
      · rw [h1.mpr hl] at e1; cases e1
      · omega
    · intro a ha b hb
      by_cases hab : a = b
      · exact hab
      · rw [h2.mpr ⟨a, ha, b, hb, hab⟩] at e2; cases e2
  · intro ⟨hl, hall⟩
    have e1 : r110_c1 v = none := by unfold r110_c1; split <;> simp_all; omega
    have e2 : r110_c2 v = none := by
      unfold r110_c2
      cases hc : v.cheques with
      | nil => rfl
      | cons first rest =>
        have : rest.any (· != first) = false := by
          rw [Bool.eq_false_iff]; intro h
          obtain ⟨x, hx, hne⟩ := List.any_eq_true.mp h
          have := hall x (by simp [hc, hx]) first (by simp [hc])
          simp [this] at hne
        simp [this]
    simp [e1, e2]

/-! ### MT202, MT205, MT910 (presence rules) -/
theorem validate202_eq (v : V202) : rs202.validate v = (r202_c1 v).toList ++ (r202_c2 v).toList := by
  simp only [RuleSet.validate, rs202, List.map, runStages]
  cases h1 : r202_c1 v <;> cases h2 : r202_c2 v <;> simp_all
/-- C81: 56a present in sequence A without 57a -/
theorem r202_c1_iff (v : V202) : r202_c1 v = some "C81" ↔ (v.a56 = true ∧ v.a57 = false) := by
  unfold r202_c1; cases v.a56 <;> cases v.a57 <;> simp
/-- C68: 56a present in sequence B without 57a -/
theorem r202_c2_iff (v : V202) : r202_c2 v = some "C68" ↔ (v.b56 = true ∧ v.b57 = false) := by
  unfold r202_c2; cases v.b56 <;> cases v.b57 <;> simp
theorem valid_iff_202 (v : V202) :
    rs202.validate v = [] ↔ (v.a56 = true → v.a57 = true) ∧ (v.b56 = true → v.b57 = true) := by
  rw [validate202_eq]; unfold r202_c1 r202_c2
  cases v.a56 <;> cases v.a57 <;> cases v.b56 <;> cases v.b57 <;> simp

theorem validate205_eq (v : V205) : rs205.validate v = (r205_c1 v).toList := by
  simp only [RuleSet.validate, rs205, List.map, runStages]
  cases h1 : r205_c1 v <;> simp_all
theorem valid_iff_205 (v : V205) : rs205.validate v = [] ↔ (v.i56 = true → v.i57 = true) := by
  rw [validate205_eq]; unfold r205_c1; cases v.i56 <;> cases v.i57 <;> simp
theorem codes_205 (v : V205) : rs205.validate v = ["C81"] ↔ (v.i56 = true ∧ v.i57 = false) := by
  rw [validate205_eq]; unfold r205_c1; cases v.i56 <;> cases v.i57 <;> simp

theorem validate910_eq (v : V910) : rs910.validate v = (r910_c1 v).toList := by
  simp only [RuleSet.validate, rs910, List.map, runStages]
  cases h1 : r910_c1 v <;> simp_all
/-- C06: neither 50a nor 52a -/
theorem valid_iff_910 (v : V910) : rs910.validate v = [] ↔ (v.has50 = true ∨ v.has52 = true) := by
  rw [validate910_eq]; unfold r910_c1; cases v.has50 <;> cases v.has52 <;> simp
theorem codes_910 (v : V910) : rs910.validate v = ["C06"] ↔ (v.has50 = false ∧ v.has52 = false) := by
  rw [validate910_eq]; unfold r910_c1; cases v.has50 <;> cases v.has52 <;> simp

/-! ### MT210 -/
theorem validate210_eq (v : V210) :
    rs210.validate v = (r210_c1 v).toList ++ r210_c2 v ++ (r210_c3 v).toList := by
  simp only [RuleSet.validate, rs210, List.map, runStages]
  cases h1 : r210_c1 v <;> cases h3 : r210_c3 v <;> simp_all
/-- C06 is reported once per sequence in which 50a and 52a are both present or both absent -/
theorem r210_c2_eq (v : V210) :
    r210_c2 v = (v.txs.filter (fun t => t.has50 == t.has52)).map (fun _ => "C06") := by
  unfold r210_c2
  induction v.txs with
  | nil => simp
  | cons t ts ih =>
    simp only [List.flatMap_cons, List.filter_cons, ih]
    cases h5 : t.has50 <;> cases h2 : t.has52 <;> simp
/-- the documented cap of ten repetitions is what the regenerated constant says -/
theorem cap210 : numConst 210 "MAX_REPETITIVE_SEQUENCES" = 10 := by decide
theorem cap204 : numConst 204 "MAX_SEQUENCE_B_OCCURRENCES" = 10 := by decide
theorem r210_c1_iff (v : V210) : r210_c1 v = some "T10" ↔ v.txs.length > 10 := by
  unfold r210_c1; rw [cap210]; split <;> simp_all

/-! ### MT920 -/
theorem validate920_eq (v : V920) :
    rs920.validate v = r920_t88 v ++ r920_c1 v ++ r920_c2 v ++ r920_c3 v := by
  simp only [RuleSet.validate, rs920, List.map, runStages]
  simp
/-- T88 is reported exactly for the sequences whose field 12 is not 940, 941, 942 or 950 -/
theorem r920_t88_nil_iff (v : V920) : r920_t88 v = [] ↔ ∀ s ∈ v.seqs, s.type12 ∈ types920 := by
  unfold r920_t88
  induction v.seqs with
  | nil => simp
  | cons s ss ih =>
    simp only [List.flatMap_cons, List.append_eq_nil_iff, List.mem_cons, forall_eq_or_imp]
    rw [ih]
    by_cases h : types920.contains s.type12 = true
    · simp [h, List.contains_iff_mem.mp h]
    · have : s.type12 ∉ types920 := fun hm => h (List.contains_iff_mem.mpr hm)
      simp [h, this]
/-- C22: a sequence asks for MT942 without a floor limit (field 34F) -/
theorem r920_c1_nil_iff (v : V920) : r920_c1 v = [] ↔ ∀ s ∈ v.seqs, s.type12 = "942".toList → s.debit.isSome = true := by
  unfold r920_c1
  induction v.seqs with
  | nil => simp
  | cons s ss ih =>
    simp only [List.flatMap_cons, List.append_eq_nil_iff, List.mem_cons, forall_eq_or_imp]
    rw [ih]
    by_cases h : s.type12 = "942".toList <;> cases hd : s.debit <;> simp [h, hd]
/-- C40: the two floor limits of a sequence are in different currencies -/
theorem r920_c3_nil_iff (v : V920) :
    r920_c3 v = [] ↔ ∀ s ∈ v.seqs, ∀ d c, s.debit = some d → s.credit = some c → d.ccy = c.ccy := by
  unfold r920_c3
  induction v.seqs with
  | nil => simp
  | cons s ss ih =>
    simp only [List.flatMap_cons, List.append_eq_nil_iff, List.mem_cons, forall_eq_or_imp]
    rw [ih]
    cases hd : s.debit <;> cases hc : s.credit <;> simp

/-! ### MT941 / MT950 -/
theorem validate941_eq (v : V941) : rs941.validate v = r941_c1 v := by
  simp only [RuleSet.validate, rs941, List.map, runStages]
  simp
/-- C27 once per balance field whose currency does not start with the same two letters as 62F -/
theorem r941_count (v : V941) :
    (rs941.validate v).length = (v.others.filter (fun c => pre2 c != pre2 v.base)).length ∧
    (rs941.validate v = [] ↔ ∀ c ∈ v.others, pre2 c = pre2 v.base) := by
  rw [validate941_eq]; unfold r941_c1
  refine ⟨by simp, ?_⟩
  simp only [List.map_eq_nil_iff, List.filter_eq_nil_iff]
  constructor
  · intro h c hc; have := h c hc; simpa using this
  · intro h c hc; simp [h c hc]

theorem validate950_eq (v : V950) : rs950.validate v = r950_c1 v := by
  simp only [RuleSet.validate, rs950, List.map, runStages]
  simp
theorem valid_iff_950 (v : V950) :
    rs950.validate v = [] ↔ pre2 v.c62 = pre2 v.c60 ∧ ∀ c, v.c64 = some c → pre2 c = pre2 v.c60 := by
  rw [validate950_eq]; unfold r950_c1
  cases h : v.c64 with
  | none => by_cases h1 : pre2 v.c62 = pre2 v.c60 <;> simp [h1]
  | some c => by_cases h1 : pre2 v.c62 = pre2 v.c60 <;> by_cases h2 : pre2 c = pre2 v.c60 <;> simp [h1, h2]

/-! ### MT204 -/
theorem validate204_eq (v : V204) :
    rs204.validate v = (r204_c1 v).toList ++ (r204_c2 v).toList ++ (r204_c3 v).toList := by
  simp only [RuleSet.validate, rs204, List.map, runStages]
  cases h1 : r204_c1 v <;> cases h2 : r204_c2 v <;> cases h3 : r204_c3 v <;> simp_all
theorem r204_c3_iff (v : V204) : r204_c3 v = some "T10" ↔ v.txs.length > 10 := by
  unfold r204_c3; rw [cap204]; split <;> simp_all

/-! ### MT200 -/
theorem validate200_eq (v : V200) : rs200.validate v = r200_t80 v := by
  simp only [RuleSet.validate, rs200, List.map, runStages]
  simp
/-- T80 once per field-72 line whose leading /code/ is REJT or RETN -/
theorem r200_nil_iff (v : V200) : rs200.validate v = [] ↔ ∀ l ∈ v.lines72, ∀ c, code72 l = some c → c ∉ special72 := by
  rw [validate200_eq]; unfold r200_t80
  simp only [List.map_eq_nil_iff, List.filter_eq_nil_iff, List.mem_filterMap]
  constructor
  · intro h l hl c hc hm
    exact h c ⟨l, hl, hc⟩ (List.contains_iff_mem.mpr hm)
  · intro h c ⟨l, hl, hc⟩ hcon
    exact h l hl c hc (List.contains_iff_mem.mp hcon)

/-! ### MT103 -/
theorem validate103_eq (v : V103) :
    rs103.validate v = (r103_23b v).toList ++ r103_23e v ++ (r103_c1 v).toList ++ r103_c3 v ++ (r103_c4 v).toList ++
      (r103_c5 v).toList ++ (r103_c6 v).toList ++ r103_c7 v ++ (r103_c8 v).toList ++ (r103_c9 v).toList ++
      (r103_c13 v).toList ++ r103_c16 v ++ r103_c17 v := by
  simp only [RuleSet.validate, rs103, List.map, run_opt, run_vec, run_nil, List.nil_append, List.append_assoc]
/-- D75: field 36 present exactly when 33B is present with a currency different from 32A -/
theorem r103_c1_iff (v : V103) :
    r103_c1 v = none ↔ (v.has36 = true ↔ ∃ c, v.ccy33b = some c ∧ v.ccy32a ≠ c) := by
  unfold r103_c1
  cases h33 : v.ccy33b with
  | none => cases v.has36 <;> simp
  | some c => by_cases hc : v.ccy32a = c <;> cases v.has36 <;> simp [hc]
/-- E06: 55a needs both 53a and 54a -/
theorem r103_c4_iff (v : V103) : r103_c4 v = some "E06" ↔ (v.has55 = true ∧ (v.has53 = false ∨ v.has54 = false)) := by
  unfold r103_c4; cases v.has55 <;> cases v.has53 <;> cases v.has54 <;> simp
/-- C81: 56a needs 57a -/
theorem r103_c5_iff (v : V103) : r103_c5 v = some "C81" ↔ (v.has56 = true ∧ v.has57 = false) := by
  unfold r103_c5; cases v.has56 <;> cases v.has57 <;> simp
/-- E16: no 56a with SPRI -/
theorem r103_c6_iff (v : V103) : r103_c6 v = some "E16" ↔ (v.b23 = "SPRI".toList ∧ v.has56 = true) := by
  unfold r103_c6; by_cases h : v.b23 = "SPRI".toList <;> cases v.has56 <;> simp [h]
/-- D51: charges (71F or 71G) need 33B -/
theorem r103_c8_iff (v : V103) : r103_c8 v = some "D51" ↔ ((v.has71f = true ∨ v.ccy71g.isSome = true) ∧ v.ccy33b = none) := by
  unfold r103_c8; cases v.has71f <;> cases v.ccy71g <;> cases v.ccy33b <;> simp
/-- C02: the currency of 71G equals that of 32A -/
theorem r103_c9_iff (v : V103) : r103_c9 v = some "C02" ↔ ∃ c, v.ccy71g = some c ∧ v.ccy32a ≠ c := by
  unfold r103_c9
  cases h : v.ccy71g with
  | none => simp
  | some c => by_cases hc : v.ccy32a = c <;> simp [hc]
/-- E13 / D50 / E15: what 71A allows of 71F and 71G -/
theorem r103_c7_nil_iff (v : V103) :
    r103_c7 v = [] ↔ (v.code71a = ['O', 'U', 'R'] → v.has71f = false) ∧ (v.code71a = ['S', 'H', 'A'] → v.ccy71g = none) ∧
      (v.code71a = ['B', 'E', 'N'] → v.has71f = true ∧ v.ccy71g = none) := by
  unfold r103_c7
  by_cases h1 : v.code71a = ['O', 'U', 'R']
  · cases hf : v.has71f <;> simp [h1, hf]
  · by_cases h2 : v.code71a = ['S', 'H', 'A']
    · cases hg : v.ccy71g <;> simp [h2, hg]
    · by_cases h3 : v.code71a = ['B', 'E', 'N']
      · cases hf : v.has71f <;> cases hg : v.ccy71g <;> simp [h3, hf, hg]
      · simp [h1, h2, h3]
/-- T36: 23B outside the documented list -/
theorem r103_23b_iff (v : V103) : r103_23b v = some "T36" ↔ v.b23 ∉ tbl 103 "MT103_VALID_23B_CODES" := by
  unfold r103_23b
  by_cases h : (tbl 103 "MT103_VALID_23B_CODES").contains v.b23 = true
  · simp [h, List.contains_iff_mem.mp h]
  · have : v.b23 ∉ tbl 103 "MT103_VALID_23B_CODES" := fun hm => h (List.contains_iff_mem.mpr hm)
    simp [h, this]
/-- the code tables the MT103 rules consult are the documented ones -/
theorem tables103 :
    tbl 103 "MT103_VALID_23B_CODES" = ["CRED", "CRTS", "SPAY", "SPRI", "SSTD"].map String.toList ∧
    tbl 103 "REMIT_SPRI_ALLOWED_23E" = ["SDVA", "TELB", "PHOB", "INTC"].map String.toList ∧
    tbl 103 "FIELD_23E_CODE_ORDER" = ["SDVA", "INTC", "REPA", "CORT", "HOLD", "CHQB", "PHOB", "TELB", "PHON", "TELE", "PHOI", "TELI"].map String.toList := by
  decide

/-! ### MT101 -/
/-- D61: the ordering customer (50F/G/H) is in sequence A, or in every sequence B — never in both, never in only some -/
theorem r101_c3_iff (v : V101) :
    r101_c3 v = none ↔ ((v.a50fgh = true ∧ ∀ t ∈ v.txs, t.has50fgh = false) ∨
                        (v.a50fgh = false ∧ v.txs ≠ [] ∧ ∀ t ∈ v.txs, t.has50fgh = true)) := by
  unfold r101_c3
  have hany : v.txs.any (·.has50fgh) = false ↔ ∀ t ∈ v.txs, t.has50fgh = false := by
    rw [Bool.eq_false_iff]
    constructor
    · intro h t ht
      cases hh : t.has50fgh
      · rfl
      · exact absurd (List.any_eq_true.mpr ⟨t, ht, hh⟩) h
    · intro h ha
      obtain ⟨t, ht, hh⟩ := List.any_eq_true.mp ha
      rw [h t ht] at hh; cases hh
  have hall : (!v.txs.isEmpty && v.txs.all (·.has50fgh)) = true ↔ (v.txs ≠ [] ∧ ∀ t ∈ v.txs, t.has50fgh = true) := by
    simp [List.all_eq_true]
  cases ha : v.a50fgh
  · simp only [Bool.false_and, Bool.not_false, Bool.true_and, Bool.false_eq_true, if_false, false_and, false_or, true_and]
    by_cases h : (!v.txs.isEmpty && v.txs.all (·.has50fgh)) = true
    · have := hall.mp h
      simp [h, this.1]
      exact this.2
    · have hn : ¬ (v.txs ≠ [] ∧ ∀ t ∈ v.txs, t.has50fgh = true) := fun hc => h (hall.mpr hc)
      simp only [Bool.not_eq_true] at h
      simp [h]
      intro hne
      by_cases hx : ∃ t ∈ v.txs, t.has50fgh = false
      · exact hx
      · exfalso; apply hn; refine ⟨hne, fun t ht => ?_⟩
        cases hh : t.has50fgh
        · exact absurd ⟨t, ht, hh⟩ hx
        · rfl
  · simp only [Bool.true_and, Bool.not_true, Bool.false_and, true_and, false_and, or_false]
    cases hb : v.txs.any (·.has50fgh)
    · simp
      exact hany.mp hb
    · simp
      exact List.any_eq_true.mp hb
/-- D62: the instructing party (50C/L) is not in sequence A and in a sequence B at once -/
theorem r101_c4_iff (v : V101) : r101_c4 v = some "D62" ↔ (v.a50cl = true ∧ ∃ t ∈ v.txs, t.has50cl = true) := by
  unfold r101_c4
  cases v.a50cl <;> simp
/-- D64: 52a not in sequence A and in a sequence B at once -/
theorem r101_c6_iff (v : V101) : r101_c6 v = some "D64" ↔ (v.a52 = true ∧ ∃ t ∈ v.txs, t.has52 = true) := by
  unfold r101_c6
  cases v.a52 <;> simp
/-- D54: every transaction with an exchange rate (36) carries the F/X deal reference (21F) -/
theorem r101_c1_nil_iff (v : V101) : r101_c1 v = [] ↔ ∀ t ∈ v.txs, t.has36 = true → t.has21f = true := by
  unfold r101_c1
  induction v.txs with
  | nil => simp
  | cons t ts ih =>
    simp only [List.flatMap_cons, List.append_eq_nil_iff, List.mem_cons, forall_eq_or_imp]
    rw [ih]
    cases t.has36 <;> cases t.has21f <;> simp
/-- D65: every transaction with 56a carries 57a -/
theorem r101_c7_nil_iff (v : V101) : r101_c7 v = [] ↔ ∀ t ∈ v.txs, t.has56 = true → t.has57 = true := by
  unfold r101_c7
  induction v.txs with
  | nil => simp
  | cons t ts ih =>
    simp only [List.flatMap_cons, List.append_eq_nil_iff, List.mem_cons, forall_eq_or_imp]
    rw [ih]
    cases t.has56 <;> cases t.has57 <;> simp

/-! ### MT104 / MT107 -/
/-- C82: field 72 is present exactly when 23E of sequence A is RTND -/
theorem r104_c5_iff (v : V104) : r104_c5 v = none ↔ (codeIs v.e23 "RTND" = v.has72) := by
  unfold r104_c5; cases codeIs v.e23 "RTND" <;> cases v.has72 <;> simp
theorem r107_c4_iff (v : V104) : r107_c4 v = none ↔ (codeIs v.e23 "RTND" = v.has72) := by
  unfold r107_c4 codeIs
  cases h : v.e23 with
  | none => cases v.has72 <;> simp
  | some e => by_cases hc : e.code = "RTND".toList <;> cases v.has72 <;> simp [hc]
/-- D79: charges in a sequence B iff the same charges field in sequence C (71F and 71G separately) -/
theorem r104_c6_nil_iff (v : V104) :
    r104_c6 v = [] ↔ (v.txs.any (·.ccy71f.isSome) = v.ccy71f.isSome) ∧ (v.txs.any (·.ccy71g.isSome) = v.ccy71g.isSome) := by
  unfold r104_c6
  cases v.txs.any (·.ccy71f.isSome) <;> cases v.txs.any (·.ccy71g.isSome) <;> cases v.ccy71f <;> cases v.ccy71g <;> simp
/-- D75 per transaction: 36 present exactly when 33B is present in another currency than 32B -/
theorem r104_c8_nil_iff (v : V104) :
    r104_c8 v = [] ↔ ∀ t ∈ v.txs, (t.has36 = true ↔ ∃ c a, t.c33b = some (c, a) ∧ t.ccy32b ≠ c) := by
  unfold r104_c8
  induction v.txs with
  | nil => simp
  | cons t ts ih =>
    simp only [List.flatMap_cons, List.append_eq_nil_iff, List.mem_cons, forall_eq_or_imp]
    rw [ih]
    cases h : t.c33b with
    | none => cases t.has36 <;> simp
    | some p =>
      obtain ⟨c, a⟩ := p
      by_cases hc : t.ccy32b = c <;> cases t.has36 <;> simp [hc]

/-! ### MT935 / MT942 / MT192 / MT292 / MT296 -/
/-- T10: between one and ten rate-change sequences -/
theorem r935_c1_iff (v : V935) : r935_c1 v = none ↔ (1 ≤ v.seqs.length ∧ v.seqs.length ≤ 10) := by
  unfold r935_c1
  by_cases h0 : v.seqs.length = 0
  · simp [h0]
  · by_cases h1 : v.seqs.length > 10
    · simp [h0, h1]
    · simp [h0, h1]; omega
/-- C83: exactly one of 23 and 25 in every sequence -/
theorem r935_c2_nil_iff (v : V935) : r935_c2 v = [] ↔ ∀ s ∈ v.seqs, s.has23 ≠ s.has25 := by
  unfold r935_c2
  induction v.seqs with
  | nil => simp
  | cons s ss ih =>
    simp only [List.flatMap_cons, List.append_eq_nil_iff, List.mem_cons, forall_eq_or_imp]
    rw [ih]
    cases s.has23 <;> cases s.has25 <;> simp
/-- C23: with two floor limits the marks are D then C; with one, no mark -/
theorem r942_c2_iff (v : V942) :
    r942_c2 v = none ↔ (match v.credit with
      | some c => v.debit.indicator = some ['D'] ∧ c.indicator = some ['C']
      | none => v.debit.indicator = none) := by
  unfold r942_c2
  cases hc : v.credit with
  | none => cases v.debit.indicator <;> simp
  | some c =>
    by_cases h1 : v.debit.indicator = some ['D'] <;> by_cases h2 : c.indicator = some ['C'] <;> simp [h1, h2]
/-- C25 (MT192): field 79 is required -/
theorem r192_c1_iff (v : V192) : r192_c1 v = some "C25" ↔ v.has79 = false := by
  unfold r192_c1; cases v.has79 <;> simp
/-- C25 (MT292): field 79 or a copy of original fields -/
theorem r292_c1_iff (v : V292) : r292_c1 v = some "C25" ↔ (v.has79 = false ∧ v.hasOriginal = false) := by
  unfold r292_c1; cases v.has79 <;> cases v.hasOriginal <;> simp
/-- C31 (MT296): not both -/
theorem r296_c1_iff (v : V292) : r296_c1 v = some "C31" ↔ (v.has79 = true ∧ v.hasOriginal = true) := by
  unfold r296_c1; cases v.has79 <;> cases v.hasOriginal <;> simp

/-- the types without any network rule: their regenerated stage list is empty, so validation reports nothing -/
theorem ruleless_types : (Generated.Stages.table.filter (fun p => p.2.isEmpty)).map (·.1) = [111, 112, 190, 191, 199, 290, 291, 299, 900] := by
  decide
/-- the types whose rules are NOT modelled yet (covered by the oracle streams of C13 only) -/
theorem unmodelled_types :
    (Generated.Stages.table.filter (fun p => !p.2.isEmpty && !(modelled.any (·.1 == p.1)))).map (·.1) = [] := by
  decide

/-- Non-vacuity: concrete abstract messages on which rules fire. -/
example : rs110.validate ⟨["USD".toList, "EUR".toList]⟩ = ["C02"] := by decide
example : rs210.validate ⟨[⟨true, true, "USD".toList⟩, ⟨false, false, "EUR".toList⟩]⟩ = ["C06", "C06", "C02"] := by decide
example : rs920.validate ⟨[⟨"942".toList, none, none⟩]⟩ = ["C22"] := by decide

end SwiftMT.Props.C04
