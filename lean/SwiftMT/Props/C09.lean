import SwiftMT.Lemmas.MParser
import SwiftMT.Generated.Layouts
/-
C09 — mandatory structure is enforced and the error names the culprit.  Property theorems only.
-/
namespace SwiftMT.Props.C09
open SwiftMT SwiftMT.Generated

/-- [generic] A required field that is not the next field of the text is reported as missing, with its tag
(the message type is the constant the parser was created with). -/
theorem missing_names_the_tag (s : PState) (tag : Text) (hdup : s.allowDup = false → tag ∉ s.seen)
    (hnext : detectField s tag = false) :
    extractField s tag false = .error (.missing tag) := by
  unfold extractField
  have h1 : (!s.allowDup && s.seen.contains tag && !false) = false := by
    cases ha : s.allowDup
    · have := hdup ha
      simp [this]
    · simp
  simp [hnext]
  exact hdup

/-- [generic] A field whose content the field parser rejects is reported with its tag and carries exactly the content
that was read; the error is raised by the call that consumed the field. -/
theorem invalid_names_tag_and_content (accept : Text → Bool) (s s' : PState) (tag c : Text)
    (hx : extractField s tag false = .ok (c, s')) (hbad : accept c = false) :
    parseFieldWith accept s tag = .error (.invalid tag c) := by
  simp [parseFieldWith, hx, hbad]

/-- [generic] and conversely a field error can only name the field that was actually next in the text. -/
theorem invalid_only_for_the_next_field (accept : Text → Bool) (s : PState) (tag t v : Text)
    (h : parseFieldWith accept s tag = .error (.invalid t v)) :
    t = tag ∧ detectField s tag = true := by
  unfold parseFieldWith at h
  cases hx : extractField s tag false with
  | error e => simp [hx] at h
  | ok p =>
    obtain ⟨c, s'⟩ := p
    simp only [hx] at h
    split at h
    · cases h
    · injection h with h
      injection h with h1 h2
      refine ⟨h1.symm, ?_⟩
      unfold extractField at hx
      split at hx
      · cases hx
      · by_cases hd : detectField s tag = true
        · exact hd
        · simp [hd] at hx

/-- [instances] in every type, every mandatory read (`parse_field` / `parse_variant_field`) propagates its error. -/
theorem mandatory_reads_propagate :
    ∀ l ∈ Layouts.layouts, ∀ c ∈ l.calls, (c.method = 0 ∨ c.method = 2) → c.propagated = true := by
  decide +kernel

theorem translated : Layouts.untranslated = [] := by decide

/-- Non-vacuity: `:23B:` missing between `:20:` and `:32A:`. -/
example : (match extractField { rest := ":32A:240101USD1,\n-".toList, seen := ["20".toList], allowDup := false }
      "23B".toList false with
    | .error (.missing t) => t == "23B".toList
    | _ => false) = true := by decide

end SwiftMT.Props.C09
