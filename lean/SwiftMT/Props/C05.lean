import SwiftMT.Fields.Simple
import SwiftMT.Spec.FieldDocs
import SwiftMT.Lemmas.Prim
import SwiftMT.Props.C11
/-
C05 — field parsers accept exactly their documented SWIFT format.

For each modelled field type `F`:  `accepts_iff_F : (F.parse s).isOk ↔ Doc.F s` for ALL texts `s`, and
`value_F : F.parse s = ok v → (the components of v are exactly the parts of s)` — nothing ignored, truncated or
re-numbered.  The models (`SwiftMT/Fields`) are tied to the Rust by the `fields` correspondence stream; the documented
side (`SwiftMT/Spec/FieldDocs`) is written from the doc comments.
-/
namespace SwiftMT.Props.C05
open SwiftMT SwiftMT.Fields

theorem hasSub_iff_infix (pat t : Text) (hp : pat ≠ []) : hasSub pat t = true ↔ pat <:+: t := by
  unfold hasSub
  constructor
  · intro h
    cases hf : findSub pat t with
    | none => simp [hf] at h
    | some i => exact ⟨t.take i, t.drop (i + pat.length), (findSub_split hf).symm⟩
  · intro ⟨a, b, hab⟩
    subst hab
    induction a with
    | nil =>
      cases pat with
      | nil => exact absurd rfl hp
      | cons p ps =>
        simp only [List.nil_append, List.cons_append, findSub]
        have := isPrefixOf_append_self (p :: ps) b
        simp only [List.cons_append] at this
        simp [this]
    | cons c cs ih =>
      simp only [List.cons_append, List.append_assoc] at ih ⊢
      unfold findSub
      split
      · simp
      · cases hf : findSub pat (cs ++ (pat ++ b)) with
        | none => simp [hf] at ih
        | some j => simp

theorem xtext_of_checks (n : Nat) (s : Text) (hl : blen s ≤ n) (hne : s ≠ []) (hx : s.all isSwiftX = true) :
    Doc.XText n s := by
  have ha := all_swiftX_ascii s hx
  rw [blen_ascii s ha] at hl
  refine ⟨?_, hl, fun c hc => List.all_eq_true.mp hx c hc⟩
  cases s with
  | nil => exact absurd rfl hne
  | cons _ _ => simp

theorem checks_of_xtext (n : Nat) (s : Text) (h : Doc.XText n s) :
    blen s ≤ n ∧ s ≠ [] ∧ s.all isSwiftX = true := by
  obtain ⟨h1, h2, h3⟩ := h
  have hx : s.all isSwiftX = true := List.all_eq_true.mpr h3
  rw [blen_ascii s (all_swiftX_ascii s hx)]
  refine ⟨h2, ?_, hx⟩
  intro he; subst he; simp at h1

/-- Normal form of the reference parser: one boolean condition, the value is the whole content. -/
theorem Ref.parse_eq (n : Nat) (s : Text) :
    Ref.parse n s =
      if blen s ≤ n ∧ s.isEmpty = false ∧ s.all isSwiftX = true ∧
         (s.head? == some '/' || s.getLast? == some '/') = false ∧ hasSub ['/', '/'] s = false
      then .ok ⟨s⟩ else .err := by
  unfold Ref.parse parseMaxLength parseSwiftChars Res.guard
  by_cases h1 : blen s ≤ n <;> by_cases h2 : s.isEmpty = true <;> by_cases h3 : s.all isSwiftX = true <;>
    by_cases h4 : (s.head? == some '/' || s.getLast? == some '/') = true <;>
    by_cases h5 : hasSub ['/', '/'] s = true <;> simp [*, bind, Res.bind]

/-- 20 / 21 / 21C / 21D / 21E / 21F / 21R: accepted iff a documented reference. -/
theorem accepts_iff_reference (n : Nat) (s : Text) : (Ref.parse n s).isOk = true ↔ Doc.Reference n s := by
  rw [Ref.parse_eq]
  unfold Doc.Reference
  constructor
  · intro h
    split at h
    · rename_i hc
      obtain ⟨h1, h2, h3, h4, h5⟩ := hc
      refine ⟨xtext_of_checks n s h1 (by intro he; simp [he] at h2) h3, ?_, ?_, ?_⟩
      · intro he; simp [he] at h4
      · intro he; simp [he] at h4
      · intro hi; rw [(hasSub_iff_infix _ _ (by simp)).mpr hi] at h5; cases h5
    · simp [Res.isOk] at h
  · intro ⟨hx, hh, hl, hi⟩
    obtain ⟨h1, h2, h3⟩ := checks_of_xtext n s hx
    have h4 : (s.head? == some '/' || s.getLast? == some '/') = false := by
      simp only [Bool.or_eq_false_iff, beq_eq_false_iff_ne, ne_eq]
      exact ⟨hh, hl⟩
    have h5 : hasSub ['/', '/'] s = false := by
      cases hb : hasSub ['/', '/'] s with
      | false => rfl
      | true => exact absurd ((hasSub_iff_infix _ _ (by simp)).mp hb) hi
    have h2' : s.isEmpty = false := by cases s <;> simp_all
    simp [h1, h2', h3, h4, h5, Res.isOk]

/-- … and the stored reference is the whole content: nothing is ignored or truncated. -/
theorem value_reference (n : Nat) (s : Text) (v : Ref) (h : Ref.parse n s = .ok v) : v.reference = s := by
  rw [Ref.parse_eq] at h
  split at h
  · cases h; rfl
  · cases h

theorem no_panic_reference (n : Nat) (s : Text) : Ref.parse n s ≠ .panic := by
  rw [Ref.parse_eq]; split <;> simp

/-! ### narratives 70, 71B, 72, 75, 76, 79, 86 (`n*mx`) -/

theorem Narr.parse_eq (ml mx : Nat) (s : Text) :
    Narr.parse ml mx s =
      if (splitNl s).any List.isEmpty = false ∧ (splitNl s).length ≤ ml ∧
         (splitNl s).all (fun l => blen l ≤ mx && l.all isSwiftX) = true
      then .ok (splitNl s) else .err := by
  unfold Narr.parse parseMultilineText
  by_cases h1 : (splitNl s).any List.isEmpty = true <;> by_cases h2 : (splitNl s).length ≤ ml <;>
    by_cases h3 : (splitNl s).all (fun l => blen l ≤ mx && l.all isSwiftX) = true <;> simp [*] <;> omega

theorem accepts_iff_narrative (ml mx : Nat) (s : Text) : (Narr.parse ml mx s).isOk = true ↔ Doc.Lines ml mx s := by
  rw [Narr.parse_eq]
  unfold Doc.Lines
  constructor
  · intro h
    split at h
    · rename_i hc
      obtain ⟨h1, h2, h3⟩ := hc
      refine ⟨splitNl s, (joinNl_splitNl s).symm, ?_, h2, ?_⟩
      · have := splitNl_ne_nil s
        cases hs : splitNl s with
        | nil => exact absurd hs this
        | cons _ _ => simp
      · intro l hl
        have hl3 := List.all_eq_true.mp h3 l hl
        simp only [Bool.and_eq_true, decide_eq_true_eq] at hl3
        have hne : l ≠ [] := by
          intro he; subst he
          have : (splitNl s).any List.isEmpty = true := List.any_eq_true.mpr ⟨[], hl, rfl⟩
          rw [h1] at this; cases this
        exact xtext_of_checks mx l hl3.1 hne hl3.2
    · simp [Res.isOk] at h
  · intro ⟨ls, hs, h1, h2, h3⟩
    have hne : ls ≠ [] := by intro he; subst he; simp at h1
    have hnl : ∀ l ∈ ls, ∀ c ∈ l, c ≠ '\n' := fun l hl c hc => swiftX_not_nl c ((h3 l hl).2.2 c hc)
    have hsp : splitNl s = ls := by rw [hs]; exact splitNl_joinNl ls hne hnl
    rw [hsp]
    have c1 : ls.any List.isEmpty = false := by
      rw [Bool.eq_false_iff]; intro h
      obtain ⟨l, hl, he⟩ := List.any_eq_true.mp h
      have := (h3 l hl).1
      cases l <;> simp_all
    have c3 : ls.all (fun l => blen l ≤ mx && l.all isSwiftX) = true := by
      rw [List.all_eq_true]; intro l hl
      obtain ⟨a, b, c⟩ := checks_of_xtext mx l (h3 l hl)
      simp [a, c]
    simp [c1, h2, c3, Res.isOk]

/-- the stored lines are exactly the lines of the content: none dropped, truncated or merged -/
theorem value_narrative (ml mx : Nat) (s : Text) (v : List Text) (h : Narr.parse ml mx s = .ok v) :
    joinNl v = s := by
  rw [Narr.parse_eq] at h
  split at h
  · cases h; exact joinNl_splitNl s
  · cases h

theorem no_panic_narrative (ml mx : Nat) (s : Text) : Narr.parse ml mx s ≠ .panic := by
  rw [Narr.parse_eq]; split <;> simp

/-! ### 12 `3!n`, 23B / 71A (code lists), 30 `6!n` -/

theorem F12.parse_eq (s : Text) : F12.parse s = if blen s = 3 ∧ s.all Char.isDigit = true then .ok ⟨s⟩ else .err := by
  unfold F12.parse parseExactLength parseNumeric Res.guard
  by_cases h1 : blen s = 3 <;> by_cases h2 : s.all Char.isDigit = true <;> simp [*, bind, Res.bind]

theorem digit_ascii (c : Char) (h : c.isDigit = true) : isAsciiC c = true :=
  alnum_ascii c (by simp [Char.isAlphanum, h])

theorem all_digit_ascii (s : Text) (h : s.all Char.isDigit = true) : isAsciiT s = true := by
  unfold isAsciiT; rw [List.all_eq_true] at *; intro c hc; exact digit_ascii c (h c hc)

theorem accepts_iff_12 (s : Text) : (F12.parse s).isOk = true ↔ Doc.Digits 3 s := by
  rw [F12.parse_eq]; unfold Doc.Digits
  constructor
  · intro h
    split at h
    · rename_i hc
      rw [blen_ascii s (all_digit_ascii s hc.2)] at hc
      exact ⟨hc.1, fun c hx => List.all_eq_true.mp hc.2 c hx⟩
    · simp [Res.isOk] at h
  · intro ⟨h1, h2⟩
    have hd : s.all Char.isDigit = true := List.all_eq_true.mpr h2
    have : blen s = 3 := by rw [blen_ascii s (all_digit_ascii s hd)]; exact h1
    simp [this, hd, Res.isOk]

theorem codes23B_shape : ∀ c ∈ codes23B, blen c = 4 ∧ c.all Char.isUpper = true := by decide
theorem codes71A_shape : ∀ c ∈ codes71A, blen c = 3 ∧ c.all Char.isUpper = true := by decide

theorem accepts_iff_23B (s : Text) : (F23B.parse s).isOk = true ↔ Doc.OneOf codes23B s := by
  unfold F23B.parse parseExactLength parseUppercase Res.guard Doc.OneOf
  constructor
  · intro h
    by_cases h1 : blen s = 4 <;> by_cases h2 : s.all Char.isUpper = true <;> by_cases h3 : s ∈ codes23B <;>
      simp [*, bind, Res.bind, Res.isOk] at h
    exact h3
  · intro h
    obtain ⟨h1, h2⟩ := codes23B_shape s h
    simp [h1, h2, h, bind, Res.bind, Res.isOk]

theorem accepts_iff_71A (s : Text) : (F71A.parse s).isOk = true ↔ Doc.OneOf codes71A s := by
  unfold F71A.parse parseExactLength parseUppercase Res.guard Doc.OneOf
  constructor
  · intro h
    by_cases h1 : blen s = 3 <;> by_cases h2 : s.all Char.isUpper = true <;> by_cases h3 : s ∈ codes71A <;>
      simp [*, bind, Res.bind, Res.isOk] at h
    exact h3
  · intro h
    obtain ⟨h1, h2⟩ := codes71A_shape s h
    simp [h1, h2, h, bind, Res.bind, Res.isOk]

theorem value_code_23B (s : Text) (v : Code) (h : F23B.parse s = .ok v) : v.code = s := by
  unfold F23B.parse parseExactLength parseUppercase Res.guard at h
  by_cases h1 : blen s = 4 <;> by_cases h2 : s.all Char.isUpper = true <;> by_cases h3 : s ∈ codes23B <;>
    simp [*, bind, Res.bind] at h
  cases h; rfl

theorem value_code_71A (s : Text) (v : Code) (h : F71A.parse s = .ok v) : v.code = s := by
  unfold F71A.parse parseExactLength parseUppercase Res.guard at h
  by_cases h1 : blen s = 3 <;> by_cases h2 : s.all Char.isUpper = true <;> by_cases h3 : s ∈ codes71A <;>
    simp [*, bind, Res.bind] at h
  cases h; rfl

theorem value_code_12 (s : Text) (v : Code) (h : F12.parse s = .ok v) : v.code = s := by
  rw [F12.parse_eq] at h; split at h
  · cases h; rfl
  · cases h

theorem accepts_iff_30 (s : Text) : (F30.parse s).isOk = true ↔ Doc.Date s := by
  unfold F30.parse Doc.Date Res.ofOption
  cases parseDateYYMMDD s <;> simp [Res.isOk]

theorem no_panic_codes (s : Text) :
    F12.parse s ≠ .panic ∧ F23B.parse s ≠ .panic ∧ F71A.parse s ≠ .panic ∧ F30.parse s ≠ .panic := by
  refine ⟨?_, ?_, ?_, ?_⟩
  · rw [F12.parse_eq]; split <;> simp
  · unfold F23B.parse parseExactLength parseUppercase Res.guard
    by_cases h1 : blen s = 4 <;> by_cases h2 : s.all Char.isUpper = true <;> by_cases h3 : s ∈ codes23B <;>
      simp [*, bind, Res.bind]
  · unfold F71A.parse parseExactLength parseUppercase Res.guard
    by_cases h1 : blen s = 3 <;> by_cases h2 : s.all Char.isUpper = true <;> by_cases h3 : s ∈ codes71A <;>
      simp [*, bind, Res.bind]
  · unfold F30.parse Res.ofOption; cases parseDateYYMMDD s <;> simp

/-! ### Party fields option A (52A–58A), C (52C, 56C, 57C), D (52D, 54D–58D)

The models reproduce their input — a parsed value serialises to exactly the text that was read (so the round trip is
stable and the text a fixed point, C02), they never panic (C07), and option C accepts exactly its documented format. -/

theorem parseBic_value (t b : Text) (h : parseBic t = .ok b) : b = t := by
  unfold parseBic at h
  repeat (split at h; · cases h)
  cases h; rfl

theorem parseBic_no_panic (t : Text) : parseBic t ≠ .panic := by
  unfold parseBic
  repeat (split; · simp)
  simp

theorem pid_no_panic (t : Text) : parsePartyIdentifier t ≠ .panic := by
  unfold parsePartyIdentifier pidSpecial pidCoded pidPlain
  repeat' split
  all_goals simp

/-- the party identifier that is returned is the line without its leading slash -/
theorem pid_value (l p : Text) (h : parsePartyIdentifier l = .ok (some p)) : l = '/' :: p := by
  unfold parsePartyIdentifier at h
  split at h
  · rename_i special
    unfold pidSpecial at h
    split at h
    · split at h
      · cases h; rfl
      · cases h
    · cases h
  · rename_i rem _
    split at h
    · rename_i pos hf
      have hs := (findChar_split hf).1
      unfold pidCoded at h
      split at h
      · split at h
        · cases h
        · split at h
          · cases h; rw [← hs]
          · cases h
      · cases h
    · unfold pidPlain at h
      split at h
      · split at h
        · cases h; rfl
        · cases h
      · cases h
  · cases h

theorem pid_none (l : Text) (h : parsePartyIdentifier l = .ok none) : l.head? ≠ some '/' := by
  intro hh
  cases l with
  | nil => cases hh
  | cons a r =>
    simp only [List.head?_cons, Option.some.injEq] at hh
    subst hh
    unfold parsePartyIdentifier pidSpecial pidCoded pidPlain at h
    repeat' split at h
    all_goals first | cases h | (rename_i hne; exact absurd rfl (hne _ _)) | skip
    all_goals simp_all

/-- **Option A reproduces its input**: what was parsed serialises to exactly the text that was read. -/
theorem optA_reproduces (s : Text) (v : OptA) (h : OptA.parse s = .ok v) : OptA.ser v = s := by
  unfold OptA.parse at h
  have hj := joinNl_splitNl s
  split at h
  · cases h
  · rename_i l0 rest hsp
    rw [hsp] at hj
    split at h
    · cases h
    · cases h
    · rename_i p hp
      split at h
      · cases h
      · rename_i b rest'
        split at h
        · rename_i bic hb
          split at h
          · cases h
            rename_i hre
            have hr' : rest' = [] := by simpa using hre
            subst hr'
            have := pid_value l0 p hp
            have hb' := parseBic_value b bic hb
            subst hb'
            rw [← hj, this]
            simp [OptA.ser, joinNl]
          · cases h
        · cases h
        · cases h
    · rename_i hp
      split at h
      · rename_i bic hb
        split at h
        · cases h
          rename_i hre
          have hr' : rest = [] := by simpa using hre
          subst hr'
          have hb' := parseBic_value l0 bic hb
          subst hb'
          rw [← hj]
          simp [OptA.ser, joinNl]
        · cases h
      · cases h
      · cases h

theorem optA_no_panic (s : Text) : OptA.parse s ≠ .panic := by
  unfold OptA.parse
  split
  · simp
  · split
    · simp
    · rename_i hp; exact absurd hp (pid_no_panic _)
    · split
      · simp
      · split
        · split <;> simp
        · simp
        · rename_i hb; exact absurd hb (parseBic_no_panic _)
    · split
      · split <;> simp
      · simp
      · rename_i hb; exact absurd hb (parseBic_no_panic _)

/-- option C `/34x` -/
def Doc.PartyOnly (s : Text) : Prop := ∃ id, s = '/' :: id ∧ Doc.XText 34 id

theorem accepts_iff_optC (s : Text) : (OptC.parse s).isOk = true ↔ Doc.PartyOnly s := by
  unfold OptC.parse Doc.PartyOnly
  constructor
  · intro h
    split at h
    · rename_i id
      split at h
      · cases h
      · rename_i hlen
        split at h
        · rename_i hx
          simp only [Bool.or_eq_true, List.isEmpty_iff, decide_eq_true_eq, not_or, Nat.not_lt] at hlen
          refine ⟨id, rfl, ?_⟩
          have hne : id ≠ [] := hlen.1
          have := xtext_of_checks 34 id hlen.2 hne hx
          exact this
        · cases h
    · cases h
  · rintro ⟨id, rfl, hx⟩
    obtain ⟨h1, h2⟩ := checks_of_xtext 34 id hx
    have hne : id ≠ [] := by
      intro he; subst he; have := hx.1; simp at this
    simp [hne, h2, Nat.not_lt.mpr h1, Res.isOk]

theorem optC_reproduces (s id : Text) (h : OptC.parse s = .ok id) : OptC.ser id = s := by
  unfold OptC.parse at h
  split at h
  · split at h
    · cases h
    · split at h
      · cases h; rfl
      · cases h
  · cases h

theorem optC_no_panic (s : Text) : OptC.parse s ≠ .panic := by
  unfold OptC.parse
  repeat' split
  all_goals simp

theorem nameAddr_value (ls r : List Text) (k : Nat) (h : parseNameAndAddress ls k = .ok r) : r = ls.drop k := by
  unfold parseNameAndAddress at h
  simp only at h
  repeat (split at h; · cases h)
  cases h; rfl

theorem nameAddr_no_panic (ls : List Text) (k : Nat) : parseNameAndAddress ls k ≠ .panic := by
  unfold parseNameAndAddress
  simp only
  repeat (split; · simp)
  simp

/-- **Option D reproduces its input.** -/
theorem optD_reproduces (s : Text) (v : OptD) (h : OptD.parse s = .ok v) : OptD.ser v = s := by
  unfold OptD.parse at h
  have hj := joinNl_splitNl s
  split at h
  · cases h
  · rename_i l0 rest hsp
    rw [hsp] at hj
    split at h
    · cases h
    · cases h
    · rename_i p hp
      split at h
      · rename_i ls hl
        cases h
        have := nameAddr_value _ _ _ hl
        simp only [List.drop_succ_cons, List.drop_zero] at this
        subst this
        rw [← hj, pid_value l0 p hp]
        rfl
      · cases h
      · cases h
    · split at h
      · rename_i ls hl
        cases h
        have := nameAddr_value _ _ _ hl
        simp only [List.drop_zero] at this
        subst this
        rw [← hj]
        rfl
      · cases h
      · cases h

theorem optD_no_panic (s : Text) : OptD.parse s ≠ .panic := by
  unfold OptD.parse
  split
  · simp
  · split
    · simp
    · rename_i hp; exact absurd hp (pid_no_panic _)
    · split
      · simp
      · simp
      · rename_i hb; exact absurd hb (nameAddr_no_panic _ _)
    · split
      · simp
      · simp
      · rename_i hb; exact absurd hb (nameAddr_no_panic _ _)

/-- Non-vacuity -/
example : OptA.parse "/C/12345678\nDEUTDEFFXXX".toList = .ok ⟨some "C/12345678".toList, "DEUTDEFFXXX".toList⟩ := by decide
example : OptD.parse "//FW021000021\nBANK NAME\nCITY".toList = .ok ⟨some "/FW021000021".toList, ["BANK NAME".toList, "CITY".toList]⟩ := by decide
example : OptA.parse "/\nDEUTDEFF".toList = .err := by decide

/-! ### Customer / beneficiary fields: 50, 50C, 50L, 50G, 50H, 50K, 59, 59A, 51A — reproduce their input, never panic -/

theorem acctStrict_value (l a : Text) (h : acctStrict l = .ok a) : l = '/' :: a := by
  unfold acctStrict at h
  split at h
  · split at h
    · cases h
    · split at h
      · cases h; rfl
      · cases h
  · cases h

theorem acctStrict_no_panic (l : Text) : acctStrict l ≠ .panic := by
  unfold acctStrict
  repeat' split
  all_goals simp

theorem acctLenient_value (l a : Text) (h : acctLenient l = .ok (some a)) : l = '/' :: a := by
  unfold acctLenient at h
  split at h
  · split at h
    · cases h
    · split at h
      · split at h
        · cases h; rfl
        · cases h
      · cases h
  · cases h

theorem acctLenient_no_panic (l : Text) : acctLenient l ≠ .panic := by
  unfold acctLenient
  repeat' split
  all_goals simp

theorem f50_reproduces (s : Text) (v : List Text) (h : F50NoOption.parse s = .ok v) : joinNl v = s := by
  unfold F50NoOption.parse at h
  simp only at h
  split at h
  · cases h
  · split at h
    · cases h; exact joinNl_splitNl s
    · cases h

theorem f50L_reproduces (s v : Text) (h : F50L.parse s = .ok v) : v = s := by
  unfold F50L.parse at h
  repeat (split at h; · cases h)
  split at h
  · cases h; rfl
  · cases h

theorem f50G_reproduces (s : Text) (v : AcctBic) (h : F50G.parse s = .ok v) : F50G.ser v = s := by
  unfold F50G.parse at h
  have hj := joinNl_splitNl s
  split at h
  · rename_i l0 l1 hsp
    rw [hsp] at hj
    split at h
    · rename_i acc ha
      split at h
      · rename_i b hb
        cases h
        rw [← hj, acctStrict_value l0 acc ha, parseBic_value l1 b hb]
        rfl
      · cases h
      · cases h
    · cases h
    · cases h
  · cases h

theorem f50H_reproduces (s : Text) (v : AcctLines) (h : F50H.parse s = .ok v) : AcctLines.ser v = s := by
  unfold F50H.parse at h
  have hj := joinNl_splitNl s
  split at h
  · rename_i l0 l1 rest hsp
    rw [hsp] at hj
    split at h
    · rename_i acc ha
      split at h
      · cases h
      · split at h
        · cases h
        · cases h
          rw [← hj, acctStrict_value l0 acc ha]
          rfl
    · cases h
    · cases h
  · cases h

theorem f50K_reproduces (s : Text) (v : AcctLines) (h : F50K.parse s = .ok v) : AcctLines.ser v = s := by
  unfold F50K.parse at h
  have hj := joinNl_splitNl s
  split at h
  · cases h
  · rename_i l0 rest hsp
    rw [hsp] at hj
    split at h
    · split at h
      · rename_i acc ha
        split at h
        · rename_i ls hl
          cases h
          have := nameAddr_value _ _ _ hl
          simp only [List.drop_zero] at this
          subst this
          rw [← hj, acctStrict_value l0 acc ha]
          rfl
        · cases h
        · cases h
      · cases h
      · cases h
    · split at h
      · rename_i ls hl
        cases h
        have := nameAddr_value _ _ _ hl
        simp only [List.drop_zero] at this
        subst this
        rw [← hj]
        rfl
      · cases h
      · cases h

theorem f59_reproduces (s : Text) (v : AcctLines) (h : F59.parse s = .ok v) : AcctLines.ser v = s := by
  unfold F59.parse at h
  have hj := joinNl_splitNl s
  split at h
  · cases h
  · rename_i l0 rest hsp
    rw [hsp] at hj
    split at h
    · rename_i acc ha
      split at h
      · rename_i ls hl
        cases h
        have := nameAddr_value _ _ _ hl
        simp only [List.drop_zero] at this
        subst this
        rw [← hj, acctLenient_value l0 acc ha]
        rfl
      · cases h
      · cases h
    · split at h
      · rename_i ls hl
        cases h
        have := nameAddr_value _ _ _ hl
        simp only [List.drop_zero] at this
        subst this
        rw [← hj]
        rfl
      · cases h
      · cases h
    · cases h
    · cases h

theorem f59A_reproduces (s : Text) (v : OptAcctBic) (h : F59A.parse s = .ok v) : F59A.ser v = s := by
  unfold F59A.parse at h
  have hj := joinNl_splitNl s
  split at h
  · cases h
  · rename_i l0 rest hsp
    rw [hsp] at hj
    split at h
    · rename_i acc ha
      split at h
      · cases h
      · rename_i b rest'
        split at h
        · rename_i bic hb
          split at h
          · cases h
            rename_i hre
            have hr' : rest' = [] := by simpa using hre
            subst hr'
            rw [← hj, acctLenient_value l0 acc ha, parseBic_value b bic hb]
            simp [F59A.ser, joinNl]
          · cases h
        · cases h
        · cases h
    · split at h
      · rename_i bic hb
        split at h
        · cases h
          rename_i hre
          have hr' : rest = [] := by simpa using hre
          subst hr'
          rw [← hj, parseBic_value l0 bic hb]
          simp [F59A.ser, joinNl]
        · cases h
      · cases h
      · cases h
    · cases h
    · cases h

theorem customer_fields_no_panic (s : Text) :
    F50NoOption.parse s ≠ .panic ∧ F50L.parse s ≠ .panic ∧ F50G.parse s ≠ .panic ∧ F50H.parse s ≠ .panic ∧
    F50K.parse s ≠ .panic ∧ F59.parse s ≠ .panic ∧ F59A.parse s ≠ .panic := by
  refine ⟨?_, ?_, ?_, ?_, ?_, ?_, ?_⟩
  · unfold F50NoOption.parse; simp only; repeat' split
    all_goals simp
  · unfold F50L.parse; repeat' split
    all_goals simp
  · unfold F50G.parse
    repeat' split
    all_goals first | (rename_i hh; first | exact absurd hh (acctStrict_no_panic _) | exact absurd hh (parseBic_no_panic _)) | simp
  · unfold F50H.parse
    repeat' split
    all_goals first | (rename_i hh; exact absurd hh (acctStrict_no_panic _)) | simp
  · unfold F50K.parse
    repeat' split
    all_goals first | (rename_i hh; first | exact absurd hh (acctStrict_no_panic _) | exact absurd hh (nameAddr_no_panic _ _)) | simp
  · unfold F59.parse
    repeat' split
    all_goals first | (rename_i hh; first | exact absurd hh (acctLenient_no_panic _) | exact absurd hh (nameAddr_no_panic _ _)) | simp
  · unfold F59A.parse
    repeat' split
    all_goals first | (rename_i hh; first | exact absurd hh (acctLenient_no_panic _) | exact absurd hh (parseBic_no_panic _)) | simp

/-- Non-vacuity -/
example : F50K.parse "/12345678\nJOHN DOE\n1 MAIN ST".toList = .ok ⟨some "12345678".toList, ["JOHN DOE".toList, "1 MAIN ST".toList]⟩ := by decide
example : F59A.parse "/12345678\nCHASUS33".toList = .ok ⟨some "12345678".toList, "CHASUS33".toList⟩ := by decide
example : F50G.parse "12345678\nCHASUS33".toList = .err := by decide

/-! ### The BIC (`4!a2!a2!c[3!c]`, upper case) — the component shared by all option-A fields, 50C, 50G, 59A, 25P -/

def upperOrDigit (c : Char) : Bool := c.isUpper || c.isDigit

/-- institution (4 letters), country (2 letters), location (2 letters or digits), optional branch (3 letters or digits) -/
def Doc.Bic (t : Text) : Prop :=
  ∃ a b c d : Text, t = a ++ b ++ c ++ d ∧ a.length = 4 ∧ a.all Char.isUpper = true ∧ b.length = 2 ∧ b.all Char.isUpper = true ∧
    c.length = 2 ∧ c.all upperOrDigit = true ∧ (d = [] ∨ (d.length = 3 ∧ d.all upperOrDigit = true))

theorem upper_not_lower (c : Char) (h : c.isUpper = true) : c.isLower = false := by
  cases hl : c.isLower with
  | false => rfl
  | true =>
    simp only [Char.isUpper, Char.isLower, Bool.and_eq_true, decide_eq_true_eq, UInt32.le_iff_toNat_le] at h hl
    simp at h hl
    omega

theorem digit_not_lower (c : Char) (h : c.isDigit = true) : c.isLower = false := by
  cases hl : c.isLower with
  | false => rfl
  | true =>
    simp only [Char.isDigit, Char.isLower, Bool.and_eq_true, decide_eq_true_eq, UInt32.le_iff_toNat_le] at h hl
    simp at h hl
    omega

theorem upper_of_alpha (c : Char) (ha : c.isAlpha = true) (hl : c.isLower = false) : c.isUpper = true := by
  simp only [Char.isAlpha, Bool.or_eq_true] at ha
  rcases ha with h | h
  · exact h
  · rw [hl] at h; cases h

theorem upperOrDigit_of_alnum (c : Char) (ha : c.isAlphanum = true) (hl : c.isLower = false) : upperOrDigit c = true := by
  simp only [Char.isAlphanum, Bool.or_eq_true] at ha
  unfold upperOrDigit
  rcases ha with h | h
  · rw [upper_of_alpha c h hl]; rfl
  · rw [h]; simp

theorem upper_ascii (c : Char) (h : c.isUpper = true) : isAsciiC c = true :=
  alnum_ascii c (by simp [Char.isAlphanum, Char.isAlpha, h])
theorem upperOrDigit_ascii (c : Char) (h : upperOrDigit c = true) : isAsciiC c = true := by
  unfold upperOrDigit at h
  rcases Bool.or_eq_true _ _ |>.mp h with h | h
  · exact upper_ascii c h
  · exact alnum_ascii c (by simp [Char.isAlphanum, h])
theorem upperOrDigit_alnum (c : Char) (h : upperOrDigit c = true) : c.isAlphanum = true := by
  unfold upperOrDigit at h
  rcases Bool.or_eq_true _ _ |>.mp h with h | h
  · simp [Char.isAlphanum, Char.isAlpha, h]
  · simp [Char.isAlphanum, h]
theorem upperOrDigit_not_lower (c : Char) (h : upperOrDigit c = true) : c.isLower = false := by
  unfold upperOrDigit at h
  rcases Bool.or_eq_true _ _ |>.mp h with h | h
  · exact upper_not_lower c h
  · exact digit_not_lower c h

/-- **`parse_bic` accepts exactly the documented BIC format** and returns the text unchanged. -/
theorem accepts_iff_bic (t : Text) : (parseBic t).isOk = true ↔ Doc.Bic t := by
  constructor
  · intro h
    unfold parseBic at h
    split at h; · cases h
    rename_i hlen
    split at h; · cases h
    rename_i hasc
    split at h; · cases h
    rename_i h4
    split at h; · cases h
    rename_i h2
    split at h; · cases h
    rename_i h22
    split at h; · cases h
    rename_i h3
    simp only [Bool.or_eq_true, Bool.not_eq_true', Bool.not_or, Bool.and_eq_true, not_and] at hasc
    have hascii : isAsciiT t = true := by
      cases ha : isAsciiT t with
      | true => rfl
      | false => simp [ha] at hasc
    have hnolow : ∀ c ∈ t, c.isLower = false := by
      intro c hc
      cases hl : c.isLower with
      | false => rfl
      | true =>
        have : t.any Char.isLower = true := List.any_eq_true.mpr ⟨c, hc, hl⟩
        simp [hascii, this] at hasc
    have hbl := blen_ascii t hascii
    rw [hbl] at hlen h3
    have hl8 : t.length = 8 ∨ t.length = 11 := by
      simp only [Bool.and_eq_true, bne_iff_ne, ne_eq, not_and, Decidable.not_not] at hlen
      by_cases h8 : t.length = 8
      · exact Or.inl h8
      · exact Or.inr (hlen h8)
    have hdecomp : t = t.take 4 ++ (t.drop 4).take 2 ++ (t.drop 6).take 2 ++ t.drop 8 := by
      have e1 := (List.take_append_drop 4 t).symm
      have e2 := (List.take_append_drop 2 (t.drop 4)).symm
      have e3 := (List.take_append_drop 2 (t.drop 6)).symm
      have d1 : (t.drop 4).drop 2 = t.drop 6 := by rw [List.drop_drop]
      have d2 : (t.drop 6).drop 2 = t.drop 8 := by rw [List.drop_drop]
      rw [d1] at e2; rw [d2] at e3
      calc t = t.take 4 ++ t.drop 4 := e1
        _ = t.take 4 ++ ((t.drop 4).take 2 ++ t.drop 6) := by rw [← e2]
        _ = t.take 4 ++ ((t.drop 4).take 2 ++ ((t.drop 6).take 2 ++ t.drop 8)) := by rw [← e3]
        _ = _ := by simp [List.append_assoc]
    have mem_take : ∀ (l : Text) n c, c ∈ l.take n → c ∈ l := fun l n c h => List.mem_of_mem_take h
    have mem_drop : ∀ (l : Text) n c, c ∈ l.drop n → c ∈ l := fun l n c h => List.mem_of_mem_drop h
    refine ⟨t.take 4, (t.drop 4).take 2, (t.drop 6).take 2, t.drop 8, hdecomp, ?_, ?_, ?_, ?_, ?_, ?_, ?_⟩
    · rw [List.length_take]; rcases hl8 with h | h <;> omega
    · rw [List.all_eq_true]; intro c hc
      have ha : c.isAlpha = true := by
        have := (List.all_eq_true.mp (by simpa using h4)) c hc; exact this
      exact upper_of_alpha c ha (hnolow c (mem_take _ _ _ hc))
    · rw [List.length_take, List.length_drop]; rcases hl8 with h | h <;> omega
    · rw [List.all_eq_true]; intro c hc
      have ha : c.isAlpha = true := (List.all_eq_true.mp (by simpa using h2)) c hc
      exact upper_of_alpha c ha (hnolow c (mem_drop _ _ _ (mem_take _ _ _ hc)))
    · rw [List.length_take, List.length_drop]; rcases hl8 with h | h <;> omega
    · rw [List.all_eq_true]; intro c hc
      have ha : c.isAlphanum = true := (List.all_eq_true.mp (by simpa using h22)) c hc
      exact upperOrDigit_of_alnum c ha (hnolow c (mem_drop _ _ _ (mem_take _ _ _ hc)))
    · rcases hl8 with h8 | h11
      · left; apply List.eq_nil_of_length_eq_zero; rw [List.length_drop]; omega
      · right
        refine ⟨by rw [List.length_drop]; omega, ?_⟩
        rw [List.all_eq_true]; intro c hc
        have h3' : ((t.drop 8).take 3).all Char.isAlphanum = true := by
          simp only [Bool.and_eq_true, beq_iff_eq, Bool.not_eq_true', not_and, Bool.not_eq_false] at h3
          exact h3 h11
        have htk : (t.drop 8).take 3 = t.drop 8 := by
          apply List.take_of_length_le; rw [List.length_drop]; omega
        rw [htk] at h3'
        exact upperOrDigit_of_alnum c ((List.all_eq_true.mp h3') c hc) (hnolow c (mem_drop _ _ _ hc))
  · rintro ⟨a, b, c, d, rfl, ha, hau, hb, hbu, hc, hcu, hd⟩
    have hdl : d.length = 0 ∨ d.length = 3 := by
      rcases hd with h | h
      · left; rw [h]; rfl
      · right; exact h.1
    have hdu : d.all upperOrDigit = true := by
      rcases hd with h | h
      · rw [h]; rfl
      · exact h.2
    have hall : ∀ x ∈ a ++ b ++ c ++ d, upperOrDigit x = true := by
      intro x hx
      simp only [List.mem_append] at hx
      rcases hx with ((hx | hx) | hx) | hx
      · unfold upperOrDigit; rw [(List.all_eq_true.mp hau) x hx]; rfl
      · unfold upperOrDigit; rw [(List.all_eq_true.mp hbu) x hx]; rfl
      · exact (List.all_eq_true.mp hcu) x hx
      · exact (List.all_eq_true.mp hdu) x hx
    have hascii : isAsciiT (a ++ b ++ c ++ d) = true := by
      unfold isAsciiT; rw [List.all_eq_true]; intro x hx; exact upperOrDigit_ascii x (hall x hx)
    have hnl : (a ++ b ++ c ++ d).any Char.isLower = false := by
      cases hh : (a ++ b ++ c ++ d).any Char.isLower with
      | false => rfl
      | true =>
        obtain ⟨x, hx, hl⟩ := List.any_eq_true.mp hh
        rw [upperOrDigit_not_lower x (hall x hx)] at hl; cases hl
    have hlen : (a ++ b ++ c ++ d).length = 8 + d.length := by simp [List.length_append]; omega
    have t4 : (a ++ b ++ c ++ d).take 4 = a := by
      rw [List.append_assoc, List.append_assoc, ← ha, List.take_left']; rfl
    have d4 : (a ++ b ++ c ++ d).drop 4 = b ++ c ++ d := by
      rw [List.append_assoc, List.append_assoc, ← ha, List.drop_left']; simp; rfl
    have t42 : ((a ++ b ++ c ++ d).drop 4).take 2 = b := by
      rw [d4, List.append_assoc, ← hb, List.take_left']; rfl
    have d6 : (a ++ b ++ c ++ d).drop 6 = c ++ d := by
      have : (a ++ b ++ c ++ d).drop 6 = ((a ++ b ++ c ++ d).drop 4).drop 2 := by rw [List.drop_drop]
      rw [this, d4, List.append_assoc, ← hb, List.drop_left']; rfl
    have t62 : ((a ++ b ++ c ++ d).drop 6).take 2 = c := by
      rw [d6, ← hc, List.take_left']; rfl
    have d8 : (a ++ b ++ c ++ d).drop 8 = d := by
      have : (a ++ b ++ c ++ d).drop 8 = ((a ++ b ++ c ++ d).drop 6).drop 2 := by rw [List.drop_drop]
      rw [this, d6, ← hc, List.drop_left']; rfl
    unfold parseBic
    rw [blen_ascii _ hascii, hlen, hascii, hnl, t4, t42, t62, d8]
    have a4 : a.all Char.isAlpha = true := by
      rw [List.all_eq_true]; intro x hx; simp [Char.isAlpha, (List.all_eq_true.mp hau) x hx]
    have b2 : b.all Char.isAlpha = true := by
      rw [List.all_eq_true]; intro x hx; simp [Char.isAlpha, (List.all_eq_true.mp hbu) x hx]
    have c2 : c.all Char.isAlphanum = true := by
      rw [List.all_eq_true]; intro x hx; exact upperOrDigit_alnum x ((List.all_eq_true.mp hcu) x hx)
    have d3 : (d.take 3).all Char.isAlphanum = true := by
      rw [List.all_eq_true]; intro x hx; exact upperOrDigit_alnum x ((List.all_eq_true.mp hdu) x (List.mem_of_mem_take hx))
    rcases hdl with h0 | h3
    · simp [h0, a4, b2, c2, d3, Res.isOk]
    · simp [h3, a4, b2, c2, d3, Res.isOk]

/-- Non-vacuity -/
example : Doc.Bic "DEUTDEFF".toList := ⟨"DEUT".toList, "DE".toList, "FF".toList, [], by decide⟩

/-! ### The party identifier line `[/1!a][/34x]` in the three spellings the library documents -/

/-- `//34x` (national clearing codes), `/c/34x` or `/cc/34x` (a one- or two-character code), `/34x` (an account) -/
def Doc.PartyId (l : Text) : Prop :=
  (∃ sp, l = '/' :: '/' :: sp ∧ Doc.XText 34 sp) ∨
  (∃ code id, l = '/' :: code ++ '/' :: id ∧ 1 ≤ code.length ∧ code.length ≤ 2 ∧ code.all Char.isAlphanum = true ∧
    id.length ≤ 34 ∧ id.all isSwiftX = true) ∨
  (∃ r, l = '/' :: r ∧ Doc.XText 34 r ∧ '/' ∉ r)

theorem alnum_not_slash (c : Char) (h : c.isAlphanum = true) : c ≠ '/' := by
  intro he; subst he; revert h; decide

theorem all_alnum_ascii (t : Text) (h : t.all Char.isAlphanum = true) : isAsciiT t = true := by
  unfold isAsciiT; rw [List.all_eq_true] at *; intro c hc; exact alnum_ascii c (h c hc)

theorem alpha_alnum (t : Text) (h : t.all Char.isAlpha = true) : t.all Char.isAlphanum = true := by
  rw [List.all_eq_true] at *; intro c hc; simp [Char.isAlphanum, h c hc]

theorem findChar_ne_none_of_mem (ch : Char) (t : Text) (hm : ch ∈ t) : findChar ch t ≠ none := by
  induction t with
  | nil => cases hm
  | cons a r ih =>
    simp only [findChar]
    split
    · simp
    · rename_i hne
      rcases List.mem_cons.mp hm with he | hm'
      · subst he; simp at hne
      · cases hfr : findChar ch r with
        | none => exact absurd hfr (ih hm')
        | some k => simp

theorem pid_accepts_iff (l : Text) : (∃ p, parsePartyIdentifier l = .ok (some p)) ↔ Doc.PartyId l := by
  constructor
  · rintro ⟨p, h⟩
    unfold parsePartyIdentifier at h
    split at h
    · rename_i special
      unfold pidSpecial at h
      split at h
      · rename_i hc
        split at h
        · rename_i hx
          simp only [Bool.and_eq_true, Bool.not_eq_true', List.isEmpty_eq_false_iff, decide_eq_true_eq] at hc
          exact Or.inl ⟨special, rfl, xtext_of_checks 34 special hc.2 hc.1 hx⟩
        · cases h
      · cases h
    · rename_i rem hns
      split at h
      · rename_i pos hf
        obtain ⟨hs, hnsl⟩ := findChar_split hf
        unfold pidCoded at h
        split at h
        · rename_i hcond
          split at h
          · cases h
          · rename_i hlen
            split at h
            · rename_i hx
              refine Or.inr (Or.inl ⟨rem.take pos, rem.drop (pos + 1), by rw [List.cons_append]; exact congrArg _ hs, ?_⟩)
              have halnum : (rem.take pos).all Char.isAlphanum = true ∧ 1 ≤ blen (rem.take pos) ∧ blen (rem.take pos) ≤ 2 := by
                simp only [Bool.or_eq_true, Bool.and_eq_true, beq_iff_eq, decide_eq_true_eq] at hcond
                rcases hcond with ⟨h1, h2⟩ | ⟨⟨h1, h2⟩, h3⟩
                · exact ⟨alpha_alnum _ h2, by omega, by omega⟩
                · exact ⟨h3, h1, h2⟩
              have hb := blen_ascii _ (all_alnum_ascii _ halnum.1)
              have hidl : (rem.drop (pos + 1)).length ≤ 34 := by
                have := length_le_blen (rem.drop (pos + 1)); omega
              exact ⟨by omega, by omega, halnum.1, hidl, hx⟩
            · cases h
        · cases h
      · rename_i hf
        unfold pidPlain at h
        split at h
        · rename_i hc
          split at h
          · rename_i hx
            simp only [Bool.and_eq_true, Bool.not_eq_true', List.isEmpty_eq_false_iff, decide_eq_true_eq] at hc
            refine Or.inr (Or.inr ⟨rem, rfl, xtext_of_checks 34 rem hc.2 hc.1 hx, ?_⟩)
            intro hm
            exact findChar_ne_none_of_mem '/' rem hm hf
          · cases h
        · cases h
    · cases h
  · intro hdoc
    rcases hdoc with ⟨sp, rfl, hx⟩ | ⟨code, id, rfl, h1, h2, halnum, hidl, hidx⟩ | ⟨r, rfl, hx, hns⟩
    · obtain ⟨hl, hall⟩ := checks_of_xtext 34 sp hx
      have hne : sp ≠ [] := by intro he; subst he; have := hx.1; simp at this
      refine ⟨'/' :: sp, ?_⟩
      simp [parsePartyIdentifier, pidSpecial, hne, hl, hall]
    · have hasc := all_alnum_ascii code halnum
      have hbl := blen_ascii code hasc
      have hidasc := all_swiftX_ascii id hidx
      have hidbl := blen_ascii id hidasc
      have hnsl : ∀ c ∈ code, c ≠ '/' := fun c hc => alnum_not_slash c ((List.all_eq_true.mp halnum) c hc)
      have hf : findChar '/' (code ++ '/' :: id) = some code.length := by
        exact findChar_append code id hnsl
      refine ⟨code ++ '/' :: id, ?_⟩
      cases code with
      | nil => simp at h1
      | cons c0 cr =>
        have hc0 : c0 ≠ '/' := hnsl c0 (by simp)
        unfold parsePartyIdentifier
        split
        · rename_i special heq
          simp only [List.cons_append, List.cons.injEq, true_and] at heq
          exact absurd heq.1 hc0
        · rename_i rem hns heq
          simp only [List.cons_append, List.cons.injEq, true_and] at heq
          subst heq
          have hf' : findChar '/' (c0 :: (cr ++ '/' :: id)) = some (c0 :: cr).length := by simpa using hf
          have htk : (c0 :: (cr ++ '/' :: id)).take (c0 :: cr).length = c0 :: cr := by
            rw [show c0 :: (cr ++ '/' :: id) = (c0 :: cr) ++ '/' :: id by simp, List.take_left']; rfl
          have hdr : (c0 :: (cr ++ '/' :: id)).drop ((c0 :: cr).length + 1) = id := by
            rw [show c0 :: (cr ++ '/' :: id) = ((c0 :: cr) ++ ['/']) ++ id by simp,
                show (c0 :: cr).length + 1 = ((c0 :: cr) ++ ['/']).length by simp, List.drop_left']; rfl
          have hc2 : (decide (1 ≤ (c0 :: cr).length) && decide ((c0 :: cr).length ≤ 2) && (c0 :: cr).all Char.isAlphanum) = true := by
            simp only [Bool.and_eq_true, decide_eq_true_eq]; exact ⟨⟨h1, h2⟩, halnum⟩
          have hpc : pidCoded (c0 :: (cr ++ '/' :: id)) (c0 :: cr).length = .ok (some (c0 :: cr ++ '/' :: id)) := by
            unfold pidCoded
            rw [htk, hdr, hbl, hidbl]
            simp only [hc2, Bool.or_true, if_true]
            have : ¬ id.length > 34 := by omega
            simp [this, hidx]
          rw [hf']
          exact hpc
        · rename_i hne
          exact absurd rfl (hne _)
    · obtain ⟨hl, hall⟩ := checks_of_xtext 34 r hx
      have hne : r ≠ [] := by intro he; subst he; have := hx.1; simp at this
      have hnf : findChar '/' r = none := findChar_none r (fun c hc he => hns (he ▸ hc))
      refine ⟨r, ?_⟩
      cases r with
      | nil => exact absurd rfl hne
      | cons c0 cr =>
        have hc0 : c0 ≠ '/' := fun he => hns (by simp [he])
        unfold parsePartyIdentifier
        split
        · rename_i special heq
          simp only [List.cons.injEq, true_and] at heq
          exact absurd heq.1 hc0
        · rename_i rem hnsp heq
          simp only [List.cons.injEq, true_and] at heq
          subst heq
          rw [hnf]
          simp [pidPlain, hl, hall]
        · rename_i hne'
          exact absurd rfl (hne' _)

/-- Non-vacuity: the three spellings -/
example : Doc.PartyId "//FW021000021".toList := Or.inl ⟨"FW021000021".toList, rfl, by decide, by decide, by decide⟩
example : parsePartyIdentifier "/C/12345".toList = .ok (some "C/12345".toList) := by decide

/-! ### Option A accepts exactly `[party identifier line] BIC` -/

/-- 52A, 53A, 54A, 55A, 56A, 57A, 58A: an optional party-identifier line, then a BIC -/
def Doc.OptionA (s : Text) : Prop := Doc.Bic s ∨ ∃ l b, s = l ++ '\n' :: b ∧ Doc.PartyId l ∧ Doc.Bic b

theorem bic_chars (t : Text) (h : Doc.Bic t) : ∀ c ∈ t, upperOrDigit c = true := by
  obtain ⟨a, b, c, d, rfl, _, hau, _, hbu, _, hcu, hd⟩ := h
  have hdu : d.all upperOrDigit = true := by
    rcases hd with h | h
    · rw [h]; rfl
    · exact h.2
  intro x hx
  simp only [List.mem_append] at hx
  rcases hx with ((hx | hx) | hx) | hx
  · unfold upperOrDigit; rw [(List.all_eq_true.mp hau) x hx]; rfl
  · unfold upperOrDigit; rw [(List.all_eq_true.mp hbu) x hx]; rfl
  · exact (List.all_eq_true.mp hcu) x hx
  · exact (List.all_eq_true.mp hdu) x hx

theorem upperOrDigit_not_nl_slash (c : Char) (h : upperOrDigit c = true) : c ≠ '\n' ∧ c ≠ '/' := by
  constructor <;> (intro he; subst he; revert h; decide)

theorem bic_head_not_slash (t : Text) (h : Doc.Bic t) : t.head? ≠ some '/' := by
  intro hh
  cases t with
  | nil => cases hh
  | cons a r =>
    simp only [List.head?_cons, Option.some.injEq] at hh
    exact (upperOrDigit_not_nl_slash a (bic_chars _ h a (by simp))).2 hh

theorem pid_none_of_head (l : Text) (h : l.head? ≠ some '/') : parsePartyIdentifier l = .ok none := by
  unfold parsePartyIdentifier
  split
  · simp at h
  · simp at h
  · rfl

theorem partyId_no_nl (l : Text) (h : Doc.PartyId l) : ∀ c ∈ l, c ≠ '\n' := by
  intro c hc
  rcases h with ⟨sp, rfl, hx⟩ | ⟨code, id, rfl, _, _, halnum, _, hidx⟩ | ⟨r, rfl, hx, _⟩
  · simp only [List.mem_cons] at hc
    rcases hc with rfl | rfl | hc
    · decide
    · decide
    · exact swiftX_not_nl c (hx.2.2 c hc)
  · simp only [List.cons_append, List.mem_cons, List.mem_append] at hc
    rcases hc with rfl | hc | rfl | hc
    · decide
    · intro he; subst he; have := (List.all_eq_true.mp halnum) _ hc; revert this; decide
    · decide
    · exact swiftX_not_nl c ((List.all_eq_true.mp hidx) c hc)
  · simp only [List.mem_cons] at hc
    rcases hc with rfl | hc
    · decide
    · exact swiftX_not_nl c (hx.2.2 c hc)

theorem accepts_iff_optA (s : Text) : (OptA.parse s).isOk = true ↔ Doc.OptionA s := by
  constructor
  · intro h
    unfold OptA.parse at h
    have hj := joinNl_splitNl s
    split at h
    · cases h
    · rename_i l0 rest hsp
      rw [hsp] at hj
      split at h
      · cases h
      · cases h
      · rename_i p hp
        split at h
        · cases h
        · rename_i b rest'
          split at h
          · rename_i bic hb
            split at h
            · rename_i hre
              have hr' : rest' = [] := by simpa using hre
              subst hr'
              refine Or.inr ⟨l0, b, ?_, (pid_accepts_iff l0).mp ⟨p, hp⟩, (accepts_iff_bic b).mp (by rw [hb]; rfl)⟩
              rw [← hj]; rfl
            · cases h
          · cases h
          · cases h
      · rename_i hp
        split at h
        · rename_i bic hb
          split at h
          · rename_i hre
            have hr' : rest = [] := by simpa using hre
            subst hr'
            refine Or.inl ?_
            have : s = l0 := by rw [← hj]; rfl
            rw [this]
            exact (accepts_iff_bic l0).mp (by rw [hb]; rfl)
          · cases h
        · cases h
        · cases h
  · intro h
    rcases h with hb | ⟨l, b, rfl, hl, hb⟩
    · have hnonl : ∀ c ∈ s, c ≠ '\n' := fun c hc => (upperOrDigit_not_nl_slash c (bic_chars s hb c hc)).1
      have hok := (accepts_iff_bic s).mpr hb
      unfold OptA.parse
      rw [splitNl_no_nl s hnonl]
      simp only [pid_none_of_head s (bic_head_not_slash s hb)]
      cases hp : parseBic s with
      | ok bic => simp [Res.isOk]
      | err => rw [hp] at hok; cases hok
      | panic => rw [hp] at hok; cases hok
    · have hnl := partyId_no_nl l hl
      have hbnl : ∀ c ∈ b, c ≠ '\n' := fun c hc => (upperOrDigit_not_nl_slash c (bic_chars b hb c hc)).1
      obtain ⟨p, hp⟩ := (pid_accepts_iff l).mpr hl
      have hok := (accepts_iff_bic b).mpr hb
      unfold OptA.parse
      rw [splitNl_append_nl l b hnl, splitNl_no_nl b hbnl]
      simp only [hp]
      cases hpb : parseBic b with
      | ok bic => simp [Res.isOk]
      | err => rw [hpb] at hok; cases hok
      | panic => rw [hpb] at hok; cases hok

/-- 50C: a BIC and nothing else (the registry entry is `parseBic` itself) -/
theorem accepts_iff_50C (s : Text) : (parseBic s).isOk = true ↔ Doc.Bic s := accepts_iff_bic s

/-! ### Name-and-address blocks `4*35x` and the fields built on them (option D, 50K, 59, 50H, 50) -/

/-- 1..4 lines of 1..35 x-characters -/
def Doc.NameLines (ls : List Text) : Prop := 1 ≤ ls.length ∧ ls.length ≤ 4 ∧ ∀ l ∈ ls, Doc.XText 35 l

theorem nameLineOk_iff (l : Text) : nameLineOk l = true ↔ Doc.XText 35 l := by
  unfold nameLineOk
  constructor
  · intro h
    simp only [Bool.and_eq_true, decide_eq_true_eq, Bool.not_eq_true', List.isEmpty_eq_false_iff] at h
    exact xtext_of_checks 35 l h.1.1 h.1.2 h.2
  · intro h
    obtain ⟨h1, h2, h3⟩ := checks_of_xtext 35 l h
    simp [h1, h2, h3]

theorem nameAddr_accepts_iff (ls : List Text) : (parseNameAndAddress ls 0).isOk = true ↔ Doc.NameLines ls := by
  unfold parseNameAndAddress Doc.NameLines
  simp only [List.drop_zero]
  constructor
  · intro h
    split at h; · cases h
    rename_i hall
    split at h; · cases h
    rename_i hne
    split at h; · cases h
    rename_i hlen
    simp only [Bool.not_eq_true', Bool.not_eq_false] at hall
    refine ⟨?_, by omega, fun l hl => (nameLineOk_iff l).mp ((List.all_eq_true.mp hall) l hl)⟩
    cases ls with
    | nil => simp at hne
    | cons _ _ => simp
  · rintro ⟨h1, h2, h3⟩
    have hall : ls.all nameLineOk = true := List.all_eq_true.mpr (fun l hl => (nameLineOk_iff l).mpr (h3 l hl))
    have hne : ls.isEmpty = false := by cases ls with
      | nil => simp at h1
      | cons _ _ => rfl
    have : ¬ ls.length > 4 := by omega
    simp [hall, hne, this, Res.isOk]

theorem nameLines_no_nl (ls : List Text) (h : Doc.NameLines ls) : ∀ l ∈ ls, ∀ c ∈ l, c ≠ '\n' :=
  fun l hl c hc => swiftX_not_nl c ((h.2.2 l hl).2.2 c hc)

/-- 52D, 54D, 55D, 56D, 57D, 58D: name-and-address lines, optionally preceded by a party-identifier line; a first line
that starts with a slash must be a party identifier -/
def Doc.OptionD (s : Text) : Prop :=
  (∃ ls, s = joinNl ls ∧ Doc.NameLines ls ∧ (ls.head?.bind List.head?) ≠ some '/') ∨
  (∃ l ls, s = joinNl (l :: ls) ∧ Doc.PartyId l ∧ Doc.NameLines ls)

theorem partyId_head (l : Text) (h : Doc.PartyId l) : l.head? = some '/' := by
  rcases h with ⟨_, rfl, _⟩ | ⟨_, _, rfl, _⟩ | ⟨_, rfl, _⟩ <;> rfl

theorem accepts_iff_optD (s : Text) : (OptD.parse s).isOk = true ↔ Doc.OptionD s := by
  constructor
  · intro h
    unfold OptD.parse at h
    have hj := joinNl_splitNl s
    split at h
    · cases h
    · rename_i l0 rest hsp
      rw [hsp] at hj
      split at h
      · cases h
      · cases h
      · rename_i p hp
        split at h
        · rename_i ls hl
          refine Or.inr ⟨l0, rest, hj.symm, (pid_accepts_iff l0).mp ⟨p, hp⟩, ?_⟩
          apply (nameAddr_accepts_iff rest).mp
          have : parseNameAndAddress (l0 :: rest) 1 = parseNameAndAddress rest 0 := by
            unfold parseNameAndAddress; simp
          rw [← this, hl]; rfl
        · cases h
        · cases h
      · rename_i hp
        split at h
        · rename_i ls hl
          refine Or.inl ⟨l0 :: rest, hj.symm, (nameAddr_accepts_iff _).mp (by rw [hl]; rfl), ?_⟩
          simp only [List.head?_cons, Option.bind_some]
          exact pid_none l0 hp
        · cases h
        · cases h
  · intro h
    rcases h with ⟨ls, rfl, hn, hh⟩ | ⟨l, ls, rfl, hl, hn⟩
    · have hne : ls ≠ [] := by intro he; subst he; have := hn.1; simp at this
      have hsp := splitNl_joinNl ls hne (nameLines_no_nl ls hn)
      cases ls with
      | nil => exact absurd rfl hne
      | cons l0 rest =>
        simp only [List.head?_cons, Option.bind_some] at hh
        have hok := (nameAddr_accepts_iff (l0 :: rest)).mpr hn
        unfold OptD.parse
        rw [hsp]
        simp only [pid_none_of_head l0 hh]
        cases hp : parseNameAndAddress (l0 :: rest) 0 with
        | ok v => simp [Res.isOk]
        | err => rw [hp] at hok; cases hok
        | panic => rw [hp] at hok; cases hok
    · obtain ⟨p, hp⟩ := (pid_accepts_iff l).mpr hl
      have hlnl := partyId_no_nl l hl
      have hsp := splitNl_joinNl (l :: ls) (by simp) (by
        intro x hx
        rcases List.mem_cons.mp hx with rfl | hx
        · exact hlnl
        · exact nameLines_no_nl ls hn x hx)
      have hok := (nameAddr_accepts_iff ls).mpr hn
      have h1 : parseNameAndAddress (l :: ls) 1 = parseNameAndAddress ls 0 := by
        unfold parseNameAndAddress; simp
      unfold OptD.parse
      rw [hsp]
      simp only [hp, h1]
      cases hpn : parseNameAndAddress ls 0 with
      | ok v => simp [Res.isOk]
      | err => rw [hpn] at hok; cases hok
      | panic => rw [hpn] at hok; cases hok

/-- 50 (no option): exactly `4*35x` -/
theorem accepts_iff_50 (s : Text) : (F50NoOption.parse s).isOk = true ↔ ∃ ls, s = joinNl ls ∧ Doc.NameLines ls := by
  unfold F50NoOption.parse
  simp only
  constructor
  · intro h
    split at h; · cases h
    rename_i hlen
    split at h
    · rename_i hall
      refine ⟨splitNl s, (joinNl_splitNl s).symm, ?_, by omega, fun l hl => (nameLineOk_iff l).mp ((List.all_eq_true.mp hall) l hl)⟩
      have := splitNl_ne_nil s
      cases hs : splitNl s with
      | nil => exact absurd hs this
      | cons _ _ => simp
    · cases h
  · rintro ⟨ls, rfl, hn⟩
    have hne : ls ≠ [] := by intro he; subst he; have := hn.1; simp at this
    rw [splitNl_joinNl ls hne (nameLines_no_nl ls hn)]
    have hall : ls.all nameLineOk = true := List.all_eq_true.mpr (fun l hl => (nameLineOk_iff l).mpr (hn.2.2 l hl))
    have : ¬ ls.length > 4 := by have := hn.2.1; omega
    simp [this, hall, Res.isOk]

/-! ### option B (52B, 54B, 55B, 57B): reproduces its input, never panics -/

theorem optB_reproduces (s : Text) (v : OptB) (h : OptB.parse s = .ok v) : OptB.ser v = s := by
  unfold OptB.parse at h
  split at h
  · rename_i he
    cases h
    have : s = [] := by simpa using he
    subst this; rfl
  · have hj := joinNl_splitNl s
    split at h
    · cases h
    · rename_i l0 rest hsp
      rw [hsp] at hj
      split at h
      · cases h
      · cases h
      · rename_i p hp
        have hl0 := pid_value l0 p hp
        split at h
        · cases h; rw [← hj, hl0]; rfl
        · rename_i loc
          split at h; · cases h
          split at h; · cases h
          split at h
          · cases h; rw [← hj, hl0]; rfl
          · cases h
        · cases h
      · split at h; · cases h
        rename_i hre
        have hr' : rest = [] := by simpa using hre
        subst hr'
        split at h; · cases h
        split at h
        · rename_i he
          cases h
          have : l0 = [] := by simpa using he
          subst this
          rw [← hj]; rfl
        · split at h
          · cases h; rw [← hj]; rfl
          · cases h

theorem optB_no_panic (s : Text) : OptB.parse s ≠ .panic := by
  unfold OptB.parse
  repeat' split
  all_goals first | (rename_i hh; exact absurd hh (pid_no_panic _)) | simp

/-! ### 50K and 50H: `[/34x]` account line + `4*35x` -/

/-- `/` followed by 1..34 x-characters -/
def Doc.AccountLine (l : Text) : Prop := ∃ a, l = '/' :: a ∧ Doc.XText 34 a

theorem acctStrict_iff (l : Text) : (acctStrict l).isOk = true ↔ Doc.AccountLine l := by
  unfold acctStrict Doc.AccountLine
  constructor
  · intro h
    split at h
    · rename_i acc
      split at h; · cases h
      rename_i hc
      split at h
      · rename_i hx
        simp only [Bool.or_eq_true, List.isEmpty_iff, decide_eq_true_eq, not_or, Nat.not_lt] at hc
        exact ⟨acc, rfl, xtext_of_checks 34 acc hc.2 hc.1 hx⟩
      · cases h
    · cases h
  · rintro ⟨a, rfl, hx⟩
    obtain ⟨h1, h2, h3⟩ := checks_of_xtext 34 a hx
    simp [h2, h3, Nat.not_lt.mpr h1, Res.isOk]

theorem accountLine_no_nl (l : Text) (h : Doc.AccountLine l) : ∀ c ∈ l, c ≠ '\n' := by
  obtain ⟨a, rfl, hx⟩ := h
  intro c hc
  rcases List.mem_cons.mp hc with rfl | hc
  · decide
  · exact swiftX_not_nl c (hx.2.2 c hc)

/-- 50K: name-and-address lines, optionally preceded by an account line; a first line that starts with a slash must be
an account line -/
def Doc.F50K (s : Text) : Prop :=
  (∃ ls, s = joinNl ls ∧ Doc.NameLines ls ∧ (ls.head?.bind List.head?) ≠ some '/') ∨
  (∃ l ls, s = joinNl (l :: ls) ∧ Doc.AccountLine l ∧ Doc.NameLines ls)

theorem accepts_iff_50K (s : Text) : (F50K.parse s).isOk = true ↔ Doc.F50K s := by
  constructor
  · intro h
    unfold F50K.parse at h
    have hj := joinNl_splitNl s
    split at h
    · cases h
    · rename_i l0 rest hsp
      rw [hsp] at hj
      split at h
      · rename_i hsl
        split at h
        · rename_i acc ha
          split at h
          · rename_i ls hl
            refine Or.inr ⟨l0, rest, hj.symm, (acctStrict_iff l0).mp (by rw [ha]; rfl), (nameAddr_accepts_iff rest).mp (by rw [hl]; rfl)⟩
          · cases h
          · cases h
        · cases h
        · cases h
      · rename_i hsl
        split at h
        · rename_i ls hl
          refine Or.inl ⟨l0 :: rest, hj.symm, (nameAddr_accepts_iff _).mp (by rw [hl]; rfl), ?_⟩
          simp only [List.head?_cons, Option.bind_some]
          intro hh
          apply hsl
          simp [hh]
        · cases h
        · cases h
  · intro h
    rcases h with ⟨ls, rfl, hn, hh⟩ | ⟨l, ls, rfl, hl, hn⟩
    · have hne : ls ≠ [] := by intro he; subst he; have := hn.1; simp at this
      have hsp := splitNl_joinNl ls hne (nameLines_no_nl ls hn)
      cases ls with
      | nil => exact absurd rfl hne
      | cons l0 rest =>
        simp only [List.head?_cons, Option.bind_some] at hh
        have hok := (nameAddr_accepts_iff (l0 :: rest)).mpr hn
        have hnot : (l0.head? == some '/') = false := by
          cases hb : (l0.head? == some '/') with
          | false => rfl
          | true => exact absurd (by simpa using hb) hh
        unfold F50K.parse
        rw [hsp]
        simp only [hnot, Bool.false_eq_true, if_false]
        cases hp : parseNameAndAddress (l0 :: rest) 0 with
        | ok v => simp [Res.isOk]
        | err => rw [hp] at hok; cases hok
        | panic => rw [hp] at hok; cases hok
    · have hlnl := accountLine_no_nl l hl
      have hsp := splitNl_joinNl (l :: ls) (by simp) (by
        intro x hx
        rcases List.mem_cons.mp hx with rfl | hx
        · exact hlnl
        · exact nameLines_no_nl ls hn x hx)
      have hacc := (acctStrict_iff l).mpr hl
      have hok := (nameAddr_accepts_iff ls).mpr hn
      have hhead : (l.head? == some '/') = true := by
        obtain ⟨a, rfl, _⟩ := hl; rfl
      unfold F50K.parse
      rw [hsp]
      simp only [hhead, if_true]
      cases ha : acctStrict l with
      | ok acc =>
        simp only
        cases hpn : parseNameAndAddress ls 0 with
        | ok v => simp [Res.isOk]
        | err => rw [hpn] at hok; cases hok
        | panic => rw [hpn] at hok; cases hok
      | err => rw [ha] at hacc; cases hacc
      | panic => rw [ha] at hacc; cases hacc

/-! ### 50G `/34x` + BIC and 50H `/34x` + `4*35x` -/

theorem accepts_iff_50G (s : Text) :
    (F50G.parse s).isOk = true ↔ ∃ l b, s = l ++ '\n' :: b ∧ Doc.AccountLine l ∧ Doc.Bic b := by
  constructor
  · intro h
    unfold F50G.parse at h
    have hj := joinNl_splitNl s
    split at h
    · rename_i l0 l1 hsp
      rw [hsp] at hj
      split at h
      · rename_i acc ha
        split at h
        · rename_i b hb
          exact ⟨l0, l1, hj.symm, (acctStrict_iff l0).mp (by rw [ha]; rfl), (accepts_iff_bic l1).mp (by rw [hb]; rfl)⟩
        · cases h
        · cases h
      · cases h
      · cases h
    · cases h
  · rintro ⟨l, b, rfl, hl, hb⟩
    have hlnl := accountLine_no_nl l hl
    have hbnl : ∀ c ∈ b, c ≠ '\n' := fun c hc => (upperOrDigit_not_nl_slash c (bic_chars b hb c hc)).1
    have hacc := (acctStrict_iff l).mpr hl
    have hok := (accepts_iff_bic b).mpr hb
    unfold F50G.parse
    rw [splitNl_append_nl l b hlnl, splitNl_no_nl b hbnl]
    cases ha : acctStrict l with
    | ok acc =>
      cases hpb : parseBic b with
      | ok bic => simp [ha, hpb, Res.isOk]
      | err => rw [hpb] at hok; cases hok
      | panic => rw [hpb] at hok; cases hok
    | err => rw [ha] at hacc; cases hacc
    | panic => rw [ha] at hacc; cases hacc

theorem accepts_iff_50H (s : Text) :
    (F50H.parse s).isOk = true ↔ ∃ l ls, s = joinNl (l :: ls) ∧ Doc.AccountLine l ∧ Doc.NameLines ls := by
  constructor
  · intro h
    unfold F50H.parse at h
    have hj := joinNl_splitNl s
    split at h
    · rename_i l0 l1 rest hsp
      rw [hsp] at hj
      split at h
      · rename_i acc ha
        split at h; · cases h
        rename_i hall
        split at h; · cases h
        rename_i hlen
        refine ⟨l0, l1 :: rest, hj.symm, (acctStrict_iff l0).mp (by rw [ha]; rfl), ?_, by omega, ?_⟩
        · simp
        · intro x hx
          simp only [Bool.not_eq_true', Bool.not_eq_false] at hall
          exact (nameLineOk_iff x).mp ((List.all_eq_true.mp hall) x hx)
      · cases h
      · cases h
    · cases h
  · rintro ⟨l, ls, rfl, hl, hn⟩
    have hne : ls ≠ [] := by intro he; subst he; have := hn.1; simp at this
    have hlnl := accountLine_no_nl l hl
    have hsp := splitNl_joinNl (l :: ls) (by simp) (by
      intro x hx
      rcases List.mem_cons.mp hx with rfl | hx
      · exact hlnl
      · exact nameLines_no_nl ls hn x hx)
    have hacc := (acctStrict_iff l).mpr hl
    cases ls with
    | nil => exact absurd rfl hne
    | cons l1 rest =>
      have hall : (l1 :: rest).all nameLineOk = true := List.all_eq_true.mpr (fun x hx => (nameLineOk_iff x).mpr (hn.2.2 x hx))
      have hlen : ¬ (l1 :: rest).length > 4 := by have := hn.2.1; omega
      have hlen' : ¬ (4 < rest.length + 1) := by simpa using hlen
      unfold F50H.parse
      rw [hsp]
      cases ha : acctStrict l with
      | ok acc => simp [ha, hall, hlen', Res.isOk]
      | err => rw [ha] at hacc; cases hacc
      | panic => rw [ha] at hacc; cases hacc

/-! ### 59 and 59A: the account line is `/` + 1..34 x; a longer `/…` line is not an account (and then fails as a name line / BIC) -/

theorem acctLenient_some_iff (l : Text) : (∃ a, acctLenient l = .ok (some a)) ↔ Doc.AccountLine l := by
  unfold acctLenient Doc.AccountLine
  constructor
  · rintro ⟨a, h⟩
    split at h
    · rename_i id
      split at h; · cases h
      rename_i hne
      split at h
      · rename_i hlen
        split at h
        · rename_i hx
          cases h
          exact ⟨a, rfl, xtext_of_checks 34 a hlen (by simpa using hne) hx⟩
        · cases h
      · cases h
    · cases h
  · rintro ⟨a, rfl, hx⟩
    obtain ⟨h1, h2, h3⟩ := checks_of_xtext 34 a hx
    exact ⟨a, by simp [h1, h2, h3]⟩

/-- 59A: `[account line] BIC` -/
theorem accepts_59A_of_doc (s : Text) (h : Doc.Bic s ∨ ∃ l b, s = l ++ '\n' :: b ∧ Doc.AccountLine l ∧ Doc.Bic b) :
    (F59A.parse s).isOk = true := by
  rcases h with hb | ⟨l, b, rfl, hl, hb⟩
  · have hnonl : ∀ c ∈ s, c ≠ '\n' := fun c hc => (upperOrDigit_not_nl_slash c (bic_chars s hb c hc)).1
    have hok := (accepts_iff_bic s).mpr hb
    have hhead := bic_head_not_slash s hb
    have hnone : acctLenient s = .ok none := by
      unfold acctLenient
      split
      · simp at hhead
      · rfl
    unfold F59A.parse
    rw [splitNl_no_nl s hnonl]
    simp only [hnone]
    cases hp : parseBic s with
    | ok bic => simp [Res.isOk]
    | err => rw [hp] at hok; cases hok
    | panic => rw [hp] at hok; cases hok
  · have hlnl := accountLine_no_nl l hl
    have hbnl : ∀ c ∈ b, c ≠ '\n' := fun c hc => (upperOrDigit_not_nl_slash c (bic_chars b hb c hc)).1
    obtain ⟨a, ha⟩ := (acctLenient_some_iff l).mpr hl
    have hok := (accepts_iff_bic b).mpr hb
    unfold F59A.parse
    rw [splitNl_append_nl l b hlnl, splitNl_no_nl b hbnl]
    simp only [ha]
    cases hpb : parseBic b with
    | ok bic => simp [Res.isOk]
    | err => rw [hpb] at hok; cases hok
    | panic => rw [hpb] at hok; cases hok

/-- 59: name-and-address lines, optionally preceded by an account line -/
theorem accepts_59_of_doc (s : Text)
    (h : (∃ ls, s = joinNl ls ∧ Doc.NameLines ls ∧ (ls.head?.bind List.head?) ≠ some '/') ∨
         (∃ l ls, s = joinNl (l :: ls) ∧ Doc.AccountLine l ∧ Doc.NameLines ls)) :
    (F59.parse s).isOk = true := by
  rcases h with ⟨ls, rfl, hn, hh⟩ | ⟨l, ls, rfl, hl, hn⟩
  · have hne : ls ≠ [] := by intro he; subst he; have := hn.1; simp at this
    have hsp := splitNl_joinNl ls hne (nameLines_no_nl ls hn)
    cases ls with
    | nil => exact absurd rfl hne
    | cons l0 rest =>
      simp only [List.head?_cons, Option.bind_some] at hh
      have hok := (nameAddr_accepts_iff (l0 :: rest)).mpr hn
      have hnone : acctLenient l0 = .ok none := by
        unfold acctLenient
        split
        · simp at hh
        · rfl
      unfold F59.parse
      rw [hsp]
      simp only [hnone]
      cases hp : parseNameAndAddress (l0 :: rest) 0 with
      | ok v => simp [Res.isOk]
      | err => rw [hp] at hok; cases hok
      | panic => rw [hp] at hok; cases hok
  · have hlnl := accountLine_no_nl l hl
    have hsp := splitNl_joinNl (l :: ls) (by simp) (by
      intro x hx
      rcases List.mem_cons.mp hx with rfl | hx
      · exact hlnl
      · exact nameLines_no_nl ls hn x hx)
    obtain ⟨a, ha⟩ := (acctLenient_some_iff l).mpr hl
    have hok := (nameAddr_accepts_iff ls).mpr hn
    unfold F59.parse
    rw [hsp]
    simp only [ha]
    cases hpn : parseNameAndAddress ls 0 with
    | ok v => simp [Res.isOk]
    | err => rw [hpn] at hok; cases hok
    | panic => rw [hpn] at hok; cases hok


/-! ### 23E, 25A, 26T, 77T: documented format ⇔ acceptance, and the value is the text -/

theorem bind_ok_inv {α β : Type} {x : Res α} {f : α → Res β} {b : β} (h : (x >>= f) = .ok b) :
    ∃ a, x = .ok a ∧ f a = .ok b := by
  cases x with
  | ok a => exact ⟨a, rfl, h⟩
  | err => simp at h
  | panic => simp at h

theorem guard_ok {b : Bool} {u : Unit} (h : Res.guard b = .ok u) : b = true := by
  unfold Res.guard at h; split at h
  · assumption
  · cases h

theorem head_tail_of_head {l : Text} {c : Char} (h : l.head? = some c) : l = c :: l.tail := by
  cases l with
  | nil => simp at h
  | cons a as => simp at h; subst h; rfl

/-- 23E -/
theorem f23E_reproduces (s : Text) (v : F23E) (h : F23E.parse s = .ok v) : F23E.ser v = s := by
  unfold F23E.parse at h
  split at h; · cases h
  rename_i hasc
  split at h; · cases h
  rename_i hlen
  have ha : isAsciiT s = true := by simpa using hasc
  have hb := blen_ascii s ha
  have hl : 4 ≤ s.length := by
    have : ¬ blen s < 4 := by simpa using hlen
    omega
  rw [bslice_ascii s 0 4 ha (by omega) hl] at h
  simp only [Res.bind_ok] at h
  split at h; · cases h
  split at h
  · rename_i hgt
    have hl5 : 5 ≤ s.length := by
      have : blen s > 4 := by simpa using hgt
      omega
    rw [bfrom_ascii s 4 ha (by omega), bfrom_ascii s 5 ha hl5] at h
    simp only [Res.bind_ok] at h
    split at h; · cases h
    rename_i hhead
    split at h; · cases h
    split at h; · cases h
    obtain ⟨_, _, h3⟩ := bind_ok_inv h
    cases h3
    unfold F23E.ser
    simp only
    have hh : (s.drop 4).head? = some '/' := by simpa using hhead
    have e1 := head_tail_of_head hh
    have e2 : (s.drop 4).tail = s.drop 5 := by rw [List.tail_drop]
    rw [e2] at e1
    calc (s.drop 0).take (4 - 0) ++ '/' :: s.drop 5 = s.take 4 ++ s.drop 4 := by rw [← e1]; simp
      _ = s := List.take_append_drop 4 s
  · rename_i hle
    cases h
    unfold F23E.ser
    simp only [List.append_nil]
    have : s.length = 4 := by
      have : ¬ blen s > 4 := by simpa using hle
      omega
    simp [List.take_of_length_le (Nat.le_of_eq this)]

/-- 25A `/34x`: a slash and 1 to 34 x-characters -/
theorem accepts_iff_25A (s : Text) : (F25A.parse s).isOk = true ↔ ∃ a, s = '/' :: a ∧ Doc.XText 34 a := by
  unfold F25A.parse
  constructor
  · intro h
    split at h
    · rename_i acc
      split at h; · simp [Res.isOk] at h
      rename_i hne
      split at h; · simp [Res.isOk] at h
      rename_i hl
      have hx : acc.all isSwiftX = true := by
        unfold parseSwiftChars Res.guard at h
        by_cases hh : acc.all isSwiftX = true
        · exact hh
        · simp [hh, Res.isOk] at h
      refine ⟨acc, rfl, xtext_of_checks 34 acc (by omega) ?_ hx⟩
      intro he; subst he; simp at hne
    · simp [Res.isOk] at h
  · rintro ⟨a, rfl, hd⟩
    obtain ⟨h1, h2, h3⟩ := checks_of_xtext 34 a hd
    have hne : a.isEmpty = false := by cases a <;> simp_all
    have hl : ¬ blen a > 34 := by omega
    simp [hne, hl, parseSwiftChars, Res.guard, h3, Res.isOk]

/-- 26T `3!c`: exactly three capital letters or digits -/
theorem accepts_iff_26T (s : Text) : (F26T.parse s).isOk = true ↔ s.length = 3 ∧ ∀ c ∈ s, isUpperAlnum c = true := by
  unfold F26T.parse parseExactLength
  constructor
  · intro h
    by_cases h1 : (blen s == 3) = true
    · simp only [h1, if_true, Res.bind_ok] at h
      by_cases h2 : s.all isUpperAlnum = true
      · have hasc : isAsciiT s = true := by
          unfold isAsciiT; rw [List.all_eq_true] at *
          intro c hc; exact upperOrDigit_ascii c (by simpa [upperOrDigit, isUpperAlnum] using h2 c hc)
        have : blen s = 3 := by simpa using h1
        rw [blen_ascii s hasc] at this
        exact ⟨this, fun c hc => List.all_eq_true.mp h2 c hc⟩
      · simp [h2, Res.isOk] at h
    · simp [h1, Res.isOk] at h
  · rintro ⟨h1, h2⟩
    have hall : s.all isUpperAlnum = true := List.all_eq_true.mpr h2
    have hasc : isAsciiT s = true := by
      unfold isAsciiT; rw [List.all_eq_true]
      intro c hc; exact upperOrDigit_ascii c (by simpa [upperOrDigit, isUpperAlnum] using h2 c hc)
    have : blen s = 3 := by rw [blen_ascii s hasc]; exact h1
    simp only [this, beq_self_eq_true, if_true, Res.bind_ok, hall]
    rfl

/-- 77T `9000z`: any non-empty text of at most 9000 bytes -/
theorem accepts_iff_77T (s : Text) : (F77T.parse s).isOk = true ↔ s ≠ [] ∧ blen s ≤ 9000 := by
  unfold F77T.parse
  constructor
  · intro h
    split at h; · simp [Res.isOk] at h
    rename_i hne
    split at h; · simp [Res.isOk] at h
    rename_i hl
    exact ⟨by intro he; subst he; simp at hne, by omega⟩
  · rintro ⟨h1, h2⟩
    have hne : s.isEmpty = false := by cases s <;> simp_all
    have : ¬ blen s > 9000 := by omega
    simp [hne, this, Res.isOk]

/-- the documented format of 23E, `4!c[/35x]` -/
def Doc23E (s : Text) : Prop :=
  ∃ code : Text, code.length = 4 ∧ (∀ c ∈ code, isUpperAlnum c = true) ∧
    (s = code ∨ ∃ info, s = code ++ '/' :: info ∧ Doc.XText 35 info)

theorem upperAlnum_all_ascii (t : Text) (h : ∀ c ∈ t, isUpperAlnum c = true) : isAsciiT t = true := by
  unfold isAsciiT; rw [List.all_eq_true]
  intro c hc; exact upperOrDigit_ascii c (by simpa [upperOrDigit, isUpperAlnum] using h c hc)

theorem f23E_write (code : Text) (info : Option Text) (h4 : code.length = 4) (hc : ∀ c ∈ code, isUpperAlnum c = true)
    (hi : ∀ i, info = some i → Doc.XText 35 i) :
    F23E.parse (F23E.ser ⟨code, info⟩) = .ok ⟨code, info⟩ := by
  have hca := upperAlnum_all_ascii code hc
  have hcall : code.all isUpperAlnum = true := List.all_eq_true.mpr hc
  cases info with
  | none =>
    unfold F23E.ser F23E.parse
    simp only [List.append_nil]
    have hb : blen code = 4 := by rw [blen_ascii code hca]; exact h4
    simp only [hca, Bool.not_true, Bool.false_eq_true, if_false, hb]
    rw [bslice_ascii code 0 4 hca (by omega) (by omega)]
    have : (code.drop 0).take (4 - 0) = code := by simp [List.take_of_length_le (Nat.le_of_eq h4)]
    simp only [Res.bind_ok, this, hcall, Bool.not_true, Bool.false_eq_true, if_false, gt_iff_lt, Nat.lt_irrefl, Res.pure_eq]

  | some i =>
    obtain ⟨i1, i2, i3⟩ := checks_of_xtext 35 i (hi i rfl)
    have hia := all_swiftX_ascii i i3
    unfold F23E.ser F23E.parse
    simp only
    have hall : isAsciiT (code ++ '/' :: i) = true := by
      unfold isAsciiT at *; rw [List.all_append, hca]; simp only [List.all_cons, hia, Bool.and_true, Bool.true_and]; decide
    have hlen : (code ++ '/' :: i).length = 5 + i.length := by simp [h4]; omega
    have hb : blen (code ++ '/' :: i) = 5 + i.length := by rw [blen_ascii _ hall]; exact hlen
    simp only [hall, Bool.not_true, Bool.false_eq_true, if_false, hb]
    have h1 : ¬ (5 + i.length < 4) := by omega
    simp only [h1, if_false]
    rw [bslice_ascii _ 0 4 hall (by omega) (by omega)]
    have e0 : ((code ++ '/' :: i).drop 0).take (4 - 0) = code := by
      simp only [List.drop_zero, Nat.sub_zero]
      rw [List.take_append_of_le_length (by omega)]
      exact List.take_of_length_le (Nat.le_of_eq h4)
    simp only [Res.bind_ok, e0, hcall, Bool.not_true, Bool.false_eq_true, if_false]
    have h2 : 5 + i.length > 4 := by omega
    simp only [h2, if_true]
    rw [bfrom_ascii _ 4 hall (by omega), bfrom_ascii _ 5 hall (by omega)]
    have e4 : (code ++ '/' :: i).drop 4 = '/' :: i := by
      rw [List.drop_append_of_le_length (by omega)]
      simp [List.drop_of_length_le (Nat.le_of_eq h4)]
    have e5 : (code ++ '/' :: i).drop 5 = i := by
      have : (code ++ '/' :: i).drop 5 = ((code ++ '/' :: i).drop 4).drop 1 := by rw [List.drop_drop]
      rw [this, e4]; rfl
    have hne : i.isEmpty = false := by cases i <;> simp_all
    have hl : ¬ blen i > 35 := by omega
    simp only [Res.bind_ok, e4, e5, List.head?_cons, bne_self_eq_false, Bool.false_eq_true, if_false, hne, hl, parseSwiftChars,
      Res.guard, i3, if_true, Res.pure_eq]

theorem accepts_iff_23E (s : Text) : (F23E.parse s).isOk = true ↔ Doc23E s := by
  constructor
  · intro h
    cases hp : F23E.parse s with
    | ok v =>
      have hrep := f23E_reproduces s v hp
      -- the components satisfy the documented shape
      unfold F23E.parse at hp
      split at hp; · cases hp
      rename_i hasc
      split at hp; · cases hp
      rename_i hlen
      have ha : isAsciiT s = true := by simpa using hasc
      have hb := blen_ascii s ha
      have hl : 4 ≤ s.length := by
        have : ¬ blen s < 4 := by simpa using hlen
        omega
      rw [bslice_ascii s 0 4 ha (by omega) hl] at hp
      simp only [Res.bind_ok] at hp
      split at hp; · cases hp
      rename_i hcode
      have hcode' : ∀ c ∈ (s.drop 0).take (4 - 0), isUpperAlnum c = true := by
        have : ((s.drop 0).take (4 - 0)).all isUpperAlnum = true := by simpa using hcode
        exact fun c hc => List.all_eq_true.mp this c hc
      have hclen : ((s.drop 0).take (4 - 0)).length = 4 := by simp; omega
      split at hp
      · rename_i hgt
        have hl5 : 5 ≤ s.length := by
          have : blen s > 4 := by simpa using hgt
          omega
        rw [bfrom_ascii s 4 ha (by omega), bfrom_ascii s 5 ha hl5] at hp
        simp only [Res.bind_ok] at hp
        split at hp; · cases hp
        split at hp; · cases hp
        rename_i hne
        split at hp; · cases hp
        rename_i hl35
        obtain ⟨_, hsw, h3⟩ := bind_ok_inv hp
        cases h3
        have hx : (s.drop 5).all isSwiftX = true := by
          unfold parseSwiftChars at hsw; exact guard_ok hsw
        refine ⟨_, hclen, hcode', Or.inr ⟨s.drop 5, ?_, xtext_of_checks 35 _ (by omega) (by intro he; rw [he] at hne; simp at hne) hx⟩⟩
        unfold F23E.ser at hrep; simpa using hrep.symm
      · cases hp
        refine ⟨_, hclen, hcode', Or.inl ?_⟩
        unfold F23E.ser at hrep; simpa using hrep.symm
    | err => rw [hp] at h; simp [Res.isOk] at h
    | panic => rw [hp] at h; simp [Res.isOk] at h
  · rintro ⟨code, h4, hc, hs | ⟨info, hs, hx⟩⟩
    · have := f23E_write code none h4 hc (by intro i hi; cases hi)
      unfold F23E.ser at this; simp only [List.append_nil] at this
      rw [hs, this]; rfl
    · have := f23E_write code (some info) h4 hc (by intro i hi; cases hi; exact hx)
      unfold F23E.ser at this; simp only at this
      rw [hs, this]; rfl


/-! ### 13D: a calendar date, a time of day, a sign and an offset of at most 14:59 — and nothing else -/

theorem ofOption_ok {α : Type} {o : Option α} {a : α} (h : Res.ofOption o = .ok a) : o = some a := by
  cases o with
  | none => simp [Res.ofOption] at h
  | some x => simp [Res.ofOption] at h; subst h; rfl

theorem hhmm_parse (t : Text) (tm : Nat × Nat) (h : parseTimeHHMM t = some tm) : hhmm tm = t := by
  obtain ⟨hh, mm⟩ := tm
  obtain ⟨a, b, c, d, ha, hb, hc, hd, rfl, rfl, rfl, _, _⟩ := (C11.time_accept_iff t hh mm).mp h
  unfold hhmm
  simp only
  rw [C11.fmt2_digits ha hb, C11.fmt2_digits hc hd]
  rfl

/-- 13D -/
theorem f13D_reproduces (s : Text) (v : F13D) (h : F13D.parse s = .ok v) : F13D.ser v = s := by
  unfold F13D.parse at h
  split at h; · cases h
  rename_i hasc
  split at h; · cases h
  rename_i hlen
  have ha : isAsciiT s = true := by simpa using hasc
  have hl : s.length = 15 := by
    have : blen s = 15 := by simpa using hlen
    rw [blen_ascii s ha] at this; exact this
  rw [bslice_ascii s 0 6 ha (by omega) (by omega)] at h
  simp only [Res.bind_ok] at h
  obtain ⟨date, hd, h⟩ := bind_ok_inv h
  rw [bslice_ascii s 6 10 ha (by omega) (by omega)] at h
  simp only [Res.bind_ok] at h
  obtain ⟨_, _, h⟩ := bind_ok_inv h
  obtain ⟨time, ht, h⟩ := bind_ok_inv h
  obtain ⟨c, hc⟩ : ∃ c, s[10]? = some c := ⟨s[10], List.getElem?_eq_getElem (by omega)⟩
  rw [hc] at h
  simp only [Res.unwrap, Res.bind_ok] at h
  split at h; · cases h
  rw [bslice_ascii s 11 15 ha (by omega) (by omega)] at h
  simp only [Res.bind_ok] at h
  obtain ⟨off, hoff, h⟩ := bind_ok_inv h
  obtain ⟨_, _, h⟩ := bind_ok_inv h
  obtain ⟨_, _, h⟩ := bind_ok_inv h
  cases h
  have hoff' : off = List.take (15 - 11) (List.drop 11 s) := by
    unfold parseExactLength at hoff; split at hoff
    · cases hoff; rfl
    · cases hoff
  have hp := C11.print_parse _ _ (ofOption_ok hd)
  have hq := hhmm_parse _ _ (ofOption_ok ht)
  unfold F13D.ser
  simp only
  rw [hp, hq, hoff']
  have e10 : s.drop 10 = c :: s.drop 11 := by
    have hlt : 10 < s.length := by omega
    have : s[10] = c := by
      have := List.getElem?_eq_getElem hlt
      rw [this] at hc; exact Option.some.inj hc
    rw [← this]; exact List.drop_eq_getElem_cons hlt
  have e11 : (s.drop 11).take (15 - 11) = s.drop 11 := List.take_of_length_le (by simp [List.length_drop]; omega)
  rw [e11]
  have e6 : (s.drop 6).take (10 - 6) ++ s.drop 10 = s.drop 6 := by
    have := List.take_append_drop 4 (s.drop 6)
    rw [List.drop_drop] at this
    simpa using this
  calc (s.drop 0).take (6 - 0) ++ (s.drop 6).take (10 - 6) ++ c :: s.drop 11
      = s.take 6 ++ ((s.drop 6).take (10 - 6) ++ s.drop 10) := by rw [e10]; simp
    _ = s.take 6 ++ s.drop 6 := by rw [e6]
    _ = s := List.take_append_drop 6 s

theorem digitVal_of_isDigit {c : Char} (h : c.isDigit = true) : ∃ k, digitVal c = some k := by
  rw [isDigit_iff] at h
  unfold isDigitC at h
  cases hd : digitVal c with
  | none => simp [hd] at h
  | some k => exact ⟨k, rfl⟩

theorem isDigit_of_digitVal {c : Char} {k : Nat} (h : digitVal c = some k) : c.isDigit = true := by
  rw [isDigit_iff]; unfold isDigitC; simp [h]

theorem digitsVal_two {a b : Char} {x y : Nat} (ha : digitVal a = some x) (hb : digitVal b = some y) :
    digitsVal [a, b] 0 = 10 * x + y := by
  simp [digitsVal, ha, hb]

/-- the inline offset check of 13C / 13D is the calendar model's `parseOffset` -/
theorem offset_model_iff (sign : Char) (off : Text) (hlen : off.length = 4) :
    ((sign = '+' ∨ sign = '-') ∧ off.all Char.isDigit = true ∧ offsetOk off = .ok ()) ↔ (parseOffset sign off).isSome = true := by
  match off, hlen with
  | [a, b, c, d], _ =>
    constructor
    · rintro ⟨hs, hd, hok⟩
      simp only [List.all_cons, List.all_nil, Bool.and_true, Bool.and_eq_true] at hd
      obtain ⟨x, hx⟩ := digitVal_of_isDigit hd.1
      obtain ⟨y, hy⟩ := digitVal_of_isDigit hd.2.1
      obtain ⟨z, hz⟩ := digitVal_of_isDigit hd.2.2.1
      obtain ⟨w, hw⟩ := digitVal_of_isDigit hd.2.2.2
      have hasc : isAsciiT [a, b, c, d] = true := all_digit_ascii _ (by simp [hd.1, hd.2.1, hd.2.2.1, hd.2.2.2])
      unfold offsetOk at hok
      rw [bslice_ascii _ 0 2 hasc (by omega) (by simp), bslice_ascii _ 2 4 hasc (by omega) (by simp)] at hok
      simp only [Res.bind_ok, List.drop_zero, Nat.sub_zero, List.take_succ_cons, List.take_zero, List.drop_succ_cons,
        List.isEmpty_cons, Bool.false_eq_true, if_false, Res.unwrap] at hok
      have e1 : digitsVal [a, b] 0 = 10 * x + y := digitsVal_two hx hy
      have e2 : digitsVal [c, d] 0 = 10 * z + w := digitsVal_two hz hw
      simp only [show (4 : Nat) - 2 = 2 from rfl, List.take_succ_cons, List.take_zero, e1, e2] at hok
      unfold parseOffset
      have hs' : (sign == '+' || sign == '-') = true := by rcases hs with rfl | rfl <;> decide
      simp only [hs', if_true, hx, hy, hz, hw]
      split at hok
      · cases hok
      · rename_i hb
        have : (decide (10 * x + y ≤ 14) && decide (10 * z + w ≤ 59)) = true := by
          simp only [Bool.or_eq_true, decide_eq_true_eq, not_or, Nat.not_lt] at hb
          simp [hb.1, hb.2]
        simp [this]
    · intro h
      unfold parseOffset at h
      by_cases hs : (sign == '+' || sign == '-') = true
      · simp only [hs, if_true] at h
        cases hx : digitVal a with
        | none => simp [hx] at h
        | some x =>
        cases hy : digitVal b with
        | none => simp [hx, hy] at h
        | some y =>
        cases hz : digitVal c with
        | none => simp [hx, hy, hz] at h
        | some z =>
        cases hw : digitVal d with
        | none => simp [hx, hy, hz, hw] at h
        | some w =>
          simp only [hx, hy, hz, hw] at h
          by_cases hv : (decide (10 * x + y ≤ 14) && decide (10 * z + w ≤ 59)) = true
          · simp only [Bool.and_eq_true, decide_eq_true_eq] at hv
            have hs2 : sign = '+' ∨ sign = '-' := by simpa using hs
            have hd : [a, b, c, d].all Char.isDigit = true := by
              simp [isDigit_of_digitVal hx, isDigit_of_digitVal hy, isDigit_of_digitVal hz, isDigit_of_digitVal hw]
            refine ⟨hs2, hd, ?_⟩
            have hasc := all_digit_ascii _ hd
            unfold offsetOk
            rw [bslice_ascii _ 0 2 hasc (by omega) (by simp), bslice_ascii _ 2 4 hasc (by omega) (by simp)]
            simp only [Res.bind_ok, List.drop_zero, Nat.sub_zero, List.take_succ_cons, List.take_zero, List.drop_succ_cons,
              List.isEmpty_cons, Bool.false_eq_true, if_false, Res.unwrap,
              digitsVal_two hx hy, digitsVal_two hz hw]
            have : ¬ ((decide (10 * x + y > 14) || decide (10 * z + w > 59)) = true) := by
              simp only [Bool.or_eq_true, decide_eq_true_eq, not_or, Nat.not_lt]; exact ⟨hv.1, hv.2⟩
            simp only [this, if_false]; rfl
          · simp [hv] at h
      · simp [hs] at h


theorem date_shape (t : Text) (h : Doc.Date t) : t.length = 6 ∧ t.all Char.isDigit = true := by
  unfold Doc.Date at h
  cases hp : parseDateYYMMDD t with
  | none => simp [hp] at h
  | some x =>
    obtain ⟨a, b, c, d, e, f, ha, hb, hc, hd, he, hf, rfl, _, _⟩ := (C11.date_accept_iff t x).mp hp
    refine ⟨rfl, ?_⟩
    simp [isDigit_of_digitVal (C11.digitVal_digitChar ha), isDigit_of_digitVal (C11.digitVal_digitChar hb),
      isDigit_of_digitVal (C11.digitVal_digitChar hc), isDigit_of_digitVal (C11.digitVal_digitChar hd),
      isDigit_of_digitVal (C11.digitVal_digitChar he), isDigit_of_digitVal (C11.digitVal_digitChar hf)]

theorem time_shape (t : Text) (h : Doc.Time t) : t.length = 4 ∧ t.all Char.isDigit = true := by
  unfold Doc.Time at h
  cases hp : parseTimeHHMM t with
  | none => simp [hp] at h
  | some x =>
    obtain ⟨hh, mm⟩ := x
    obtain ⟨a, b, c, d, ha, hb, hc, hd, rfl, _, _, _, _⟩ := (C11.time_accept_iff t hh mm).mp hp
    refine ⟨rfl, ?_⟩
    simp [isDigit_of_digitVal (C11.digitVal_digitChar ha), isDigit_of_digitVal (C11.digitVal_digitChar hb),
      isDigit_of_digitVal (C11.digitVal_digitChar hc), isDigit_of_digitVal (C11.digitVal_digitChar hd)]

theorem offset_shape (sign : Char) (t : Text) (h : Doc.SignedOffset sign t) : t.length = 4 := by
  unfold Doc.SignedOffset parseOffset at h
  split at h
  · split at h
    · rfl
    · simp at h
  · simp at h

/-- 13D `6!n4!n1!x4!n`: accepted exactly when it is a calendar date, a time of day, a sign and an offset of at most 14:59 -/
theorem accepts_iff_13D (s : Text) : (F13D.parse s).isOk = true ↔ Doc.F13D s := by
  constructor
  · intro h
    cases hp : F13D.parse s with
    | err => rw [hp] at h; simp [Res.isOk] at h
    | panic => rw [hp] at h; simp [Res.isOk] at h
    | ok v =>
      have hrep := f13D_reproduces s v hp
      unfold F13D.parse at hp
      split at hp; · cases hp
      rename_i hasc
      split at hp; · cases hp
      rename_i hlen
      have ha : isAsciiT s = true := by simpa using hasc
      have hl : s.length = 15 := by
        have : blen s = 15 := by simpa using hlen
        rw [blen_ascii s ha] at this; exact this
      rw [bslice_ascii s 0 6 ha (by omega) (by omega)] at hp
      simp only [Res.bind_ok] at hp
      obtain ⟨date, hd, hp⟩ := bind_ok_inv hp
      rw [bslice_ascii s 6 10 ha (by omega) (by omega)] at hp
      simp only [Res.bind_ok] at hp
      obtain ⟨_, _, hp⟩ := bind_ok_inv hp
      obtain ⟨time, ht, hp⟩ := bind_ok_inv hp
      obtain ⟨c, hc⟩ : ∃ c, s[10]? = some c := ⟨s[10], List.getElem?_eq_getElem (by omega)⟩
      rw [hc] at hp
      simp only [Res.unwrap, Res.bind_ok] at hp
      split at hp; · cases hp
      rename_i hsign
      rw [bslice_ascii s 11 15 ha (by omega) (by omega)] at hp
      simp only [Res.bind_ok] at hp
      obtain ⟨off, hoff, hp⟩ := bind_ok_inv hp
      obtain ⟨_, hnum, hp⟩ := bind_ok_inv hp
      obtain ⟨_, hok, hp⟩ := bind_ok_inv hp
      cases hp
      have hoff' : off = List.take (15 - 11) (List.drop 11 s) := by
        unfold parseExactLength at hoff; split at hoff
        · cases hoff; rfl
        · cases hoff
      have hofflen : off.length = 4 := by rw [hoff']; simp [List.length_take, List.length_drop]; omega
      have hs2 : c = '+' ∨ c = '-' := by
        by_cases h1 : c = '+'
        · exact Or.inl h1
        · by_cases h2 : c = '-'
          · exact Or.inr h2
          · exfalso; apply hsign; simp [h1, h2]
      have hdig : off.all Char.isDigit = true := by unfold parseNumeric at hnum; exact guard_ok hnum
      have hso : Doc.SignedOffset c off := (offset_model_iff c off hofflen).mp ⟨hs2, hdig, hok⟩
      have hp1 := C11.print_parse _ _ (ofOption_ok hd)
      have hq1 := hhmm_parse _ _ (ofOption_ok ht)
      refine ⟨(s.drop 0).take (6 - 0), (s.drop 6).take (10 - 6), c, off, ?_, ?_, ?_, hso⟩
      · unfold F13D.ser at hrep; simp only at hrep
        rw [hp1, hq1] at hrep; exact hrep.symm
      · unfold Doc.Date; rw [ofOption_ok hd]; rfl
      · unfold Doc.Time; rw [ofOption_ok ht]; rfl
  · rintro ⟨date, time, sign, off, rfl, hd, ht, ho⟩
    obtain ⟨d1, d2⟩ := date_shape date hd
    obtain ⟨t1, t2⟩ := time_shape time ht
    have o1 := offset_shape sign off ho
    obtain ⟨hs2, hdig, hok⟩ := (offset_model_iff sign off o1).mpr ho
    have hsa : isAsciiC sign = true := by rcases hs2 with rfl | rfl <;> decide
    have hall : isAsciiT (date ++ time ++ sign :: off) = true := by
      have := all_digit_ascii date d2
      have := all_digit_ascii time t2
      have := all_digit_ascii off hdig
      unfold isAsciiT at *
      simp only [List.all_append, List.all_cons, *, Bool.and_true, Bool.true_and]
    have hlen : (date ++ time ++ sign :: off).length = 15 := by simp [d1, t1, o1]
    have e0 : ((date ++ time ++ sign :: off).drop 0).take (6 - 0) = date := by
      simp only [List.drop_zero, Nat.sub_zero, List.append_assoc]
      rw [List.take_append_of_le_length (by omega)]; exact List.take_of_length_le (by omega)
    have e6 : ((date ++ time ++ sign :: off).drop 6).take (10 - 6) = time := by
      simp only [List.append_assoc]
      rw [List.drop_append_of_le_length (by omega), List.drop_of_length_le (by omega), List.nil_append]
      rw [List.take_append_of_le_length (by omega)]; exact List.take_of_length_le (by omega)
    have e10 : (date ++ time ++ sign :: off)[10]? = some sign := by
      rw [List.getElem?_append_right (by simp [d1, t1])]
      simp [d1, t1]
    have e11 : ((date ++ time ++ sign :: off).drop 11).take (15 - 11) = off := by
      have : (date ++ time ++ sign :: off).drop 11 = off := by
        have h10 : (date ++ time ++ sign :: off).drop 10 = sign :: off := by
          rw [List.drop_append_of_le_length (by simp [d1, t1])]
          rw [List.drop_of_length_le (by simp [d1, t1])]; rfl
        have : (date ++ time ++ sign :: off).drop 11 = ((date ++ time ++ sign :: off).drop 10).drop 1 := by rw [List.drop_drop]
        rw [this, h10]; rfl
      rw [this]; exact List.take_of_length_le (by omega)
    unfold F13D.parse
    have hb : blen (date ++ time ++ sign :: off) = 15 := by rw [blen_ascii _ hall]; exact hlen
    simp only [hall, Bool.not_true, Bool.false_eq_true, if_false, hb, bne_self_eq_false]
    rw [bslice_ascii _ 0 6 hall (by omega) (by omega), bslice_ascii _ 6 10 hall (by omega) (by omega),
      bslice_ascii _ 11 15 hall (by omega) (by omega)]
    simp only [Res.bind_ok, e0, e6, e10, e11, Res.unwrap]
    unfold Doc.Date at hd; unfold Doc.Time at ht
    cases hpd : parseDateYYMMDD date with
    | none => simp [hpd] at hd
    | some dv =>
    cases hpt : parseTimeHHMM time with
    | none => simp [hpt] at ht
    | some tv =>
      have hsn : ¬ ((sign != '+' && sign != '-') = true) := by rcases hs2 with rfl | rfl <;> decide
      have hob : blen off = 4 := by rw [blen_ascii off (all_digit_ascii off hdig)]; exact o1
      simp only [Res.ofOption, Res.bind_ok, parseNumeric, Res.guard, t2, if_true, hsn, if_false, parseExactLength, hob,
        beq_self_eq_true, hdig, hok, Res.pure_eq]
      rfl


/-! ### 13C: a documented code word between slashes, then time, sign and offset -/

theorem isAsciiT_drop (t : Text) (n : Nat) (h : isAsciiT t = true) : isAsciiT (t.drop n) = true := by
  unfold isAsciiT at *
  rw [List.all_eq_true] at *
  intro c hc; exact h c (List.mem_of_mem_drop hc)

theorem codes13C_shape : ∀ c ∈ codes13C, (∀ x ∈ c, x ≠ '/') ∧ isAsciiT c = true ∧ 1 ≤ c.length := by decide

/-- 13C `/8c/4!n1!x4!n`: a documented code word between slashes, a time of day, a sign and an offset of at most 14:59 -/
theorem accepts_iff_13C (s : Text) : (F13C.parse s).isOk = true ↔ Doc.F13C codes13C s := by
  constructor
  · intro h
    cases hp : F13C.parse s with
    | err => rw [hp] at h; simp [Res.isOk] at h
    | panic => rw [hp] at h; simp [Res.isOk] at h
    | ok v =>
      unfold F13C.parse at hp
      split at hp; · cases hp
      rename_i hasc
      split at hp; · cases hp
      have ha : isAsciiT s = true := by simpa using hasc
      split at hp
      · rename_i rest _
        split at hp; · cases hp
        rename_i p hfind
        simp only at hp
        split at hp; · cases hp
        split at hp; · cases hp
        rename_i hcode
        split at hp; · cases hp
        rename_i hlen
        have hsplit := (findChar_split hfind).1
        have har : isAsciiT (rest.drop (p + 1)) = true := by
          have : isAsciiT rest = true := by
            have := isAsciiT_drop ('/' :: rest) 1 ha
            simpa using this
          exact isAsciiT_drop rest (p + 1) this
        generalize rest.drop (p + 1) = rem at *
        have hl : rem.length = 9 := by
          have : blen rem = 9 := by simpa using hlen
          rw [blen_ascii rem har] at this; exact this
        rw [bslice_ascii rem 0 4 har (by omega) (by omega)] at hp
        simp only [Res.bind_ok] at hp
        obtain ⟨_, _, hp⟩ := bind_ok_inv hp
        obtain ⟨time, ht, hp⟩ := bind_ok_inv hp
        obtain ⟨c, hc⟩ : ∃ c, rem[4]? = some c := ⟨rem[4], List.getElem?_eq_getElem (by omega)⟩
        rw [hc] at hp
        simp only [Res.unwrap, Res.bind_ok] at hp
        split at hp; · cases hp
        rename_i hsign
        rw [bslice_ascii rem 5 9 har (by omega) (by omega)] at hp
        simp only [Res.bind_ok] at hp
        obtain ⟨off, hoff, hp⟩ := bind_ok_inv hp
        obtain ⟨_, hnum, hp⟩ := bind_ok_inv hp
        obtain ⟨_, hok, hp⟩ := bind_ok_inv hp
        cases hp
        have hoff' : off = List.take (9 - 5) (List.drop 5 rem) := by
          unfold parseExactLength at hoff; split at hoff
          · cases hoff; rfl
          · cases hoff
        have hofflen : off.length = 4 := by rw [hoff']; simp [List.length_take, List.length_drop]; omega
        have hs2 : c = '+' ∨ c = '-' := by
          by_cases h1 : c = '+'
          · exact Or.inl h1
          · by_cases h2 : c = '-'
            · exact Or.inr h2
            · exfalso; apply hsign; simp [h1, h2]
        have hdig : off.all Char.isDigit = true := by unfold parseNumeric at hnum; exact guard_ok hnum
        have hso : Doc.SignedOffset c off := (offset_model_iff c off hofflen).mp ⟨hs2, hdig, hok⟩
        have e4 : rem.drop 4 = c :: rem.drop 5 := by
          have hlt : 4 < rem.length := by omega
          have : rem[4] = c := by
            have := List.getElem?_eq_getElem hlt
            rw [this] at hc; exact Option.some.inj hc
          rw [← this]; exact List.drop_eq_getElem_cons hlt
        have e5 : (rem.drop 5).take (9 - 5) = rem.drop 5 := List.take_of_length_le (by simp [List.length_drop]; omega)
        have erem : rem = (rem.drop 0).take (4 - 0) ++ c :: off := by
          rw [hoff', e5, ← e4]; simp
        refine ⟨rest.take p, (rem.drop 0).take (4 - 0), c, off, ?_, ?_, ?_, hso⟩
        · conv => lhs; rw [hsplit, erem]
          simp
        · have : codes13C.contains (rest.take p) = true := by simpa using hcode
          exact List.contains_iff_mem.mp this
        · unfold Doc.Time; rw [ofOption_ok ht]; rfl
      · cases hp
  · rintro ⟨code, time, sign, off, rfl, hcode, ht, ho⟩
    obtain ⟨cno, casc, clen⟩ := codes13C_shape code hcode
    obtain ⟨t1, t2⟩ := time_shape time ht
    have o1 := offset_shape sign off ho
    obtain ⟨hs2, hdig, hok⟩ := (offset_model_iff sign off o1).mpr ho
    have hsa : isAsciiC sign = true := by rcases hs2 with rfl | rfl <;> decide
    have tasc := all_digit_ascii time t2
    have oasc := all_digit_ascii off hdig
    have remasc : isAsciiT (time ++ sign :: off) = true := by
      unfold isAsciiT at *; simp only [List.all_append, List.all_cons, tasc, hsa, oasc, Bool.and_true]
    have hall : isAsciiT ('/' :: code ++ '/' :: time ++ sign :: off) = true := by
      unfold isAsciiT at *
      simp only [List.cons_append, List.all_cons, List.all_append, casc, tasc, hsa, oasc, Bool.and_true, Bool.true_and]
      decide
    have hfind : findChar '/' (code ++ '/' :: (time ++ sign :: off)) = some code.length := findChar_append code _ cno
    have hremlen : (time ++ sign :: off).length = 9 := by simp [t1, o1]
    unfold F13C.parse
    have hb : blen ('/' :: code ++ '/' :: time ++ sign :: off) = code.length + 11 := by
      rw [blen_ascii _ hall]; simp [t1, o1]
    have hnlt : ¬ (code.length + 11 < 10) := by omega
    simp only [hall, Bool.not_true, Bool.false_eq_true, if_false, hb, hnlt]
    have hshape : ('/' :: code ++ '/' :: time ++ sign :: off) = '/' :: (code ++ '/' :: (time ++ sign :: off)) := by simp
    rw [hshape]
    simp only [hfind]
    have hp2 : ¬ (code.length + 1 < 2) := by omega
    have htake : (code ++ '/' :: (time ++ sign :: off)).take code.length = code := by
      rw [List.take_append_of_le_length (Nat.le_refl _)]; exact List.take_of_length_le (Nat.le_refl _)
    have hdrop : (code ++ '/' :: (time ++ sign :: off)).drop (code.length + 1) = time ++ sign :: off := by
      have : (code ++ '/' :: (time ++ sign :: off)).drop code.length = '/' :: (time ++ sign :: off) := by
        rw [List.drop_append_of_le_length (Nat.le_refl _)]; simp
      have h2 : (code ++ '/' :: (time ++ sign :: off)).drop (code.length + 1) = ((code ++ '/' :: (time ++ sign :: off)).drop code.length).drop 1 := by
        rw [List.drop_drop]
      rw [h2, this]; rfl
    have hcont : codes13C.contains code = true := List.contains_iff_mem.mpr hcode
    have hrb : blen (time ++ sign :: off) = 9 := by rw [blen_ascii _ remasc]; exact hremlen
    simp only [hp2, if_false, htake, hcont, Bool.not_true, Bool.false_eq_true, hdrop, hrb, bne_self_eq_false]
    rw [bslice_ascii _ 0 4 remasc (by omega) (by omega), bslice_ascii _ 5 9 remasc (by omega) (by omega)]
    have e0 : ((time ++ sign :: off).drop 0).take (4 - 0) = time := by
      simp only [List.drop_zero, Nat.sub_zero]
      rw [List.take_append_of_le_length (by omega)]; exact List.take_of_length_le (by omega)
    have e4 : (time ++ sign :: off)[4]? = some sign := by
      rw [List.getElem?_append_right (by omega)]; simp [t1]
    have e5 : ((time ++ sign :: off).drop 5).take (9 - 5) = off := by
      have : (time ++ sign :: off).drop 5 = off := by
        have h4 : (time ++ sign :: off).drop 4 = sign :: off := by
          rw [List.drop_append_of_le_length (by omega), List.drop_of_length_le (by omega)]; rfl
        have : (time ++ sign :: off).drop 5 = ((time ++ sign :: off).drop 4).drop 1 := by rw [List.drop_drop]
        rw [this, h4]; rfl
      rw [this]; exact List.take_of_length_le (by omega)
    simp only [Res.bind_ok, e0, e4, e5, Res.unwrap]
    unfold Doc.Time at ht
    cases hpt : parseTimeHHMM time with
    | none => simp [hpt] at ht
    | some tv =>
      have hsn : ¬ ((sign != '+' && sign != '-') = true) := by rcases hs2 with rfl | rfl <;> decide
      have hob : blen off = 4 := by rw [blen_ascii off oasc]; exact o1
      simp only [Res.ofOption, Res.bind_ok, parseNumeric, Res.guard, t2, if_true, hsn, if_false, parseExactLength, hob,
        beq_self_eq_true, hdig, hok, Res.pure_eq]
      rfl


/-! ### 28D: two numbers of at most five digits, index ≤ total, both positive -/

theorem all_isDigit_iff (t : Text) : t.all Char.isDigit = t.all isDigitC := by
  induction t with
  | nil => rfl
  | cons c cs ih => simp [List.all_cons, isDigit_iff, ih]

/-- what a numeric component that was read satisfies -/
theorem numRead {c : Text} {k mx n : Nat} (hk : ¬ blen c > k) (hd : c.all Char.isDigit = true) (hu : parseUInt c mx = .ok n) :
    c.length ≤ k ∧ c ≠ [] ∧ n = digitsVal c 0 ∧ n ≤ mx ∧ n < 10 ^ k := by
  have hasc := all_digit_ascii c hd
  have hb := blen_ascii c hasc
  unfold parseUInt at hu
  split at hu; · cases hu
  rename_i hne
  simp only at hu
  split at hu
  · rename_i hle
    cases hu
    have hl : c.length ≤ k := by omega
    have hlt := digitsVal_lt c 0 (by rw [← all_isDigit_iff]; exact hd)
    refine ⟨hl, ?_, rfl, hle, ?_⟩
    · intro h0; subst h0; simp at hne
    · have : 10 ^ c.length ≤ 10 ^ k := Nat.pow_le_pow_right (by decide) hl
      omega
  · cases hu

theorem parseUInt_digits {c : Text} {mx : Nat} (hne : c ≠ []) (hle : digitsVal c 0 ≤ mx) : parseUInt c mx = .ok (digitsVal c 0) := by
  unfold parseUInt
  have : c.isEmpty = false := by cases c <;> simp_all
  simp [this, hle]

/-- 28D `5n/5n`: index and total of one to five digits, index positive and not above the total -/
theorem accepts_iff_28D (s : Text) : (F28D.parse s).isOk = true ↔ Doc.F28D s := by
  constructor
  · intro h
    cases hp : F28D.parse s with
    | err => rw [hp] at h; simp [Res.isOk] at h
    | panic => rw [hp] at h; simp [Res.isOk] at h
    | ok v =>
      unfold F28D.parse at hp
      simp only at hp
      split at hp; · cases hp
      rename_i hk
      obtain ⟨_, hd, hp⟩ := bind_ok_inv hp
      have hd' := guard_ok hd
      obtain ⟨i, hi, hp⟩ := bind_ok_inv hp
      obtain ⟨il, ine, ieq, _, _⟩ := numRead hk hd' hi
      split at hp
      · cases hp
      · rename_i t ht
        split at hp; · cases hp
        rename_i hk2
        obtain ⟨_, hd2, hp⟩ := bind_ok_inv hp
        have hd2' := guard_ok hd2
        obtain ⟨n, hn, hp⟩ := bind_ok_inv hp
        obtain ⟨nl, nne, neq, _, _⟩ := numRead hk2 hd2' hn
        split at hp; · cases hp
        rename_i hin
        split at hp; · cases hp
        rename_i hz
        -- the text is index ++ '/' ++ total
        have hshape : s = (splitAtFirst '/' s).1 ++ '/' :: t := by
          unfold splitAtFirst at ht ⊢
          cases hf : findChar '/' s with
          | none => rw [hf] at ht; simp at ht
          | some p =>
            rw [hf] at ht
            simp only at ht ⊢
            split at ht
            · cases ht
            · cases ht
              exact (findChar_split hf).1
        refine ⟨(splitAtFirst '/' s).1, t, hshape, ?_, il, ?_, nl,
          fun c hc => List.all_eq_true.mp hd' c hc, fun c hc => List.all_eq_true.mp hd2' c hc, ?_, ?_⟩
        · cases hx : (splitAtFirst '/' s).1 with
          | nil => exact absurd hx ine
          | cons _ _ => simp
        · cases hx : t with
          | nil => exact absurd hx nne
          | cons _ _ => simp
        · rw [← ieq]
          have : ¬ ((i == 0 || n == 0) = true) := hz
          simp only [Bool.or_eq_true, beq_iff_eq, not_or] at this
          omega
        · rw [← ieq, ← neq]; omega
  · rintro ⟨a, b, rfl, a1, a5, b1, b5, ad, bd, hpos, hle⟩
    have adall : a.all Char.isDigit = true := List.all_eq_true.mpr ad
    have bdall : b.all Char.isDigit = true := List.all_eq_true.mpr bd
    have ano : ∀ c ∈ a, c ≠ '/' := by
      intro c hc he; subst he; have := ad _ hc; revert this; decide
    have bne : b ≠ [] := by intro he; subst he; simp at b1
    have ane : a ≠ [] := by intro he; subst he; simp at a1
    have aasc := all_digit_ascii a adall
    have basc := all_digit_ascii b bdall
    have alt := digitsVal_lt a 0 (by rw [← all_isDigit_iff]; exact adall)
    have blt := digitsVal_lt b 0 (by rw [← all_isDigit_iff]; exact bdall)
    have pa : 10 ^ a.length ≤ 10 ^ 5 := Nat.pow_le_pow_right (by decide) a5
    have pb : 10 ^ b.length ≤ 10 ^ 5 := Nat.pow_le_pow_right (by decide) b5
    have amax : digitsVal a 0 ≤ u32Max := by unfold u32Max; omega
    have bmax : digitsVal b 0 ≤ u32Max := by unfold u32Max; omega
    unfold F28D.parse
    simp only
    rw [splitAtFirst_append '/' a b ano bne]
    have ha5 : ¬ blen a > 5 := by rw [blen_ascii a aasc]; omega
    have hb5 : ¬ blen b > 5 := by rw [blen_ascii b basc]; omega
    have hgt : ¬ digitsVal a 0 > digitsVal b 0 := by omega
    have hz : ¬ ((digitsVal a 0 == 0 || digitsVal b 0 == 0) = true) := by
      simp only [Bool.or_eq_true, beq_iff_eq, not_or]; omega
    simp only [ha5, if_false, parseNumeric, Res.guard, adall, if_true, Res.bind_ok, parseUInt_digits ane amax, hb5, bdall,
      parseUInt_digits bne bmax, hgt, hz, Res.pure_eq]
    rfl


/-! ### 28, 28C: a statement number of at most five digits and an optional sequence number -/

theorem contains_false_of_ne (t : Text) (c : Char) (h : ∀ x ∈ t, x ≠ c) : t.contains c = false := by
  induction t with
  | nil => rfl
  | cons a r ih =>
    have ha : a ≠ c := h a (by simp)
    have := ih (fun x hx => h x (by simp [hx]))
    rw [List.contains_cons, this]
    simp only [Bool.or_false, beq_eq_false_iff_ne, ne_eq]
    exact fun e => ha e.symm

/-- the documented format `5n[/<k>n]` of 28 (k = 2) and 28C (k = 5) -/
def DocStmt (k : Nat) (s : Text) : Prop :=
  ∃ a : Text, 1 ≤ a.length ∧ a.length ≤ 5 ∧ (∀ c ∈ a, c.isDigit = true) ∧
    (s = a ∨ ∃ b : Text, s = a ++ '/' :: b ∧ 1 ≤ b.length ∧ b.length ≤ k ∧ ∀ c ∈ b, c.isDigit = true)

theorem digits_no_slash (a : Text) (h : ∀ c ∈ a, c.isDigit = true) : ∀ c ∈ a, c ≠ '/' := by
  intro c hc he; subst he; have := h _ hc; revert this; decide

theorem accepts_iff_stmt (k mx : Nat) (_hk : 0 < k) (hmx : 10 ^ k ≤ mx + 1) (s : Text) :
    (Stmt.parse k mx s).isOk = true ↔ DocStmt k s := by
  constructor
  · intro h
    cases hp : Stmt.parse k mx s with
    | err => rw [hp] at h; simp [Res.isOk] at h
    | panic => rw [hp] at h; simp [Res.isOk] at h
    | ok v =>
      unfold Stmt.parse at hp
      simp only at hp
      split at hp; · cases hp
      rename_i hfirst
      split at hp; · cases hp
      rename_i hk5
      obtain ⟨_, hd, hp⟩ := bind_ok_inv hp
      have hd' := guard_ok hd
      obtain ⟨n, hn, hp⟩ := bind_ok_inv hp
      obtain ⟨nl, nne, _, _, _⟩ := numRead hk5 hd' hn
      have h1 : 1 ≤ (splitAtFirst '/' s).1.length := by
        cases hx : (splitAtFirst '/' s).1 with
        | nil => exact absurd hx nne
        | cons _ _ => simp
      split at hp
      · rename_i t ht
        split at hp; · cases hp
        rename_i hk2
        obtain ⟨_, hd2, hp⟩ := bind_ok_inv hp
        have hd2' := guard_ok hd2
        obtain ⟨q, hq, hp⟩ := bind_ok_inv hp
        obtain ⟨ql, qne, _, _, _⟩ := numRead hk2 hd2' hq
        have hshape : s = (splitAtFirst '/' s).1 ++ '/' :: t := by
          unfold splitAtFirst at ht ⊢
          cases hf : findChar '/' s with
          | none => rw [hf] at ht; simp at ht
          | some p =>
            rw [hf] at ht
            simp only at ht ⊢
            split at ht
            · cases ht
            · cases ht
              exact (findChar_split hf).1
        refine ⟨_, h1, nl, fun c hc => List.all_eq_true.mp hd' c hc, Or.inr ⟨t, hshape, ?_, ql, fun c hc => List.all_eq_true.mp hd2' c hc⟩⟩
        cases hx : t with
        | nil => exact absurd hx qne
        | cons _ _ => simp
      · rename_i hnone
        -- no sequence number: the text has no slash at all, so the number is the whole text
        have hst : (splitAtFirst '/' s).1 = s := by
          have hc : s.contains '/' = false := by
            have : ¬ (((splitAtFirst '/' s).2.isNone && s.contains '/') = true) := hfirst
            rw [hnone] at this
            simpa using this
          unfold splitAtFirst
          cases hf : findChar '/' s with
          | none => rfl
          | some p =>
            exfalso
            have hm : '/' ∈ s := by
              have := (findChar_split hf).1
              rw [this]; simp
            have : s.contains '/' = true := List.contains_iff_mem.mpr hm
            rw [hc] at this; cases this
        rw [hst] at h1 nl hd'
        exact ⟨s, h1, nl, fun c hc => List.all_eq_true.mp hd' c hc, Or.inl rfl⟩
  · rintro ⟨a, a1, a5, ad, hs⟩
    have adall : a.all Char.isDigit = true := List.all_eq_true.mpr ad
    have ane : a ≠ [] := by intro he; subst he; simp at a1
    have aasc := all_digit_ascii a adall
    have alt := digitsVal_lt a 0 (by rw [← all_isDigit_iff]; exact adall)
    have pa : 10 ^ a.length ≤ 10 ^ 5 := Nat.pow_le_pow_right (by decide) a5
    have amax : digitsVal a 0 ≤ u32Max := by unfold u32Max; omega
    have ha5 : ¬ blen a > 5 := by rw [blen_ascii a aasc]; omega
    have ano := digits_no_slash a ad
    rcases hs with rfl | ⟨b, rfl, b1, bk, bd⟩
    · unfold Stmt.parse
      simp only
      have hsp : splitAtFirst '/' s = (s, none) := by unfold splitAtFirst; rw [findChar_none _ ano]
      rw [hsp]
      simp only [contains_false_of_ne _ _ ano, Bool.and_false, Bool.false_eq_true, if_false, ha5, parseNumeric, Res.guard, adall,
        if_true, Res.bind_ok, parseUInt_digits ane amax, Res.pure_eq]
      rfl
    · have bdall : b.all Char.isDigit = true := List.all_eq_true.mpr bd
      have bne : b ≠ [] := by intro he; subst he; simp at b1
      have basc := all_digit_ascii b bdall
      have blt := digitsVal_lt b 0 (by rw [← all_isDigit_iff]; exact bdall)
      have pb : 10 ^ b.length ≤ 10 ^ k := Nat.pow_le_pow_right (by decide) bk
      have bmax : digitsVal b 0 ≤ mx := by omega
      have hbk : ¬ blen b > k := by rw [blen_ascii b basc]; omega
      unfold Stmt.parse
      simp only
      rw [splitAtFirst_append '/' a b ano bne]
      simp only [Option.isNone_some, Bool.false_and, Bool.false_eq_true, if_false, ha5, parseNumeric, Res.guard, adall, if_true,
        Res.bind_ok, parseUInt_digits ane amax, hbk, bdall, parseUInt_digits bne bmax, Res.pure_eq]
      rfl

/-- 28 `5n[/2n]` and 28C `5n[/5n]` -/
theorem accepts_iff_28 (s : Text) : (F28.parse s).isOk = true ↔ DocStmt 2 s :=
  accepts_iff_stmt 2 255 (by decide) (by decide) s
theorem accepts_iff_28C (s : Text) : (F28C.parse s).isOk = true ↔ DocStmt 5 s :=
  accepts_iff_stmt 5 u32Max (by decide) (by decide) s


/-- 11 `3!n6!n`: a three-digit message type and a calendar date -/
theorem accepts_iff_11 (s : Text) :
    (F11.parse s).isOk = true ↔ ∃ mt date, s = mt ++ date ∧ Doc.Digits 3 mt ∧ Doc.Date date := by
  constructor
  · intro h
    cases hp : F11.parse s with
    | err => rw [hp] at h; simp [Res.isOk] at h
    | panic => rw [hp] at h; simp [Res.isOk] at h
    | ok v =>
      unfold F11.parse at hp
      split at hp; · cases hp
      rename_i hasc
      split at hp; · cases hp
      rename_i hlen
      have ha : isAsciiT s = true := by simpa using hasc
      have hl : s.length = 9 := by
        have : blen s = 9 := by simpa using hlen
        rw [blen_ascii s ha] at this; exact this
      rw [bto_ascii s 3 ha (by omega)] at hp
      simp only [Res.bind_ok] at hp
      obtain ⟨_, hmt, hp⟩ := bind_ok_inv hp
      rw [bslice_ascii s 3 9 ha (by omega) (by omega)] at hp
      simp only [Res.bind_ok] at hp
      obtain ⟨_, _, hp⟩ := bind_ok_inv hp
      obtain ⟨date, hd, hp⟩ := bind_ok_inv hp
      have hmt' : (s.take 3).all Char.isDigit = true := by unfold parseNumeric at hmt; exact guard_ok hmt
      refine ⟨s.take 3, (s.drop 3).take (9 - 3), ?_, ⟨by simp; omega, fun c hc => List.all_eq_true.mp hmt' c hc⟩, ?_⟩
      · have : (s.drop 3).take (9 - 3) = s.drop 3 := List.take_of_length_le (by simp [List.length_drop]; omega)
        rw [this, List.take_append_drop]
      · unfold Doc.Date; rw [ofOption_ok hd]; rfl
  · rintro ⟨mt, date, rfl, ⟨m3, md⟩, hd⟩
    obtain ⟨d1, d2⟩ := date_shape date hd
    have mdall : mt.all Char.isDigit = true := List.all_eq_true.mpr md
    have hall : isAsciiT (mt ++ date) = true := by
      have := all_digit_ascii mt mdall
      have := all_digit_ascii date d2
      unfold isAsciiT at *; simp only [List.all_append, *, Bool.and_true]
    have hlen : (mt ++ date).length = 9 := by simp [m3, d1]
    have hb : blen (mt ++ date) = 9 := by rw [blen_ascii _ hall]; exact hlen
    have e0 : (mt ++ date).take 3 = mt := by
      rw [List.take_append_of_le_length (by omega)]; exact List.take_of_length_le (by omega)
    have e3 : ((mt ++ date).drop 3).take (9 - 3) = date := by
      rw [List.drop_append_of_le_length (by omega), List.drop_of_length_le (by omega), List.nil_append]
      exact List.take_of_length_le (by omega)
    unfold F11.parse
    simp only [hall, Bool.not_true, Bool.false_eq_true, if_false, hb, bne_self_eq_false]
    rw [bto_ascii _ 3 hall (by omega), bslice_ascii _ 3 9 hall (by omega) (by omega)]
    unfold Doc.Date at hd
    cases hpd : parseDateYYMMDD date with
    | none => simp [hpd] at hd
    | some dv =>
      simp only [Res.bind_ok, e0, e3, parseNumeric, Res.guard, mdall, d2, if_true, Res.ofOption, hpd, Res.pure_eq]
      rfl


/-- 11R / 11S `3!n6!n[4!n][6!n]`: message type, calendar date, then nothing, a session number, an input sequence number or both -/
theorem accepts_iff_11RS (s : Text) :
    (F11RS.parse s).isOk = true ↔
      ∃ mt date rest, s = mt ++ date ++ rest ∧ Doc.Digits 3 mt ∧ Doc.Date date ∧ (∀ c ∈ rest, c.isDigit = true) ∧
        (rest.length = 0 ∨ rest.length = 4 ∨ rest.length = 6 ∨ rest.length = 10) := by
  constructor
  · intro h
    cases hp : F11RS.parse s with
    | err => rw [hp] at h; simp [Res.isOk] at h
    | panic => rw [hp] at h; simp [Res.isOk] at h
    | ok v =>
      unfold F11RS.parse at hp
      split at hp; · cases hp
      rename_i hasc
      split at hp; · cases hp
      rename_i hlen
      have ha : isAsciiT s = true := by simpa using hasc
      have hl : 3 ≤ s.length := by
        have : ¬ blen s < 3 := by simpa using hlen
        rw [blen_ascii s ha] at this; omega
      rw [bto_ascii s 3 ha hl, bfrom_ascii s 3 ha hl] at hp
      simp only [Res.bind_ok] at hp
      obtain ⟨_, hmt, hp⟩ := bind_ok_inv hp
      have ha3 := isAsciiT_drop s 3 ha
      split at hp; · cases hp
      rename_i hlen2
      have hl2 : 6 ≤ (s.drop 3).length := by
        have : ¬ blen (s.drop 3) < 6 := by simpa using hlen2
        rw [blen_ascii _ ha3] at this; omega
      rw [bto_ascii _ 6 ha3 hl2, bfrom_ascii _ 6 ha3 hl2] at hp
      simp only [Res.bind_ok] at hp
      obtain ⟨_, _, hp⟩ := bind_ok_inv hp
      obtain ⟨date, hd, hp⟩ := bind_ok_inv hp
      split at hp; · cases hp
      rename_i hrest
      have ha9 := isAsciiT_drop _ 6 ha3
      have hb9 := blen_ascii _ ha9
      have hmt' : (s.take 3).all Char.isDigit = true := by unfold parseNumeric at hmt; exact guard_ok hmt
      have hrest' : ((s.drop 3).drop 6).all Char.isDigit = true := by simpa using hrest
      have hlenopt : ((s.drop 3).drop 6).length = 0 ∨ ((s.drop 3).drop 6).length = 4 ∨ ((s.drop 3).drop 6).length = 6 ∨ ((s.drop 3).drop 6).length = 10 := by
        rw [hb9] at hp
        split at hp
        · rename_i h0; exact Or.inl h0
        · rename_i h4; exact Or.inr (Or.inl h4)
        · rename_i h6; exact Or.inr (Or.inr (Or.inl h6))
        · rename_i h10; exact Or.inr (Or.inr (Or.inr h10))
        · cases hp
      refine ⟨s.take 3, (s.drop 3).take 6, (s.drop 3).drop 6, ?_, ⟨by simp; omega, fun c hc => List.all_eq_true.mp hmt' c hc⟩, ?_,
        fun c hc => List.all_eq_true.mp hrest' c hc, hlenopt⟩
      · rw [List.append_assoc, List.take_append_drop, List.take_append_drop]
      · unfold Doc.Date; rw [ofOption_ok hd]; rfl
  · rintro ⟨mt, date, rest, rfl, ⟨m3, md⟩, hd, rd, rl⟩
    obtain ⟨d1, d2⟩ := date_shape date hd
    have mdall : mt.all Char.isDigit = true := List.all_eq_true.mpr md
    have rdall : rest.all Char.isDigit = true := List.all_eq_true.mpr rd
    have masc := all_digit_ascii mt mdall
    have dasc := all_digit_ascii date d2
    have rasc := all_digit_ascii rest rdall
    have hall : isAsciiT (mt ++ date ++ rest) = true := by
      unfold isAsciiT at *; simp only [List.all_append, masc, dasc, rasc, Bool.and_true]
    have hlen : (mt ++ date ++ rest).length = 9 + rest.length := by simp [m3, d1]; omega
    have hb : blen (mt ++ date ++ rest) = 9 + rest.length := by rw [blen_ascii _ hall]; exact hlen
    have e0 : (mt ++ date ++ rest).take 3 = mt := by
      rw [List.append_assoc, List.take_append_of_le_length (by omega)]; exact List.take_of_length_le (by omega)
    have e3 : (mt ++ date ++ rest).drop 3 = date ++ rest := by
      rw [List.append_assoc, List.drop_append_of_le_length (by omega), List.drop_of_length_le (by omega), List.nil_append]
    have e36 : (date ++ rest).take 6 = date := by
      rw [List.take_append_of_le_length (by omega)]; exact List.take_of_length_le (by omega)
    have e39 : (date ++ rest).drop 6 = rest := by
      rw [List.drop_append_of_le_length (by omega), List.drop_of_length_le (by omega), List.nil_append]
    have hdr : isAsciiT (date ++ rest) = true := by unfold isAsciiT at *; simp only [List.all_append, dasc, rasc, Bool.and_true]
    unfold F11RS.parse
    have h1 : ¬ (9 + rest.length < 3) := by omega
    simp only [hall, Bool.not_true, Bool.false_eq_true, if_false, hb, h1]
    rw [bto_ascii _ 3 hall (by omega), bfrom_ascii _ 3 hall (by omega)]
    simp only [Res.bind_ok, e0, e3]
    have hb2 : blen (date ++ rest) = 6 + rest.length := by rw [blen_ascii _ hdr]; simp [d1]
    have h2 : ¬ (6 + rest.length < 6) := by omega
    rw [bto_ascii _ 6 hdr (by simp [d1]), bfrom_ascii _ 6 hdr (by simp [d1])]
    unfold Doc.Date at hd
    cases hpd : parseDateYYMMDD date with
    | none => simp [hpd] at hd
    | some dv =>
      have hrb : blen rest = rest.length := blen_ascii rest rasc
      simp only [parseNumeric, Res.guard, mdall, if_true, Res.bind_ok, hb2, h2, if_false, e36, e39, d2, Res.ofOption, hpd, rdall,
        Bool.not_true, Bool.false_eq_true, hrb]
      rcases rl with r0 | r4 | r6 | r10
      · rw [r0]; rfl
      · rw [r4]; rfl
      · rw [r6]; rfl
      · rw [r10]
        have : 4 ≤ rest.length := by omega
        simp only [bto_ascii rest 4 rasc this, bfrom_ascii rest 4 rasc this, Res.bind_ok, Res.pure_eq]
        rfl

/-! ### 25 (no option): `35x` after one optional slash — the convention recorded as finding F-C01-field25-slash -/

/-- the library's reading of field 25's content: one optional leading slash is not part of the account -/
def strip25 (s : Text) : Text := match s with | '/' :: r => r | _ => s

/-- 25 `35x`: after the one optional leading slash, 1 to 35 x-characters -/
theorem accepts_iff_25 (s : Text) : (F25.parse s).isOk = true ↔ Doc.XText 35 (strip25 s) := by
  have e : F25.parse s = (do
      let a ← parseMaxLength (strip25 s) 35
      if a.isEmpty then Res.err else
      parseSwiftChars a
      pure a) := by
    unfold F25.parse strip25; rfl
  rw [e]
  generalize strip25 s = a
  unfold parseMaxLength
  constructor
  · intro h
    by_cases hl : blen a ≤ 35
    · simp only [hl, if_true, Res.bind_ok] at h
      by_cases hne : a.isEmpty = true
      · simp [hne, Res.isOk] at h
      · simp only [hne] at h
        have hx : a.all isSwiftX = true := by
          unfold parseSwiftChars Res.guard at h
          by_cases hh : a.all isSwiftX = true
          · exact hh
          · simp [hh, Res.isOk] at h
        exact xtext_of_checks 35 a hl (by intro he; subst he; simp at hne) hx
    · simp [hl, Res.isOk] at h
  · intro hd
    obtain ⟨h1, h2, h3⟩ := checks_of_xtext 35 a hd
    have hne : a.isEmpty = false := by cases a <;> simp_all
    simp only [h1, if_true, Res.bind_ok, hne, Bool.false_eq_true, if_false, parseSwiftChars, Res.guard, h3]
    rfl

/-- the value is the content without that slash: nothing else is dropped -/
theorem value_25 (s a : Text) (h : F25.parse s = .ok a) : a = strip25 s := by
  have e : F25.parse s = (do
      let a ← parseMaxLength (strip25 s) 35
      if a.isEmpty then Res.err else
      parseSwiftChars a
      pure a) := by
    unfold F25.parse strip25; rfl
  rw [e] at h
  generalize strip25 s = b at h
  unfold parseMaxLength at h
  by_cases hl : blen b ≤ 35
  · simp only [hl, if_true, Res.bind_ok] at h
    by_cases hne : b.isEmpty = true
    · simp [hne] at h
    · simp only [hne] at h
      unfold parseSwiftChars Res.guard at h
      by_cases hh : b.all isSwiftX = true
      · simp [hh] at h; exact h.symm
      · simp [hh] at h
  · simp [hl] at h

/-- writing and re-reading: what `ser` prints is accepted again with the same value (the slash is re-added, then stripped) -/
theorem reread_25 (s a : Text) (h : F25.parse s = .ok a) : F25.parse (F25.ser a) = .ok a := by
  have hv := value_25 s a h
  have hok : (F25.parse s).isOk = true := by rw [h]; rfl
  have hd := (accepts_iff_25 s).mp hok
  rw [← hv] at hd
  have hok2 : (F25.parse (F25.ser a)).isOk = true := (accepts_iff_25 _).mpr (by simpa [F25.ser, strip25] using hd)
  cases hp : F25.parse (F25.ser a) with
  | ok b => have := value_25 _ b hp; simp [F25.ser, strip25] at this; rw [this]
  | err => simp [hp, Res.isOk] at hok2
  | panic => simp [hp, Res.isOk] at hok2

example : (F25.parse "/DE89370400440532013000".toList).isOk = true := by decide
example : (F25.parse "//X".toList) = .ok "/X".toList := by decide

/-- 50L `35x`: one line of 1 to 35 x-characters -/
theorem accepts_iff_50L (s : Text) : (F50L.parse s).isOk = true ↔ Doc.XText 35 s ∧ '\n' ∉ s := by
  unfold F50L.parse
  constructor
  · intro h
    split at h; · simp [Res.isOk] at h
    rename_i hnl
    split at h; · simp [Res.isOk] at h
    rename_i hl
    split at h
    · rename_i hx
      simp only [Bool.or_eq_true, not_or, gt_iff_lt, Nat.not_lt, decide_eq_true_eq] at hl
      refine ⟨xtext_of_checks 35 s (by omega) (by intro he; subst he; simp at hl) hx, ?_⟩
      simpa using hnl
    · simp [Res.isOk] at h
  · rintro ⟨hd, hnl⟩
    obtain ⟨h1, h2, h3⟩ := checks_of_xtext 35 s hd
    have hne : s.isEmpty = false := by cases s <;> simp_all
    have hc : s.contains '\n' = false := by simpa using hnl
    have hl : ¬ blen s > 35 := by omega
    simp [hnl, hne, hl, h3, Res.isOk]

example : (F50L.parse "INSTRUCTING PARTY 1".toList).isOk = true := by decide
/-! ### option B (52B, 54B, 55B, 57B …) and 53B -/

/-- option B `[/1!a][/34x]` + `[35x]`: nothing; a location alone; a party identifier alone; or both on two lines -/
def Doc.OptionB (s : Text) : Prop :=
  s = [] ∨ (s.head? ≠ some '/' ∧ Doc.XText 35 s) ∨ Doc.PartyId s ∨
  (∃ l loc, s = l ++ '\n' :: loc ∧ Doc.PartyId l ∧ Doc.XText 35 loc)

theorem xtext_no_nl (n : Nat) (s : Text) (h : Doc.XText n s) : ∀ c ∈ s, c ≠ '\n' :=
  fun c hc => swiftX_not_nl c (h.2.2 c hc)

theorem accepts_iff_optB (s : Text) : (OptB.parse s).isOk = true ↔ Doc.OptionB s := by
  constructor
  · intro h
    unfold OptB.parse at h
    have hj := joinNl_splitNl s
    split at h
    · rename_i he; left; simpa using he
    · rename_i hne
      split at h
      · cases h
      · rename_i l0 rest hsp
        rw [hsp] at hj
        split at h
        · cases h
        · cases h
        · rename_i p hp
          have hpid := (pid_accepts_iff l0).mp ⟨p, hp⟩
          split at h
          · right; right; left
            have : s = l0 := by rw [← hj]; rfl
            rw [this]; exact hpid
          · rename_i loc
            split at h; · cases h
            rename_i hl
            split at h; · cases h
            rename_i hle
            split at h
            · rename_i hx
              right; right; right
              refine ⟨l0, loc, by rw [← hj]; rfl, hpid, xtext_of_checks 35 loc (by omega) (by intro e; subst e; simp at hle) hx⟩
            · cases h
          · cases h
        · rename_i hp
          have hh := pid_none l0 hp
          split at h; · cases h
          rename_i hre
          have hr' : rest = [] := by simpa using hre
          subst hr'
          have hs : s = l0 := by rw [← hj]; rfl
          subst hs
          split at h; · cases h
          rename_i hl
          split at h
          · rename_i hx
            right; left
            exact ⟨hh, xtext_of_checks 35 s (by omega) (by intro e; subst e; simp at hne) hx⟩
          · cases h
  · intro h
    rcases h with rfl | ⟨hh, hd⟩ | hp | ⟨l, loc, rfl, hp, hd⟩
    · simp [OptB.parse, Res.isOk]
    · have hnl := xtext_no_nl 35 s hd
      obtain ⟨h1, h2, h3⟩ := checks_of_xtext 35 s hd
      have hne : s.isEmpty = false := by cases s <;> simp_all
      have hl : ¬ blen s > 35 := by omega
      unfold OptB.parse
      simp only [hne, Bool.false_eq_true, if_false, splitNl_no_nl s hnl, pid_none_of_head s hh, List.isEmpty_nil, Bool.not_true, hl, h3, if_true]
      rfl
    · have hnl := partyId_no_nl s hp
      obtain ⟨p, hpp⟩ := (pid_accepts_iff s).mpr hp
      have hne : s.isEmpty = false := by
        cases s with
        | nil => simp [parsePartyIdentifier] at hpp
        | cons _ _ => rfl
      unfold OptB.parse
      simp only [hne, Bool.false_eq_true, if_false, splitNl_no_nl s hnl, hpp]
      rfl
    · have hnl := partyId_no_nl l hp
      have hlnl := xtext_no_nl 35 loc hd
      obtain ⟨p, hpp⟩ := (pid_accepts_iff l).mpr hp
      obtain ⟨h1, h2, h3⟩ := checks_of_xtext 35 loc hd
      have hle : loc.isEmpty = false := by cases loc <;> simp_all
      have hl : ¬ blen loc > 35 := by omega
      have hne : (l ++ '\n' :: loc).isEmpty = false := by cases l <;> rfl
      unfold OptB.parse
      simp only [hne, Bool.false_eq_true, if_false, splitNl_append_nl l loc hnl, splitNl_no_nl loc hlnl, hpp, hl, hle, h3, if_true]
      rfl

example : Doc.OptionB "/C/12345\nLONDON".toList := by
  refine Or.inr (Or.inr (Or.inr ⟨"/C/12345".toList, "LONDON".toList, by decide, ?_, ?_⟩))
  · exact Or.inr (Or.inl ⟨"C".toList, "12345".toList, by decide, by decide, by decide, by decide, by decide, by decide⟩)
  · exact ⟨by decide, by decide, by decide⟩

/-- 53B `[/1!a][/34x]` + `[35x]` as the library documents it: nothing; one line of x-characters (at most 34 of them
when it is a party identifier, i.e. starts with a slash; at most 35 otherwise); or a first line of 1 to 34 and a second
of 1 to 35 x-characters -/
def Doc.F53B (s : Text) : Prop :=
  s = [] ∨ (Doc.XText 35 s ∧ (s.head? = some '/' → s.length ≤ 34)) ∨
  (∃ a b, s = a ++ '\n' :: b ∧ Doc.XText 34 a ∧ Doc.XText 35 b)

theorem accepts_iff_53B (s : Text) : (F53B.parse s).isOk = true ↔ Doc.F53B s := by
  constructor
  · intro h
    unfold F53B.parse at h
    have hj := joinNl_splitNl s
    split at h
    · rename_i he; left; simpa using he
    · rename_i hne
      have hne' : s ≠ [] := by intro e; subst e; simp at hne
      simp only at h
      split at h; · cases h
      split at h; · cases h
      rename_i hany
      split at h
      · rename_i a b hsp
        rw [hsp] at hj
        simp only [hsp, List.any_cons, List.any_nil, Bool.or_false, Bool.or_eq_true, not_or, Bool.not_eq_true] at hany
        split at h; · cases h
        rename_i hla
        split at h; · cases h
        rename_i hxa
        split at h; · cases h
        rename_i hlb
        split at h; · cases h
        rename_i hxb
        simp only [Bool.not_eq_true', Bool.not_eq_false] at hxa hxb
        right; right
        refine ⟨a, b, by rw [← hj]; rfl, xtext_of_checks 34 a (by omega) (by intro e; subst e; simp at hany) hxa,
          xtext_of_checks 35 b (by omega) (by intro e; subst e; simp at hany) hxb⟩
      · rename_i line hsp
        rw [hsp] at hj
        have hs : s = line := by rw [← hj]; rfl
        subst hs
        right; left
        split at h
        · rename_i hparty
          split at h; · cases h
          rename_i hl
          split at h; · cases h
          rename_i hx
          simp only [Bool.not_eq_true', Bool.not_eq_false] at hx
          have hd := xtext_of_checks 34 s (by omega) hne' hx
          exact ⟨⟨hd.1, by have := hd.2.1; omega, hd.2.2⟩, fun _ => hd.2.1⟩
        · rename_i hparty
          split at h; · cases h
          rename_i hl
          split at h; · cases h
          rename_i hx
          simp only [Bool.not_eq_true', Bool.not_eq_false] at hx
          refine ⟨xtext_of_checks 35 s (by omega) hne' hx, fun hh => ?_⟩
          simp [hh] at hparty
      · cases h
  · intro h
    rcases h with rfl | ⟨hd, hh⟩ | ⟨a, b, rfl, ha, hb⟩
    · simp [F53B.parse, Res.isOk]
    · have hnl := xtext_no_nl 35 s hd
      obtain ⟨h1, h2, h3⟩ := checks_of_xtext 35 s hd
      have hasc := all_swiftX_ascii s h3
      have hbl := blen_ascii s hasc
      have hne : s.isEmpty = false := by cases s <;> simp_all
      unfold F53B.parse
      simp only [hne, Bool.false_eq_true, if_false, splitNl_no_nl s hnl, List.length_singleton, List.any_cons, List.any_nil, Bool.or_false]
      have hl35 : ¬ blen s > 35 := by omega
      simp only [show ¬ (1 > 2) by omega, if_false, h3, Bool.not_true, hl35]
      split
      · rename_i hparty
        have hl34 : ¬ blen s > 34 := by
          simp only [Bool.or_eq_true, beq_iff_eq, Bool.and_eq_true, decide_eq_true_eq] at hparty
          rcases hparty with hp | hp
          · have := hh hp; omega
          · omega
        simp only [hl34, if_false]; rfl
      · rfl
    · have hanl := xtext_no_nl 34 a ha
      have hbnl := xtext_no_nl 35 b hb
      obtain ⟨a1, a2, a3⟩ := checks_of_xtext 34 a ha
      obtain ⟨b1, b2, b3⟩ := checks_of_xtext 35 b hb
      have hae : a.isEmpty = false := by cases a <;> simp_all
      have hbe : b.isEmpty = false := by cases b <;> simp_all
      have hne : (a ++ '\n' :: b).isEmpty = false := by cases a <;> rfl
      have hla : ¬ blen a > 34 := by omega
      have hlb : ¬ blen b > 35 := by omega
      unfold F53B.parse
      simp only [hne, Bool.false_eq_true, if_false, splitNl_append_nl a b hanl, splitNl_no_nl b hbnl, List.length_cons, List.length_nil,
        List.any_cons, List.any_nil, hae, hbe, Bool.or_false, show ¬ (0 + 1 + 1 > 2) by omega, hla, hlb, a3, b3, Bool.not_true]
      rfl

example : Doc.F53B "/C/12345\nLONDON".toList :=
  Or.inr (Or.inr ⟨"/C/12345".toList, "LONDON".toList, by decide, ⟨by decide, by decide, by decide⟩, ⟨by decide, by decide, by decide⟩⟩)

/-- what makes the library read the first line of 53D as a party identifier when more lines follow -/
def looks53D (first : Text) : Bool :=
  first.head? == some '/' || (decide (blen first ≤ 34) && !first.contains ' ' && first.any Char.isDigit)

/-- 53D `[/1!a][/34x]` + `4*35x`: 1 to 5 lines, each of 1 to 35 x-characters; a fifth line is allowed only when the
first is a party identifier (starts with a slash, or has no blank, a digit and at most 34 characters) -/
def Doc.F53D (s : Text) : Prop :=
  (∀ l ∈ splitNl s, Doc.XText 35 l) ∧ (splitNl s).length ≤ 5 ∧
  ((splitNl s).length = 5 → ∀ f ∈ (splitNl s).head?, looks53D f = true)

theorem accepts_iff_53D (s : Text) : (F53D.parse s).isOk = true ↔ Doc.F53D s := by
  unfold F53D.parse Doc.F53D
  have hnn := splitNl_ne_nil s
  cases hsp : splitNl s with
  | nil => exact absurd hsp hnn
  | cons first rest =>
    simp only [List.mem_cons, forall_eq_or_imp, List.length_cons, List.head?_cons, Option.mem_def, Option.some.injEq, forall_eq']
    have hlk_def : (first.head? == some '/' || (decide (blen first ≤ 34) && !first.contains ' ' && first.any Char.isDigit)) = looks53D first := rfl
    simp only [hlk_def]
    by_cases hc : (looks53D first && !first.isEmpty && !rest.isEmpty) = true
    · simp only [hc, if_true]
      simp only [Bool.and_eq_true, Bool.not_eq_true', List.isEmpty_eq_false_iff] at hc
      obtain ⟨⟨hlk, hfe⟩, hre⟩ := hc
      constructor
      · intro h
        split at h; · cases h
        rename_i hl
        split at h; · cases h
        rename_i hx
        simp only [Bool.not_eq_true', Bool.not_eq_false] at hx
        have hna : (parseNameAndAddress rest 0).isOk = true := by
          cases hp : parseNameAndAddress rest 0 with
          | ok ls => rfl
          | err => simp [hp] at h; cases h
          | panic => simp [hp] at h; cases h
        obtain ⟨n1, n2, n3⟩ := (nameAddr_accepts_iff rest).mp hna
        exact ⟨⟨xtext_of_checks 35 first (by omega) hfe hx, n3⟩, by omega, fun _ => hlk⟩
      · rintro ⟨⟨hf, hr⟩, hlen, _⟩
        obtain ⟨f1, f2, f3⟩ := checks_of_xtext 35 first hf
        have hl : ¬ blen first > 35 := by omega
        have hna : (parseNameAndAddress rest 0).isOk = true :=
          (nameAddr_accepts_iff rest).mpr ⟨by cases rest with | nil => exact absurd rfl hre | cons _ _ => simp, by omega, hr⟩
        simp only [hl, if_false, f3, Bool.not_true, Bool.false_eq_true]
        cases hp : parseNameAndAddress rest 0 with
        | ok ls => rfl
        | err => rw [hp] at hna; cases hna
        | panic => rw [hp] at hna; cases hna
    · simp only [hc, Bool.false_eq_true, if_false]
      refine Iff.trans (b := Doc.NameLines (first :: rest)) ?_ ?_
      · rw [← nameAddr_accepts_iff (first :: rest)]
        cases parseNameAndAddress (first :: rest) 0 <;> simp [Res.isOk]
      unfold Doc.NameLines
      simp only [List.length_cons, List.mem_cons, forall_eq_or_imp]
      constructor
      · rintro ⟨_, h2, hf, hr⟩
        exact ⟨⟨hf, hr⟩, by omega, fun h5 => by omega⟩
      · rintro ⟨⟨hf, hr⟩, hlen, h5⟩
        refine ⟨by omega, ?_, hf, hr⟩
        by_cases h5' : rest.length + 1 = 5
        · have hlk := h5 h5'
          have hfe : first.isEmpty = false := by
            obtain ⟨f1, f2, f3⟩ := checks_of_xtext 35 first hf
            cases first <;> simp_all
          have hre : rest.isEmpty = false := by cases rest with | nil => simp at h5' | cons _ _ => rfl
          simp [hlk, hfe, hre] at hc
        · omega
example : Doc.F53D "/1234\nBANK".toList := by
  refine ⟨?_, by decide, by decide⟩
  have e : splitNl "/1234\nBANK".toList = ["/1234".toList, "BANK".toList] := by decide
  rw [e]
  intro l hl
  simp only [List.mem_cons, List.mem_nil_iff, or_false] at hl
  rcases hl with rfl | rfl <;> exact ⟨by decide, by decide, by decide⟩


/-- 51A `[/1!a][/34x]` + BIC: a BIC alone, or a party identifier line and a BIC -/
def Doc.F51A (s : Text) : Prop :=
  Doc.Bic s ∨ ∃ l b, s = l ++ '\n' :: b ∧ Doc.PartyId l ∧ Doc.Bic b

theorem bic_isOk_of_ok {s b : Text} (h : parseBic s = .ok b) : (parseBic s).isOk = true := by rw [h]; rfl

theorem accepts_iff_51A (s : Text) : (F51A.parse s).isOk = true ↔ Doc.F51A s := by
  constructor
  · intro h
    unfold F51A.parse at h
    split at h
    · cases h
    · cases h
    · rename_i pid rem hv
      unfold F51A.viaNl at hv
      split at hv
      · rename_i p hp
        obtain ⟨hs, _⟩ := findChar_split hp
        split at hv
        · rename_i id hid
          cases hv
          right
          refine ⟨s.take p, s.drop (p + 1), hs, (pid_accepts_iff _).mp ⟨id, hid⟩, ?_⟩
          split at h
          · rename_i b hb; exact (accepts_iff_bic _).mp (bic_isOk_of_ok hb)
          · cases h
          · cases h
        · cases hv
        · cases hv
        · cases hv
      · cases hv
    · split at h
      · cases h
      · split at h
        · rename_i b hb; left; exact (accepts_iff_bic _).mp (bic_isOk_of_ok hb)
        · cases h
        · cases h
  · intro h
    rcases h with hb | ⟨l, b, rfl, hl, hb⟩
    · have hnonl : ∀ c ∈ s, c ≠ '\n' := fun c hc => (upperOrDigit_not_nl_slash c (bic_chars s hb c hc)).1
      have hok := (accepts_iff_bic s).mpr hb
      have hhead : (s.head? == some '/') = false := by
        have := bic_head_not_slash s hb
        cases hh : s.head? with
        | none => rfl
        | some c => rw [hh] at this; simp only [ne_eq, Option.some.injEq] at this; simp [this]
      unfold F51A.parse F51A.viaNl
      simp only [findChar_none s hnonl, hhead, Bool.false_and, Bool.false_eq_true, if_false]
      cases hp : parseBic s with
      | ok bic => rfl
      | err => rw [hp] at hok; cases hok
      | panic => rw [hp] at hok; cases hok
    · have hnl := partyId_no_nl l hl
      obtain ⟨p, hp⟩ := (pid_accepts_iff l).mpr hl
      have hok := (accepts_iff_bic b).mpr hb
      unfold F51A.parse F51A.viaNl
      have ht : (l ++ '\n' :: b).take l.length = l := List.take_left' rfl
      have hd : (l ++ '\n' :: b).drop (l.length + 1) = b := by
        rw [show l ++ '\n' :: b = (l ++ ['\n']) ++ b by simp]
        exact List.drop_left' (by simp)
      simp only [findChar_append l b hnl, ht, hd, hp]
      cases hpb : parseBic b with
      | ok bic => rfl
      | err => rw [hpb] at hok; cases hok
      | panic => rw [hpb] at hok; cases hok

/-- 59A `[/34x]` + BIC, both directions: accepted exactly when it is a BIC, or an account line and a BIC -/
theorem accepts_iff_59A (s : Text) :
    (F59A.parse s).isOk = true ↔ (Doc.Bic s ∨ ∃ l b, s = l ++ '\n' :: b ∧ Doc.AccountLine l ∧ Doc.Bic b) := by
  refine ⟨fun h => ?_, accepts_59A_of_doc s⟩
  unfold F59A.parse at h
  have hj := joinNl_splitNl s
  split at h
  · cases h
  · rename_i l0 rest hsp
    rw [hsp] at hj
    split at h
    · rename_i acc hacc
      split at h
      · cases h
      · rename_i b rest'
        split at h
        · rename_i bic hb
          split at h
          · rename_i hre
            have hr' : rest' = [] := by simpa using hre
            subst hr'
            right
            exact ⟨l0, b, by rw [← hj]; rfl, (acctLenient_some_iff l0).mp ⟨acc, hacc⟩, (accepts_iff_bic b).mp (by rw [hb]; rfl)⟩
          · cases h
        · cases h
        · cases h
    · split at h
      · rename_i bic hb
        split at h
        · rename_i hre
          have hr' : rest = [] := by simpa using hre
          subst hr'
          left
          have : s = l0 := by rw [← hj]; rfl
          rw [this]; exact (accepts_iff_bic l0).mp (by rw [hb]; rfl)
        · cases h
      · cases h
      · cases h
    · cases h
    · cases h

/-- when the first line of 59 is not read as an account -/
theorem acctLenient_none_iff (l : Text) :
    acctLenient l = .ok none ↔ (l.head? ≠ some '/' ∨ ∃ id, l = '/' :: id ∧ blen id > 34) := by
  unfold acctLenient
  constructor
  · intro h
    split at h
    · rename_i id
      split at h; · cases h
      split at h
      · split at h <;> cases h
      · rename_i hl; exact Or.inr ⟨id, rfl, by omega⟩
    · rename_i hns
      left
      cases l with
      | nil => simp
      | cons c r => simp only [List.head?_cons, ne_eq, Option.some.injEq]; intro hc; subst hc; exact hns r rfl
  · rintro (h | ⟨id, rfl, hl⟩)
    · split
      · simp at h
      · rfl
    · have hne : id.isEmpty = false := by cases id with | nil => simp [blen] at hl | cons _ _ => rfl
      have : ¬ blen id ≤ 34 := by omega
      simp [hne, this]

/-- 59 `[/34x]` + `4*35x` over the lines of the content: an account line and 1 to 4 name lines, or 1 to 4 name lines of
which the first has no leading slash (a slash-led first line is an account line or nothing: 36 characters are no name line) -/
def Doc.F59Lines (l0 : Text) (rest : List Text) : Prop :=
  (Doc.AccountLine l0 ∧ Doc.NameLines rest) ∨
  (Doc.NameLines (l0 :: rest) ∧ l0.head? ≠ some '/')

/-- 59, both directions -/
theorem accepts_iff_59 (s : Text) :
    (F59.parse s).isOk = true ↔ ∃ l0 rest, splitNl s = l0 :: rest ∧ Doc.F59Lines l0 rest := by
  unfold F59.parse
  have hnn := splitNl_ne_nil s
  cases hsp : splitNl s with
  | nil => exact absurd hsp hnn
  | cons l0 rest =>
    have hex : (∃ a b, l0 :: rest = a :: b ∧ Doc.F59Lines a b) ↔ Doc.F59Lines l0 rest :=
      ⟨fun ⟨a, b, he, hq⟩ => by cases he; exact hq, fun hq => ⟨l0, rest, rfl, hq⟩⟩
    rw [hex]
    unfold Doc.F59Lines
    cases hacc : acctLenient l0 with
    | ok o =>
      cases o with
      | some acc =>
        have hal := (acctLenient_some_iff l0).mp ⟨acc, hacc⟩
        simp only [hacc]
        refine Iff.trans (b := Doc.NameLines rest) ?_ ?_
        · rw [← nameAddr_accepts_iff rest]
          cases parseNameAndAddress rest 0 <;> simp [Res.isOk]
        · constructor
          · intro h; exact Or.inl ⟨hal, h⟩
          · rintro (⟨_, h⟩ | ⟨hn, hh⟩)
            · exact h
            · exfalso
              obtain ⟨a, rfl, ha⟩ := hal
              simp at hh
      | none =>
        simp only [hacc]
        refine Iff.trans (b := Doc.NameLines (l0 :: rest)) ?_ ?_
        · rw [← nameAddr_accepts_iff (l0 :: rest)]
          cases parseNameAndAddress (l0 :: rest) 0 <;> simp [Res.isOk]
        · constructor
          · intro hn
            right
            refine ⟨hn, ?_⟩
            rcases (acctLenient_none_iff l0).mp hacc with h | ⟨id, rfl, hl⟩
            · exact h
            · exfalso
              have hx := hn.2.2 _ (List.mem_cons_self)
              obtain ⟨c1, c2, c3⟩ := checks_of_xtext 35 _ hx
              have hasc := all_swiftX_ascii _ c3
              have hida : isAsciiT id = true := by unfold isAsciiT at *; simp only [List.all_cons, Bool.and_eq_true] at hasc; exact hasc.2
              have := blen_ascii id hida
              have := hx.2.1
              simp at this; omega
          · rintro (⟨hal, _⟩ | ⟨hn, _⟩)
            · obtain ⟨a, ha⟩ := (acctLenient_some_iff l0).mpr hal
              rw [ha] at hacc; cases hacc
            · exact hn
    | err =>
      simp only [hacc, Res.isOk, Bool.false_eq_true, false_iff, not_or, not_and]
      refine ⟨fun hal => ?_, fun hn => ?_⟩
      · obtain ⟨a, ha⟩ := (acctLenient_some_iff l0).mpr hal
        rw [ha] at hacc; cases hacc
      · have hx := hn.2.2 _ (List.mem_cons_self)
        obtain ⟨c1, c2, c3⟩ := checks_of_xtext 35 _ hx
        unfold acctLenient at hacc
        split at hacc
        · rename_i id
          simp only [List.all_cons, Bool.and_eq_true] at c3
          split at hacc
          · rename_i he
            have : id = [] := by simpa using he
            subst this; simp
          · split at hacc
            · rename_i hl
              simp [c3.2] at hacc
            · cases hacc
        · cases hacc
    | panic =>
      exfalso
      unfold acctLenient at hacc
      repeat' split at hacc
      all_goals cases hacc
/-- the field models print a time of day with the function whose round trip C11 proves (`time_print_parse`, `time_parse_print`) -/
theorem hhmm_is_printHHMM (t : Nat × Nat) : hhmm t = C11.printHHMM t.1 t.2 := rfl

/-! ### numbered lines: 50A and 59F -/

/-- numbered lines `k/33x`, `k+1/33x`, …: the number is one digit, the text 1 to 33 x-characters -/
def Doc.NumberedFrom : Nat → List Text → Prop
  | _, [] => True
  | k, l :: ls => (∃ text, l = digitChar k :: '/' :: text ∧ k < 10 ∧ Doc.XText 33 text) ∧ Doc.NumberedFrom (k + 1) ls

theorem digitVal_eq_iff (d : Char) (k : Nat) : digitVal d = some k ↔ (d = digitChar k ∧ k < 10) :=
  ⟨fun h => ⟨(C11.digitChar_digitVal h).symm, C11.digitVal_lt h⟩, fun ⟨e, hk⟩ => e ▸ C11.digitVal_digitChar hk⟩

theorem numbered_accepts_iff (keep : Bool) (ls : List Text) (k : Nat) :
    (∃ r, numberedLines keep ls k = .ok r ∧ r.length = ls.length) ↔ Doc.NumberedFrom k ls := by
  induction ls generalizing k with
  | nil => simp [numberedLines, Doc.NumberedFrom]
  | cons line rest ih =>
    unfold numberedLines Doc.NumberedFrom
    constructor
    · rintro ⟨r, h, hlen⟩
      split at h
      · rename_i d text
        split at h; · cases h
        rename_i hd
        split at h; · cases h
        rename_i hne
        split at h; · cases h
        rename_i hl
        split at h; · cases h
        rename_i hx
        simp only [bne_iff_ne, ne_eq, Decidable.not_not] at hd
        simp only [Bool.not_eq_true', Bool.not_eq_false] at hx
        obtain ⟨hd1, hd2⟩ := (digitVal_eq_iff d k).mp hd
        split at h
        · rename_i ls' hls
          cases h
          simp only [List.length_cons, Nat.add_right_cancel_iff] at hlen
          exact ⟨⟨text, by rw [hd1], hd2, xtext_of_checks 33 text (by omega) (by intro e; subst e; simp at hne) hx⟩,
            (ih (k + 1)).mp ⟨ls', hls, hlen⟩⟩
        · cases h
        · cases h
      · cases h
    · rintro ⟨⟨text, rfl, hk, hx⟩, hrest⟩
      obtain ⟨r', hr', hlen'⟩ := (ih (k + 1)).mpr hrest
      obtain ⟨h1, h2, h3⟩ := checks_of_xtext 33 text hx
      have hne : text.isEmpty = false := by cases text <;> simp_all
      have hl : ¬ blen text > 33 := by omega
      refine ⟨(if keep then digitChar k :: '/' :: text else text) :: r', ?_, by simp [hlen']⟩
      simp only [C11.digitVal_digitChar hk, bne_self_eq_false, Bool.false_eq_true, if_false, hne, hl, h3, Bool.not_true, hr']

theorem numbered_length (keep : Bool) (ls r : List Text) (k : Nat) (h : numberedLines keep ls k = .ok r) : r.length = ls.length := by
  induction ls generalizing k r with
  | nil => simp [numberedLines] at h; subst h; rfl
  | cons line rest ih =>
    unfold numberedLines at h
    split at h
    · repeat (split at h; · cases h)
      split at h
      · rename_i ls' hls
        cases h
        simp [ih _ _ hls]
      · cases h
      · cases h
    · cases h

theorem numbered_isOk_iff (keep : Bool) (ls : List Text) (k : Nat) :
    (numberedLines keep ls k).isOk = true ↔ Doc.NumberedFrom k ls := by
  rw [← numbered_accepts_iff keep ls k]
  constructor
  · intro h
    cases hr : numberedLines keep ls k with
    | ok r => exact ⟨r, rfl, numbered_length keep ls r k hr⟩
    | err => rw [hr] at h; cases h
    | panic => rw [hr] at h; cases h
  · rintro ⟨r, hr, _⟩; rw [hr]; rfl

/-- 50A (as this library defines it) `[/34x]` + `4*(1!n/33x)` over the lines of the content: an optional party-identifier
line, then 1 to 4 lines numbered 1, 2, … -/
def Doc.F50ALines (l0 : Text) (rest : List Text) : Prop :=
  (∃ id, l0 = '/' :: id ∧ Doc.XText 34 id ∧ Doc.NumberedFrom 1 rest ∧ 1 ≤ rest.length ∧ rest.length ≤ 4) ∨
  (Doc.NumberedFrom 1 (l0 :: rest) ∧ rest.length + 1 ≤ 4)

theorem numbered_head_not_slash (k : Nat) (l : Text) (ls : List Text) (h : Doc.NumberedFrom k (l :: ls)) : l.head? ≠ some '/' := by
  obtain ⟨⟨text, rfl, hk, _⟩, _⟩ := h
  simp only [List.head?_cons, ne_eq, Option.some.injEq]
  intro he
  have := C11.digitVal_digitChar hk
  rw [he] at this
  have hn : digitVal '/' = none := by decide
  rw [hn] at this; cases this

theorem after_numbered {V : Type} (keep : Bool) (lines : List Text) (f : List Text → V) :
    (match numberedLines keep lines 1 with
      | .ok ls => if ls.isEmpty then (Res.err : Res V) else if ls.length > 4 then .err else .ok (f ls)
      | .err => .err
      | .panic => .panic).isOk = true ↔ (Doc.NumberedFrom 1 lines ∧ 1 ≤ lines.length ∧ lines.length ≤ 4) := by
  rw [← numbered_isOk_iff keep lines 1]
  cases hr : numberedLines keep lines 1 with
  | ok r =>
    have hlen := numbered_length keep lines r 1 hr
    simp only [Res.isOk, true_and]
    rw [← hlen]
    cases r with
    | nil => simp
    | cons a r' =>
      simp only [List.isEmpty_cons, Bool.false_eq_true, if_false, List.length_cons]
      by_cases h4 : r'.length + 1 > 4
      · simp only [h4, if_true]; constructor
        · intro h; cases h
        · intro h; omega
      · simp only [h4, if_false]; constructor
        · intro _; omega
        · intro _; trivial
  | err => simp [Res.isOk]
  | panic => simp [Res.isOk]

theorem accepts_iff_50A (s : Text) :
    (F50A.parse s).isOk = true ↔ ∃ l0 rest, splitNl s = l0 :: rest ∧ Doc.F50ALines l0 rest := by
  unfold F50A.parse
  have hnn := splitNl_ne_nil s
  cases hsp : splitNl s with
  | nil => exact absurd hsp hnn
  | cons l0 rest =>
    have hex : (∃ a b, l0 :: rest = a :: b ∧ Doc.F50ALines a b) ↔ Doc.F50ALines l0 rest :=
      ⟨fun ⟨a, b, he, hq⟩ => by cases he; exact hq, fun hq => ⟨l0, rest, rfl, hq⟩⟩
    rw [hex]
    unfold Doc.F50ALines
    simp only
    split
    · rename_i ident
      constructor
      · intro h
        split at h; · cases h
        rename_i hne
        split at h; · cases h
        rename_i hl
        split at h; · cases h
        rename_i hx
        simp only [Bool.not_eq_true', Bool.not_eq_false] at hx
        obtain ⟨hn, h1, h4⟩ := (after_numbered false rest _).mp h
        exact Or.inl ⟨ident, rfl, xtext_of_checks 34 ident (by omega) (by intro e; subst e; simp at hne) hx, hn, h1, h4⟩
      · rintro (⟨id, he, hx, hn, h1, h4⟩ | ⟨hn, _⟩)
        · cases he
          obtain ⟨c1, c2, c3⟩ := checks_of_xtext 34 ident hx
          have hne : ident.isEmpty = false := by cases ident <;> simp_all
          have hl : ¬ blen ident > 34 := by omega
          simp only [hne, Bool.false_eq_true, if_false, hl, c3, Bool.not_true]
          exact (after_numbered false rest _).mpr ⟨hn, h1, h4⟩
        · exact absurd rfl (numbered_head_not_slash 1 _ rest hn)
    · rename_i hns
      refine Iff.trans (after_numbered false (l0 :: rest) (fun ls => (⟨none, ls⟩ : OptD))) ?_
      simp only [List.length_cons]
      constructor
      · rintro ⟨hn, _, h4⟩; exact Or.inr ⟨hn, h4⟩
      · rintro (⟨id, he, _⟩ | ⟨hn, h4⟩)
        · exact absurd he (hns id)
        · exact ⟨hn, by omega, h4⟩

/-- 59F `[/34x]` + `4*(1!n/33x)` over the lines of the content: an optional party-identifier line (in one of the three
documented spellings), then 1 to 4 lines numbered 1, 2, … -/
def Doc.F59FLines (l0 : Text) (rest : List Text) : Prop :=
  (Doc.PartyId l0 ∧ Doc.NumberedFrom 1 rest ∧ 1 ≤ rest.length ∧ rest.length ≤ 4) ∨
  (Doc.NumberedFrom 1 (l0 :: rest) ∧ rest.length + 1 ≤ 4)

theorem accepts_iff_59F (s : Text) :
    (F59F.parse s).isOk = true ↔ ∃ l0 rest, splitNl s = l0 :: rest ∧ Doc.F59FLines l0 rest := by
  unfold F59F.parse
  have hnn := splitNl_ne_nil s
  cases hsp : splitNl s with
  | nil => exact absurd hsp hnn
  | cons l0 rest =>
    have hex : (∃ a b, l0 :: rest = a :: b ∧ Doc.F59FLines a b) ↔ Doc.F59FLines l0 rest :=
      ⟨fun ⟨a, b, he, hq⟩ => by cases he; exact hq, fun hq => ⟨l0, rest, rfl, hq⟩⟩
    rw [hex]
    unfold Doc.F59FLines
    simp only
    cases hp : parsePartyIdentifier l0 with
    | ok o =>
      cases o with
      | some p =>
        have hpid := (pid_accepts_iff l0).mp ⟨p, hp⟩
        simp only
        refine Iff.trans (after_numbered true rest (fun ls => (⟨some p, ls⟩ : OptD))) ?_
        constructor
        · rintro ⟨hn, h1, h4⟩; exact Or.inl ⟨hpid, hn, h1, h4⟩
        · rintro (⟨_, hn, h1, h4⟩ | ⟨hn, _⟩)
          · exact ⟨hn, h1, h4⟩
          · exact absurd (partyId_head l0 hpid) (numbered_head_not_slash 1 _ rest hn)
      | none =>
        simp only
        refine Iff.trans (after_numbered true (l0 :: rest) (fun ls => (⟨none, ls⟩ : OptD))) ?_
        simp only [List.length_cons]
        constructor
        · rintro ⟨hn, _, h4⟩; exact Or.inr ⟨hn, h4⟩
        · rintro (⟨hpid, _⟩ | ⟨hn, h4⟩)
          · obtain ⟨p, hpp⟩ := (pid_accepts_iff l0).mpr hpid
            rw [hpp] at hp; cases hp
          · exact ⟨hn, by omega, h4⟩
    | err =>
      simp only [Res.isOk, Bool.false_eq_true, false_iff, not_or]
      refine ⟨fun ⟨hpid, _⟩ => ?_, fun ⟨hn, _⟩ => ?_⟩
      · obtain ⟨p, hpp⟩ := (pid_accepts_iff l0).mpr hpid
        rw [hpp] at hp; cases hp
      · have := pid_none_of_head l0 (numbered_head_not_slash 1 _ rest hn)
        rw [this] at hp; cases hp
    | panic => exact absurd hp (pid_no_panic l0)
example : Doc.NumberedFrom 1 ["1/JOHN DOE".toList, "2/1 HIGH ST".toList] :=
  ⟨⟨"JOHN DOE".toList, by decide, by decide, ⟨by decide, by decide, by decide⟩⟩,
   ⟨"1 HIGH ST".toList, by decide, by decide, ⟨by decide, by decide, by decide⟩⟩, trivial⟩


/-- 25P `35x` + BIC on two lines (**partial**: the glued one-line spelling, where the BIC is cut from the end, is covered
by `stable_25P` and the correspondence stream only): accepted exactly when the first line is 1 to 35 x-characters and the
second a BIC -/
theorem accepts_iff_25P_two_lines_partial (l0 l1 : Text) (h0 : ∀ c ∈ l0, c ≠ '\n') (h1 : ∀ c ∈ l1, c ≠ '\n') :
    (F25P.parse (l0 ++ '\n' :: l1)).isOk = true ↔ (Doc.XText 35 l0 ∧ Doc.Bic l1) := by
  unfold F25P.parse
  rw [splitNl_append_nl l0 l1 h0, splitNl_no_nl l1 h1]
  constructor
  · intro h
    split at h; · cases h
    simp only at h
    split at h; · cases h
    rename_i hl
    split at h; · cases h
    rename_i hx
    split at h; · cases h
    rename_i hne
    simp only [Bool.not_eq_true', Bool.not_eq_false] at hx
    refine ⟨xtext_of_checks 35 l0 (by omega) (by intro e; subst e; simp at hne) hx, ?_⟩
    cases hb : parseBic l1 with
    | ok b => exact (accepts_iff_bic l1).mp (by rw [hb]; rfl)
    | err => simp [hb] at h; cases h
    | panic => simp [hb] at h; cases h
  · rintro ⟨hx, hb⟩
    obtain ⟨c1, c2, c3⟩ := checks_of_xtext 35 l0 hx
    have hne : l0.isEmpty = false := by cases l0 <;> simp_all
    have hl : ¬ blen l0 > 35 := by omega
    have hasc : isAsciiT (l0 ++ '\n' :: l1) = true := by
      unfold isAsciiT
      have a0 := all_swiftX_ascii l0 c3
      unfold isAsciiT at a0
      simp only [List.all_append, List.all_cons, a0, Bool.true_and, Bool.and_eq_true]
      refine ⟨by decide, List.all_eq_true.mpr fun c hc => upperOrDigit_ascii c (bic_chars l1 hb c hc)⟩
    have hok := (accepts_iff_bic l1).mpr hb
    simp only [hasc, Bool.not_true, Bool.false_eq_true, if_false, hl, c3, hne]
    cases hpb : parseBic l1 with
    | ok b => rfl
    | err => rw [hpb] at hok; cases hok
    | panic => rw [hpb] at hok; cases hok
/-! ### 50F: account, optional party line, up to four name lines, BIC -/

/-- up to four lines of 1 to 35 x-characters (possibly none) -/
def Doc.NameLines04 (ls : List Text) : Prop := ls.length ≤ 4 ∧ ∀ l ∈ ls, Doc.XText 35 l

/-- the lines between the account and the BIC of 50F: an optional `/34x` line, then up to four `35x` lines -/
def Doc.F50FMid (mid : List Text) : Prop :=
  (∃ pid names, mid = ('/' :: pid) :: names ∧ Doc.XText 34 pid ∧ Doc.NameLines04 names) ∨
  ((mid.head?.bind List.head?) ≠ some '/' ∧ Doc.NameLines04 mid)

/-- 50F (as this library defines it): account `35x`, the middle lines, a BIC on the last line -/
def Doc.F50FLines (ls : List Text) : Prop :=
  ∃ account mid bic, ls = account :: (mid ++ [bic]) ∧ Doc.XText 35 account ∧ Doc.Bic bic ∧ Doc.F50FMid mid

theorem names04_iff (names : List Text) :
    ((!(names.all (fun l => !l.isEmpty && decide (blen l ≤ 35) && l.all isSwiftX))) = false ∧ ¬ names.length > 4) ↔ Doc.NameLines04 names := by
  unfold Doc.NameLines04
  simp only [Bool.not_eq_false', List.all_eq_true, Bool.and_eq_true, Bool.not_eq_true', decide_eq_true_eq, gt_iff_lt, Nat.not_lt]
  constructor
  · rintro ⟨h, hl⟩
    refine ⟨hl, fun l hl' => ?_⟩
    obtain ⟨⟨h1, h2⟩, h3⟩ := h l hl'
    exact xtext_of_checks 35 l h2 (by intro e; subst e; simp at h1) (List.all_eq_true.mpr h3)
  · rintro ⟨hl, h⟩
    refine ⟨fun l hl' => ?_, hl⟩
    obtain ⟨c1, c2, c3⟩ := checks_of_xtext 35 l (h l hl')
    exact ⟨⟨by cases l <;> simp_all, c1⟩, List.all_eq_true.mp c3⟩

theorem mid_accepts_iff (mid : List Text) :
    (∃ party names, F50F.mid mid = .ok (party, names) ∧ Doc.NameLines04 names) ↔ Doc.F50FMid mid := by
  unfold F50F.mid Doc.F50FMid
  split
  · rename_i pid tl
    constructor
    · rintro ⟨party, names, h, hn⟩
      split at h; · cases h
      rename_i hne
      split at h; · cases h
      rename_i hl
      split at h; · cases h
      rename_i hx
      simp only [Bool.not_eq_true', Bool.not_eq_false] at hx
      cases h
      exact Or.inl ⟨pid, tl, rfl, xtext_of_checks 34 pid (by omega) (by intro e; subst e; simp at hne) hx, hn⟩
    · rintro (⟨pid', names, he, hx, hn⟩ | ⟨hh, _⟩)
      · cases he
        obtain ⟨c1, c2, c3⟩ := checks_of_xtext 34 pid hx
        have hne : pid.isEmpty = false := by cases pid <;> simp_all
        have hl : ¬ blen pid > 34 := by omega
        exact ⟨some pid, tl, by simp [hne, hl, c3], hn⟩
      · simp at hh
  · rename_i hns
    constructor
    · rintro ⟨party, names, h, hn⟩
      cases h
      refine Or.inr ⟨?_, hn⟩
      cases mid with
      | nil => simp
      | cons a tl =>
        cases a with
        | nil => simp
        | cons c r =>
          simp only [List.head?_cons, Option.bind_some, ne_eq, Option.some.injEq]
          intro hc; subst hc; exact hns r tl rfl
    · rintro (⟨pid, names, he, _⟩ | ⟨_, hn⟩)
      · exact absurd he (hns pid names)
      · exact ⟨none, mid, rfl, hn⟩

theorem f50F_core (account : Text) (more : List Text) (hm : more ≠ []) :
    (if account.isEmpty then (Res.err : Res F50F)
      else if blen account > 35 then .err
      else if !(account.all isSwiftX) then .err
      else match parseBic (more.getLast?.getD []) with
        | .err => .err
        | .panic => .panic
        | .ok bic =>
          match F50F.mid more.dropLast with
          | .err => .err
          | .panic => .panic
          | .ok (party, names) =>
            if !(names.all (fun l => !l.isEmpty && decide (blen l ≤ 35) && l.all isSwiftX)) then .err
            else if names.length > 4 then .err
            else .ok ⟨account, party, names, bic⟩).isOk = true ↔
    (Doc.XText 35 account ∧ Doc.Bic (more.getLast hm) ∧ Doc.F50FMid more.dropLast) := by
  have hgl : more.getLast?.getD [] = more.getLast hm := by rw [List.getLast?_eq_some_getLast hm]; rfl
  rw [hgl, ← mid_accepts_iff, ← accepts_iff_bic]
  constructor
  · intro h
    split at h; · cases h
    rename_i hne
    split at h; · cases h
    rename_i hl
    split at h; · cases h
    rename_i hx
    simp only [Bool.not_eq_true', Bool.not_eq_false] at hx
    refine ⟨xtext_of_checks 35 account (by omega) (by intro e; subst e; simp at hne) hx, ?_⟩
    split at h
    · cases h
    · cases h
    · rename_i bic hb
      refine ⟨by rw [hb]; rfl, ?_⟩
      split at h
      · cases h
      · cases h
      · rename_i party names hmid
        split at h; · cases h
        rename_i hn1
        split at h; · cases h
        rename_i hn2
        exact ⟨party, names, hmid, (names04_iff names).mp ⟨Bool.eq_false_iff.mpr hn1, hn2⟩⟩
  · rintro ⟨hx, hb, party, names, hmid, hn⟩
    obtain ⟨c1, c2, c3⟩ := checks_of_xtext 35 account hx
    have hne : account.isEmpty = false := by cases account <;> simp_all
    have hl : ¬ blen account > 35 := by omega
    obtain ⟨n1, n2⟩ := (names04_iff names).mpr hn
    simp only [hne, Bool.false_eq_true, if_false, hl, c3, Bool.not_true]
    cases hpb : parseBic (more.getLast hm) with
    | ok bic => simp only [hmid, n1, Bool.false_eq_true, if_false, n2]; rfl
    | err => rw [hpb] at hb; cases hb
    | panic => rw [hpb] at hb; cases hb

theorem accepts_iff_50F (s : Text) : (F50F.parse s).isOk = true ↔ Doc.F50FLines (splitNl s) := by
  unfold F50F.parse Doc.F50FLines
  cases hsp : splitNl s with
  | nil => simp [Res.isOk]
  | cons account more =>
    cases more with
    | nil =>
      simp only [Res.isOk, Bool.false_eq_true, false_iff]
      rintro ⟨a, mid, bic, he, _⟩
      simp only [List.cons.injEq] at he
      have := he.2
      cases mid <;> simp at this
    | cons m more' =>
      simp only
      refine Iff.trans (f50F_core account (m :: more') (by simp)) ?_
      constructor
      · rintro ⟨hx, hb, hmid⟩
        exact ⟨account, (m :: more').dropLast, (m :: more').getLast (by simp),
          by rw [List.dropLast_concat_getLast], hx, hb, hmid⟩
      · rintro ⟨a, mid, bic, he, hx, hb, hmid⟩
        simp only [List.cons.injEq] at he
        obtain ⟨rfl, he2⟩ := he
        have hd : (m :: more').dropLast = mid := by rw [he2]; simp
        have hg : (m :: more').getLast (by simp) = bic := by simp only [he2]; simp
        rw [hd, hg]
        exact ⟨hx, hb, hmid⟩
end SwiftMT.Props.C05
