import SwiftMT.Calendar
import SwiftMT.Generated.Tables
/-
C11 — dates and times: calendar-valid only, one meaning everywhere, round-trip stable.  Property theorems only.
All statements are arithmetic over all texts / all dates; nothing is enumerated.
-/
namespace SwiftMT.Props.C11
open SwiftMT

theorem digitVal_lt {c : Char} {k : Nat} (h : digitVal c = some k) : k < 10 := by
  unfold digitVal at h
  split at h
  · rename_i hc
    simp only [Bool.and_eq_true, decide_eq_true_eq] at hc
    cases h; omega
  · cases h

theorem digitChar_digitVal {c : Char} {k : Nat} (h : digitVal c = some k) : digitChar k = c := by
  unfold digitVal at h
  split at h
  · rename_i hc
    simp only [Bool.and_eq_true, decide_eq_true_eq] at hc
    cases h
    unfold digitChar
    have : 48 + (c.toNat - 48) = c.toNat := by omega
    rw [this]
    exact Char.ofNat_toNat c
  · cases h

theorem digitVal_digitChar {k : Nat} (h : k < 10) : digitVal (digitChar k) = some k := by
  have : ∀ k, k < 10 → digitVal (digitChar k) = some k := by decide
  exact this k h

theorem fmt2_digits {a b : Nat} (ha : a < 10) (hb : b < 10) : fmt2 (10 * a + b) = [digitChar a, digitChar b] := by
  unfold fmt2
  have h1 : (10 * a + b) / 10 % 10 = a := by omega
  have h2 : (10 * a + b) % 10 = b := by omega
  rw [h1, h2]

theorem pivot_mod (yy : Nat) (h : yy < 100) : pivot yy % 100 = yy := by
  unfold pivot; split <;> omega

/-- Accepted only if it is six ASCII digits denoting a real calendar date in the 1950–2049 window, and then it means
exactly that date. -/
theorem date_accept_iff (t : Text) (x : YMD) :
    parseDateYYMMDD t = some x ↔
      ∃ a b c d e f : Nat, a < 10 ∧ b < 10 ∧ c < 10 ∧ d < 10 ∧ e < 10 ∧ f < 10 ∧
        t = [digitChar a, digitChar b, digitChar c, digitChar d, digitChar e, digitChar f] ∧
        x = ⟨pivot (10 * a + b), 10 * c + d, 10 * e + f⟩ ∧ validYMD x.y x.m x.d = true := by
  constructor
  · intro h
    unfold parseDateYYMMDD at h
    split at h
    · rename_i a b c d e f
      split at h
      · rename_i a' b' c' d' e' f' ha hb hc hd he hf
        split at h
        · rename_i hv
          cases h
          exact ⟨a', b', c', d', e', f', digitVal_lt ha, digitVal_lt hb, digitVal_lt hc, digitVal_lt hd,
            digitVal_lt he, digitVal_lt hf,
            by rw [digitChar_digitVal ha, digitChar_digitVal hb, digitChar_digitVal hc, digitChar_digitVal hd,
              digitChar_digitVal he, digitChar_digitVal hf], rfl, hv⟩
        · cases h
      · cases h
    · cases h
  · rintro ⟨a, b, c, d, e, f, ha, hb, hc, hd, he, hf, rfl, rfl, hv⟩
    simp only [parseDateYYMMDD, digitVal_digitChar ha, digitVal_digitChar hb, digitVal_digitChar hc,
      digitVal_digitChar hd, digitVal_digitChar he, digitVal_digitChar hf]
    simp only at hv
    simp [hv]

/-- The month and day of an accepted date are a real month and a real day of that month. -/
theorem accepted_is_calendar_date (t : Text) (x : YMD) (h : parseDateYYMMDD t = some x) :
    1 ≤ x.m ∧ x.m ≤ 12 ∧ 1 ≤ x.d ∧ x.d ≤ daysInMonth x.y x.m ∧ 1950 ≤ x.y ∧ x.y ≤ 2049 := by
  obtain ⟨a, b, c, d, e, f, ha, hb, _, _, _, _, _, rfl, hv⟩ := (date_accept_iff t x).mp h
  simp only [validYMD, Bool.and_eq_true, decide_eq_true_eq] at hv
  refine ⟨hv.1.1.1, hv.1.1.2, hv.1.2, hv.2, ?_, ?_⟩ <;> (simp only [pivot]; split <;> omega)

/-- Serialising a parsed date reproduces the digits that were read. -/
theorem print_parse (t : Text) (x : YMD) (h : parseDateYYMMDD t = some x) : printYYMMDD x = t := by
  obtain ⟨a, b, c, d, e, f, ha, hb, hc, hd, he, hf, rfl, rfl, _⟩ := (date_accept_iff t x).mp h
  have hyy : 10 * a + b < 100 := by omega
  simp only [printYYMMDD, pivot_mod _ hyy, fmt2_digits ha hb, fmt2_digits hc hd, fmt2_digits he hf]
  rfl

/-- Every date of the 1950–2049 window is written and read back unchanged. -/
theorem parse_print (x : YMD) (hy : 1950 ≤ x.y ∧ x.y ≤ 2049) (hv : validYMD x.y x.m x.d = true) :
    parseDateYYMMDD (printYYMMDD x) = some x := by
  obtain ⟨y, m, d⟩ := x
  simp only at hy hv
  have hm : m ≤ 12 ∧ d ≤ 31 := by
    simp only [validYMD, Bool.and_eq_true, decide_eq_true_eq] at hv
    refine ⟨hv.1.1.2, ?_⟩
    have : daysInMonth y m ≤ 31 := by
      unfold daysInMonth; split; · omega
      split; · omega
      split; · split <;> omega
      omega
    omega
  apply (date_accept_iff _ _).mpr
  refine ⟨y % 100 / 10, y % 100 % 10, m / 10, m % 10, d / 10, d % 10, by omega, by omega, by omega, by omega,
    by omega, by omega, ?_, ?_, ?_⟩
  · simp only [printYYMMDD, fmt2]
    have e1 : y % 100 / 10 % 10 = y % 100 / 10 := by omega
    have e2 : m / 10 % 10 = m / 10 := by omega
    have e3 : d / 10 % 10 = d / 10 := by omega
    rw [e1, e2, e3]; rfl
  · have hp : pivot (10 * (y % 100 / 10) + y % 100 % 10) = y := by
      unfold pivot; split <;> omega
    have hm' : 10 * (m / 10) + m % 10 = m := by omega
    have hd' : 10 * (d / 10) + d % 10 = d := by omega
    rw [hp, hm', hd']
  · have hp : pivot (10 * (y % 100 / 10) + y % 100 % 10) = y := by
      unfold pivot; split <;> omega
    have hm' : 10 * (m / 10) + m % 10 = m := by omega
    have hd' : 10 * (d / 10) + d % 10 = d := by omega
    simp only [hp, hm', hd']; exact hv

/-- MT and JSON agree: the Field13D JSON codec reads the six digits exactly as the MT parser does, for every text. -/
theorem json13d_same_meaning (t : Text) : json13dDecode t = parseDateYYMMDD t := by
  unfold json13dDecode parseDateYYMMDD
  split
  · split
    · rename_i a b c d e f _ _ _ _ _ _
      have : (if 10 * a + b ≥ 50 then 1900 + (10 * a + b) else 2000 + (10 * a + b)) = pivot (10 * a + b) := by
        unfold pivot; split <;> split <;> omega
      simp only [this]
    · rfl
  · rfl

/-- hence a parsed 13D date survives JSON: decode (encode (parse t)) = parse t. -/
theorem json13d_roundtrip (t : Text) (x : YMD) (h : parseDateYYMMDD t = some x) :
    json13dDecode (printYYMMDD x) = some x := by
  rw [json13d_same_meaning, print_parse t x h]; exact h

/-- A time is accepted iff it is four ASCII digits with HH ≤ 23 and MM ≤ 59. -/
theorem time_accept_iff (t : Text) (hh mm : Nat) :
    parseTimeHHMM t = some (hh, mm) ↔
      ∃ a b c d : Nat, a < 10 ∧ b < 10 ∧ c < 10 ∧ d < 10 ∧
        t = [digitChar a, digitChar b, digitChar c, digitChar d] ∧ hh = 10 * a + b ∧ mm = 10 * c + d ∧
        hh ≤ 23 ∧ mm ≤ 59 := by
  constructor
  · intro h
    unfold parseTimeHHMM at h
    split at h
    · split at h
      · rename_i a' b' c' d' ha hb hc hd
        split at h
        · rename_i hv
          simp only [Bool.and_eq_true, decide_eq_true_eq] at hv
          cases h
          exact ⟨a', b', c', d', digitVal_lt ha, digitVal_lt hb, digitVal_lt hc, digitVal_lt hd,
            by rw [digitChar_digitVal ha, digitChar_digitVal hb, digitChar_digitVal hc, digitChar_digitVal hd],
            rfl, rfl, hv.1, hv.2⟩
        · cases h
      · cases h
    · cases h
  · rintro ⟨a, b, c, d, ha, hb, hc, hd, rfl, rfl, rfl, h1, h2⟩
    simp [parseTimeHHMM, digitVal_digitChar ha, digitVal_digitChar hb, digitVal_digitChar hc,
      digitVal_digitChar hd, h1, h2]

/-- An accepted offset has a sign and lies within ±14:59. -/
theorem offset_accepted_bounds (s : Char) (t : Text) (r : Char × Nat × Nat) (h : parseOffset s t = some r) :
    (s = '+' ∨ s = '-') ∧ r.1 = s ∧ r.2.1 ≤ 14 ∧ r.2.2 ≤ 59 := by
  unfold parseOffset at h
  split at h
  · rename_i hs
    simp only [Bool.or_eq_true, beq_iff_eq] at hs
    split at h
    · split at h
      · split at h
        · rename_i hv
          simp only [Bool.and_eq_true, decide_eq_true_eq] at hv
          cases h
          exact ⟨hs, rfl, hv.1, hv.2⟩
        · cases h
      · cases h
    · cases h
  · cases h

/-- [instances] one meaning everywhere: outside test code, dates are built from digits in exactly two files —
`swift_utils.rs` (`parse_date_yymmdd`, `parse_date_yyyymmdd`) and `field13.rs` (the JSON codec proved equal above);
every date-bearing field goes through them (regenerated call-site inventory, T5). -/
theorem date_sites_centralised :
    Generated.Tables.dateFiles.length = 2 ∧
    Generated.Tables.dateSiteCounts = [(0, 0, 1), (0, 1, 1), (0, 2, 2), (1, 0, 2), (1, 1, 1), (1, 2, 2)] ∧
    Generated.Tables.untranslated = [] := by decide

/-- Non-vacuity: leap day 2024 accepted, 2023 rejected, a pre-2000 year, a signed spelling rejected. -/
example : parseDateYYMMDD "240229".toList = some ⟨2024, 2, 29⟩ ∧ parseDateYYMMDD "230229".toList = none ∧
    parseDateYYMMDD "790101".toList = some ⟨1979, 1, 1⟩ ∧ parseDateYYMMDD "+1+1+1".toList = none ∧
    json13dDecode "790101".toList = some ⟨1979, 1, 1⟩ := by decide


/-- the four digits of a time of day, as every field that holds one prints it -/
def printHHMM (hh mm : Nat) : Text := fmt2 hh ++ fmt2 mm

/-- **times round-trip**: what was accepted prints back as the text that was read -/
theorem time_print_parse (t : Text) (hh mm : Nat) (h : parseTimeHHMM t = some (hh, mm)) : printHHMM hh mm = t := by
  obtain ⟨a, b, c, d, ha, hb, hc, hd, rfl, rfl, rfl, _, _⟩ := (time_accept_iff t hh mm).mp h
  unfold printHHMM
  rw [fmt2_digits ha hb, fmt2_digits hc hd]; rfl

/-- … and every time of day is written in a form that reads back as the same time (no second meaning) -/
theorem time_parse_print (hh mm : Nat) (h1 : hh ≤ 23) (h2 : mm ≤ 59) : parseTimeHHMM (printHHMM hh mm) = some (hh, mm) := by
  refine (time_accept_iff _ hh mm).mpr ⟨hh / 10, hh % 10, mm / 10, mm % 10, by omega, by omega, by omega, by omega, ?_, by omega, by omega, h1, h2⟩
  unfold printHHMM
  have e1 : hh = 10 * (hh / 10) + hh % 10 := by omega
  have e2 : mm = 10 * (mm / 10) + mm % 10 := by omega
  conv => lhs; rw [e1, e2]
  rw [fmt2_digits (by omega) (by omega), fmt2_digits (by omega) (by omega)]; rfl

/-- two accepted time texts with the same meaning are the same text -/
theorem time_injective (t t' : Text) (v : Nat × Nat) (h : parseTimeHHMM t = some v) (h' : parseTimeHHMM t' = some v) : t = t' := by
  rw [← time_print_parse t v.1 v.2 h, ← time_print_parse t' v.1 v.2 h']

/-- two accepted date texts with the same meaning are the same text -/
theorem date_injective (t t' : Text) (x : YMD) (h : parseDateYYMMDD t = some x) (h' : parseDateYYMMDD t' = some x) : t = t' := by
  rw [← print_parse t x h, ← print_parse t' x h']

/-- **offsets round-trip**: the four digits of an accepted offset print back as the text that was read -/
theorem offset_print_parse (s : Char) (t : Text) (r : Char × Nat × Nat) (h : parseOffset s t = some r) :
    printHHMM r.2.1 r.2.2 = t := by
  unfold parseOffset at h
  split at h
  · split at h
    · split at h
      · rename_i a' b' c' d' ha hb hc hd
        split at h
        · cases h
          unfold printHHMM
          rw [fmt2_digits (digitVal_lt ha) (digitVal_lt hb), fmt2_digits (digitVal_lt hc) (digitVal_lt hd),
            digitChar_digitVal ha, digitChar_digitVal hb, digitChar_digitVal hc, digitChar_digitVal hd]
          rfl
        · cases h
      · cases h
    · cases h
  · cases h
end SwiftMT.Props.C11
