import SwiftMT.Stage
import SwiftMT.Generated.Stages
import SwiftMT.Spec.Supported
/-
C13 — validation entry points are coherent, order-stable and side-effect free.  Property theorems only.
-/
namespace SwiftMT.Props.C13
open SwiftMT SwiftMT.Generated

variable {M E : Type}

/-- [generic] For ANY rule functions: stop-on-first-error output is a prefix of the full output and is
empty exactly when the full output is empty. -/
theorem stop_prefix (m : M) (ss : List (Stage M E)) (hwb : ∀ s ∈ ss, s.WB m) :
    runStages true m ss [] <+: runStages false m ss [] ∧
    (runStages true m ss [] = [] ↔ runStages false m ss [] = []) :=
  ⟨stop_prefix_acc m ss hwb [], stop_nil_iff_acc m ss hwb []⟩

/-- A rule that itself receives the flag and is written as a sequence of checks, each
`if cond { errors.push(e); if stop { return errors; } }` (loops unrolled per element) — the shape of
MT941's C1 — is `runStages` over `opt` stages, whatever the checks are. -/
def checkRule (checks : M → List (M → Option E)) : Bool → M → List E :=
  fun stop m => runStages stop m ((checks m).map (fun c => Stage.opt c true)) []

theorem checkRule_wb (checks : M → List (M → Option E)) (m : M) :
    checkRule checks true m <+: checkRule checks false m ∧
    (checkRule checks true m = [] ↔ checkRule checks false m = []) := by
  have hwb : ∀ s ∈ (checks m).map (fun c => (Stage.opt c true : Stage M E)), s.WB m := by
    intro s hs
    obtain ⟨c, _, rfl⟩ := List.mem_map.mp hs
    trivial
  exact stop_prefix m _ hwb

/-- [instances] the translator recognised every `validate_network_rules`, for exactly the 30 types. -/
theorem translated : Stages.untranslated = [] := by decide
theorem covers_supported : Stages.table.map (·.1) = Spec.supported := by decide +kernel

/-- No mutable statics, interior mutability, clocks or randomness in the validation sources. -/
theorem pure_sources : Stages.impure = [] := by decide

/-- Every stage that passes the flag into its rule is followed by the early return, and the only type
with such a stage is MT941 (whose rule is a `checkRule`, see `checkRule_wb`). -/
theorem flag_stages : (Stages.table.filter (fun e => (flagRules e.2).length != 0)).map
    (fun e => (e.1, (flagRules e.2).map (·.2))) = [(941, [true])] := by decide +kernel

/-- [main] For every supported type, with ANY rule functions in the translated stage shapes (flag-receiving
rules being check sequences), the two modes of `validate_network_rules` are coherent. -/
theorem all_types_stop_prefix :
    ∀ e ∈ Stages.table, ∀ (env : RuleEnv M E) (m : M),
      (∀ p ∈ flagRules e.2, ∃ checks, env.vecStop p.1 = checkRule checks) →
      validate env e.2 true m <+: validate env e.2 false m ∧
      (validate env e.2 true m = [] ↔ validate env e.2 false m = []) := by
  intro e he env m hflag
  have hret : ∀ p ∈ flagRules e.2, p.2 = true := by
    have h : ∀ e ∈ Stages.table, ∀ p ∈ flagRules e.2, p.2 = true := by decide +kernel
    exact h e he
  apply stop_prefix
  apply instantiate_wb
  intro p hp
  obtain ⟨checks, hc⟩ := hflag p hp
  refine ⟨hret p hp, ?_⟩
  rw [hc]
  exact checkRule_wb checks m

/-- Adapters: the message-level validity flag (`errors.is_empty()` over the full list) agrees with both
modes. -/
def isValid (env : RuleEnv M E) (sh : List (String × StageShape)) (m : M) : Bool :=
  (validate env sh false m).isEmpty

theorem valid_flag_coherent : ∀ e ∈ Stages.table, ∀ (env : RuleEnv M E) (m : M),
    (∀ p ∈ flagRules e.2, ∃ checks, env.vecStop p.1 = checkRule checks) →
    (isValid env e.2 m = true ↔ validate env e.2 true m = []) := by
  intro e he env m hflag
  have h := (all_types_stop_prefix e he env m hflag).2
  simp only [isValid, List.isEmpty_iff]
  exact h.symm

/-- Non-vacuity: a concrete three-stage list with two failing rules. -/
example : runStages true () [Stage.opt (fun _ => some 1) true, .vec (fun _ => [2, 3]) true] [] = [1] ∧
    runStages false () [Stage.opt (fun _ => some 1) true, .vec (fun _ => [2, 3]) true] [] = [1, 2, 3] := by
  decide

end SwiftMT.Props.C13
