import SwiftMT.Props.C05
/-
C07 — parsing is total: a value or an error, never a panic.

Every Rust operation that can panic (byte-range slicing off a character boundary or beyond the end, `unwrap` on `None`,
`chars().nth(i).unwrap()`) is an explicit outcome `Res.panic` of the models, so "never panics" is a statement about
them: `no_panic_F : ∀ s, F.parse s ≠ .panic` for ALL texts, ASCII or not.  Termination is by construction for these
models (structural recursion over the text); time bounds and allocation are outside the model (see DESIGN.md).
-/
namespace SwiftMT.Props.C07
open SwiftMT SwiftMT.Fields SwiftMT.Props.C05

theorem total_reference (n : Nat) (s : Text) : Ref.parse n s ≠ .panic := no_panic_reference n s
theorem total_narrative (ml mx : Nat) (s : Text) : Narr.parse ml mx s ≠ .panic := no_panic_narrative ml mx s
theorem total_codes (s : Text) :
    F12.parse s ≠ .panic ∧ F23B.parse s ≠ .panic ∧ F71A.parse s ≠ .panic ∧ F30.parse s ≠ .panic := no_panic_codes s

/-- the party fields option A (52A–58A), C (52C, 56C, 57C) and D (52D, 54D–58D) -/
theorem total_party_fields (s : Text) : OptA.parse s ≠ .panic ∧ OptC.parse s ≠ .panic ∧ OptD.parse s ≠ .panic :=
  ⟨optA_no_panic s, optC_no_panic s, optD_no_panic s⟩

/-- the customer / beneficiary fields 50, 50L, 50G, 50H, 50K, 59, 59A and the BIC-only 50C -/
theorem total_customer_fields (s : Text) :
    F50NoOption.parse s ≠ .panic ∧ F50L.parse s ≠ .panic ∧ F50G.parse s ≠ .panic ∧ F50H.parse s ≠ .panic ∧
    F50K.parse s ≠ .panic ∧ F59.parse s ≠ .panic ∧ F59A.parse s ≠ .panic := customer_fields_no_panic s
theorem total_bic (s : Text) : parseBic s ≠ .panic := parseBic_no_panic s

/-- the amount-bearing fields 32A/B/C/D, 33B, 71F/G, 34F, 60F/M, 62F/M, 64, 65, 19: the models guard with the ASCII and
length checks of the code (after the `fix:` commits) before any slicing -/
theorem total_amount_fields (s : Text) (pos : Bool) :
    CcyAmt.parse pos s ≠ .panic ∧ DateCcyAmt.parse s ≠ .panic ∧ Balance.parse s ≠ .panic ∧ F34F.parse s ≠ .panic ∧
    F19.parse s ≠ .panic := by
  have hcur : ∀ t, parseCurrency t ≠ .panic := by
    intro t; unfold parseCurrency; repeat' split
    all_goals simp
  have hcnc : ∀ t, parseCurrencyNonCommodity t ≠ .panic := by
    intro t; unfold parseCurrencyNonCommodity
    split
    · split <;> simp
    · rename_i r hne
      cases hr : parseCurrency t with
      | ok c => exact absurd hr (hne c)
      | err => simp
      | panic => exact absurd hr (hcur t)
  have hamt : ∀ a c p, amountPart a c p ≠ .panic := by
    intro a c p; unfold amountPart; repeat' split
    all_goals simp
  refine ⟨?_, ?_, ?_, ?_, ?_⟩
  · unfold CcyAmt.parse
    repeat' split
    all_goals first | (rename_i hh; first | exact absurd hh (hcnc _) | exact absurd hh (hamt _ _ _)) | simp
  · unfold DateCcyAmt.parse
    repeat' split
    all_goals first | (rename_i hh; first | exact absurd hh (hcnc _) | exact absurd hh (hamt _ _ _)) | simp
  · unfold Balance.parse
    simp only
    repeat' split
    all_goals first | (rename_i hh; exact absurd hh (hcur _)) | simp
  · unfold F34F.parse
    simp only
    repeat' split
    all_goals first | (rename_i hh; first | exact absurd hh (hcur _) | exact absurd hh (hamt _ _ _)) | simp
  · unfold F19.parse Res.ofOption
    split <;> simp

/-- Byte slicing is the only primitive that can panic, and it cannot on ASCII text within bounds. -/
theorem slice_total_on_ascii (t : Text) (a b : Nat) (h : isAsciiT t = true) (hab : a ≤ b) (hb : b ≤ t.length) :
    bslice t a b ≠ .panic := by
  rw [bslice_ascii t a b h hab hb]; simp

/-- … and does panic off a character boundary: the model is not total by construction (non-vacuity of `≠ panic`). -/
example : bslice "aéb".toList 0 2 = .panic := by decide

end SwiftMT.Props.C07
