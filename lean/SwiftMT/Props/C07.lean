import SwiftMT.Props.C05
import SwiftMT.Fields.Registry
/-
C07 — parsing is total: a value or an error, never a panic.

Every Rust operation that can panic (byte-range slicing off a character boundary or beyond the end, `unwrap` on `None`,
`chars().nth(i).unwrap()`) is an explicit outcome `Res.panic` of the models, so "never panics" is a statement about
them: `no_panic_F : ∀ s, F.parse s ≠ .panic` for ALL texts, ASCII or not.  Termination is by construction for these
models (structural recursion over the text); time bounds and allocation are outside the model (see DESIGN.md).
-/
namespace SwiftMT.Props.C07
open SwiftMT SwiftMT.Fields SwiftMT.Props.C05

theorem total_reference (n : Nat) (s : Text) : Ref.parse n s ≠ .panic := no_panic_reference n s
theorem total_narrative (ml mx : Nat) (s : Text) : Narr.parse ml mx s ≠ .panic := no_panic_narrative ml mx s
theorem total_codes (s : Text) :
    F12.parse s ≠ .panic ∧ F23B.parse s ≠ .panic ∧ F71A.parse s ≠ .panic ∧ F30.parse s ≠ .panic := no_panic_codes s

/-- the party fields option A (52A–58A), C (52C, 56C, 57C) and D (52D, 54D–58D) -/
theorem total_party_fields (s : Text) : OptA.parse s ≠ .panic ∧ OptC.parse s ≠ .panic ∧ OptD.parse s ≠ .panic :=
  ⟨optA_no_panic s, optC_no_panic s, optD_no_panic s⟩

/-- the customer / beneficiary fields 50, 50L, 50G, 50H, 50K, 59, 59A and the BIC-only 50C -/
theorem total_customer_fields (s : Text) :
    F50NoOption.parse s ≠ .panic ∧ F50L.parse s ≠ .panic ∧ F50G.parse s ≠ .panic ∧ F50H.parse s ≠ .panic ∧
    F50K.parse s ≠ .panic ∧ F59.parse s ≠ .panic ∧ F59A.parse s ≠ .panic := customer_fields_no_panic s
theorem total_bic (s : Text) : parseBic s ≠ .panic := parseBic_no_panic s

/-- the amount-bearing fields 32A/B/C/D, 33B, 71F/G, 34F, 60F/M, 62F/M, 64, 65, 19: the models guard with the ASCII and
length checks of the code (after the `fix:` commits) before any slicing -/
theorem total_amount_fields (s : Text) (pos : Bool) :
    CcyAmt.parse pos s ≠ .panic ∧ DateCcyAmt.parse s ≠ .panic ∧ Balance.parse s ≠ .panic ∧ F34F.parse s ≠ .panic ∧
    F19.parse s ≠ .panic := by
  have hcur : ∀ t, parseCurrency t ≠ .panic := by
    intro t; unfold parseCurrency; repeat' split
    all_goals simp
  have hcnc : ∀ t, parseCurrencyNonCommodity t ≠ .panic := by
    intro t; unfold parseCurrencyNonCommodity
    split
    · split <;> simp
    · rename_i r hne
      cases hr : parseCurrency t with
      | ok c => exact absurd hr (hne c)
      | err => simp
      | panic => exact absurd hr (hcur t)
  have hamt : ∀ a c p, amountPart a c p ≠ .panic := by
    intro a c p; unfold amountPart; repeat' split
    all_goals simp
  refine ⟨?_, ?_, ?_, ?_, ?_⟩
  · unfold CcyAmt.parse
    repeat' split
    all_goals first | (rename_i hh; first | exact absurd hh (hcnc _) | exact absurd hh (hamt _ _ _)) | simp
  · unfold DateCcyAmt.parse
    repeat' split
    all_goals first | (rename_i hh; first | exact absurd hh (hcnc _) | exact absurd hh (hamt _ _ _)) | simp
  · unfold Balance.parse
    simp only
    repeat' split
    all_goals first | (rename_i hh; exact absurd hh (hcur _)) | simp
  · unfold F34F.parse
    simp only
    repeat' split
    all_goals first | (rename_i hh; first | exact absurd hh (hcur _) | exact absurd hh (hamt _ _ _)) | simp
  · unfold F19.parse Res.ofOption
    split <;> simp

/-! ### Fields whose code slices by byte offsets: the guards in front of the slices exclude every panic

The models of 11, 13D and 23E keep the slicing primitive `bslice` / `bto` / `bfrom` (which panics off a character
boundary or out of range, like `&s[a..b]`) exactly where the Rust slices.  The theorems show that the ASCII and length
guards that the `fix:` commits put in front make the `panic` outcome unreachable for every text. -/

theorem bind_no_panic {α β : Type} (x : Res α) (f : α → Res β) (hx : x ≠ .panic) (hf : ∀ a, x = .ok a → f a ≠ .panic) :
    (x >>= f) ≠ .panic := by
  cases x with
  | ok a => exact hf a rfl
  | err => simp
  | panic => exact absurd rfl hx

theorem guard_no_panic (b : Bool) : Res.guard b ≠ .panic := by
  unfold Res.guard; split <;> simp

theorem ofOption_no_panic {α : Type} (o : Option α) : Res.ofOption o ≠ .panic := by
  cases o <;> simp [Res.ofOption]

theorem total_11 (s : Text) : F11.parse s ≠ .panic := by
  unfold F11.parse
  split; · simp
  rename_i hasc
  split; · simp
  rename_i hlen
  have ha : isAsciiT s = true := by simpa using hasc
  have hl : s.length = 9 := by
    have : blen s = 9 := by simpa using hlen
    rw [blen_ascii s ha] at this; exact this
  rw [bto_ascii s 3 ha (by omega)]
  simp only [Res.bind_ok]
  apply bind_no_panic _ _ (guard_no_panic _)
  intro _ _
  rw [bslice_ascii s 3 9 ha (by omega) (by omega)]
  simp only [Res.bind_ok]
  apply bind_no_panic _ _ (guard_no_panic _)
  intro _ _
  apply bind_no_panic _ _ (ofOption_no_panic _)
  intro d _
  simp

theorem offsetOk_no_panic (off : Text) (hd : off.all Char.isDigit = true) (hl : off.length = 4) :
    offsetOk off ≠ .panic := by
  have ha := all_digit_ascii off hd
  unfold offsetOk
  rw [bslice_ascii off 0 2 ha (by omega) (by omega), bslice_ascii off 2 4 ha (by omega) (by omega)]
  simp only [Res.bind_ok]
  have h1 : ((off.drop 0).take (2 - 0)).isEmpty = false := by
    match off, hl with
    | [a, b, c, d], _ => rfl
  have h2 : ((off.drop 2).take (4 - 2)).isEmpty = false := by
    match off, hl with
    | [a, b, c, d], _ => rfl
  simp only [h1, h2, Bool.false_eq_true, if_false, Res.unwrap, Res.bind_ok]
  split <;> simp

theorem total_13D (s : Text) : F13D.parse s ≠ .panic := by
  unfold F13D.parse
  split; · simp
  rename_i hasc
  split; · simp
  rename_i hlen
  have ha : isAsciiT s = true := by simpa using hasc
  have hl : s.length = 15 := by
    have : blen s = 15 := by simpa using hlen
    rw [blen_ascii s ha] at this; exact this
  rw [bslice_ascii s 0 6 ha (by omega) (by omega)]
  simp only [Res.bind_ok]
  apply bind_no_panic _ _ (ofOption_no_panic _)
  intro date _
  rw [bslice_ascii s 6 10 ha (by omega) (by omega)]
  simp only [Res.bind_ok]
  apply bind_no_panic _ _ (guard_no_panic _)
  intro _ _
  apply bind_no_panic _ _ (ofOption_no_panic _)
  intro time _
  have hget : ∃ c, s[10]? = some c := by
    have : 10 < s.length := by omega
    exact ⟨s[10], List.getElem?_eq_getElem this⟩
  obtain ⟨c, hc⟩ := hget
  rw [hc]
  simp only [Res.unwrap, Res.bind_ok]
  split; · simp
  rw [bslice_ascii s 11 15 ha (by omega) (by omega)]
  simp only [Res.bind_ok]
  apply bind_no_panic
  · unfold parseExactLength; split <;> simp
  intro off _
  apply bind_no_panic _ _ (guard_no_panic _)
  intro _ _
  rename_i hoff _ hdig
  have hdig' : off.all Char.isDigit = true := by
    unfold Res.guard at hdig; split at hdig
    · assumption
    · simp at hdig
  have hlen' : off.length = 4 := by
    unfold parseExactLength at hoff
    split at hoff
    · rename_i hb
      have : off = List.take (15 - 11) (List.drop 11 s) := by simpa using hoff.symm
      subst this
      simp [List.length_take, List.length_drop]; omega
    · simp at hoff
  apply bind_no_panic _ _ (offsetOk_no_panic off hdig' hlen')
  intro _ _
  simp

theorem total_11RS (s : Text) : F11RS.parse s ≠ .panic := by
  unfold F11RS.parse
  split; · simp
  rename_i hasc
  split; · simp
  rename_i hlen
  have ha : isAsciiT s = true := by simpa using hasc
  have hl : 3 ≤ s.length := by
    have : ¬ blen s < 3 := by simpa using hlen
    rw [blen_ascii s ha] at this; omega
  rw [bto_ascii s 3 ha hl, bfrom_ascii s 3 ha hl]
  simp only [Res.bind_ok]
  apply bind_no_panic _ _ (guard_no_panic _)
  intro _ _
  have ha3 := isAsciiT_drop s 3 ha
  split; · simp
  rename_i hlen2
  have hl2 : 6 ≤ (s.drop 3).length := by
    have : ¬ blen (s.drop 3) < 6 := by simpa using hlen2
    rw [blen_ascii _ ha3] at this; omega
  rw [bto_ascii _ 6 ha3 hl2, bfrom_ascii _ 6 ha3 hl2]
  simp only [Res.bind_ok]
  apply bind_no_panic _ _ (guard_no_panic _)
  intro _ _
  apply bind_no_panic _ _ (ofOption_no_panic _)
  intro date _
  split; · simp
  have ha9 := isAsciiT_drop _ 6 ha3
  split
  · simp
  · simp
  · simp
  · rename_i h10
    have : 4 ≤ ((s.drop 3).drop 6).length := by
      rw [blen_ascii _ ha9] at h10; omega
    rw [bto_ascii _ 4 ha9 this, bfrom_ascii _ 4 ha9 this]
    simp
  · simp

theorem total_23E (s : Text) : F23E.parse s ≠ .panic := by
  unfold F23E.parse
  split; · simp
  rename_i hasc
  split; · simp
  rename_i hlen
  have ha : isAsciiT s = true := by simpa using hasc
  have hl : 4 ≤ s.length := by
    have : ¬ blen s < 4 := by simpa using hlen
    rw [blen_ascii s ha] at this; omega
  rw [bslice_ascii s 0 4 ha (by omega) hl]
  simp only [Res.bind_ok]
  split; · simp
  split
  · rename_i hgt
    have hl5 : 5 ≤ s.length := by
      have : blen s > 4 := by simpa using hgt
      rw [blen_ascii s ha] at this; omega
    rw [bfrom_ascii s 4 ha (by omega), bfrom_ascii s 5 ha hl5]
    simp only [Res.bind_ok]
    split; · simp
    split; · simp
    split; · simp
    apply bind_no_panic _ _ (guard_no_panic _)
    intro _ _
    simp
  · simp

theorem total_23 (s : Text) : F23.parse s ≠ .panic := by
  unfold F23.parse
  split; · simp
  rename_i hasc
  split; · simp
  rename_i hlen
  have ha : isAsciiT s = true := by simpa using hasc
  have hb := blen_ascii s ha
  have hl : 4 ≤ s.length := by
    have : ¬ blen s < 4 := by simpa using hlen
    omega
  rw [bslice_ascii s 0 3 ha (by omega) (by omega)]
  simp only [Res.bind_ok]
  apply bind_no_panic _ _ (guard_no_panic _)
  intro _ _
  have tailOk : ∀ (days : Option Nat) (k : Nat), k ≤ 5 →
      (if blen s > k then (do
          let r ← bfrom s k
          if blen r > 11 then Res.err else do
          parseSwiftChars r
          pure (⟨(s.drop 0).take (3 - 0), days, r⟩ : F23))
        else Res.err) ≠ .panic := by
    intro days k hk
    split
    · rename_i hgt
      rw [bfrom_ascii s k ha (by omega)]
      simp only [Res.bind_ok]
      split; · simp
      apply bind_no_panic _ _ (guard_no_panic _)
      intro _ _; simp
    · simp
  split
  · rename_i h5
    rw [bslice_ascii s 3 5 ha (by omega) (by omega)]
    simp only [Res.bind_ok]
    split
    · split; · simp
      split; · simp
      simp only [Res.pure_eq, Res.bind_ok]
      exact tailOk _ 5 (by omega)
    · simp only [Res.pure_eq, Res.bind_ok]
      exact tailOk _ 3 (by omega)
  · simp only [Res.pure_eq, Res.bind_ok]
    exact tailOk _ 3 (by omega)

theorem total_13C (s : Text) : F13C.parse s ≠ .panic := by
  unfold F13C.parse
  split; · simp
  rename_i hasc
  split; · simp
  have ha : isAsciiT s = true := by simpa using hasc
  split
  · rename_i rest _
    split; · simp
    rename_i p _
    simp only
    split; · simp
    split; · simp
    split; · simp
    rename_i hlen
    have har : isAsciiT (rest.drop (p + 1)) = true := by
      have : isAsciiT rest = true := by
        have := isAsciiT_drop ('/' :: rest) 1 ha
        simpa using this
      exact isAsciiT_drop rest (p + 1) this
    generalize rest.drop (p + 1) = rem at *
    have hl : rem.length = 9 := by
      have : blen rem = 9 := by simpa using hlen
      rw [blen_ascii rem har] at this; exact this
    rw [bslice_ascii rem 0 4 har (by omega) (by omega)]
    simp only [Res.bind_ok]
    apply bind_no_panic _ _ (guard_no_panic _)
    intro _ _
    apply bind_no_panic _ _ (ofOption_no_panic _)
    intro time _
    obtain ⟨c, hc⟩ : ∃ c, rem[4]? = some c := ⟨rem[4], List.getElem?_eq_getElem (by omega)⟩
    rw [hc]
    simp only [Res.unwrap, Res.bind_ok]
    split; · simp
    rw [bslice_ascii rem 5 9 har (by omega) (by omega)]
    simp only [Res.bind_ok]
    apply bind_no_panic
    · unfold parseExactLength; split <;> simp
    intro off hoff
    apply bind_no_panic _ _ (guard_no_panic _)
    intro _ hdig
    have hdig' : off.all Char.isDigit = true := by
      unfold parseNumeric Res.guard at hdig; split at hdig
      · assumption
      · simp at hdig
    have hlen' : off.length = 4 := by
      unfold parseExactLength at hoff
      split at hoff
      · have : off = List.take (9 - 5) (List.drop 5 rem) := by simpa using hoff.symm
        subst this
        simp [List.length_take, List.length_drop]; omega
      · simp at hoff
    apply bind_no_panic _ _ (offsetOk_no_panic off hdig' hlen')
    intro _ _
    simp
  · simp

theorem parseUInt_no_panic (t : Text) (m : Nat) : parseUInt t m ≠ .panic := by
  unfold parseUInt; simp only; repeat' split
  all_goals simp

theorem parseExactLength_no_panic (t : Text) (n : Nat) : parseExactLength t n ≠ .panic := by
  unfold parseExactLength; split <;> simp

theorem parseMaxLength_no_panic (t : Text) (n : Nat) : parseMaxLength t n ≠ .panic := by
  unfold parseMaxLength; split <;> simp

theorem total_stmt (a b : Nat) (s : Text) : Stmt.parse a b s ≠ .panic := by
  unfold Stmt.parse
  simp only
  split; · simp
  split; · simp
  apply bind_no_panic _ _ (guard_no_panic _)
  intro _ _
  apply bind_no_panic _ _ (parseUInt_no_panic _ _)
  intro n _
  split
  · split; · simp
    apply bind_no_panic _ _ (guard_no_panic _)
    intro _ _
    apply bind_no_panic _ _ (parseUInt_no_panic _ _)
    intro _ _; simp
  · simp

theorem total_28D (s : Text) : F28D.parse s ≠ .panic := by
  unfold F28D.parse
  simp only
  split; · simp
  apply bind_no_panic _ _ (guard_no_panic _)
  intro _ _
  apply bind_no_panic _ _ (parseUInt_no_panic _ _)
  intro n _
  split
  · simp
  · split; · simp
    apply bind_no_panic _ _ (guard_no_panic _)
    intro _ _
    apply bind_no_panic _ _ (parseUInt_no_panic _ _)
    intro _ _
    repeat' split
    all_goals simp

theorem total_26T (s : Text) : F26T.parse s ≠ .panic := by
  unfold F26T.parse
  apply bind_no_panic _ _ (parseExactLength_no_panic _ _)
  intro _ _; split <;> simp

theorem total_25 (s : Text) : F25.parse s ≠ .panic := by
  unfold F25.parse
  simp only
  apply bind_no_panic _ _ (parseMaxLength_no_panic _ _)
  intro _ _
  split; · simp
  apply bind_no_panic _ _ (guard_no_panic _)
  intro _ _; simp

theorem total_25A (s : Text) : F25A.parse s ≠ .panic := by
  unfold F25A.parse
  split
  · split; · simp
    split; · simp
    apply bind_no_panic _ _ (guard_no_panic _)
    intro _ _; simp
  · simp

theorem total_narrL (ml mx : Nat) (s : Text) : NarrL.parse ml mx s ≠ .panic := by
  unfold NarrL.parse validateMultilineText
  repeat' split
  all_goals simp

theorem total_77T (s : Text) : F77T.parse s ≠ .panic := by
  unfold F77T.parse
  repeat' split
  all_goals simp

theorem total_51A (s : Text) : F51A.parse s ≠ .panic := by
  have hvia : F51A.viaNl s ≠ .panic := by
    unfold F51A.viaNl
    repeat' split
    all_goals first | (rename_i hh; exact absurd hh (pid_no_panic _)) | simp
  unfold F51A.parse
  repeat' split
  all_goals first
    | (rename_i hh; first | exact absurd hh hvia | exact absurd hh (parseBic_no_panic _))
    | simp

theorem f61_tail_no_panic (d : YMD) (e : Option Text) (dc : Text) (f : Option Char) (a : Dec) (r : Text) :
    F61.tailPart d e dc f a r ≠ .panic := by
  unfold F61.tailPart; simp only
  repeat' split
  all_goals simp

theorem f61_amount_no_panic (d : YMD) (e : Option Text) (dc r : Text) : F61.amountPart d e dc r ≠ .panic := by
  unfold F61.amountPart; simp only
  repeat' split
  all_goals first | exact f61_tail_no_panic _ _ _ _ _ _ | simp

theorem total_rates_and_statement_line (s : Text) :
    F36.parse s ≠ .panic ∧ F37H.parse s ≠ .panic ∧ F61.parse s ≠ .panic := by
  refine ⟨?_, ?_, ?_⟩
  · unfold F36.parse; repeat' split
    all_goals simp
  · unfold F37H.parse; repeat' split
    all_goals simp
  · unfold F61.parse
    split; · simp
    split; · simp
    split; · simp
    simp only
    repeat' split
    all_goals first | exact f61_amount_no_panic _ _ _ _ | simp

theorem total_90 (s : Text) : F90.parse s ≠ .panic := by
  have hcur : ∀ t, parseCurrency t ≠ .panic := by
    intro t; unfold parseCurrency; repeat' split
    all_goals simp
  unfold F90.parse; simp only; repeat' split
  all_goals first | (rename_i hh; exact absurd hh (hcur _)) | simp

theorem total_53B (s : Text) : F53B.parse s ≠ .panic := by
  unfold F53B.parse; simp only
  repeat' split
  all_goals simp

theorem total_53D (s : Text) : F53D.parse s ≠ .panic := by
  unfold F53D.parse; simp only
  repeat' split
  all_goals first | (rename_i hh; exact absurd hh (nameAddr_no_panic _ _)) | simp

theorem total_25P (s : Text) : F25P.parse s ≠ .panic := by
  have hacc : ∀ t, parseAccount35 t ≠ .panic := by
    intro t; unfold parseAccount35; repeat' split
    all_goals simp
  unfold F25P.parse; simp only
  repeat' split
  all_goals first
    | (rename_i hh; first | exact absurd hh (parseBic_no_panic _) | exact absurd hh (hacc _))
    | simp

theorem numberedLines_no_panic (keep : Bool) (ls : List Text) (k : Nat) : numberedLines keep ls k ≠ .panic := by
  induction ls generalizing k with
  | nil => simp [numberedLines]
  | cons l r ih =>
    unfold numberedLines
    repeat' split
    all_goals first | (rename_i hh; exact absurd hh (ih _)) | simp

theorem total_50A (s : Text) : F50A.parse s ≠ .panic := by
  unfold F50A.parse
  repeat' split
  all_goals first | (rename_i hh; exact absurd hh (numberedLines_no_panic _ _ _)) | simp

theorem total_59F (s : Text) : F59F.parse s ≠ .panic := by
  unfold F59F.parse
  repeat' split
  all_goals first
    | (rename_i hh; first | exact absurd hh (numberedLines_no_panic _ _ _) | exact absurd hh (pid_no_panic _))
    | simp

theorem total_50F (s : Text) : F50F.parse s ≠ .panic := by
  have hmid : ∀ m, F50F.mid m ≠ .panic := by
    intro m; unfold F50F.mid; repeat' split
    all_goals simp
  unfold F50F.parse
  repeat' split
  all_goals first
    | (rename_i hh; first | exact absurd hh (parseBic_no_panic _) | exact absurd hh (hmid _))
    | simp

/-! ### every field model of the registry at once

`registry` is the table the driver answers the field correspondence stream from (one entry per modelled field type of
src/fields); the theorem says that no entry has the outcome `panic` on any text. -/

theorem withTag_no_panic {α : Type} (tag : String) (r : Res α) (ser : α → Text) (json : α → J) (h : r ≠ .panic) :
    withTag tag r ser json ≠ .panic := by
  unfold withTag; split
  · simp
  · simp
  · exact absurd rfl h

theorem registry_total : ∀ e ∈ registry, ∀ s : Text, e.2 s ≠ .panic := by
  intro e he s
  unfold registry at he
  simp only [List.mem_cons, List.mem_nil_iff, or_false] at he
  have hstmt28 : F28.parse s ≠ .panic := total_stmt _ _ s
  have hstmt28C : F28C.parse s ≠ .panic := total_stmt _ _ s
  repeat' (rcases he with he | he)
  all_goals (
    simp only [refField, narr, narrL]
    apply withTag_no_panic
    first
      | exact total_reference _ s | exact total_narrative _ _ s | exact total_narrL _ _ s
      | exact (total_codes s).1 | exact (total_codes s).2.1 | exact (total_codes s).2.2.1 | exact (total_codes s).2.2.2
      | exact total_26T s | exact total_25 s | exact total_25A s | exact hstmt28 | exact hstmt28C | exact total_28D s
      | exact total_13C s | exact total_13D s | exact total_11RS s | exact total_11 s | exact total_23 s | exact total_23E s
      | exact optA_no_panic s | exact optC_no_panic s | exact optD_no_panic s | exact optB_no_panic s
      | exact (customer_fields_no_panic s).1 | exact (customer_fields_no_panic s).2.1
      | exact (customer_fields_no_panic s).2.2.1 | exact (customer_fields_no_panic s).2.2.2.1
      | exact (customer_fields_no_panic s).2.2.2.2.1 | exact (customer_fields_no_panic s).2.2.2.2.2.1
      | exact (customer_fields_no_panic s).2.2.2.2.2.2
      | exact parseBic_no_panic s | exact total_51A s | exact total_77T s
      | exact total_53B s | exact total_53D s | exact total_25P s
      | exact total_50A s | exact total_59F s | exact total_50F s)

/-- the count the statement is about: every entry of the registry, none left out -/
example : registry.length = 69 := by decide

/-- the amount-bearing entries (`registryPartial`: a model answer only inside the region where f64 and exact decimals
agree) — whenever the model answers, the answer is not `panic` -/
theorem ite_none_some {α : Type} {c : Prop} [Decidable c] {x r : α} (h : (if c then none else some x) = some r) : r = x := by
  split at h
  · cases h
  · cases h; rfl

theorem registryPartial_total : ∀ e ∈ registryPartial, ∀ (s : Text) (r : Res (Text × J)), e.2 s = some r → r ≠ .panic := by
  intro e he s r hr
  unfold registryPartial at he
  simp only [List.mem_cons, List.mem_nil_iff, or_false] at he
  have hamt := total_amount_fields s
  have hrates := total_rates_and_statement_line s
  repeat' (rcases he with he | he)
  all_goals (
    simp only at hr
    first
      | (have hx := ite_none_some hr
         subst hx
         apply withTag_no_panic
         first
           | exact hrates.2.2 | exact hrates.2.1 | exact total_90 s | exact (hamt true).1 | exact (hamt false).1
           | exact (hamt true).2.1 | exact (hamt true).2.2.1 | exact (hamt true).2.2.2.1 | exact (hamt true).2.2.2.2)
      | (cases hr
         apply withTag_no_panic
         exact hrates.1))

example : registryPartial.length = 20 := by decide

/-- Byte slicing is the only primitive that can panic, and it cannot on ASCII text within bounds. -/
theorem slice_total_on_ascii (t : Text) (a b : Nat) (h : isAsciiT t = true) (hab : a ≤ b) (hb : b ≤ t.length) :
    bslice t a b ≠ .panic := by
  rw [bslice_ascii t a b h hab hb]; simp

/-- … and does panic off a character boundary: the model is not total by construction (non-vacuity of `≠ panic`). -/
example : bslice "aéb".toList 0 2 = .panic := by decide

end SwiftMT.Props.C07
