import SwiftMT.LayoutImpl
import SwiftMT.LayoutFacts
import SwiftMT.Lemmas.RoundTrip
/-
C03 — every well-formed message of a supported type is accepted and reproduced exactly.

What the kernel decides here, on data regenerated on every run: for each of the 30 types, walking the documented layout
(the independent specification spec/layouts.txt) in order, every documented item and EVERY documented option letter of
it is readable by a parser call of that type's `parse_from_block4` at or after the position reached so far — a field or
option that the parser cannot accept, or only out of the documented order, shows up in `allUnreached`.  The option
letters a variant call can read are those of the regenerated enum declaration (T3).  That every message of the layout
is then actually accepted, exposes the written component values under the right tag / option / sequence occurrence and
is reproduced byte for byte is checked on the implementation by the `c03` stream (all structural plans per type).
-/
namespace SwiftMT.Props.C03
open SwiftMT SwiftMT.LayoutImpl Generated.LayoutSpec

/-- every documented (item, option letter) of every type is reached in order -/
theorem all_documented_items_reachable : allUnreached = [] := by decide +kernel

/-- the specification covers exactly the 30 supported types, and each has a parser call list -/
theorem spec_covers_all_types :
    specs.map (·.1) = [101, 103, 104, 107, 110, 111, 112, 190, 191, 192, 196, 199, 200, 202, 204, 205, 210, 290, 291, 292, 296,
      299, 900, 910, 920, 935, 940, 941, 942, 950] ∧ specs.all (fun p => !(callsOf p.1).isEmpty) = true := by decide +kernel

/-- a mandatory item is never read by an optional-only call alone: for each documented mandatory single-letter item there
is a *mandatory* parse call (`parse_field` / `parse_variant_field`) for its tag -/
def mandatoryWithoutMandatoryCall : List (Nat × String) :=
  specs.flatMap (fun p =>
    (p.2.filter (fun it => it.occ == .m && it.seq == 0)).filterMap (fun it =>
      if (callsOf p.1).any (fun c => (c.method == 0 || c.method == 2) && it.letters.any (fun l => covers c it.base l))
      then none else some (p.1, it.base)))
theorem mandatory_items_have_mandatory_calls : mandatoryWithoutMandatoryCall = [] := by decide +kernel

theorem spec_translated : Generated.LayoutSpec.untranslated = [] := by decide

/-- **Acceptance and exact reproduction at block level, for all messages**: whatever fields a message of a layout
consists of — any tags, any number of them, repeated or not — if each tag is a field tag (`wfTag`) and each content is in
a field's canonical spelling (`wfc`: no CR, no line starting with `:` or `-`, no trailing newline, no `-}`), then the
text block assembled from them (LF or CRLF, with or without terminator) is consumed by the successive
`extract_field` calls of a parser in duplicates mode: each call returns exactly the content that was written, in order,
and the completeness check passes.  (Which calls a type's `parse_from_block4` makes is `all_documented_items_reachable`;
that each field type accepts its own canonical content is C05/C02.) -/
theorem canonical_block_is_read (pre tail : Text) (hp : pre = [] ∨ pre = ['\r'])
    (htail : tail = [] ∨ tail = ['\n', '-'] ∨ tail = ['\r', '\n', '-'])
    (toks : List (Text × Text)) (hne : toks ≠ []) (hwf : ∀ p ∈ toks, wfTag p.1 = true ∧ wfc p.2 = true) (seen : List Text) :
    ∃ s', readAll ⟨renderFrom (pre ++ ['\n']) tail toks, seen, true⟩ (toks.map (·.1)) = .ok (toks.map (·.2), s') ∧
      isComplete s' = true :=
  read_render pre tail hp htail toks _ hne hwf rfl (Or.inl rfl)

/-- Non-vacuity: the walk does report a letter no call can read (MT103 has no 50G). -/
example : walk (callsOf 103) [⟨"50", ["A", "G"], .m, 0, false⟩] 0 [] = [("50", "G")] := by decide +kernel

end SwiftMT.Props.C03
