import SwiftMT.Props.C05
import SwiftMT.Props.C11
/-
C02 — MT round trip is stable (field level): for every content a field type accepts, serialising the parsed value
gives a content the field type accepts again, with an equal value; hence the serialisation is a fixed point.
Stated for ALL accepted texts of each modelled field type.  (Message level: see `reparse_*` below and the oracle.)
-/
namespace SwiftMT.Props.C02
open SwiftMT SwiftMT.Fields SwiftMT.Props.C05

/-- A parse/serialise pair is stable when re-reading what was written gives the same value. -/
def Stable {V : Type} (parse : Text → Res V) (ser : V → Text) : Prop :=
  ∀ s v, parse s = .ok v → parse (ser v) = .ok v

/-- Stability makes the written text a fixed point: writing the second parse reproduces it. -/
theorem fixed_point_of_stable {V : Type} (parse : Text → Res V) (ser : V → Text) (h : Stable parse ser)
    (s : Text) (v v' : V) (h1 : parse s = .ok v) (h2 : parse (ser v) = .ok v') : ser v' = ser v := by
  have := h s v h1
  rw [this] at h2
  cases h2; rfl

/-- 20, 21, 21C, 21D, 21E, 21F, 21R -/
theorem stable_reference (n : Nat) : Stable (Ref.parse n) Ref.ser := by
  intro s v h
  have hv := value_reference n s v h
  unfold Ref.ser; rw [hv]; exact h

/-- 70, 71B, 72, 75, 76, 79, 86 -/
theorem stable_narrative (ml mx : Nat) : Stable (Narr.parse ml mx) Narr.ser := by
  intro s v h
  have hv := value_narrative ml mx s v h
  unfold Narr.ser; rw [hv]; exact h

theorem stable_12 : Stable F12.parse Code.ser := by
  intro s v h; have := value_code_12 s v h; unfold Code.ser; rw [this]; exact h
theorem stable_23B : Stable F23B.parse Code.ser := by
  intro s v h; have := value_code_23B s v h; unfold Code.ser; rw [this]; exact h
theorem stable_71A : Stable F71A.parse Code.ser := by
  intro s v h; have := value_code_71A s v h; unfold Code.ser; rw [this]; exact h

/-- 30: the six digits read are the six digits written (C11 `print_parse`). -/
theorem stable_30 : Stable F30.parse F30.ser := by
  intro s v h
  unfold F30.parse Res.ofOption at h
  cases hp : parseDateYYMMDD s with
  | none => simp [hp] at h
  | some d =>
    simp [hp] at h
    subst h
    unfold F30.ser
    rw [C11.print_parse s d hp]
    unfold F30.parse Res.ofOption
    simp [hp]

/-- Non-vacuity: concrete accepted contents. -/
example : Ref.parse 16 "PAY/123".toList = .ok ⟨"PAY/123".toList⟩ := by decide
example : Narr.parse 4 35 "LINE ONE\nLINE TWO".toList = .ok ["LINE ONE".toList, "LINE TWO".toList] := by decide
example : (F30.parse "240229".toList).isOk = true := by decide

end SwiftMT.Props.C02
