import SwiftMT.Props.C05
import SwiftMT.Props.C11
import SwiftMT.Lemmas.RoundTrip
import SwiftMT.Lemmas.Amount
import SwiftMT.Props.C07
/-
C02 — MT round trip is stable (field level): for every content a field type accepts, serialising the parsed value
gives a content the field type accepts again, with an equal value; hence the serialisation is a fixed point.
Stated for ALL accepted texts of each modelled field type.  (Message level: see `reparse_*` below and the oracle.)
-/
namespace SwiftMT.Props.C02
open SwiftMT SwiftMT.Fields SwiftMT.Props.C05 SwiftMT.Props.C07

/-- A parse/serialise pair is stable when re-reading what was written gives the same value. -/
def Stable {V : Type} (parse : Text → Res V) (ser : V → Text) : Prop :=
  ∀ s v, parse s = .ok v → parse (ser v) = .ok v

/-- Stability makes the written text a fixed point: writing the second parse reproduces it. -/
theorem fixed_point_of_stable {V : Type} (parse : Text → Res V) (ser : V → Text) (h : Stable parse ser)
    (s : Text) (v v' : V) (h1 : parse s = .ok v) (h2 : parse (ser v) = .ok v') : ser v' = ser v := by
  have := h s v h1
  rw [this] at h2
  cases h2; rfl

/-- 20, 21, 21C, 21D, 21E, 21F, 21R -/
theorem stable_reference (n : Nat) : Stable (Ref.parse n) Ref.ser := by
  intro s v h
  have hv := value_reference n s v h
  unfold Ref.ser; rw [hv]; exact h

/-- 70, 71B, 72, 75, 76, 79, 86 -/
theorem stable_narrative (ml mx : Nat) : Stable (Narr.parse ml mx) Narr.ser := by
  intro s v h
  have hv := value_narrative ml mx s v h
  unfold Narr.ser; rw [hv]; exact h

theorem stable_12 : Stable F12.parse Code.ser := by
  intro s v h; have := value_code_12 s v h; unfold Code.ser; rw [this]; exact h
theorem stable_23B : Stable F23B.parse Code.ser := by
  intro s v h; have := value_code_23B s v h; unfold Code.ser; rw [this]; exact h
theorem stable_71A : Stable F71A.parse Code.ser := by
  intro s v h; have := value_code_71A s v h; unfold Code.ser; rw [this]; exact h

/-- 30: the six digits read are the six digits written (C11 `print_parse`). -/
theorem stable_30 : Stable F30.parse F30.ser := by
  intro s v h
  unfold F30.parse Res.ofOption at h
  cases hp : parseDateYYMMDD s with
  | none => simp [hp] at h
  | some d =>
    simp [hp] at h
    subst h
    unfold F30.ser
    rw [C11.print_parse s d hp]
    unfold F30.parse Res.ofOption
    simp [hp]

/-- A parser whose serialiser reproduces the text that was read is stable. -/
theorem stable_of_reproduces {V : Type} (parse : Text → Res V) (ser : V → Text)
    (h : ∀ s v, parse s = .ok v → ser v = s) : Stable parse ser := by
  intro s v hp
  rw [h s v hp]; exact hp

/-- 52A, 53A, 54A, 55A, 56A, 57A, 58A -/
theorem stable_optionA : Stable OptA.parse OptA.ser := stable_of_reproduces _ _ optA_reproduces
/-- 52C, 56C, 57C -/
theorem stable_optionC : Stable OptC.parse OptC.ser := stable_of_reproduces _ _ optC_reproduces
/-- 52D, 54D, 55D, 56D, 57D, 58D -/
theorem stable_optionD : Stable OptD.parse OptD.ser := stable_of_reproduces _ _ optD_reproduces

/-- 50 (no option), 50L, 50G, 50H, 50K, 59, 59A -/
theorem stable_50 : Stable F50NoOption.parse joinNl := stable_of_reproduces _ _ f50_reproduces
theorem stable_50L : Stable F50L.parse id := stable_of_reproduces _ _ f50L_reproduces
theorem stable_50G : Stable F50G.parse F50G.ser := stable_of_reproduces _ _ f50G_reproduces
theorem stable_50H : Stable F50H.parse AcctLines.ser := stable_of_reproduces _ _ f50H_reproduces
theorem stable_50K : Stable F50K.parse AcctLines.ser := stable_of_reproduces _ _ f50K_reproduces
theorem stable_59 : Stable F59.parse AcctLines.ser := stable_of_reproduces _ _ f59_reproduces
theorem stable_59A : Stable F59A.parse F59A.ser := stable_of_reproduces _ _ f59A_reproduces
/-- 52B, 54B, 55B, 57B -/
theorem stable_optionB : Stable OptB.parse OptB.ser := stable_of_reproduces _ _ optB_reproduces
/-- 50C -/
theorem stable_bic : Stable parseBic id := stable_of_reproduces _ _ (fun s v h => parseBic_value s v h)

/-! ### codes, accounts, envelopes, dates and times, statement numbers

Each of these either reproduces the text it read (26T, 25A, 77T, 77A/77B, 23E, 11, 11R/S, 13C, 13D, 51A) or re-formats it
(25 always writes the slash it may have dropped; 28 / 28C / 28D re-print the numbers: `007/1` comes back as `7/01`), and
reading the re-formatted text gives the same value. -/



theorem parseExactLength_ok {t v : Text} {n : Nat} (h : parseExactLength t n = .ok v) : v = t := by
  unfold parseExactLength at h; split at h
  · cases h; rfl
  · cases h

theorem parseMaxLength_ok {t v : Text} {n : Nat} (h : parseMaxLength t n = .ok v) : v = t := by
  unfold parseMaxLength at h; split at h
  · cases h; rfl
  · cases h

/-- 26T -/
theorem f26T_reproduces (s : Text) (v : Code) (h : F26T.parse s = .ok v) : Code.ser v = s := by
  unfold F26T.parse at h
  obtain ⟨c, hc, h2⟩ := bind_ok_inv h
  have := parseExactLength_ok hc
  subst this
  split at h2
  · cases h2; rfl
  · cases h2

theorem stable_26T : Stable F26T.parse Code.ser := stable_of_reproduces _ _ f26T_reproduces

/-- 25A -/
theorem f25A_reproduces (s : Text) (v : Text) (h : F25A.parse s = .ok v) : F25A.ser v = s := by
  unfold F25A.parse at h
  split at h
  · split at h; · cases h
    split at h; · cases h
    obtain ⟨_, _, h2⟩ := bind_ok_inv h
    cases h2; rfl
  · cases h

theorem stable_25A : Stable F25A.parse F25A.ser := stable_of_reproduces _ _ f25A_reproduces

/-- 77T -/
theorem f77T_reproduces (s : Text) (v : Text) (h : F77T.parse s = .ok v) : id v = s := by
  unfold F77T.parse at h
  split at h; · cases h
  split at h; · cases h
  cases h; rfl

theorem stable_77T : Stable F77T.parse id := stable_of_reproduces _ _ f77T_reproduces

/-- 77A, 77B -/
theorem narrL_reproduces (ml mx : Nat) (s : Text) (v : List Text) (h : NarrL.parse ml mx s = .ok v) : Narr.ser v = s := by
  unfold NarrL.parse validateMultilineText at h
  split at h; · cases h
  split at h; · cases h
  split at h; · cases h
  cases h
  exact joinNl_splitNl s

theorem stable_narrativeL (ml mx : Nat) : Stable (NarrL.parse ml mx) Narr.ser := stable_of_reproduces _ _ (narrL_reproduces ml mx)

/-- 25 (no option): the optional leading slash is not kept, one is always written — read back, the value is the same -/
theorem stable_25 : Stable F25.parse F25.ser := by
  intro s v h
  unfold F25.parse at h
  simp only at h
  obtain ⟨a, ha, h2⟩ := bind_ok_inv h
  have hav := parseMaxLength_ok ha
  split at h2; · cases h2
  obtain ⟨_, hsw, h3⟩ := bind_ok_inv h2
  cases h3
  -- now v = a = stripped
  unfold F25.parse F25.ser
  simp only
  rw [← hav] at ha
  rw [ha]
  simp only [Res.bind_ok]
  rename_i hne
  simp only [hne, if_false]
  rw [hsw]; rfl

theorem stable_23E : Stable F23E.parse F23E.ser := stable_of_reproduces _ _ f23E_reproduces

/-- 11 -/
theorem f11_reproduces (s : Text) (v : F11) (h : F11.parse s = .ok v) : F11RS.ser v = s := by
  unfold F11.parse at h
  split at h; · cases h
  rename_i hasc
  split at h; · cases h
  rename_i hlen
  have ha : isAsciiT s = true := by simpa using hasc
  have hl : s.length = 9 := by
    have : blen s = 9 := by simpa using hlen
    rw [blen_ascii s ha] at this; exact this
  rw [bto_ascii s 3 ha (by omega)] at h
  simp only [Res.bind_ok] at h
  obtain ⟨_, _, h⟩ := bind_ok_inv h
  rw [bslice_ascii s 3 9 ha (by omega) (by omega)] at h
  simp only [Res.bind_ok] at h
  obtain ⟨_, _, h⟩ := bind_ok_inv h
  obtain ⟨date, hd, h⟩ := bind_ok_inv h
  cases h
  have hp := C11.print_parse _ _ (ofOption_ok hd)
  unfold F11RS.ser
  simp only [Option.getD, List.append_nil]
  rw [hp]
  match s, hl with
  | [c0, c1, c2, c3, c4, c5, c6, c7, c8], _ => rfl

theorem stable_11 : Stable F11.parse F11RS.ser := stable_of_reproduces _ _ f11_reproduces

theorem stable_13D : Stable F13D.parse F13D.ser := stable_of_reproduces _ _ f13D_reproduces

/-- 13C -/
theorem f13C_reproduces (s : Text) (v : F13C) (h : F13C.parse s = .ok v) : F13C.ser v = s := by
  unfold F13C.parse at h
  split at h; · cases h
  rename_i hasc
  split at h; · cases h
  have ha : isAsciiT s = true := by simpa using hasc
  split at h
  · rename_i rest _
    split at h; · cases h
    rename_i p hfind
    simp only at h
    split at h; · cases h
    split at h; · cases h
    split at h; · cases h
    rename_i hlen
    have hsplit := (findChar_split hfind).1
    have har : isAsciiT (rest.drop (p + 1)) = true := by
      have : isAsciiT rest = true := by
        have := isAsciiT_drop ('/' :: rest) 1 ha
        simpa using this
      exact isAsciiT_drop rest (p + 1) this
    generalize rest.drop (p + 1) = rem at *
    have hl : rem.length = 9 := by
      have : blen rem = 9 := by simpa using hlen
      rw [blen_ascii rem har] at this; exact this
    rw [bslice_ascii rem 0 4 har (by omega) (by omega)] at h
    simp only [Res.bind_ok] at h
    obtain ⟨_, _, h⟩ := bind_ok_inv h
    obtain ⟨time, ht, h⟩ := bind_ok_inv h
    obtain ⟨c, hc⟩ : ∃ c, rem[4]? = some c := ⟨rem[4], List.getElem?_eq_getElem (by omega)⟩
    rw [hc] at h
    simp only [Res.unwrap, Res.bind_ok] at h
    split at h; · cases h
    rw [bslice_ascii rem 5 9 har (by omega) (by omega)] at h
    simp only [Res.bind_ok] at h
    obtain ⟨off, hoff, h⟩ := bind_ok_inv h
    obtain ⟨_, _, h⟩ := bind_ok_inv h
    obtain ⟨_, _, h⟩ := bind_ok_inv h
    cases h
    have hoff' : off = List.take (9 - 5) (List.drop 5 rem) := by
      unfold parseExactLength at hoff; split at hoff
      · cases hoff; rfl
      · cases hoff
    have hq := hhmm_parse _ _ (ofOption_ok ht)
    unfold F13C.ser
    simp only
    rw [hq, hoff']
    have e4 : rem.drop 4 = c :: rem.drop 5 := by
      have hlt : 4 < rem.length := by omega
      have : rem[4] = c := by
        have := List.getElem?_eq_getElem hlt
        rw [this] at hc; exact Option.some.inj hc
      rw [← this]; exact List.drop_eq_getElem_cons hlt
    have e5 : (rem.drop 5).take (9 - 5) = rem.drop 5 := List.take_of_length_le (by simp [List.length_drop]; omega)
    rw [e5]
    have e0 : (rem.drop 0).take (4 - 0) ++ c :: rem.drop 5 = rem := by
      rw [← e4]; simp
    conv => rhs; rw [hsplit, ← e0]
    simp
  · cases h

theorem stable_13C : Stable F13C.parse F13C.ser := stable_of_reproduces _ _ f13C_reproduces

/-- what is written for a number is read back as that number -/
theorem numWrite (n w k mx : Nat) (hk : 0 < k) (hw : w ≤ k) (hn : n < 10 ^ k) (hm : n ≤ mx) :
    ¬ blen (padLeft (natDigits n) w) > k ∧ (padLeft (natDigits n) w).all Char.isDigit = true ∧
    parseUInt (padLeft (natDigits n) w) mx = .ok n ∧ padLeft (natDigits n) w ≠ [] ∧
    ∀ c ∈ padLeft (natDigits n) w, c ≠ '/' := by
  have hall : (padLeft (natDigits n) w).all isDigitC = true := padLeft_all _ _ (natDigits_all n)
  have hall' : (padLeft (natDigits n) w).all Char.isDigit = true := by rw [all_isDigit_iff]; exact hall
  have hasc := all_digit_ascii _ hall'
  have hlen : (padLeft (natDigits n) w).length ≤ k := by
    have := natDigits_length_le k n hk hn
    unfold padLeft
    simp only [List.length_append, List.length_replicate]
    omega
  have hne : padLeft (natDigits n) w ≠ [] := by
    unfold padLeft
    intro h
    have := natDigits_ne_nil n
    simp at h
    exact this h.2
  refine ⟨by rw [blen_ascii _ hasc]; omega, hall', ?_, hne, ?_⟩
  · unfold parseUInt
    have : (padLeft (natDigits n) w).isEmpty = false := by
      cases hh : padLeft (natDigits n) w with
      | nil => exact absurd hh hne
      | cons _ _ => rfl
    simp only [this]
    have hv : digitsVal (padLeft (natDigits n) w) 0 = n := by
      unfold padLeft
      rw [digitsVal_zeros _ 0, digitsVal_natDigits]
    simp [hv, hm]
  · intro c hc h
    subst h
    rw [List.all_eq_true] at hall
    have := hall _ hc
    revert this; decide

theorem padLeft_zero (t : Text) : padLeft t 0 = t := by simp [padLeft]

/-- statement number / sequence number written with the sequence number padded to `w` digits -/
def Stmt.serW (w : Nat) (v : Stmt) : Text :=
  match v.seq with
  | some q => natDigits v.number ++ '/' :: padLeft (natDigits q) w
  | none => natDigits v.number

theorem ser28_eq (v : Stmt) : F28.ser v = Stmt.serW 2 v := by
  unfold F28.ser Stmt.serW; cases v.seq <;> rfl

theorem ser28C_eq (v : Stmt) : F28C.ser v = Stmt.serW 0 v := by
  unfold F28C.ser Stmt.serW; cases v.seq <;> simp [padLeft_zero]

theorem stmt_stable (seqLen seqMax w : Nat) (hs : 0 < seqLen) (hw : w ≤ seqLen) :
    Stable (Stmt.parse seqLen seqMax) (Stmt.serW w) := by
  intro s v h
  unfold Stmt.parse at h
  simp only at h
  split at h; · cases h
  split at h; · cases h
  rename_i hk
  obtain ⟨_, hd, h⟩ := bind_ok_inv h
  have hd' := guard_ok hd
  obtain ⟨n, hn, h⟩ := bind_ok_inv h
  obtain ⟨_, _, _, hmax, hlt⟩ := numRead hk hd' hn
  obtain ⟨w1, w2, w3, w4, w5⟩ := numWrite n 0 5 u32Max (by decide) (by decide) hlt hmax
  rw [padLeft_zero] at w1 w2 w3 w4 w5
  split at h
  · rename_i q' hq'
    split at h; · cases h
    rename_i hk2
    obtain ⟨_, hd2, h⟩ := bind_ok_inv h
    have hd2' := guard_ok hd2
    obtain ⟨q, hq, h⟩ := bind_ok_inv h
    cases h
    obtain ⟨_, _, _, hmax2, hlt2⟩ := numRead hk2 hd2' hq
    obtain ⟨u1, u2, u3, u4, u5⟩ := numWrite q w seqLen seqMax hs hw hlt2 hmax2
    unfold Stmt.serW Stmt.parse
    simp only
    rw [splitAtFirst_append '/' _ _ w5 u4]
    simp only [Option.isNone_some, Bool.false_and, Bool.false_eq_true, if_false]
    simp only [w1, if_false]
    unfold parseNumeric
    simp only [w2, Res.guard, if_true, Res.bind_ok, w3, u1, if_false, u2, u3, Res.pure_eq]
  · cases h
    unfold Stmt.serW Stmt.parse
    simp only
    have hsp : splitAtFirst '/' (natDigits n) = (natDigits n, none) := by
      unfold splitAtFirst; rw [findChar_none _ w5]
    rw [hsp]
    simp only [contains_false_of_ne _ _ w5, Bool.and_false, Bool.false_eq_true, if_false]
    simp only [w1, if_false]
    unfold parseNumeric
    simp only [w2, Res.guard, if_true, Res.bind_ok, w3, Res.pure_eq]

/-- 28 (`5n[/2n]`, sequence number written with two digits) and 28C (`5n[/5n]`) -/
theorem stable_28 : Stable F28.parse F28.ser := by
  intro s v h
  rw [ser28_eq]
  exact stmt_stable 2 255 2 (by decide) (by decide) s v h

theorem stable_28C : Stable F28C.parse F28C.ser := by
  intro s v h
  rw [ser28C_eq]
  exact stmt_stable 5 u32Max 0 (by decide) (by decide) s v h

/-- 28D (`5n/5n`, both numbers written with at least three digits) -/
theorem stable_28D : Stable F28D.parse F28D.ser := by
  intro s v h
  unfold F28D.parse at h
  simp only at h
  split at h; · cases h
  rename_i hk
  obtain ⟨_, hd, h⟩ := bind_ok_inv h
  have hd' := guard_ok hd
  obtain ⟨i, hi, h⟩ := bind_ok_inv h
  obtain ⟨_, _, _, hmax, hlt⟩ := numRead hk hd' hi
  obtain ⟨w1, w2, w3, w4, w5⟩ := numWrite i 3 5 u32Max (by decide) (by decide) hlt hmax
  split at h
  · cases h
  · rename_i t' ht'
    split at h; · cases h
    rename_i hk2
    obtain ⟨_, hd2, h⟩ := bind_ok_inv h
    have hd2' := guard_ok hd2
    obtain ⟨n, hn, h⟩ := bind_ok_inv h
    obtain ⟨_, _, _, hmax2, hlt2⟩ := numRead hk2 hd2' hn
    obtain ⟨u1, u2, u3, u4, u5⟩ := numWrite n 3 5 u32Max (by decide) (by decide) hlt2 hmax2
    split at h; · cases h
    rename_i hin
    split at h; · cases h
    rename_i hz
    cases h
    unfold F28D.ser F28D.parse
    simp only
    rw [splitAtFirst_append '/' _ _ w5 u4]
    simp only [w1, if_false]
    unfold parseNumeric
    simp only [w2, Res.guard, if_true, Res.bind_ok, w3, u1, if_false, u2, u3, hin, hz, Res.pure_eq]
    simp

/-- 51A -/
theorem f51A_reproduces (s : Text) (v : OptA) (h : F51A.parse s = .ok v) : F51A.ser v = s := by
  unfold F51A.parse at h
  split at h
  · cases h
  · cases h
  · rename_i pid rem hvia
    unfold F51A.viaNl at hvia
    split at hvia
    · rename_i p hfind
      split at hvia
      · rename_i id hpid
        cases hvia
        have e1 := pid_value _ _ hpid
        split at h
        · rename_i b hb
          cases h
          have e2 := parseBic_value _ _ hb
          subst e2
          unfold F51A.ser
          simp only
          rw [← e1]
          exact (findChar_split hfind).1.symm
        · cases h
        · cases h
      · cases hvia
      · cases hvia
      · cases hvia
    · cases hvia
  · split at h; · cases h
    split at h
    · rename_i b hb
      cases h
      have e2 := parseBic_value _ _ hb
      subst e2
      rfl
    · cases h
    · cases h

theorem stable_51A : Stable F51A.parse F51A.ser := stable_of_reproduces _ _ f51A_reproduces

/-- 11R, 11S -/
theorem f11RS_reproduces (s : Text) (v : F11) (h : F11RS.parse s = .ok v) : F11RS.ser v = s := by
  unfold F11RS.parse at h
  split at h; · cases h
  rename_i hasc
  split at h; · cases h
  rename_i hlen
  have ha : isAsciiT s = true := by simpa using hasc
  have hl : 3 ≤ s.length := by
    have : ¬ blen s < 3 := by simpa using hlen
    rw [blen_ascii s ha] at this; omega
  rw [bto_ascii s 3 ha hl, bfrom_ascii s 3 ha hl] at h
  simp only [Res.bind_ok] at h
  obtain ⟨_, _, h⟩ := bind_ok_inv h
  have ha3 := isAsciiT_drop s 3 ha
  split at h; · cases h
  rename_i hlen2
  have hl2 : 6 ≤ (s.drop 3).length := by
    have : ¬ blen (s.drop 3) < 6 := by simpa using hlen2
    rw [blen_ascii _ ha3] at this; omega
  rw [bto_ascii _ 6 ha3 hl2, bfrom_ascii _ 6 ha3 hl2] at h
  simp only [Res.bind_ok] at h
  obtain ⟨_, _, h⟩ := bind_ok_inv h
  obtain ⟨date, hd, h⟩ := bind_ok_inv h
  have hp := C11.print_parse _ _ (ofOption_ok hd)
  split at h; · cases h
  have ha9 := isAsciiT_drop _ 6 ha3
  have hb9 := blen_ascii _ ha9
  have key : ∀ r : Text, r = (s.drop 3).drop 6 → s.take 3 ++ printYYMMDD date ++ r = s := by
    intro r hr
    rw [hp, hr, List.append_assoc, List.take_append_drop 6, List.take_append_drop 3]
  split at h
  · rename_i h0
    cases h
    unfold F11RS.ser; simp only [Option.getD, List.append_nil]
    have : (s.drop 3).drop 6 = [] := List.eq_nil_of_length_eq_zero (by omega)
    have := key [] this.symm
    simpa using this
  · cases h
    unfold F11RS.ser; simp only [Option.getD, List.append_nil]
    exact key _ rfl
  · cases h
    unfold F11RS.ser; simp only [Option.getD, List.append_nil]
    have := key _ rfl
    simpa [List.append_assoc] using this
  · rename_i h10
    have : 4 ≤ ((s.drop 3).drop 6).length := by omega
    rw [bto_ascii _ 4 ha9 this, bfrom_ascii _ 4 ha9 this] at h
    simp only [Res.bind_ok, Res.pure_eq] at h
    cases h
    unfold F11RS.ser; simp only [Option.getD]
    have := key _ rfl
    rw [List.append_assoc (s.take 3 ++ printYYMMDD date), List.take_append_drop]
    exact this
  · cases h

theorem stable_11RS : Stable F11RS.parse F11RS.ser := stable_of_reproduces _ _ f11RS_reproduces

/-! ### structured parties: 53B, 53D, 59F, 50A (line numbers dropped and written again), 50F, 25P (the one-line form is
written back on two lines and read as the same value) -/

theorem nameAddr_value (ls : List Text) (r : List Text) (h : parseNameAndAddress ls 0 = .ok r) : r = ls := by
  unfold parseNameAndAddress at h
  simp only [List.drop_zero] at h
  split at h; · cases h
  split at h; · cases h
  split at h; · cases h
  cases h; rfl

/-- 53D -/
theorem f53D_reproduces (s : Text) (v : OptD) (h : F53D.parse s = .ok v) : F53D.ser v = s := by
  unfold F53D.parse at h
  split at h
  · cases h
  · rename_i first rest hsp
    simp only at h
    split at h
    · split at h; · cases h
      split at h; · cases h
      split at h
      · rename_i ls hls
        cases h
        have := nameAddr_value _ _ hls
        subst this
        unfold F53D.ser; simp only
        rw [← hsp]; exact joinNl_splitNl s
      · cases h
      · cases h
    · split at h
      · rename_i ls hls
        cases h
        have := nameAddr_value _ _ hls
        subst this
        unfold F53D.ser; simp only
        rw [← hsp]; exact joinNl_splitNl s
      · cases h
      · cases h
theorem stable_53D : Stable F53D.parse F53D.ser := stable_of_reproduces _ _ f53D_reproduces

/-- 53B -/
theorem f53B_reproduces (s : Text) (v : OptB) (h : F53B.parse s = .ok v) : F53B.ser v = s := by
  unfold F53B.parse at h
  split at h
  · rename_i he
    cases h
    have : s = [] := by cases s <;> simp_all
    subst this; rfl
  · simp only at h
    split at h; · cases h
    split at h; · cases h
    split at h
    · rename_i a b hsp
      split at h; · cases h
      split at h; · cases h
      split at h; · cases h
      split at h; · cases h
      cases h
      unfold F53B.ser; simp only [Option.isSome_some, if_true, Option.getD_some]
      have := joinNl_splitNl s
      rw [hsp] at this
      simpa [joinNl] using this
    · rename_i line hsp
      have hj := joinNl_splitNl s
      rw [hsp] at hj
      split at h
      · split at h; · cases h
        split at h; · cases h
        cases h
        unfold F53B.ser; simpa [joinNl] using hj
      · split at h; · cases h
        split at h; · cases h
        cases h
        unfold F53B.ser; simpa [joinNl] using hj
    · cases h
theorem stable_53B : Stable F53B.parse F53B.ser := stable_of_reproduces _ _ f53B_reproduces

theorem numberedLines_keep (ls r : List Text) (k : Nat) (h : numberedLines true ls k = .ok r) : r = ls := by
  induction ls generalizing k r with
  | nil => simp [numberedLines] at h; exact h
  | cons l rest ih =>
    unfold numberedLines at h
    split at h
    · split at h; · cases h
      split at h; · cases h
      split at h; · cases h
      split at h; · cases h
      split at h
      · rename_i ls' hls
        cases h
        simp only [if_true]
        rw [ih _ _ hls]
      · cases h
      · cases h
    · cases h

/-- 59F -/
theorem f59F_reproduces (s : Text) (v : OptD) (h : F59F.parse s = .ok v) : F59F.ser v = s := by
  unfold F59F.parse at h
  split at h
  · cases h
  · rename_i l0 rest hsp
    have hj := joinNl_splitNl s
    rw [hsp] at hj
    split at h
    · cases h
    · cases h
    · rename_i p hp
      have e1 := pid_value _ _ hp
      split at h
      · rename_i ls hls
        split at h; · cases h
        split at h; · cases h
        cases h
        have := numberedLines_keep _ _ _ hls
        subst this
        unfold F59F.ser; simp only
        rw [e1] at hj
        simpa using hj
      · cases h
      · cases h
    · split at h
      · rename_i ls hls
        split at h; · cases h
        split at h; · cases h
        cases h
        have := numberedLines_keep _ _ _ hls
        subst this
        unfold F59F.ser; simp only
        simpa using hj
      · cases h
      · cases h
theorem stable_59F : Stable F59F.parse F59F.ser := stable_of_reproduces _ _ f59F_reproduces



theorem natDigits_of_digitVal {d : Char} {k : Nat} (h : digitVal d = some k) : natDigits k = [d] := by
  have hk := C11.digitVal_lt h
  unfold natDigits
  simp only [hk, dif_pos]
  rw [C11.digitChar_digitVal h]

theorem numberedLines_strip (ls r : List Text) (k : Nat) (h : numberedLines false ls k = .ok r) : numberFrom k r = ls := by
  induction ls generalizing k r with
  | nil => simp [numberedLines] at h; subst h; rfl
  | cons l rest ih =>
    unfold numberedLines at h
    split at h
    · rename_i d text
      split at h; · cases h
      rename_i hd
      split at h; · cases h
      split at h; · cases h
      split at h; · cases h
      split at h
      · rename_i ls' hls
        cases h
        simp only [Bool.false_eq_true, if_false]
        unfold numberFrom
        rw [ih _ _ hls]
        have hd' : digitVal d = some k := by simpa using hd
        rw [natDigits_of_digitVal hd']
        rfl
      · cases h
      · cases h
    · cases h

/-- 50A: the line numbers are not kept in the value and are written again as 1, 2, … — which is what was read -/
theorem f50A_reproduces (s : Text) (v : OptD) (h : F50A.parse s = .ok v) : F50A.ser v = s := by
  unfold F50A.parse at h
  split at h
  · cases h
  · rename_i l0 rest hsp
    have hj := joinNl_splitNl s
    rw [hsp] at hj
    split at h
    · rename_i ident
      split at h; · cases h
      split at h; · cases h
      split at h; · cases h
      split at h
      · rename_i ls hls
        split at h; · cases h
        split at h; · cases h
        cases h
        unfold F50A.ser; simp only
        rw [numberedLines_strip _ _ _ hls]
        simpa using hj
      · cases h
      · cases h
    · split at h
      · rename_i ls hls
        split at h; · cases h
        split at h; · cases h
        cases h
        unfold F50A.ser; simp only
        rw [numberedLines_strip _ _ _ hls]
        simpa using hj
      · cases h
      · cases h
theorem stable_50A : Stable F50A.parse F50A.ser := stable_of_reproduces _ _ f50A_reproduces



theorem isAsciiT_take (t : Text) (n : Nat) (h : isAsciiT t = true) : isAsciiT (t.take n) = true := by
  unfold isAsciiT at *
  rw [List.all_eq_true] at *
  intro c hc; exact h c (List.mem_of_mem_take hc)

theorem isAsciiT_append (a b : Text) (ha : isAsciiT a = true) (hb : isAsciiT b = true) : isAsciiT (a ++ b) = true := by
  unfold isAsciiT at *; rw [List.all_append, ha, hb]; rfl

theorem parseAccount35_ok {t a : Text} (h : parseAccount35 t = .ok a) :
    a = t ∧ t.isEmpty = false ∧ ¬ blen t > 35 ∧ t.all isSwiftX = true := by
  unfold parseAccount35 at h
  split at h; · cases h
  rename_i h1
  split at h; · cases h
  rename_i h2
  split at h
  · rename_i h3; cases h; exact ⟨rfl, by simpa using h1, h2, h3⟩
  · cases h

/-- what is written for an accepted two-part value (account line, BIC line) is read back as that value -/
theorem f25P_write (a b : Text) (hasc : isAsciiT a = true) (hbasc : isAsciiT b = true)
    (hne : a.isEmpty = false) (hlen : ¬ blen a > 35) (hx : a.all isSwiftX = true)
    (hnl : ∀ c ∈ a, c ≠ '\n') (hnlb : ∀ c ∈ b, c ≠ '\n') (hb : parseBic b = .ok b) :
    F25P.parse (a ++ '\n' :: b) = .ok ⟨a, b⟩ := by
  unfold F25P.parse
  have hall : isAsciiT (a ++ '\n' :: b) = true := by
    apply isAsciiT_append _ _ hasc
    unfold isAsciiT at *; simp only [List.all_cons, hbasc, Bool.and_true]; decide
  simp only [hall, Bool.not_true, Bool.false_eq_true, if_false]
  rw [splitNl_append_nl a b hnl, splitNl_no_nl b hnlb]
  simp only [hlen, if_false, hx, Bool.not_true, Bool.false_eq_true, hne, hb]

theorem stable_25P : Stable F25P.parse F25P.ser := by
  intro s v h
  unfold F25P.parse at h
  split at h; · cases h
  rename_i hasc
  have ha : isAsciiT s = true := by simpa using hasc
  split at h
  · cases h
  · rename_i l0 rest hsp
    have hj := joinNl_splitNl s
    rw [hsp] at hj
    have hno := splitNl_lines_no_nl s
    rw [hsp] at hno
    split at h; · cases h
    rename_i hlen
    split at h; · cases h
    rename_i hx
    split at h; · cases h
    rename_i hne
    split at h
    · cases h
    · rename_i l1
      split at h
      · rename_i b hb
        cases h
        have eb := parseBic_value _ _ hb
        subst eb
        unfold F25P.ser; simp only
        have : l0 ++ '\n' :: b = s := by simpa [joinNl] using hj
        rw [this]
        -- parse s again
        unfold F25P.parse
        simp only [ha, Bool.not_true, Bool.false_eq_true, if_false, hsp, hlen, hx, hne, hb]
      · cases h
      · cases h
    · -- one line: the BIC is cut from the end
      have hs0 : l0 = s := by simpa [joinNl] using hj
      have hnl : ∀ c ∈ s, c ≠ '\n' := by
        have := hno l0 (by simp); rw [hs0] at this; exact this
      split at h
      · simp only at h
        split at h
        · rename_i h11
          split at h
          · rename_i a hacc
            cases h
            obtain ⟨rfl, e1, e2, e3⟩ := parseAccount35_ok hacc
            have hb : parseBic (s.drop (s.length - 11)) = .ok (s.drop (s.length - 11)) := by
              have : isOkRes (parseBic (s.drop (s.length - 11))) = true := by
                simp only [Bool.and_eq_true] at h11; exact h11.2
              cases hp : parseBic (s.drop (s.length - 11)) with
              | ok b => rw [parseBic_value _ _ hp]
              | err => rw [hp] at this; cases this
              | panic => rw [hp] at this; cases this
            exact f25P_write _ _ (isAsciiT_take s _ ha) (isAsciiT_drop s _ ha) e1 e2 e3
              (fun c hc => hnl c (List.mem_of_mem_take hc)) (fun c hc => hnl c (List.mem_of_mem_drop hc)) hb
          · cases h
          · cases h
        · split at h
          · rename_i h8
            split at h
            · rename_i a hacc
              cases h
              obtain ⟨rfl, e1, e2, e3⟩ := parseAccount35_ok hacc
              have hb : parseBic (s.drop (s.length - 8)) = .ok (s.drop (s.length - 8)) := by
                have : isOkRes (parseBic (s.drop (s.length - 8))) = true := by
                  simp only [Bool.and_eq_true] at h8; exact h8.2
                cases hp : parseBic (s.drop (s.length - 8)) with
                | ok b => rw [parseBic_value _ _ hp]
                | err => rw [hp] at this; cases this
                | panic => rw [hp] at this; cases this
              exact f25P_write _ _ (isAsciiT_take s _ ha) (isAsciiT_drop s _ ha) e1 e2 e3
                (fun c hc => hnl c (List.mem_of_mem_take hc)) (fun c hc => hnl c (List.mem_of_mem_drop hc)) hb
            · cases h
            · cases h
          · cases h
      · cases h



theorem dropLast_append_getLast (l : List Text) (h : l ≠ []) : l.dropLast ++ [l.getLast?.getD []] = l := by
  induction l with
  | nil => exact absurd rfl h
  | cons a r ih =>
    cases r with
    | nil => simp
    | cons b r' =>
      have := ih (by simp)
      simp only [List.dropLast_cons_cons, List.cons_append]
      rw [List.getLast?_cons_cons]
      rw [this]

theorem f50F_mid_value (mid : List Text) (p : Option Text) (names : List Text) (h : F50F.mid mid = .ok (p, names)) :
    partyLine p ++ names = mid := by
  unfold F50F.mid at h
  split at h
  · split at h; · cases h
    split at h; · cases h
    split at h; · cases h
    cases h; rfl
  · cases h; rfl

theorem ser50F_eq (v : F50F) : F50F.ser v = joinNl ([v.account] ++ partyLine v.party ++ v.lines ++ [v.bic]) := by
  unfold F50F.ser; cases v.party <;> rfl

/-- 50F -/
theorem f50F_reproduces (s : Text) (v : F50F) (h : F50F.parse s = .ok v) : F50F.ser v = s := by
  unfold F50F.parse at h
  split at h
  · cases h
  · cases h
  · rename_i account more hne1 hsp
    have hj := joinNl_splitNl s
    rw [hsp] at hj
    have hmore : more ≠ [] := fun h0 => hne1 h0
    split at h; · cases h
    split at h; · cases h
    split at h; · cases h
    split at h
    · cases h
    · cases h
    · rename_i bic hbic
      have eb := parseBic_value _ _ hbic
      have emore := dropLast_append_getLast more hmore
      rw [← eb] at emore
      split at h
      · cases h
      · cases h
      · rename_i party names hmid
        split at h; · cases h
        split at h; · cases h
        cases h
        have em := f50F_mid_value _ _ _ hmid
        rw [ser50F_eq]; simp only
        have : [account] ++ partyLine party ++ names ++ [bic] = account :: more := by
          calc [account] ++ partyLine party ++ names ++ [bic]
              = account :: ((partyLine party ++ names) ++ [bic]) := by simp
            _ = account :: (more.dropLast ++ [bic]) := by rw [em]
            _ = account :: more := by rw [emore]
        rw [this]; exact hj

theorem stable_50F : Stable F50F.parse F50F.ser := stable_of_reproduces _ _ f50F_reproduces

/-! ### 23: the number of days is written with two digits again (`USD07NOTICE`) -/

theorem pad2_digits {a b : Char} {x y : Nat} (ha : digitVal a = some x) (hb : digitVal b = some y) :
    padLeft (natDigits (10 * x + y)) 2 = [a, b] := by
  have hx := C11.digitVal_lt ha
  have hy := C11.digitVal_lt hb
  by_cases h0 : x = 0
  · subst h0
    simp only [Nat.mul_zero, Nat.zero_add]
    rw [natDigits_of_digitVal hb]
    have : a = '0' := by
      have := C11.digitChar_digitVal ha
      rw [← this]; rfl
    subst this
    rfl
  · have hge : ¬ (10 * x + y < 10) := by omega
    unfold natDigits
    simp only [hge, dif_neg, not_false_eq_true]
    have e1 : (10 * x + y) / 10 = x := by omega
    have e2 : (10 * x + y) % 10 = y := by omega
    rw [e1, e2, natDigits_of_digitVal ha, C11.digitChar_digitVal hb]
    rfl

/-- 23 `3!a[2!n]11x` -/
theorem f23_reproduces (s : Text) (v : F23) (h : F23.parse s = .ok v) : F23.ser v = s := by
  unfold F23.parse at h
  split at h; · cases h
  rename_i hasc
  split at h; · cases h
  rename_i hlen
  have ha : isAsciiT s = true := by simpa using hasc
  have hb := blen_ascii s ha
  have hl : 4 ≤ s.length := by
    have : ¬ blen s < 4 := by simpa using hlen
    omega
  rw [bslice_ascii s 0 3 ha (by omega) (by omega)] at h
  simp only [Res.bind_ok] at h
  obtain ⟨_, _, h⟩ := bind_ok_inv h
  have tail3 : ∀ (days : Option Nat) (w : F23),
      (if blen s > 3 then (do
          let r ← bfrom s 3
          if blen r > 11 then Res.err else do
          parseSwiftChars r
          pure (⟨(s.drop 0).take (3 - 0), days, r⟩ : F23))
        else Res.err) = .ok w → w = ⟨s.take 3, days, s.drop 3⟩ := by
    intro days w hw
    split at hw
    · rw [bfrom_ascii s 3 ha (by omega)] at hw
      simp only [Res.bind_ok] at hw
      split at hw; · cases hw
      obtain ⟨_, _, hw⟩ := bind_ok_inv hw
      cases hw; simp
    · cases hw
  have tail5 : ∀ (days : Option Nat) (w : F23), 5 ≤ s.length →
      (if blen s > 5 then (do
          let r ← bfrom s 5
          if blen r > 11 then Res.err else do
          parseSwiftChars r
          pure (⟨(s.drop 0).take (3 - 0), days, r⟩ : F23))
        else Res.err) = .ok w → w = ⟨s.take 3, days, s.drop 5⟩ := by
    intro days w h5 hw
    split at hw
    · rw [bfrom_ascii s 5 ha (by omega)] at hw
      simp only [Res.bind_ok] at hw
      split at hw; · cases hw
      obtain ⟨_, _, hw⟩ := bind_ok_inv hw
      cases hw; simp
    · cases hw
  have none_case : ∀ w : F23, w = ⟨s.take 3, none, s.drop 3⟩ → F23.ser w = s := by
    intro w hw; subst hw
    unfold F23.ser; simp
  split at h
  · rename_i h5
    have hl5 : 5 ≤ s.length := by omega
    rw [bslice_ascii s 3 5 ha (by omega) (by omega)] at h
    simp only [Res.bind_ok] at h
    split at h
    · split at h; · simp at h
      rename_i hdig
      split at h; · simp at h
      simp only [Res.pure_eq, Res.bind_ok] at h
      have hw := tail5 _ v hl5 h
      subst hw
      -- the two digits
      have hpd : ∃ a b, (s.drop 3).take (5 - 3) = [a, b] := by
        have hlen2 : ((s.drop 3).take (5 - 3)).length = 2 := by simp [List.length_take, List.length_drop]; omega
        match hq : (s.drop 3).take (5 - 3), hlen2 with
        | [a, b], _ => exact ⟨a, b, rfl⟩
      obtain ⟨a, b, hab⟩ := hpd
      have hd2 : ([a, b] : Text).all Char.isDigit = true := by
        have : ¬ ((!((s.drop 3).take (5 - 3)).all Char.isDigit || ((s.drop 3).take (5 - 3)).isEmpty) = true) := hdig
        rw [hab] at this; simpa using this
      simp only [List.all_cons, List.all_nil, Bool.and_true, Bool.and_eq_true] at hd2
      obtain ⟨x, hx⟩ := digitVal_of_isDigit hd2.1
      obtain ⟨y, hy⟩ := digitVal_of_isDigit hd2.2
      unfold F23.ser
      simp only [hab, digitsVal_two hx hy, pad2_digits hx hy]
      have e35 : s.drop 3 = [a, b] ++ s.drop 5 := by
        have := List.take_append_drop 2 (s.drop 3)
        rw [List.drop_drop] at this
        have h2 : (s.drop 3).take 2 = [a, b] := by simpa using hab
        rw [h2] at this; simpa using this.symm
      calc s.take 3 ++ [a, b] ++ s.drop 5 = s.take 3 ++ ([a, b] ++ s.drop 5) := by simp
        _ = s.take 3 ++ s.drop 3 := by rw [← e35]
        _ = s := List.take_append_drop 3 s
    · simp only [Res.pure_eq, Res.bind_ok] at h
      exact none_case v (tail3 _ v h)
  · simp only [Res.pure_eq, Res.bind_ok] at h
    exact none_case v (tail3 _ v h)
theorem stable_23 : Stable F23.parse F23.ser := stable_of_reproduces _ _ f23_reproduces

/-! ### Message level: what the serialisers write is read back exactly

`to_mt_string` writes every field as `:tag:content` followed by CRLF and drops the last CRLF (`append_field`,
`finalize_mt_string`); `to_mt_message` puts the block terminator behind it.  `renderFrom sep tail` is that text for a
list of (tag, content) pairs.  The theorems below hold for ALL lists of well-formed tags and contents (`wfTag`: 2–4
alphanumerics; `wfc`: no CR, no line starting with `:` or `-`, no trailing newline, no `-}` — the contents the field
serialisers produce) and for the model of `MessageParser::extract_field` that the `extract` stream ties to the code. -/

/-- Reading a rendered block with successive `extract_field` calls returns every content unchanged, in order, and ends
complete — with LF or CRLF separators, with or without the terminator, duplicates allowed or tags distinct. -/
theorem block_roundtrip (pre tail : Text) (hp : pre = [] ∨ pre = ['\r'])
    (htail : tail = [] ∨ tail = ['\n', '-'] ∨ tail = ['\r', '\n', '-'])
    (toks : List (Text × Text)) (s : PState) (hne : toks ≠ [])
    (hwf : ∀ p ∈ toks, wfTag p.1 = true ∧ wfc p.2 = true)
    (hr : s.rest = renderFrom (pre ++ ['\n']) tail toks)
    (hd : s.allowDup = true ∨ ((toks.map (·.1)).Nodup ∧ ∀ t ∈ toks.map (·.1), t ∉ s.seen)) :
    ∃ s', readAll s (toks.map (·.1)) = .ok (toks.map (·.2), s') ∧ isComplete s' = true :=
  read_render pre tail hp htail toks s hne hwf hr hd

/-- The serialiser's own spelling (CRLF, no terminator) parsed by a fresh parser: distinct tags. -/
theorem serialised_block_reads_back (toks : List (Text × Text)) (hne : toks ≠ [])
    (hwf : ∀ p ∈ toks, wfTag p.1 = true ∧ wfc p.2 = true) (hnd : (toks.map (·.1)).Nodup) :
    ∃ s', readAll (PState.init (renderFrom ['\r', '\n'] [] toks)) (toks.map (·.1)) = .ok (toks.map (·.2), s') ∧
      isComplete s' = true :=
  read_render ['\r'] [] (Or.inr rfl) (Or.inl rfl) toks _ hne hwf rfl (Or.inr ⟨hnd, by intro t _; simp [PState.init]⟩)

/-- Fixed point at block level: rendering what was read reproduces the text that was read. -/
theorem block_fixed_point (sep tail : Text) (toks : List (Text × Text)) (cs : List Text)
    (h : cs = toks.map (·.2)) : renderFrom sep tail ((toks.map (·.1)).zip cs) = renderFrom sep tail toks := by
  subst h
  congr 1
  induction toks with
  | nil => rfl
  | cons p rest ih => simp [ih]

/-- Non-vacuity of the block theorems: a concrete two-field block is well formed and is read back by evaluation. -/
example : wfTag "32A".toList = true ∧ wfc "240315USD1000,00".toList = true ∧ wfc "LINE 1\nLINE 2".toList = true := by decide
/-- the contents read are exactly `cs` and the parser ends complete -/
def readsBack (text : Text) (tags cs : List Text) : Bool :=
  match readAll (PState.init text) tags with
  | .ok (r, s') => r == cs && isComplete s'
  | .error _ => false
example : readsBack (renderFrom ['\r', '\n'] [] [("20".toList, "REF1".toList), ("79".toList, "LINE 1\nLINE 2".toList)])
    ["20".toList, "79".toList] ["REF1".toList, "LINE 1\nLINE 2".toList] = true := by decide
/-- … and a content outside `wfc` (a line starting with a field marker) is *not* read back: the hypothesis is needed. -/
example : readsBack (renderFrom ['\n'] [] [("79".toList, "A\n:20:B".toList)]) ["79".toList] ["A\n:20:B".toList] = false := by decide

/-- Non-vacuity: concrete accepted contents. -/
example : Ref.parse 16 "PAY/123".toList = .ok ⟨"PAY/123".toList⟩ := by decide
example : Narr.parse 4 35 "LINE ONE\nLINE TWO".toList = .ok ["LINE ONE".toList, "LINE TWO".toList] := by decide
example : (F30.parse "240229".toList).isOk = true := by decide

end SwiftMT.Props.C02
