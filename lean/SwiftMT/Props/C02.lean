import SwiftMT.Props.C05
import SwiftMT.Props.C11
import SwiftMT.Lemmas.RoundTrip
/-
C02 — MT round trip is stable (field level): for every content a field type accepts, serialising the parsed value
gives a content the field type accepts again, with an equal value; hence the serialisation is a fixed point.
Stated for ALL accepted texts of each modelled field type.  (Message level: see `reparse_*` below and the oracle.)
-/
namespace SwiftMT.Props.C02
open SwiftMT SwiftMT.Fields SwiftMT.Props.C05

/-- A parse/serialise pair is stable when re-reading what was written gives the same value. -/
def Stable {V : Type} (parse : Text → Res V) (ser : V → Text) : Prop :=
  ∀ s v, parse s = .ok v → parse (ser v) = .ok v

/-- Stability makes the written text a fixed point: writing the second parse reproduces it. -/
theorem fixed_point_of_stable {V : Type} (parse : Text → Res V) (ser : V → Text) (h : Stable parse ser)
    (s : Text) (v v' : V) (h1 : parse s = .ok v) (h2 : parse (ser v) = .ok v') : ser v' = ser v := by
  have := h s v h1
  rw [this] at h2
  cases h2; rfl

/-- 20, 21, 21C, 21D, 21E, 21F, 21R -/
theorem stable_reference (n : Nat) : Stable (Ref.parse n) Ref.ser := by
  intro s v h
  have hv := value_reference n s v h
  unfold Ref.ser; rw [hv]; exact h

/-- 70, 71B, 72, 75, 76, 79, 86 -/
theorem stable_narrative (ml mx : Nat) : Stable (Narr.parse ml mx) Narr.ser := by
  intro s v h
  have hv := value_narrative ml mx s v h
  unfold Narr.ser; rw [hv]; exact h

theorem stable_12 : Stable F12.parse Code.ser := by
  intro s v h; have := value_code_12 s v h; unfold Code.ser; rw [this]; exact h
theorem stable_23B : Stable F23B.parse Code.ser := by
  intro s v h; have := value_code_23B s v h; unfold Code.ser; rw [this]; exact h
theorem stable_71A : Stable F71A.parse Code.ser := by
  intro s v h; have := value_code_71A s v h; unfold Code.ser; rw [this]; exact h

/-- 30: the six digits read are the six digits written (C11 `print_parse`). -/
theorem stable_30 : Stable F30.parse F30.ser := by
  intro s v h
  unfold F30.parse Res.ofOption at h
  cases hp : parseDateYYMMDD s with
  | none => simp [hp] at h
  | some d =>
    simp [hp] at h
    subst h
    unfold F30.ser
    rw [C11.print_parse s d hp]
    unfold F30.parse Res.ofOption
    simp [hp]

/-- A parser whose serialiser reproduces the text that was read is stable. -/
theorem stable_of_reproduces {V : Type} (parse : Text → Res V) (ser : V → Text)
    (h : ∀ s v, parse s = .ok v → ser v = s) : Stable parse ser := by
  intro s v hp
  rw [h s v hp]; exact hp

/-- 52A, 53A, 54A, 55A, 56A, 57A, 58A -/
theorem stable_optionA : Stable OptA.parse OptA.ser := stable_of_reproduces _ _ optA_reproduces
/-- 52C, 56C, 57C -/
theorem stable_optionC : Stable OptC.parse OptC.ser := stable_of_reproduces _ _ optC_reproduces
/-- 52D, 54D, 55D, 56D, 57D, 58D -/
theorem stable_optionD : Stable OptD.parse OptD.ser := stable_of_reproduces _ _ optD_reproduces

/-- 50 (no option), 50L, 50G, 50H, 50K, 59, 59A -/
theorem stable_50 : Stable F50NoOption.parse joinNl := stable_of_reproduces _ _ f50_reproduces
theorem stable_50L : Stable F50L.parse id := stable_of_reproduces _ _ f50L_reproduces
theorem stable_50G : Stable F50G.parse F50G.ser := stable_of_reproduces _ _ f50G_reproduces
theorem stable_50H : Stable F50H.parse AcctLines.ser := stable_of_reproduces _ _ f50H_reproduces
theorem stable_50K : Stable F50K.parse AcctLines.ser := stable_of_reproduces _ _ f50K_reproduces
theorem stable_59 : Stable F59.parse AcctLines.ser := stable_of_reproduces _ _ f59_reproduces
theorem stable_59A : Stable F59A.parse F59A.ser := stable_of_reproduces _ _ f59A_reproduces
/-- 52B, 54B, 55B, 57B -/
theorem stable_optionB : Stable OptB.parse OptB.ser := stable_of_reproduces _ _ optB_reproduces
/-- 50C -/
theorem stable_bic : Stable parseBic id := stable_of_reproduces _ _ (fun s v h => parseBic_value s v h)

/-! ### Message level: what the serialisers write is read back exactly

`to_mt_string` writes every field as `:tag:content` followed by CRLF and drops the last CRLF (`append_field`,
`finalize_mt_string`); `to_mt_message` puts the block terminator behind it.  `renderFrom sep tail` is that text for a
list of (tag, content) pairs.  The theorems below hold for ALL lists of well-formed tags and contents (`wfTag`: 2–4
alphanumerics; `wfc`: no CR, no line starting with `:` or `-`, no trailing newline, no `-}` — the contents the field
serialisers produce) and for the model of `MessageParser::extract_field` that the `extract` stream ties to the code. -/

/-- Reading a rendered block with successive `extract_field` calls returns every content unchanged, in order, and ends
complete — with LF or CRLF separators, with or without the terminator, duplicates allowed or tags distinct. -/
theorem block_roundtrip (pre tail : Text) (hp : pre = [] ∨ pre = ['\r'])
    (htail : tail = [] ∨ tail = ['\n', '-'] ∨ tail = ['\r', '\n', '-'])
    (toks : List (Text × Text)) (s : PState) (hne : toks ≠ [])
    (hwf : ∀ p ∈ toks, wfTag p.1 = true ∧ wfc p.2 = true)
    (hr : s.rest = renderFrom (pre ++ ['\n']) tail toks)
    (hd : s.allowDup = true ∨ ((toks.map (·.1)).Nodup ∧ ∀ t ∈ toks.map (·.1), t ∉ s.seen)) :
    ∃ s', readAll s (toks.map (·.1)) = .ok (toks.map (·.2), s') ∧ isComplete s' = true :=
  read_render pre tail hp htail toks s hne hwf hr hd

/-- The serialiser's own spelling (CRLF, no terminator) parsed by a fresh parser: distinct tags. -/
theorem serialised_block_reads_back (toks : List (Text × Text)) (hne : toks ≠ [])
    (hwf : ∀ p ∈ toks, wfTag p.1 = true ∧ wfc p.2 = true) (hnd : (toks.map (·.1)).Nodup) :
    ∃ s', readAll (PState.init (renderFrom ['\r', '\n'] [] toks)) (toks.map (·.1)) = .ok (toks.map (·.2), s') ∧
      isComplete s' = true :=
  read_render ['\r'] [] (Or.inr rfl) (Or.inl rfl) toks _ hne hwf rfl (Or.inr ⟨hnd, by intro t _; simp [PState.init]⟩)

/-- Fixed point at block level: rendering what was read reproduces the text that was read. -/
theorem block_fixed_point (sep tail : Text) (toks : List (Text × Text)) (cs : List Text)
    (h : cs = toks.map (·.2)) : renderFrom sep tail ((toks.map (·.1)).zip cs) = renderFrom sep tail toks := by
  subst h
  congr 1
  induction toks with
  | nil => rfl
  | cons p rest ih => simp [ih]

/-- Non-vacuity of the block theorems: a concrete two-field block is well formed and is read back by evaluation. -/
example : wfTag "32A".toList = true ∧ wfc "240315USD1000,00".toList = true ∧ wfc "LINE 1\nLINE 2".toList = true := by decide
/-- the contents read are exactly `cs` and the parser ends complete -/
def readsBack (text : Text) (tags cs : List Text) : Bool :=
  match readAll (PState.init text) tags with
  | .ok (r, s') => r == cs && isComplete s'
  | .error _ => false
example : readsBack (renderFrom ['\r', '\n'] [] [("20".toList, "REF1".toList), ("79".toList, "LINE 1\nLINE 2".toList)])
    ["20".toList, "79".toList] ["REF1".toList, "LINE 1\nLINE 2".toList] = true := by decide
/-- … and a content outside `wfc` (a line starting with a field marker) is *not* read back: the hypothesis is needed. -/
example : readsBack (renderFrom ['\n'] [] [("79".toList, "A\n:20:B".toList)]) ["79".toList] ["A\n:20:B".toList] = false := by decide

/-- Non-vacuity: concrete accepted contents. -/
example : Ref.parse 16 "PAY/123".toList = .ok ⟨"PAY/123".toList⟩ := by decide
example : Narr.parse 4 35 "LINE ONE\nLINE TWO".toList = .ok ["LINE ONE".toList, "LINE TWO".toList] := by decide
example : (F30.parse "240229".toList).isOk = true := by decide

end SwiftMT.Props.C02
