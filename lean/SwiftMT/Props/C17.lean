import SwiftMT.Classify
import SwiftMT.Spec.Supported
/-
C17 — reject / return / cover classification follows the codes present, consistently.  Property theorems only.
-/
namespace SwiftMT.Props.C17
open SwiftMT SwiftMT.Generated.Tables

def rejt : Text := "/REJT/".toList
def retn : Text := "/RETN/".toList

/-- [instances] the same code words in every message type that supports the classification: exactly `/REJT/` for
reject and exactly `/RETN/` for return, in MT103, MT202 and MT205 (regenerated word tables). -/
theorem same_words_everywhere :
    rejectWords = [(103, [rejt]), (202, [rejt]), (205, [rejt])] ∧
    returnWords = [(103, [retn]), (202, [retn]), (205, [retn])] ∧
    murDispatch = [103, 202, 205] ∧ untranslated = [] := by decide

theorem wordsOf_reject (ty : Nat) (h : ty = 103 ∨ ty = 202 ∨ ty = 205) : wordsOf rejectWords ty = [rejt] := by
  rcases h with rfl | rfl | rfl <;> decide

theorem wordsOf_return (ty : Nat) (h : ty = 103 ∨ ty = 202 ∨ ty = 205) : wordsOf returnWords ty = [retn] := by
  rcases h with rfl | rfl | rfl <;> decide

/-- Reject iff some field-72 line carries `/REJT/`; return iff some line carries `/RETN/` — for all line lists. -/
theorem body_reject_iff (ty : Nat) (h : ty = 103 ∨ ty = 202 ∨ ty = 205) (lines : List Text) :
    bodyHas rejectWords ty lines = lines.any (fun l => containsSub rejt l) := by
  simp [bodyHas, wordsOf_reject ty h]

theorem body_return_iff (ty : Nat) (h : ty = 103 ∨ ty = 202 ∨ ty = 205) (lines : List Text) :
    bodyHas returnWords ty lines = lines.any (fun l => containsSub retn l) := by
  simp [bodyHas, wordsOf_return ty h]

/-- A message carrying only a return code is not a reject: no `/REJT/` in any line and no REJT in the user
reference ⇒ not classified as reject, whatever else (e.g. `/RETN/`) it carries. -/
theorem return_only_is_not_reject (x : ClsInput) (hty : x.ty = 103 ∨ x.ty = 202 ∨ x.ty = 205)
    (hno : x.lines72.any (fun l => containsSub rejt l) = false)
    (hmur : ∀ m, x.mur = some m → containsSub murRejectWord (upperAscii m) = false) :
    msgReject x = false := by
  unfold msgReject
  rw [body_reject_iff x.ty hty, hno]
  cases hm : x.mur with
  | none => simp
  | some m => simp [hmur m hm]

/-- Types other than 103/202/205 are classified by the user reference only. -/
theorem other_types_by_mur_only (x : ClsInput) (h : x.ty ≠ 103 ∧ x.ty ≠ 202 ∧ x.ty ≠ 205) :
    msgReject x = (match x.mur with | some m => containsSub murRejectWord (upperAscii m) | none => false) ∧
    msgCover x = false := by
  obtain ⟨h1, h2, h3⟩ := h
  have hd : murDispatch.contains x.ty = false := by
    have : murDispatch = [103, 202, 205] := same_words_everywhere.2.2.1
    rw [this]
    simp [h1, h2, h3]
  refine ⟨?_, ?_⟩
  · unfold msgReject
    rw [hd]
    cases x.mur <;> simp
  unfold msgCover
  simp [h2, h3]

/-- [instances] the method chains of the plugin (regenerated): MT103 = reject, return, stp, normal in that priority;
MT202/MT205 = reject, return, cover, normal, each also triggered by the block-3 flag 119; every other type normal. -/
theorem method_chains :
    methodChains.length = 30 ∧ (∀ c ∈ Spec.supported, (methodChains.map (·.1)).contains c = true) ∧
    (methodChains.filter (fun p => p.2 != [([], 4)])) =
      [(103, [([.rej], 0), ([.ret], 1), ([.stp], 3), ([], 4)]),
       (202, [([.rej, .flag "REJT".toList], 0), ([.ret, .flag "RETN".toList], 1), ([.cov, .flag "COV".toList], 2), ([], 4)]),
       (205, [([.rej, .flag "REJT".toList], 0), ([.ret, .flag "RETN".toList], 1), ([.cov, .flag "COV".toList], 2), ([], 4)])] := by
  decide +kernel

/-- The reported method is the one the classifications imply (MT103): reject iff reject; return iff return and not
reject; stp iff neither and STP; normal otherwise. -/
theorem method_implied_103 (x : ClsInput) (h : x.ty = 103) :
    pluginMethod x = (if msgReject x then 0 else if msgReturn x then 1 else if msgStp x then 3 else 4) := by
  have hc : methodChains.find? (fun p => p.1 == x.ty) =
      some (103, [([.rej], 0), ([.ret], 1), ([.stp], 3), ([], 4)]) := by rw [h]; decide
  simp only [pluginMethod, hc, evalChain, List.isEmpty_cons, List.isEmpty_nil, Bool.false_or, List.any_cons,
    List.any_nil, Bool.or_false, atomHolds, Bool.true_or, if_true]

/-- MT202 / MT205: reject iff reject classification or flag REJT, and so on down the chain. -/
theorem method_implied_202_205 (x : ClsInput) (h : x.ty = 202 ∨ x.ty = 205) :
    pluginMethod x =
      (if msgReject x || x.flag119 == some "REJT".toList then 0
       else if msgReturn x || x.flag119 == some "RETN".toList then 1
       else if msgCover x || x.flag119 == some "COV".toList then 2 else 4) := by
  have hc : methodChains.find? (fun p => p.1 == x.ty) =
      some (x.ty, [([.rej, .flag "REJT".toList], 0), ([.ret, .flag "RETN".toList], 1), ([.cov, .flag "COV".toList], 2), ([], 4)]) := by
    rcases h with h | h <;> (rw [h]; decide)
  simp only [pluginMethod, hc, evalChain, List.isEmpty_cons, List.isEmpty_nil, Bool.false_or, List.any_cons,
    List.any_nil, Bool.or_false, atomHolds, Bool.true_or, if_true]

/-- every other type is always `normal` -/
theorem method_other_types_normal :
    ∀ p ∈ methodChains, p.1 ≠ 103 → p.1 ≠ 202 → p.1 ≠ 205 → p.2 = [([], 4)] := by decide +kernel

/-- Non-vacuity: a returned MT103 is a return, not a reject; a look-alike is nothing. -/
example :
    let x : ClsInput := ⟨103, ["/RETN/12".toList], none, none, false, true⟩
    msgReject x = false ∧ msgReturn x = true ∧ pluginMethod x = 1 := by decide
example :
    let x : ClsInput := ⟨202, ["/RJT/X".toList, "/rejt/".toList], none, none, false, false⟩
    msgReject x = false ∧ pluginMethod x = 4 := by decide

end SwiftMT.Props.C17
