import SwiftMT.Lemmas.MParser
import SwiftMT.Generated.Enums
/-
C14 — field option letters decide the variant and are preserved.  Property theorems only.
-/
namespace SwiftMT.Props.C14
open SwiftMT

variable {α : Type}

/-- [generic] For ANY option enum (any `parse_with_variant`, any `to_swift_string`): a value returned by
`parse_variant_field` was read from the text under `:<base><letter>:` — the letter that is next in the text — and is
written back under exactly that tag; the letter handed to the enum is that letter (None for a tag without letter). -/
theorem letter_decides_and_is_preserved (pwv : Text → Option Text → Option α) (ser : α → Text) (s s' : PState)
    (base : Text) (a : α) (h : parseVariantWith pwv ser s base = .ok (a, s')) :
    ∃ (v c : Text), detectVariant s base = .ok v ∧ extractField s (base ++ v) false = .ok (c, s') ∧
      pwv c (letterArg v) = some a ∧ (marker (base ++ v)).isPrefixOf (ser a) = true ∧
      detectField s (base ++ v) = true := by
  unfold parseVariantWith at h
  cases hv : detectVariant s base with
  | error e => simp [hv] at h
  | ok v =>
    simp only [hv] at h
    cases hx : extractField s (base ++ v) false with
    | error e => simp [hx] at h
    | ok p =>
      obtain ⟨c, s1⟩ := p
      simp only [hx] at h
      cases hp : pwv c (letterArg v) with
      | none => simp [hp] at h
      | some a' =>
        simp only [hp] at h
        split at h
        · rename_i hser
          injection h with h
          injection h with h1 h2
          subst h1 h2
          refine ⟨v, c, rfl, hx, hp, hser, ?_⟩
          unfold extractField at hx
          split at hx
          · cases hx
          · by_cases hd : detectField s (base ++ v) = true
            · exact hd
            · simp [hd] at hx
        · cases h

/-- the optional form: either nothing was consumed, or the same guarantee holds -/
theorem optional_letter_decides (pwv : Text → Option Text → Option α) (ser : α → Text) (s s' : PState)
    (base : Text) (a : α) (h : parseOptionalVariantWith pwv ser s base = .ok (some a, s')) :
    ∃ (v c : Text), detectVariantOptional s base = some v ∧ extractField s (base ++ v) true = .ok (c, s') ∧
      pwv c (letterArg v) = some a ∧ (marker (base ++ v)).isPrefixOf (ser a) = true := by
  unfold parseOptionalVariantWith at h
  cases hv : detectVariantOptional s base with
  | none => simp [hv] at h
  | some v =>
    simp only [hv] at h
    cases hx : extractField s (base ++ v) true with
    | error e => simp [hx] at h
    | ok p =>
      obtain ⟨c, s1⟩ := p
      simp only [hx] at h
      cases hp : pwv c (letterArg v) with
      | none => simp [hp] at h
      | some a' =>
        simp only [hp] at h
        split at h
        · rename_i hser
          injection h with h
          injection h with h1 h2
          injection h1 with h1
          subst h1 h2
          exact ⟨v, c, rfl, hx, hp, hser⟩
        · cases h

/-- a value that would come back under another tag is never returned: it is an InvalidFieldFormat for the tag read -/
theorem foreign_letter_rejected (pwv : Text → Option Text → Option α) (ser : α → Text) (s s' : PState)
    (base v c : Text) (a : α) (hv : detectVariant s base = .ok v)
    (hx : extractField s (base ++ v) false = .ok (c, s')) (hp : pwv c (letterArg v) = some a)
    (hser : (marker (base ++ v)).isPrefixOf (ser a) = false) :
    parseVariantWith pwv ser s base = .error (.invalid (base ++ v) c) := by
  simp [parseVariantWith, hv, hx, hp, hser]

/-- [instances] the option enums of the library (regenerated, T3): 25 families; every variant's letter is the letter of
the struct it wraps (so `to_swift_string`, which delegates to the struct, emits that letter). -/
theorem enums_translated : Generated.Enums.untranslated = [] := by decide
theorem enum_count : Generated.Enums.enums.length = 25 := by decide
theorem variant_letters_match_structs :
    ∀ e ∈ Generated.Enums.enums, ∀ v ∈ e.variants, v.letter = v.structLetter := by decide +kernel

/-- Non-vacuity: `:50C:` where an A/F/K enum would fall back to K is rejected for tag 50C. -/
example :
    let pwv : Text → Option Text → Option Text := fun c _ => some (":50K:".toList ++ c)   -- an enum that always answers K
    (match parseVariantWith pwv id (PState.init ":50C:/X\nNAME\n:59:Y".toList) "50".toList with
      | .error (.invalid t _) => t == "50C".toList
      | _ => false) = true := by decide

end SwiftMT.Props.C14
