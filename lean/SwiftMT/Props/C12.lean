import SwiftMT.Lemmas.Dispatch
/-
C12 — message-type dispatch is consistent across every entry point.  Property theorems only.

The quantifier over announced type codes is *unbounded* (every natural number, hence every three-digit
code 000–999): each dispatch table regenerated from the current source is shown — by kernel evaluation of
the decidable predicate `DiagOn` — to be the identity on the 30 documented types and nothing else, and the
entry-point models are then evaluated symbolically.
-/
namespace SwiftMT.Props.C12
open SwiftMT.Dispatch SwiftMT.Spec SwiftMT.Generated.Dispatch

/-- The translator recognised every dispatch source completely. -/
theorem translated : untranslated = [] := by decide

/-- [instances] each regenerated table is the identity on exactly the documented types. -/
theorem tables_diag :
    DiagOn ownType supported ∧ DiagOn autoTable supported ∧ DiagOn autoWrap supported ∧
    DiagOn enumRename supported ∧ DiagOn enumPayload supported ∧ DiagOn wrapperMessageType supported ∧
    DiagOn wrapperValidate supported ∧ DiagOn wrapperInto supported ∧ DiagOn pluginParse supported ∧
    DiagOn publishTable supported ∧ DiagOn publishAlias supported ∧ DiagOn pluginValidate supported := by
  decide +kernel

theorem typed_check : typedCheckPresent = true := by decide

/-- Typed parse, every (requested ∈ supported, announced) pair: the diagonal parses, anything else is T03. -/
theorem typed_all_pairs (r : Nat) (hr : r ∈ supported) (a : Nat) :
    typedParse r a = if a = r then .ok r r else .mismatch := by
  have h := lookup_diag tables_diag.1 r
  simp only [hr, if_true] at h
  simp only [typedParse, typed_check, if_true, h]
  by_cases hra : a = r
  · simp [hra]
  · simp [hra]

/-- Auto-detecting parse: every announced code is parsed as its own type when supported and reported as
unsupported otherwise — never parsed as some other type. -/
theorem auto_all_codes (c : Nat) :
    autoParse c = if c ∈ supported then .ok c c else .unsupported := by
  have h1 := lookup_diag tables_diag.2.1 c
  have h2 := lookup_diag tables_diag.2.2.1 c
  by_cases hc : c ∈ supported
  · simp only [hc, if_true] at h1 h2 ⊢
    simp only [autoParse, h1, h2, typed_all_pairs c hc c, if_true]
  · simp only [hc, if_false] at h1 h2 ⊢
    simp only [autoParse, h1, h2]

/-- The wrapper reports the announced type. -/
theorem wrapper_type_all_codes (c : Nat) :
    wrapperType c = if c ∈ supported then some c else none := by
  have h := lookup_diag tables_diag.2.2.2.2.2.1 c
  simp only [wrapperType, auto_all_codes c]
  by_cases hc : c ∈ supported
  · simp only [hc, if_true] at h ⊢; exact h
  · simp only [hc, if_false]

/-- JSON tag (`mt_type`) and payload type of every wrapper variant are the variant's own type. -/
theorem wrapper_enum (v : Nat) :
    lookup enumRename v = (if v ∈ supported then some v else none) ∧
    lookup enumPayload v = (if v ∈ supported then some v else none) :=
  ⟨lookup_diag tables_diag.2.2.2.1 v, lookup_diag tables_diag.2.2.2.2.1 v⟩

theorem wrapper_validate_all_codes (c : Nat) :
    wrapperValidateRes c = if c ∈ supported then .ok c c else .unsupported := by
  have h := lookup_diag tables_diag.2.2.2.2.2.2.1 c
  simp only [wrapperValidateRes, auto_all_codes c]
  by_cases hc : c ∈ supported
  · simp only [hc, if_true] at h ⊢; simp [h]
  · simp only [hc, if_false]

theorem plugin_parse_all_codes (c : Nat) :
    pluginParseRes c = if c ∈ supported then .ok c c else .unsupported := by
  have h1 := lookup_diag tables_diag.2.2.2.2.2.1 c
  have h2 := lookup_diag tables_diag.2.2.2.2.2.2.2.2.1 c
  have h3 := lookup_diag tables_diag.2.2.2.2.2.2.2.1 c
  simp only [pluginParseRes, auto_all_codes c]
  by_cases hc : c ∈ supported
  · simp only [hc, if_true] at h1 h2 h3 ⊢; simp [h1, h2, h3]
  · simp only [hc, if_false]

theorem plugin_validate_all_codes (c : Nat) :
    pluginValidateRes c = if c ∈ supported then .ok c c else .unsupported := by
  have h := lookup_diag tables_diag.2.2.2.2.2.2.2.2.2.2.2 c
  simp only [pluginValidateRes, auto_all_codes c]
  by_cases hc : c ∈ supported
  · simp only [hc, if_true] at h ⊢; simp [h]
  · simp only [hc, if_false]

theorem publish_all_codes (c : Nat) (alias : Bool) :
    publishRes alias c = if c ∈ supported then .ok c c else .unsupported := by
  have h1 := lookup_diag tables_diag.2.2.2.2.2.2.2.2.2.1 c
  have h2 := lookup_diag tables_diag.2.2.2.2.2.2.2.2.2.2.1 c
  by_cases hc : c ∈ supported
  · simp only [hc, if_true] at h1 h2 ⊢
    cases alias <;> simp [publishRes, h1, h2]
  · simp only [hc, if_false] at h1 h2 ⊢
    cases alias <;> simp [publishRes, h1, h2]

/-- All entry points agree with the typed API on every code. -/
theorem entry_points_agree (c : Nat) :
    (autoParse c = if c ∈ supported then typedParse c c else .unsupported) ∧
    pluginParseRes c = autoParse c ∧ pluginValidateRes c = autoParse c ∧
    wrapperValidateRes c = autoParse c ∧ publishRes false c = autoParse c ∧
    publishRes true c = autoParse c := by
  refine ⟨?_, ?_, ?_, ?_, ?_, ?_⟩
  · by_cases hc : c ∈ supported
    · simp only [auto_all_codes c, hc, if_true, typed_all_pairs c hc c]
    · simp only [auto_all_codes c, hc, if_false]
  · rw [plugin_parse_all_codes, auto_all_codes]
  · rw [plugin_validate_all_codes, auto_all_codes]
  · rw [wrapper_validate_all_codes, auto_all_codes]
  · rw [publish_all_codes, auto_all_codes]
  · rw [publish_all_codes, auto_all_codes]

/-- Non-vacuity: a concrete off-diagonal pair, an unsupported code, a supported one. -/
example : typedParse 103 202 = .mismatch ∧ autoParse 102 = .unsupported ∧ autoParse 940 = .ok 940 940 := by
  decide

end SwiftMT.Props.C12
