import SwiftMT.Lemmas.MParser
import SwiftMT.Generated.Layouts
import SwiftMT.Spec.Supported
/-
C01 — nothing in an accepted message is silently discarded.  Property theorems only.

Structure (DESIGN §5 C01): (1) a theorem about the extraction kernel and `MessageParser`, for EVERY input text and EVERY
history of requests a `parse_from_block4` could make: the text consumed is exactly the concatenation of the regions
`white space ++ :tag: ++ content ++ newline` of the fields handed to field parsers, nothing is skipped between them
and no field start is hidden inside a content; (2) decidable facts about each of the 30 `parse_from_block4`
functions, regenerated from the source on every run: it ends with the completeness check, every parse result is
propagated (`?`) — so a field that was consumed is either stored or its error is raised — and nothing is discarded.
Field-level content equality (parse ∘ serialise) is C02's business and is quoted, not proved, here.
-/
namespace SwiftMT.Props.C01
open SwiftMT SwiftMT.Generated

/-- [generic] One successful extraction consumes, from the front of the remaining text, exactly
`ws ++ :tag: ++ raw ++ nl` with `ws` white space only (nothing skipped), `raw` free of field boundaries (no field hidden
in a content) and `nl` at most one newline; the content handed to the field parser is `raw` without trailing newlines. -/
theorem extraction_consumes_one_region (s s' : PState) (tag c : Text) (opt : Bool)
    (h : extractField s tag opt = .ok (c, s')) :
    ∃ r : Region, r.tag = tag ∧ r.Good ∧ s.rest = r.text ++ s'.rest ∧ c = r.content := by
  obtain ⟨r, h1, h2, h3, h4, _⟩ := extractField_region h
  exact ⟨r, h1, h2, h3, h4⟩

/-- [generic] For every input and every request history: the input is the concatenation of the consumed regions
followed by what is left, and the (tag, content) pairs given to field parsers are exactly those regions, in order. -/
theorem every_byte_accounted (input : Text) (reqs : List Req) :
    ∃ regions : List Region, (∀ r ∈ regions, r.Good) ∧
      input = (regions.map Region.text).flatten ++ (run (PState.init input) reqs).1.rest ∧
      (run (PState.init input) reqs).2 = regions.map (fun r => (r.tag, r.content)) :=
  run_accounting (PState.init input) reqs

/-- [generic] When the completeness check passes, what is left is white space or the block terminator `-`. -/
theorem complete_means_only_terminator_left (input : Text) (reqs : List Req)
    (h : isComplete (run (PState.init input) reqs).1 = true) :
    let tail := (run (PState.init input) reqs).1.rest
    tail = [] ∨ trim tail = [] ∨ trim tail = ['-'] := by
  simp only [isComplete, Bool.or_eq_true, List.isEmpty_iff, beq_iff_eq] at h
  rcases h with (h | h) | h
  · exact Or.inl h
  · exact Or.inr (Or.inl h)
  · exact Or.inr (Or.inr h)

/-- The four `parse_*` methods move the cursor only through `extract_field`: each is a run of at most one request. -/
theorem parse_field_is_a_run (s s' : PState) (tag c : Text) (h : parseFieldRaw s tag = .ok (c, s')) :
    run s [.extract tag false] = (s', [(tag, c)]) := by
  simp only [parseFieldRaw] at h
  simp [run, step, h]

theorem parse_optional_is_a_run (s : PState) (tag : Text) :
    (parseOptionalRaw s tag).2 = (run s [.extract tag true]).1 ∨ (parseOptionalRaw s tag).2 = s := by
  simp only [parseOptionalRaw]
  split
  · exact Or.inr rfl
  · cases h : extractField s tag true with
    | ok p => simp [run, step, h]
    | error e => exact Or.inr rfl

theorem parse_variant_is_a_run (s s' : PState) (base v c : Text)
    (h : parseVariantRaw s base = .ok ((v, c), s')) :
    run s [.extract (base ++ v) false] = (s', [(base ++ v, c)]) := by
  simp only [parseVariantRaw] at h
  cases hv : detectVariant s base with
  | error e => simp [hv] at h
  | ok v' =>
    simp only [hv] at h
    cases he : extractField s (base ++ v') false with
    | error e => simp [he] at h
    | ok p =>
      simp only [he] at h
      injection h with h
      injection h with h1 h2
      injection h1 with hv' hc
      subst hv' hc h2
      simp [run, step, he]

theorem parse_optional_variant_is_a_run (s : PState) (base : Text) :
    (∃ v, (parseOptionalVariantRaw s base).2 = (run s [.extract (base ++ v) true]).1) ∨
    (parseOptionalVariantRaw s base).2 = s := by
  cases hv : detectVariantOptional s base with
  | none => exact Or.inr (by simp [parseOptionalVariantRaw, hv])
  | some v =>
    cases he : extractField s (base ++ v) true with
    | error e => exact Or.inr (by simp [parseOptionalVariantRaw, hv, he])
    | ok p => exact Or.inl ⟨v, by simp [parseOptionalVariantRaw, hv, run, step, he]⟩

/-- [instances] the translator recognised every `parse_from_block4`, for exactly the 30 types. -/
theorem translated : Layouts.untranslated = [] := by decide
theorem covers_supported : Layouts.layouts.map (·.code) = Spec.supported := by decide +kernel

/-- [instances] every type: ends with the completeness check, propagates every parse result, discards nothing,
never returns `Ok` early. -/
theorem all_layouts_sound : ∀ l ∈ Layouts.layouts, l.sound = true := by decide +kernel

/-- Non-vacuity: a concrete two-field text, the run that an MT would make, and its accounting. -/
example : (run (PState.init ":20:REF\n:23B:CRED\n-".toList) [.extract "20".toList false, .extract "23B".toList false]).2 =
    [("20".toList, "REF".toList), ("23B".toList, "CRED".toList)] ∧
    isComplete (run (PState.init ":20:REF\n:23B:CRED\n-".toList) [.extract "20".toList false, .extract "23B".toList false]).1 = true := by
  decide

/-- Non-vacuity of the head-anchoring: a field that is not next is NOT found (it used to be searched for). -/
example : (extractField (PState.init ":20:REF\n:99:JUNK\n:23B:CRED\n-".toList) "23B".toList false).toOption = none := by
  decide

end SwiftMT.Props.C01
