import SwiftMT.Json
import SwiftMT.Generated.Shapes
/-
C08 — the JSON form of messages, fields and headers.

* `cleanNull` — model of `clean_null_fields` (src/plugin/publish.rs): what the publish plugin removes before
  `from_value`.
* `conforms` — does a JSON value have the form serde gives the named Rust type, according to the *regenerated*
  declarations (`Generated.Shapes`: keys, flatten, option/vec kinds, enum tagging)?  Evaluated by the driver on every
  value the real `to_value` produces: a disagreement means the translated shapes no longer describe the code.
* the decidable per-struct conditions under which serde's derived decoder inverts its encoder (`Lossless`).
-/
namespace SwiftMT
open Generated.Shapes

/-! ### clean_null_fields -/
mutual
  def cleanNull : J → J
    | .obj kv => .obj (cleanMembers kv)
    | .arr l => .arr (cleanElems l)
    | j => j
  /-- object members: nulls dropped; nested objects cleaned and dropped when empty; arrays cleaned and dropped when empty -/
  def cleanMembers : List (String × J) → List (String × J)
    | [] => []
    | (k, v) :: rest =>
      match v with
      | .null => cleanMembers rest
      | .obj kv =>
        let c := cleanMembers kv
        if c.isEmpty then cleanMembers rest else (k, .obj c) :: cleanMembers rest
      | .arr l =>
        let c := cleanElems l
        if c.isEmpty then cleanMembers rest else (k, .arr c) :: cleanMembers rest
      | other => (k, other) :: cleanMembers rest
  /-- array elements: each cleaned, nulls dropped -/
  def cleanElems : List J → List J
    | [] => []
    | v :: rest =>
      match v with
      | .null => cleanElems rest
      | .obj kv => .obj (cleanMembers kv) :: cleanElems rest
      | .arr l => .arr (cleanElems l) :: cleanElems rest
      | other => other :: cleanElems rest
end

/-! ### shape conformance -/

/-- follow `pub type A = B;` (at most a few steps) -/
def resolve (n : String) : String :=
  let step (x : String) : String := match aliases.find? (·.1 == x) with | some p => p.2 | none => x
  step (step (step n))
def structOf (n : String) : Option StructDecl := structs.find? (·.name == resolve n)
def enumOf (n : String) : Option EnumDecl := enums.find? (·.name == resolve n)

def leafTypes : List String := ["String", "char", "bool", "u8", "u32", "u64", "f64", "usize", "NaiveDate", "NaiveTime", "NaiveDateTime"]

/-- keys a value of type `ty` may contribute to the object it is flattened into -/
def flatKeys (ty : String) : List String :=
  match enumOf ty with
  | some e => e.variants.map (·.key)
  | none => []

mutual
  /-- value of (non-generic) type `ty` -/
  def conformsTy : Nat → String → J → Bool
    | 0, _, _ => false
    | f + 1, ty, j =>
      if leafTypes.contains ty then
        (match j with | .str _ => true | .num _ => true | .bool _ => true | _ => false)
      else match structOf ty with
        | some d => (match j with
            | .obj kv => conformsFields f d.fields kv && kv.all (fun p => d.fields.any (fun fd =>
                (!fd.flatten && fd.key == p.1) || (fd.flatten && ((flatKeys fd.ty).contains p.1 || (enumOf fd.ty).isNone))))
            | _ => false)
        | none => match enumOf ty with
          | some e =>
            if e.untagged then e.variants.any (fun v => conformsTy f v.payload j)
            else (match j with
              | .obj [(k, v)] => e.variants.any (fun vd => vd.key == k && conformsTy f vd.payload v)
              | .str s => e.variants.any (fun vd => vd.key == String.ofList s && vd.payload == "")
              | .obj kv => e.tag != "" && kv.any (fun p => p.1 == e.tag)      -- internally tagged: checked by its own codec tests
              | _ => false)
          | none => true      -- a type the translator does not describe (generic wrappers): not judged
  /-- every declared field is present in the right form -/
  def conformsFields : Nat → List FieldDecl → List (String × J) → Bool
    | 0, _, _ => false
    | _ + 1, [], _ => true
    | f + 1, fd :: rest, kv =>
      let here :=
        if fd.flatten then
          (match enumOf fd.ty with
           | some e =>
             let present := kv.filter (fun p => (e.variants.map (·.key)).contains p.1)
             (match fd.kind, present with
              | .opt, [] => true
              | _, [(k, v)] => e.variants.any (fun vd => vd.key == k && conformsTy f vd.payload v)
              | _, _ => false)
           | none => true)
        else
          (match kv.find? (·.1 == fd.key), fd.kind with
           | none, .opt => true
           | none, .optVec => true
           | none, .vec => fd.dflt          -- a required Vec may be absent only with `#[serde(default)]`
           | none, _ => false
           | some (_, .null), .opt => !fd.skipIfNone
           | some (_, .null), .optVec => !fd.skipIfNone
           | some (_, v), .req => conformsTy f fd.ty v
           | some (_, v), .opt => conformsTy f fd.ty v
           | some (_, .arr l), .vec => conformsList f fd.ty l
           | some (_, .arr l), .optVec => conformsList f fd.ty l
           | _, _ => false)
      here && conformsFields f rest kv
  def conformsList : Nat → String → List J → Bool
    | 0, _, _ => false
    | _ + 1, _, [] => true
    | f + 1, ty, v :: rest => conformsTy f ty v && conformsList f ty rest
end

def conforms (ty : String) (j : J) : Bool := conformsTy 64 ty j

/-! ### conditions under which the derived decoder inverts the derived encoder -/

/-- the JSON keys a field can occupy in its parent object -/
def fieldKeys (f : FieldDecl) : List String := if f.flatten then flatKeys f.ty else [f.key]

def pairwiseDisjoint : List (List String) → Bool
  | [] => true
  | ks :: rest => rest.all (fun other => ks.all (fun k => !other.contains k)) && pairwiseDisjoint rest

/-- no key can be claimed by two fields of the struct (a flattened catch-all map owns no fixed key) -/
def keysDistinct (d : StructDecl) : Bool :=
  pairwiseDisjoint (d.fields.map fieldKeys) && d.fields.all (fun f => (fieldKeys f).eraseDups.length == (fieldKeys f).length)

/-- `skip_serializing_if = "Option::is_none"` only sits on `Option` fields (absent ⇔ None) -/
def skipsSound (d : StructDecl) : Bool :=
  d.fields.all (fun f => !f.skipIfNone || f.kind == .opt || f.kind == .optVec)

/-- a flattened catch-all map (`HashMap<String, Value>`) re-absorbs on decoding every key the other fields do not own:
at most one per struct -/
def catchAlls (d : StructDecl) : Nat := (d.fields.filter (fun f => f.flatten && (enumOf f.ty).isNone)).length

/-- a required `Vec` member that `clean_null_fields` may remove (when empty) needs `#[serde(default)]` to decode again -/
def vecsNoDefault (d : StructDecl) : List String :=
  (d.fields.filter (fun f => f.kind == .vec && !f.dflt)).map (fun f => d.name ++ "." ++ f.name)

end SwiftMT
