import SwiftMT.Text
/-
Model of src/parser/field_extractor.rs (after the `fix:` commits): `is_field_marker`, `find_next_field_boundary`,
`extract_field_content`.
-/
namespace SwiftMT

/-- `is_field_marker`: `:` + 2–4 bytes of alphanumerics + `:`. -/
def isFieldMarker (t : Text) : Bool :=
  match t with
  | ':' :: rest =>
    match findChar ':' rest with
    | some close =>
      let tag := rest.take close
      2 ≤ blen tag && blen tag ≤ 4 && tag.all isAlnumU
    | none => false
  | _ => false

/-- `find_next_field_boundary`: index of the first `\n` that is followed by a field marker. -/
def findBoundary : Text → Option Nat
  | [] => none
  | c :: rest => if c == '\n' && isFieldMarker rest then some 0 else (findBoundary rest).map (· + 1)

def marker (tag : Text) : Text := ':' :: tag ++ [':']

/-- Where the raw content of the field ends inside `remaining`, and whether one newline after it is consumed. -/
def contentEnd (remaining : Text) : Nat × Bool :=
  match findBoundary remaining with
  | some e => (e, true)
  | none =>
    match findSub ['\n', '-', '}'] remaining with
    | some p => (p, true)
    | none =>
      match findSub ['\n', '-', '\n'] remaining with
      | some p => (p, true)
      | none =>
        -- `remaining.strip_suffix("\n-")`: the text ends with the simple block end
        if 2 ≤ remaining.length && remaining.drop (remaining.length - 2) == ['\n', '-'] then (remaining.length - 2, true)
        else
          match findSub ['-', '}'] remaining with
          | some p => (p, false)
          | none => (remaining.length, false)

/-- `extract_field_content(input, tag) = Some((content, consumed))`; `consumed` counted in characters. -/
def extractFieldContent (input tag : Text) : Option (Text × Nat) :=
  match findSub (marker tag) input with
  | none => none
  | some fs =>
    let remaining := input.drop (fs + (marker tag).length)
    let (rawLen, hasNl) := contentEnd remaining
    let raw := remaining.take rawLen
    let content := replaceCrLf (trimEndChar '\r' (trimEndChar '\n' raw))
    some (content, fs + (marker tag).length + rawLen + (if hasNl then 1 else 0))

end SwiftMT
