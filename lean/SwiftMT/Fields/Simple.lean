import SwiftMT.Prim
/-
Field models, part 1: single-component and fixed-layout fields (src/fields/field11.rs … field30.rs, field71.rs 71A,
narratives 70–86).  Each model is a transcription of the Rust `parse` / `to_swift_string` statement by statement:
`parse : Text → Res V`, `ser : V → Text` (the content after `:tag:`), `json : V → J` (what serde writes).
-/
namespace SwiftMT.Fields
open SwiftMT

/-! ### 20, 21, 21C, 21D, 21E, 21F, 21R — `16x` / `35x` reference with the slash rules -/

structure Ref where
  reference : Text
  deriving DecidableEq, Repr

def Ref.parse (max : Nat) (input : Text) : Res Ref := do
  let reference ← parseMaxLength input max
  if reference.isEmpty then Res.err else
  parseSwiftChars reference
  if reference.head? == some '/' || reference.getLast? == some '/' then Res.err else
  if hasSub ['/', '/'] reference then Res.err else
  pure ⟨reference⟩
def Ref.ser (v : Ref) : Text := v.reference
def Ref.json (v : Ref) : J := .obj [("reference", .str v.reference)]

/-! ### 12 `3!n`, 23B `4!c` + code list, 26T `3!c`, 71A `3!a` + code list -/

structure Code where
  code : Text
  deriving DecidableEq, Repr

def F12.parse (input : Text) : Res Code := do
  let c ← parseExactLength input 3
  parseNumeric c
  pure ⟨c⟩

def codes23B : List Text := ["CRED", "CRTS", "SPAY", "SPRI", "SSTD", "URGP", "SDVA", "TELB", "PHON", "PHOB", "PHOI",
  "TELE", "REPA", "CORT", "INTC", "HOLD"].map String.toList
def F23B.parse (input : Text) : Res Code := do
  let c ← parseExactLength input 4
  parseUppercase c
  if codes23B.contains c then pure ⟨c⟩ else Res.err

def isUpperAlnum (c : Char) : Bool := c.isUpper || c.isDigit
def F26T.parse (input : Text) : Res Code := do
  let c ← parseExactLength input 3
  if c.all isUpperAlnum then pure ⟨c⟩ else Res.err

def codes71A : List Text := ["BEN", "OUR", "SHA"].map String.toList
def F71A.parse (input : Text) : Res Code := do
  let c ← parseExactLength input 3
  parseUppercase c
  if codes71A.contains c then pure ⟨c⟩ else Res.err

def Code.ser (v : Code) : Text := v.code

/-! ### 25 (no option) `35x`, 25A `/34x` -/

def F25.parse (input : Text) : Res Text := do
  let stripped := match input with | '/' :: r => r | _ => input
  let a ← parseMaxLength stripped 35
  if a.isEmpty then Res.err else
  parseSwiftChars a
  pure a
def F25.ser (a : Text) : Text := '/' :: a

def F25A.parse (input : Text) : Res Text :=
  match input with
  | '/' :: acc =>
    if acc.isEmpty then .err
    else if blen acc > 34 then .err
    else do parseSwiftChars acc; pure acc
  | _ => .err
def F25A.ser (a : Text) : Text := '/' :: a

/-! ### 30 `6!n` -/

def F30.parse (input : Text) : Res YMD := Res.ofOption (parseDateYYMMDD input)
def F30.ser (d : YMD) : Text := printYYMMDD d

/-! ### 28 `5n[/2n]`, 28C `5n[/5n]`, 28D `5n/5n` -/

structure Stmt where
  number : Nat
  seq : Option Nat
  deriving DecidableEq, Repr

def u32Max : Nat := 4294967295

def Stmt.parse (seqLen seqMax : Nat) (input : Text) : Res Stmt := do
  let (st, sq) := splitAtFirst '/' input
  if sq.isNone && input.contains '/' then Res.err else
  if blen st > 5 then Res.err else
  parseNumeric st
  let n ← parseUInt st u32Max
  match sq with
  | some s =>
    if blen s > seqLen then Res.err else do
    parseNumeric s
    let q ← parseUInt s seqMax
    pure ⟨n, some q⟩
  | none => pure ⟨n, none⟩

def F28.parse := Stmt.parse 2 255
def F28C.parse := Stmt.parse 5 u32Max
def F28.ser (v : Stmt) : Text :=
  match v.seq with
  | some q => natDigits v.number ++ '/' :: padLeft (natDigits q) 2
  | none => natDigits v.number
def F28C.ser (v : Stmt) : Text :=
  match v.seq with
  | some q => natDigits v.number ++ '/' :: natDigits q
  | none => natDigits v.number

structure IdxTotal where
  index : Nat
  total : Nat
  deriving DecidableEq, Repr

def F28D.parse (input : Text) : Res IdxTotal := do
  let (ix, tt) := splitAtFirst '/' input
  if blen ix > 5 then Res.err else
  parseNumeric ix
  let i ← parseUInt ix u32Max
  match tt with
  | none => Res.err
  | some t =>
    if blen t > 5 then Res.err else do
    parseNumeric t
    let n ← parseUInt t u32Max
    if i > n then Res.err else
    if i == 0 || n == 0 then Res.err else
    pure ⟨i, n⟩
def F28D.ser (v : IdxTotal) : Text := padLeft (natDigits v.index) 3 ++ '/' :: padLeft (natDigits v.total) 3

/-! ### 13C `/8c/4!n1!x4!n`, 13D `6!n4!n1!x4!n` -/

structure F13C where
  code : Text
  time : Nat × Nat
  sign : Char
  offset : Text
  deriving DecidableEq, Repr

def codes13C : List Text := ["SNDTIME", "CLSTIME", "RNCTIME", "REJTIME", "CUTTIME"].map String.toList

def offsetOk (offset : Text) : Res Unit := do
  -- `offset[0..2].parse::<u32>().unwrap()` after `parse_numeric` on exactly four bytes
  let hh ← bslice offset 0 2
  let mm ← bslice offset 2 4
  let h ← Res.unwrap (if hh.isEmpty then none else some (digitsVal hh 0))
  let m ← Res.unwrap (if mm.isEmpty then none else some (digitsVal mm 0))
  if h > 14 || m > 59 then Res.err else pure ()

def F13C.parse (input : Text) : Res F13C := do
  if !isAsciiT input then Res.err else
  if blen input < 10 then Res.err else
  match input with
  | '/' :: rest =>
    match findChar '/' rest with
    | none => Res.err
    | some p =>
      -- end_slash = p + 1 (character offset = byte offset on the accepted path; the code is checked against an
      -- ASCII list before anything is sliced by it)
      if p + 1 < 2 then Res.err else
      let code := rest.take p
      if !codes13C.contains code then Res.err else
      let remaining := rest.drop (p + 1)
      if blen remaining != 9 then Res.err else do
      let timeStr ← bslice remaining 0 4
      parseNumeric timeStr
      let time ← Res.ofOption (parseTimeHHMM timeStr)
      let sign ← Res.unwrap remaining[4]?
      if sign != '+' && sign != '-' then Res.err else do
      let off ← bslice remaining 5 9
      let offset ← parseExactLength off 4
      parseNumeric offset
      offsetOk offset
      pure ⟨code, time, sign, offset⟩
  | _ => Res.err

def hhmm (t : Nat × Nat) : Text := fmt2 t.1 ++ fmt2 t.2
def F13C.ser (v : F13C) : Text := '/' :: v.code ++ '/' :: hhmm v.time ++ v.sign :: v.offset
def F13C.json (v : F13C) : J :=
  .obj [("code", .str v.code), ("time", .str (hhmm v.time)), ("sign", .str [v.sign]), ("offset", .str v.offset)]

structure F13D where
  date : YMD
  time : Nat × Nat
  sign : Char
  offset : Text
  deriving DecidableEq, Repr

def F13D.parse (input : Text) : Res F13D := do
  if !isAsciiT input then Res.err else
  if blen input != 15 then Res.err else do
  let ds ← bslice input 0 6
  let date ← Res.ofOption (parseDateYYMMDD ds)
  let ts ← bslice input 6 10
  parseNumeric ts
  let time ← Res.ofOption (parseTimeHHMM ts)
  let sign ← Res.unwrap input[10]?
  if sign != '+' && sign != '-' then Res.err else do
  let off ← bslice input 11 15
  let offset ← parseExactLength off 4
  parseNumeric offset
  offsetOk offset
  pure ⟨date, time, sign, offset⟩
def F13D.ser (v : F13D) : Text := printYYMMDD v.date ++ hhmm v.time ++ v.sign :: v.offset
def F13D.json (v : F13D) : J :=
  .obj [("date", .str (printYYMMDD v.date)), ("time", .str (hhmm v.time)), ("offset_sign", .str [v.sign]), ("offset", .str v.offset)]

/-! ### 11R, 11S `3!n6!n[4!n][6!n]`, 11 `3!n6!n` -/

structure F11 where
  messageType : Text
  date : YMD
  session : Option Text
  isn : Option Text
  deriving DecidableEq, Repr

def F11RS.parse (input : Text) : Res F11 := do
  if !isAsciiT input then Res.err else
  if blen input < 3 then Res.err else do
  let mt ← bto input 3
  parseNumeric mt
  let rem ← bfrom input 3
  if blen rem < 6 then Res.err else do
  let ds ← bto rem 6
  parseNumeric ds
  let rem ← bfrom rem 6
  let date ← Res.ofOption (parseDateYYMMDD ds)
  if !(rem.all Char.isDigit) then Res.err else
  match blen rem with
  | 0 => pure ⟨mt, date, none, none⟩
  | 4 => pure ⟨mt, date, some rem, none⟩
  | 6 => pure ⟨mt, date, none, some rem⟩
  | 10 => do
    let a ← bto rem 4
    let b ← bfrom rem 4
    pure ⟨mt, date, some a, some b⟩
  | _ => Res.err
def F11RS.ser (v : F11) : Text := v.messageType ++ printYYMMDD v.date ++ v.session.getD [] ++ v.isn.getD []
def F11RS.json (v : F11) : J :=
  .obj [("message_type", .str v.messageType), ("date", .str (isoDate v.date)),
        ("session_number", J.optStr v.session), ("input_sequence_number", J.optStr v.isn)]


/-- 11 `3!n6!n` -/
def F11.parse (input : Text) : Res F11 := do
  if !isAsciiT input then Res.err else
  if blen input != 9 then Res.err else do
  let mt ← bto input 3
  parseNumeric mt
  let ds ← bslice input 3 9
  parseNumeric ds
  let date ← Res.ofOption (parseDateYYMMDD ds)
  pure ⟨mt, date, none, none⟩
def F11.json (v : F11) : J := .obj [("message_type", .str v.messageType), ("date", .str (isoDate v.date))]

/-! ### 23 `3!a[2!n]11x`, 23E `4!c[/35x]` -/

structure F23 where
  functionCode : Text
  days : Option Nat
  reference : Text
  deriving DecidableEq, Repr

def F23.parse (input : Text) : Res F23 := do
  if !isAsciiT input then Res.err else
  if blen input < 4 then Res.err else do
  let fc ← bslice input 0 3
  parseUppercase fc
  let (days, refStart) ← (if blen input ≥ 5 then do
      let pd ← bslice input 3 5
      if pd.all isNumericU then do
        -- `parse::<u32>()` of two bytes that are Unicode-numeric: fails (→ error) unless both are ASCII digits
        if !(pd.all Char.isDigit) || pd.isEmpty then Res.err else
        let d := digitsVal pd 0
        if d == 0 || d > 99 then Res.err else
        pure (some d, 5)
      else pure (none, 3)
    else pure (none, 3) : Res (Option Nat × Nat))
  if blen input > refStart then do
    let r ← bfrom input refStart
    if blen r > 11 then Res.err else do
    parseSwiftChars r
    pure ⟨fc, days, r⟩
  else Res.err
def F23.ser (v : F23) : Text :=
  v.functionCode ++ (match v.days with | some d => padLeft (natDigits d) 2 | none => []) ++ v.reference
def F23.json (v : F23) : J :=
  .obj [("function_code", .str v.functionCode), ("days", J.optNat v.days), ("reference", .str v.reference)]

structure F23E where
  code : Text
  info : Option Text
  deriving DecidableEq, Repr

def F23E.parse (input : Text) : Res F23E := do
  if !isAsciiT input then Res.err else
  if blen input < 4 then Res.err else do
  let code ← bslice input 0 4
  if !(code.all isUpperAlnum) then Res.err else
  if blen input > 4 then do
    let tail ← bfrom input 4
    if tail.head? != some '/' then Res.err else do
    let info ← bfrom input 5
    if info.isEmpty then Res.err else
    if blen info > 35 then Res.err else do
    parseSwiftChars info
    pure ⟨code, some info⟩
  else pure ⟨code, none⟩
def F23E.ser (v : F23E) : Text := v.code ++ (match v.info with | some i => '/' :: i | none => [])
def F23E.json (v : F23E) : J := .obj [("instruction_code", .str v.code), ("additional_info", J.optStr v.info)]

/-! ### narratives: 70 `4*35x`, 71B/72/75/76 `6*35x`, 79 `35*50x`, 86 `6*65x`; 77A `20*35x`, 77B `3*35x`; 77T `9000z` -/

def Narr.parse (maxLines maxLen : Nat) (input : Text) : Res (List Text) := parseMultilineText input maxLines maxLen
def Narr.ser (ls : List Text) : Text := joinNl ls

/-- 77A / 77B go through `str::lines()` and `validate_multiline_text`. -/
def NarrL.parse (maxLines maxLen : Nat) (input : Text) : Res (List Text) :=
  validateMultilineText (splitNl input) maxLines maxLen

def F77T.parse (input : Text) : Res Text :=
  if input.isEmpty then .err else if blen input > 9000 then .err else .ok input

/-! ### party fields: option A `[/1!a][/34x]` + BIC (52A–58A), option C `/34x` (52C, 56C, 57C),
option D `[/1!a][/34x]` + `4*35x` (52D–58D) -/

structure OptA where
  party : Option Text
  bic : Text
  deriving Repr, DecidableEq

/-- 52A, 53A, 54A, 55A, 56A, 57A, 58A: `split('\n')`, optional party-identifier line, BIC, nothing after it. -/
def OptA.parse (input : Text) : Res OptA :=
  match splitNl input with
  | [] => .err
  | l0 :: rest =>
    match parsePartyIdentifier l0 with
    | .err => .err
    | .panic => .panic
    | .ok (some p) =>
      (match rest with
       | [] => .err
       | b :: rest' =>
         match parseBic b with
         | .ok bic => if rest'.isEmpty then .ok ⟨some p, bic⟩ else .err
         | .err => .err
         | .panic => .panic)
    | .ok none =>
      match parseBic l0 with
      | .ok bic => if rest.isEmpty then .ok ⟨none, bic⟩ else .err
      | .err => .err
      | .panic => .panic
def OptA.ser (v : OptA) : Text :=
  match v.party with
  | some p => '/' :: p ++ '\n' :: v.bic
  | none => v.bic
/-- the JSON form differs per type: 53A/54A/55A keep the slash in the stored identifier, 52A/57A skip a `None` -/
def partyJson (slash skipNone : Bool) (p : Option Text) : List (String × J) :=
  match p with
  | some t => [("party_identifier", .str (if slash then '/' :: t else t))]
  | none => if skipNone then [] else [("party_identifier", .null)]
def OptA.json (slash skipNone : Bool) (v : OptA) : J := .obj (partyJson slash skipNone v.party ++ [("bic", .str v.bic)])

/-- 52C, 56C, 57C: `/` + 1..34 x-characters -/
def OptC.parse (input : Text) : Res Text :=
  match input with
  | '/' :: id => if id.isEmpty || blen id > 34 then .err else if id.all isSwiftX then .ok id else .err
  | _ => .err
def OptC.ser (id : Text) : Text := '/' :: id

structure OptD where
  party : Option Text
  lines : List Text
  deriving Repr, DecidableEq

/-- 56D, 57D, 58D (and 52D–55D, which read the party identifier the same way after the fixes) -/
def OptD.parse (input : Text) : Res OptD :=
  match splitNl input with
  | [] => .err
  | l0 :: rest =>
    match parsePartyIdentifier l0 with
    | .err => .err
    | .panic => .panic
    | .ok (some p) =>
      (match parseNameAndAddress (l0 :: rest) 1 with
       | .ok ls => .ok ⟨some p, ls⟩
       | .err => .err
       | .panic => .panic)
    | .ok none =>
      match parseNameAndAddress (l0 :: rest) 0 with
      | .ok ls => .ok ⟨none, ls⟩
      | .err => .err
      | .panic => .panic
def OptD.ser (v : OptD) : Text :=
  match v.party with
  | some p => joinNl (('/' :: p) :: v.lines)
  | none => joinNl v.lines
def OptD.json (slash skipNone : Bool) (v : OptD) : J := .obj (partyJson slash skipNone v.party ++ [("name_and_address", J.lines v.lines)])

/-! ### customer / beneficiary fields: 50 `4*35x`, 50C BIC, 50L `35x`, 50G `/34x` + BIC, 50H `/34x` + `4*35x`,
50K / 59 `[/34x]` + `4*35x`, 59A `[/34x]` + BIC, 51A `[/1!a][/34x]` + BIC -/

/-- `/` + 1..34 x-characters (the account line of 50G, 50H, 50K) -/
def acctStrict (l : Text) : Res Text :=
  match l with
  | '/' :: acc => if acc.isEmpty || blen acc > 34 then .err else if acc.all isSwiftX then .ok acc else .err
  | _ => .err

def F50NoOption.parse (input : Text) : Res (List Text) :=
  let ls := splitNl input
  if ls.length > 4 then .err else if ls.all nameLineOk then .ok ls else .err

def F50L.parse (input : Text) : Res Text :=
  if input.contains '\n' then .err
  else if input.isEmpty || blen input > 35 then .err
  else if input.all isSwiftX then .ok input else .err

structure AcctBic where
  account : Text
  bic : Text
  deriving Repr, DecidableEq

def F50G.parse (input : Text) : Res AcctBic :=
  match splitNl input with
  | [l0, l1] =>
    (match acctStrict l0 with
     | .ok acc => (match parseBic l1 with | .ok b => .ok ⟨acc, b⟩ | .err => .err | .panic => .panic)
     | .err => .err
     | .panic => .panic)
  | _ => .err
def F50G.ser (v : AcctBic) : Text := '/' :: v.account ++ '\n' :: v.bic

structure AcctLines where
  account : Option Text
  lines : List Text
  deriving Repr, DecidableEq

def F50H.parse (input : Text) : Res AcctLines :=
  match splitNl input with
  | l0 :: l1 :: rest =>
    (match acctStrict l0 with
     | .ok acc => if !((l1 :: rest).all nameLineOk) then .err else if (l1 :: rest).length > 4 then .err else .ok ⟨some acc, l1 :: rest⟩
     | .err => .err
     | .panic => .panic)
  | _ => .err

def F50K.parse (input : Text) : Res AcctLines :=
  match splitNl input with
  | [] => .err
  | l0 :: rest =>
    if l0.head? == some '/' then
      (match acctStrict l0 with
       | .ok acc => (match parseNameAndAddress rest 0 with | .ok ls => .ok ⟨some acc, ls⟩ | .err => .err | .panic => .panic)
       | .err => .err
       | .panic => .panic)
    else
      match parseNameAndAddress (l0 :: rest) 0 with | .ok ls => .ok ⟨none, ls⟩ | .err => .err | .panic => .panic

/-- the optional account line of 59 / 59A: `/` + identifier; an identifier longer than 34 bytes is not an account (the
line is then read as a name line / BIC and fails there) -/
def acctLenient (l : Text) : Res (Option Text) :=
  match l with
  | '/' :: id =>
    if id.isEmpty then .err
    else if blen id ≤ 34 then (if id.all isSwiftX then .ok (some id) else .err)
    else .ok none
  | _ => .ok none

def F59.parse (input : Text) : Res AcctLines :=
  match splitNl input with
  | [] => .err
  | l0 :: rest =>
    match acctLenient l0 with
    | .ok (some acc) => (match parseNameAndAddress rest 0 with | .ok ls => .ok ⟨some acc, ls⟩ | .err => .err | .panic => .panic)
    | .ok none => (match parseNameAndAddress (l0 :: rest) 0 with | .ok ls => .ok ⟨none, ls⟩ | .err => .err | .panic => .panic)
    | .err => .err
    | .panic => .panic
def AcctLines.ser (v : AcctLines) : Text :=
  match v.account with
  | some a => joinNl (('/' :: a) :: v.lines)
  | none => joinNl v.lines
def AcctLines.json (skipNone : Bool) (v : AcctLines) : J :=
  .obj ((match v.account with | some a => [("account", .str a)] | none => if skipNone then [] else [("account", .null)]) ++
    [("name_and_address", J.lines v.lines)])

structure OptAcctBic where
  account : Option Text
  bic : Text
  deriving Repr, DecidableEq

def F59A.parse (input : Text) : Res OptAcctBic :=
  match splitNl input with
  | [] => .err
  | l0 :: rest =>
    match acctLenient l0 with
    | .ok (some acc) =>
      (match rest with
       | [] => .err
       | b :: rest' => match parseBic b with | .ok bic => if rest'.isEmpty then .ok ⟨some acc, bic⟩ else .err | .err => .err | .panic => .panic)
    | .ok none => (match parseBic l0 with | .ok bic => if rest.isEmpty then .ok ⟨none, bic⟩ else .err | .err => .err | .panic => .panic)
    | .err => .err
    | .panic => .panic
def F59A.ser (v : OptAcctBic) : Text :=
  match v.account with
  | some a => '/' :: a ++ '\n' :: v.bic
  | none => v.bic

/-- 51A: the party identifier is looked for only when there is a line break; a lone `/…` line of at most 36 bytes is
rejected outright, anything else goes to `parse_bic` -/
def F51A.viaNl (input : Text) : Res (Option (Text × Text)) :=
  match findChar '\n' input with
  | some p =>
    (match parsePartyIdentifier (input.take p) with
     | .ok (some id) => .ok (some ('/' :: id, input.drop (p + 1)))
     | .ok none => .ok none
     | .err => .err
     | .panic => .panic)
  | none => .ok none
def F51A.parse (input : Text) : Res OptA :=
  match F51A.viaNl input with
  | .err => .err
  | .panic => .panic
  | .ok (some (pid, rem)) => (match parseBic rem with | .ok b => .ok ⟨some pid, b⟩ | .err => .err | .panic => .panic)
  | .ok none =>
    if input.head? == some '/' && blen input ≤ 36 && !input.contains '\n' then .err
    else match parseBic input with | .ok b => .ok ⟨none, b⟩ | .err => .err | .panic => .panic
def F51A.ser (v : OptA) : Text :=
  match v.party with
  | some p => p ++ '\n' :: v.bic
  | none => v.bic

/-! ### currency + amount: 32B, 33B (positive), 71F, 71G `3!a15d`; value date + currency + amount: 32A, 32C, 32D `6!n3!a15d`

Amounts are exact decimals in the model (`Dec`); the implementation holds an f64.  The two agree as long as what has to
be printed fits in 15 significant digits (`amountExact`); outside that region the driver answers `#skip` (the f64
region is the open finding F-C06-f64-precision, judged by the C06 oracle). -/

structure CcyAmt where
  ccy : Text
  amt : Dec
  deriving Repr

/-- the part behind the currency: non-empty, `parse_amount_with_currency`, optionally `> 0` -/
def amountPart (a ccy : Text) (positive : Bool) : Res Dec :=
  if a.isEmpty then .err
  else match parseAmountWithCurrency a ccy with
    | some d => if positive && d.mant == 0 then .err else .ok d
    | none => .err

def CcyAmt.parse (positive : Bool) (input : Text) : Res CcyAmt :=
  if !isAsciiT input then .err
  else if blen input < 4 then .err
  else match parseCurrencyNonCommodity (input.take 3) with
    | .ok ccy => (match amountPart (input.drop 3) ccy positive with | .ok d => .ok ⟨ccy, d⟩ | .err => .err | .panic => .panic)
    | .err => .err
    | .panic => .panic
def CcyAmt.ser (v : CcyAmt) : Text := v.ccy ++ formatAmount v.amt.normalize (currencyDecimals v.ccy)
def CcyAmt.json (v : CcyAmt) : J := .obj [("currency", .str v.ccy), ("amount", J.dec v.amt)]

structure DateCcyAmt where
  date : YMD
  ccy : Text
  amt : Dec
  deriving Repr

def DateCcyAmt.parse (input : Text) : Res DateCcyAmt :=
  if !isAsciiT input then .err
  else if blen input < 10 then .err
  else match parseDateYYMMDD (input.take 6) with
    | none => .err
    | some d =>
      match parseCurrencyNonCommodity ((input.drop 6).take 3) with
      | .ok ccy => (match amountPart (input.drop 9) ccy true with | .ok a => .ok ⟨d, ccy, a⟩ | .err => .err | .panic => .panic)
      | .err => .err
      | .panic => .panic
def DateCcyAmt.ser (v : DateCcyAmt) : Text := printYYMMDD v.date ++ v.ccy ++ formatAmount v.amt.normalize (currencyDecimals v.ccy)
def DateCcyAmt.json (v : DateCcyAmt) : J := .obj [("value_date", .str (isoDate v.date)), ("currency", .str v.ccy), ("amount", J.dec v.amt)]

/-- is the amount text `a` (for currency text `ccy`) inside the region where f64 and exact decimals agree:
integer digits + max(written decimals, currency decimals) ≤ 15 -/
def amountExact (a ccy : Text) : Bool :=
  let intD := (a.takeWhile Char.isDigit).length
  let dec := match a.findIdx? (fun c => c == ',' || c == '.') with
    | some p => a.length - p - 1
    | none => 0
  intD + Nat.max dec (currencyDecimals ccy) ≤ 15

/-! ### balances 60F, 60M, 62F, 62M, 64, 65: `1!a6!n3!a15d` -/

structure Balance where
  dc : Text
  date : YMD
  ccy : Text
  amt : Dec
  deriving Repr

def Balance.parse (input : Text) : Res Balance :=
  if blen input < 10 then .err
  else if !isAsciiT input then .err
  else
    let dc := input.take 1
    if dc != ['D'] && dc != ['C'] then .err
    else match parseDateYYMMDD ((input.drop 1).take 6) with
      | none => .err
      | some d =>
        match parseCurrency ((input.drop 7).take 3) with
        | .ok ccy => (match parseAmountWithCurrency (input.drop 10) ccy with | some a => .ok ⟨dc, d, ccy, a⟩ | none => .err)
        | .err => .err
        | .panic => .panic
def Balance.ser (v : Balance) : Text := v.dc ++ printYYMMDD v.date ++ v.ccy ++ formatAmount v.amt.normalize (currencyDecimals v.ccy)
def Balance.json (v : Balance) : J :=
  .obj [("debit_credit_mark", .str v.dc), ("value_date", .str (isoDate v.date)), ("currency", .str v.ccy), ("amount", J.dec v.amt)]

/-! ### 34F `3!a[1!a]15d` (floor limit), 19 `17d` -/

structure F34F where
  ccy : Text
  ind : Option Char
  amt : Dec
  deriving Repr

def F34F.parse (input : Text) : Res F34F :=
  if !isAsciiT input then .err
  else if blen input < 4 then .err
  else match parseCurrency (input.take 3) with
    | .ok ccy =>
      let fourth := (input.drop 3).head?
      let (ind, rest) : Option Char × Text :=
        if fourth == some 'D' || fourth == some 'C' then (fourth, input.drop 4) else (none, input.drop 3)
      (match amountPart rest ccy true with | .ok d => .ok ⟨ccy, ind, d⟩ | .err => .err | .panic => .panic)
    | .err => .err
    | .panic => .panic
def F34F.ser (v : F34F) : Text :=
  v.ccy ++ (match v.ind with | some c => [c] | none => []) ++ formatAmount v.amt.normalize (currencyDecimals v.ccy)
def F34F.json (v : F34F) : J :=
  .obj [("currency", .str v.ccy), ("indicator", match v.ind with | some c => .str [c] | none => .null), ("amount", J.dec v.amt)]

/-- 19: `parse_amount_max_len(input, 17)`, written with two decimals (exact for amounts with at most two) -/
def F19.parse (input : Text) : Res Dec := Res.ofOption (parseAmountMaxLen input 17)
def F19.ser (d : Dec) : Text := formatAmount d.normalize 2

/-! ### option B `[/1!a][/34x]` + `[35x]` (52B, 54B, 55B, 57B) -/

structure OptB where
  party : Option Text
  location : Option Text
  deriving Repr, DecidableEq

def OptB.parse (input : Text) : Res OptB :=
  if input.isEmpty then .ok ⟨none, none⟩
  else match splitNl input with
    | [] => .err
    | l0 :: rest =>
      match parsePartyIdentifier l0 with
      | .err => .err
      | .panic => .panic
      | .ok (some p) =>
        (match rest with
         | [] => .ok ⟨some p, none⟩
         | [loc] =>
           if blen loc > 35 then .err else if loc.isEmpty then .err
           else if loc.all isSwiftX then .ok ⟨some p, some loc⟩ else .err
         | _ => .err)
      | .ok none =>
        if !rest.isEmpty then .err
        else if blen l0 > 35 then .err
        else if l0.isEmpty then .ok ⟨none, none⟩
        else if l0.all isSwiftX then .ok ⟨none, some l0⟩ else .err
def OptB.ser (v : OptB) : Text :=
  joinNl ((match v.party with | some p => [('/' :: p)] | none => []) ++ (match v.location with | some l => [l] | none => []))
def OptB.json (slash skipNone : Bool) (v : OptB) : J :=
  .obj (partyJson slash skipNone v.party ++ [("location", J.optStr v.location)])

/-! ### 90C / 90D `5n3!a15d` (number of entries, currency, sum) -/

structure F90 where
  number : Nat
  ccy : Text
  amt : Dec
  deriving Repr

def F90.parse (input : Text) : Res F90 :=
  if !isAsciiT input then .err
  else if blen input < 5 then .err
  else
    let d := Nat.min (input.takeWhile Char.isDigit).length 5
    if d == 0 then .err
    else
      let number := digitsVal (input.take d) 0
      let rem := input.drop d
      if blen rem < 3 then .err
      else match parseCurrency (rem.take 3) with
        | .ok ccy =>
          let a := rem.drop 3
          if a.isEmpty then .err
          else (match parseAmountWithCurrency a ccy with | some x => .ok ⟨number, ccy, x⟩ | none => .err)
        | .err => .err
        | .panic => .panic
def F90.ser (v : F90) : Text := natDigits v.number ++ v.ccy ++ formatAmount v.amt.normalize (currencyDecimals v.ccy)
def F90.json (v : F90) : J := .obj [("number", J.nat v.number), ("currency", .str v.ccy), ("amount", J.dec v.amt)]

/-! ### rates: 36 `12d` (exchange rate), 37H `1!a[N]12d` (interest rate) -/

/-- a decimal the way Rust's `Display` for f64 writes it, with a comma: no trailing zeros, no separator for an integer -/
def plainDecimal (d : Dec) : Text :=
  let n := d.normalize
  let ip := natDigits (n.mant / 10 ^ n.scale)
  if n.scale == 0 then ip else ip ++ [','] ++ padLeft (natDigits (n.mant % 10 ^ n.scale)) n.scale

/-- 36: non-empty, at most 12 bytes, a plain decimal, 0.0001 ≤ rate ≤ 100000 -/
def F36.parse (input : Text) : Res Dec :=
  if input.isEmpty then .err
  else if blen input > 12 then .err
  else match parseAmount input with
    | none => .err
    | some d =>
      -- rate > 0 and 0.0001 ≤ rate ≤ 100000, on exact decimals: 1 ≤ rate·10^4 and rate ≤ 10^5
      if d.mant == 0 then .err
      else if d.mant * 10 ^ 4 < 10 ^ d.scale then .err
      else if d.mant > 100000 * 10 ^ d.scale then .err
      else .ok d

structure F37H where
  ind : Char
  neg : Bool
  rate : Dec
  deriving Repr

def F37H.parse (input : Text) : Res F37H :=
  match input with
  | [] => .err
  | c :: rest =>
    if c != 'C' && c != 'D' then .err
    else
      let (neg, rem) := match rest with | 'N' :: r => (true, r) | _ => (false, rest)
      if rem.isEmpty then .err
      else match parseAmountMaxLen rem 12 with
        | some d => .ok ⟨c, neg, d⟩
        | none => .err
def F37H.ser (v : F37H) : Text := [v.ind] ++ (if v.neg then ['N'] else []) ++ formatAmount v.rate.normalize 4
def F37H.json (v : F37H) : J :=
  let num := match J.dec v.rate with | .num t => if v.neg then J.num ('-' :: t) else J.num t | j => j
  .obj [("rate_indicator", .str [v.ind]), ("is_negative", if v.neg then .bool true else .null), ("rate", num)]

/-! ### 61 statement line `6!n[4!n]2a[1!a]15d1!a3!c16x[//16x][34x]` -/

structure F61 where
  date : YMD
  entry : Option Text
  dc : Text
  funds : Option Char
  amt : Dec
  ttype : Text
  cref : Text
  bref : Option Text
  supp : Option Text
  deriving Repr

def isUpperOrDigit (c : Char) : Bool := c.isUpper || c.isDigit

/-- transaction type, references and supplementary details (everything after the amount) -/
def F61.tailPart (d : YMD) (entry : Option Text) (dc : Text) (funds : Option Char) (amt : Dec) (r5 : Text) : Res F61 :=
  if r5.length < 4 then .err
  else
    let tt := r5.take 4
    if !((match tt with | c :: _ => c.isUpper | [] => false) && tt.all isUpperOrDigit) then .err
    else
      let remaining := r5.drop 4
      let rs : Text × Option Text := match findChar '\n' remaining with
        | some p => (remaining.take p, some (remaining.drop (p + 1)))
        | none => (remaining, none)
      let cb : Text × Option Text := match findSub ['/', '/'] rs.1 with
        | some p => (rs.1.take p, some (rs.1.drop (p + 2)))
        | none => (rs.1, none)
      if blen cb.1 > 16 then .err
      else if !(cb.1.all isSwiftX) then .err
      else if (match cb.2 with | some b => b.isEmpty || blen b > 16 || !(b.all isSwiftX) | none => false) then .err
      else if (match rs.2 with | some x => x.isEmpty || blen x > 34 || !(x.all isSwiftX) | none => false) then .err
      else .ok ⟨d, entry, dc, funds, amt, tt, cb.1, cb.2, rs.2⟩

/-- funds code and amount (everything after the debit/credit mark) -/
def F61.amountPart (d : YMD) (entry : Option Text) (dc : Text) (r3 : Text) : Res F61 :=
  let hasFunds := match r3 with | c :: _ => c.isUpper | [] => false
  let funds : Option Char := if hasFunds then r3.head? else none
  let r4 := if hasFunds then r3.drop 1 else r3
  let amtStr := r4.takeWhile (fun c => c.isDigit || c == ',' || c == '.')
  if amtStr.isEmpty then .err
  else match parseAmountMaxLen amtStr 15 with
    | none => .err
    | some amt => F61.tailPart d entry dc funds amt (r4.drop amtStr.length)

def F61.parse (input : Text) : Res F61 :=
  if blen input < 12 then .err
  else if !isAsciiT input then .err
  else match parseDateYYMMDD (input.take 6) with
    | none => .err
    | some d =>
      let r1 := input.drop 6
      let hasEntry := decide (4 ≤ r1.length) && (r1.take 4).all Char.isDigit
      let entry : Option Text := if hasEntry then some (r1.take 4) else none
      let r2 := if hasEntry then r1.drop 4 else r1
      if r2.isEmpty then .err
      else
        let dcLen := if decide (2 ≤ r2.length) && (r2.take 2 == ['R', 'D'] || r2.take 2 == ['R', 'C']) then 2 else 1
        let dc := r2.take dcLen
        if !([['D'], ['C'], ['R', 'D'], ['R', 'C']].contains dc) then .err
        else F61.amountPart d entry dc (r2.drop dcLen)
def F61.ser (v : F61) : Text :=
  printYYMMDD v.date ++ (v.entry.getD []) ++ v.dc ++ (match v.funds with | some c => [c] | none => []) ++
  formatAmount v.amt.normalize 2 ++ v.ttype ++ v.cref ++ (match v.bref with | some b => '/' :: '/' :: b | none => []) ++
  (match v.supp with | some x => '\n' :: x | none => [])
def F61.json (v : F61) : J :=
  .obj [("value_date", .str (isoDate v.date)), ("entry_date", J.optStr v.entry), ("debit_credit_mark", .str v.dc),
        ("funds_code", match v.funds with | some c => .str [c] | none => .null), ("amount", J.dec v.amt),
        ("transaction_type", .str v.ttype), ("customer_reference", .str v.cref), ("bank_reference", J.optStr v.bref),
        ("supplementary_details", J.optStr v.supp)]


/-! ### 53B `[/1!a][/34x]` + `[35x]`, 53D `[/1!a][/34x]` + `4*35x`: their own reading of the first line -/

def isUpperOrDigitAscii (c : Char) : Bool := c.isUpper || c.isDigit

/-- 53B: one or two non-empty lines; with two the first is the party identifier (≤ 34) and the second the location (≤ 35);
a single line is the party identifier when it starts with `/` or looks like a BIC (8–11 capitals / digits), else the location.
The party identifier keeps its slash. -/
def F53B.parse (input : Text) : Res OptB :=
  if input.isEmpty then .ok ⟨none, none⟩
  else
    let lines := splitNl input
    if lines.length > 2 then .err
    else if lines.any List.isEmpty then .err
    else match lines with
      | [a, b] =>
        if blen a > 34 then .err else if !(a.all isSwiftX) then .err
        else if blen b > 35 then .err else if !(b.all isSwiftX) then .err
        else .ok ⟨some a, some b⟩
      | [line] =>
        let isParty := line.head? == some '/' || (decide (8 ≤ blen line) && decide (blen line ≤ 11) && line.all isUpperOrDigitAscii)
        if isParty then
          (if blen line > 34 then .err else if !(line.all isSwiftX) then .err else .ok ⟨some line, none⟩)
        else
          (if blen line > 35 then .err else if !(line.all isSwiftX) then .err else .ok ⟨none, some line⟩)
      | _ => .err
def F53B.ser (v : OptB) : Text :=
  (match v.party with | some p => p ++ (if v.location.isSome then ['\n'] else []) | none => []) ++ (v.location.getD [])
def F53B.json (v : OptB) : J := .obj [("party_identifier", J.optStr v.party), ("location", J.optStr v.location)]

/-- 53D: the whole first line is the party identifier when more lines follow and it starts with `/` or "looks like an
account" (≤ 34 bytes, no blank, some digit); 1–4 name and address lines follow -/
def F53D.parse (input : Text) : Res OptD :=
  match splitNl input with
  | [] => .err
  | first :: rest =>
    let looks := first.head? == some '/' || (decide (blen first ≤ 34) && !first.contains ' ' && first.any Char.isDigit)
    if looks && !first.isEmpty && !rest.isEmpty then
      (if blen first > 35 then .err
       else if !(first.all isSwiftX) then .err
       else match parseNameAndAddress rest 0 with
         | .ok ls => .ok ⟨some first, ls⟩
         | .err => .err
         | .panic => .panic)
    else match parseNameAndAddress (first :: rest) 0 with
      | .ok ls => .ok ⟨none, ls⟩
      | .err => .err
      | .panic => .panic
def F53D.ser (v : OptD) : Text :=
  match v.party with
  | some p => joinNl (p :: v.lines)
  | none => joinNl v.lines
def F53D.json (v : OptD) : J := .obj [("party_identifier", J.optStr v.party), ("name_and_address", J.lines v.lines)]

/-! ### 25P `35x` + BIC: on two lines, or on one line with the BIC cut from the end (11 characters tried first, then 8) -/

def parseAccount35 (t : Text) : Res Text :=
  if t.isEmpty then .err else if blen t > 35 then .err else if t.all isSwiftX then .ok t else .err

def isOkRes {α : Type} : Res α → Bool
  | .ok _ => true
  | _ => false

def F25P.parse (input : Text) : Res AcctBic :=
  if !isAsciiT input then .err
  else match splitNl input with
    | [] => .err
    | l0 :: rest =>
      if blen l0 > 35 then .err
      else if !(l0.all isSwiftX) then .err
      else if l0.isEmpty then .err
      else match rest with
        | _ :: _ :: _ => .err
        | [l1] => (match parseBic l1 with | .ok b => .ok ⟨l0, b⟩ | .err => .err | .panic => .panic)
        | [] =>
          if blen input > 8 then
            let n := input.length
            let p11 := input.drop (n - 11)
            let p8 := input.drop (n - 8)
            if p11.length == 11 && isOkRes (parseBic p11) then
              (match parseAccount35 (input.take (n - 11)) with | .ok a => .ok ⟨a, p11⟩ | .err => .err | .panic => .panic)
            else if p8.length == 8 && isOkRes (parseBic p8) then
              (match parseAccount35 (input.take (n - 8)) with | .ok a => .ok ⟨a, p8⟩ | .err => .err | .panic => .panic)
            else .err
          else .err
def F25P.ser (v : AcctBic) : Text := v.account ++ '\n' :: v.bic
def F25P.json (v : AcctBic) : J := .obj [("account", .str v.account), ("bic", .str v.bic)]


/-! ### structured customers: 50A / 59F `[/34x]` + `4*(1!n/33x)` (numbered lines), 50F account + `[/34x]` + `[4*35x]` + BIC -/

/-- numbered lines `k/text`, `k+1/text`, …: each 1 to 33 x-characters after the slash; `keep` = the value keeps the
whole line (59F) or the text only (50A) -/
def numberedLines (keep : Bool) : List Text → Nat → Res (List Text)
  | [], _ => .ok []
  | line :: rest, k =>
    match line with
    | d :: '/' :: text =>
      if digitVal d != some k then .err
      else if text.isEmpty then .err
      else if blen text > 33 then .err
      else if !(text.all isSwiftX) then .err
      else match numberedLines keep rest (k + 1) with
        | .ok ls => .ok ((if keep then line else text) :: ls)
        | .err => .err
        | .panic => .panic
    | _ => .err

def F50A.parse (input : Text) : Res OptD :=
  match splitNl input with
  | [] => .err
  | l0 :: rest =>
    match l0 with
    | '/' :: ident =>
      if ident.isEmpty then .err
      else if blen ident > 34 then .err
      else if !(ident.all isSwiftX) then .err
      else (match numberedLines false rest 1 with
        | .ok ls => if ls.isEmpty then .err else if ls.length > 4 then .err else .ok ⟨some ident, ls⟩
        | .err => .err
        | .panic => .panic)
    | _ =>
      match numberedLines false (l0 :: rest) 1 with
      | .ok ls => if ls.isEmpty then .err else if ls.length > 4 then .err else .ok ⟨none, ls⟩
      | .err => .err
      | .panic => .panic
def numberFrom (k : Nat) : List Text → List Text
  | [] => []
  | l :: ls => (natDigits k ++ '/' :: l) :: numberFrom (k + 1) ls
def F50A.ser (v : OptD) : Text :=
  joinNl ((match v.party with | some p => [('/' :: p)] | none => []) ++ numberFrom 1 v.lines)
def F50A.json (v : OptD) : J := .obj [("party_identifier", J.optStr v.party), ("name_and_address", J.lines v.lines)]

def F59F.parse (input : Text) : Res OptD :=
  match splitNl input with
  | [] => .err
  | l0 :: rest =>
    match parsePartyIdentifier l0 with
    | .err => .err
    | .panic => .panic
    | .ok (some p) =>
      (match numberedLines true rest 1 with
        | .ok ls => if ls.isEmpty then .err else if ls.length > 4 then .err else .ok ⟨some p, ls⟩
        | .err => .err
        | .panic => .panic)
    | .ok none =>
      (match numberedLines true (l0 :: rest) 1 with
        | .ok ls => if ls.isEmpty then .err else if ls.length > 4 then .err else .ok ⟨none, ls⟩
        | .err => .err
        | .panic => .panic)
def F59F.ser (v : OptD) : Text :=
  joinNl ((match v.party with | some p => [('/' :: p)] | none => []) ++ v.lines)
def F59F.json (v : OptD) : J := .obj [("party_identifier", J.optStr v.party), ("name_and_address", J.lines v.lines)]

structure F50F where
  account : Text
  party : Option Text
  lines : List Text          -- `[]` = the library's `None`
  bic : Text
  deriving Repr, DecidableEq

/-- the lines between the account and the BIC: an optional `/34x` party line, then name and address lines -/
def F50F.mid (mid : List Text) : Res (Option Text × List Text) :=
  match mid with
  | ('/' :: pid) :: tl =>
    if pid.isEmpty then .err else if blen pid > 34 then .err else if !(pid.all isSwiftX) then .err else .ok (some pid, tl)
  | _ => .ok (none, mid)

def F50F.parse (input : Text) : Res F50F :=
  match splitNl input with
  | [] => .err
  | [_] => .err
  | account :: more =>
    if account.isEmpty then .err
    else if blen account > 35 then .err
    else if !(account.all isSwiftX) then .err
    else match parseBic (more.getLast?.getD []) with
      | .err => .err
      | .panic => .panic
      | .ok bic =>
        match F50F.mid more.dropLast with
        | .err => .err
        | .panic => .panic
        | .ok (party, names) =>
          if !(names.all (fun l => !l.isEmpty && decide (blen l ≤ 35) && l.all isSwiftX)) then .err
          else if names.length > 4 then .err
          else .ok ⟨account, party, names, bic⟩
/-- the party identifier line of a serialisation, if there is one -/
def partyLine : Option Text → List Text
  | some x => [('/' :: x)]
  | none => []
def F50F.ser (v : F50F) : Text :=
  joinNl ([v.account] ++ (match v.party with | some p => [('/' :: p)] | none => []) ++ v.lines ++ [v.bic])
def F50F.json (v : F50F) : J :=
  .obj ([("account", .str v.account)] ++ (match v.party with | some p => [("party_identifier", J.str p)] | none => []) ++
        (if v.lines.isEmpty then [] else [("name_and_address", J.lines v.lines)]) ++ [("bic", .str v.bic)])

end SwiftMT.Fields
