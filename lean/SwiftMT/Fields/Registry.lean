import SwiftMT.Fields.Simple
import SwiftMT.Generated.Enums
/-
Registry of the modelled field types for the line-protocol driver: `run name content` gives what
`T::parse(content)` followed by `to_swift_string()` and `serde_json::to_value` give on the real type `name`.
-/
namespace SwiftMT.Fields
open SwiftMT

def withTag {α : Type} (tag : String) (r : Res α) (ser : α → Text) (json : α → J) : Res (Text × J) :=
  match r with
  | .ok v => .ok (':' :: tag.toList ++ ':' :: ser v, json v)
  | .err => .err
  | .panic => .panic

def refField (tag : String) (max : Nat) (c : Text) := withTag tag (Ref.parse max c) Ref.ser Ref.json
def narr (tag key : String) (ml mx : Nat) (c : Text) := withTag tag (Narr.parse ml mx c) Narr.ser (fun v => .obj [(key, J.lines v)])
def narrL (tag key : String) (ml mx : Nat) (c : Text) := withTag tag (NarrL.parse ml mx c) Narr.ser (fun v => .obj [(key, J.lines v)])

def registry : List (String × (Text → Res (Text × J))) := [
  ("Field20", refField "20" 16), ("Field21NoOption", refField "21" 16), ("Field21C", refField "21C" 35),
  ("Field21D", refField "21D" 35), ("Field21E", refField "21E" 35), ("Field21F", refField "21F" 16),
  ("Field21R", refField "21R" 16),
  ("Field12", fun c => withTag "12" (F12.parse c) Code.ser (fun v => .obj [("type_code", .str v.code)])),
  ("Field23B", fun c => withTag "23B" (F23B.parse c) Code.ser (fun v => .obj [("instruction_code", .str v.code)])),
  ("Field26T", fun c => withTag "26T" (F26T.parse c) Code.ser (fun v => .obj [("type_code", .str v.code)])),
  ("Field71A", fun c => withTag "71A" (F71A.parse c) Code.ser (fun v => .obj [("code", .str v.code)])),
  ("Field25NoOption", fun c => withTag "25" (F25.parse c) F25.ser (fun v => .obj [("authorisation", .str v)])),
  ("Field25A", fun c => withTag "25A" (F25A.parse c) F25A.ser (fun v => .obj [("account", .str v)])),
  ("Field30", fun c => withTag "30" (F30.parse c) F30.ser (fun v => .obj [("execution_date", .str (isoDate v))])),
  ("Field28", fun c => withTag "28" (F28.parse c) F28.ser (fun v => .obj [("statement_number", J.nat v.number), ("sequence_number", J.optNat v.seq)])),
  ("Field28C", fun c => withTag "28C" (F28C.parse c) F28C.ser (fun v => .obj [("statement_number", J.nat v.number), ("sequence_number", J.optNat v.seq)])),
  ("Field28D", fun c => withTag "28D" (F28D.parse c) F28D.ser (fun v => .obj [("index", J.nat v.index), ("total", J.nat v.total)])),
  ("Field13C", fun c => withTag "13C" (F13C.parse c) F13C.ser F13C.json),
  ("Field13D", fun c => withTag "13D" (F13D.parse c) F13D.ser F13D.json),
  ("Field11R", fun c => withTag "11R" (F11RS.parse c) F11RS.ser F11RS.json),
  ("Field11S", fun c => withTag "11S" (F11RS.parse c) F11RS.ser F11RS.json),
  ("Field11", fun c => withTag "11" (F11.parse c) F11RS.ser F11.json),
  ("Field23", fun c => withTag "23" (F23.parse c) F23.ser F23.json),
  ("Field23E", fun c => withTag "23E" (F23E.parse c) F23E.ser F23E.json),
  ("Field70", narr "70" "narrative" 4 35), ("Field71B", narr "71B" "details" 6 35), ("Field72", narr "72" "information" 6 35),
  ("Field75", narr "75" "information" 6 35), ("Field76", narr "76" "information" 6 35), ("Field79", narr "79" "information" 35 50),
  ("Field86", narr "86" "narrative" 6 65), ("Field77A", narrL "77A" "narrative" 20 35), ("Field77B", narrL "77B" "narrative" 3 35),
  ("Field52A", fun c => withTag "52A" (OptA.parse c) OptA.ser (OptA.json false true)), ("Field53A", fun c => withTag "53A" (OptA.parse c) OptA.ser (OptA.json true false)),
  ("Field54A", fun c => withTag "54A" (OptA.parse c) OptA.ser (OptA.json true false)), ("Field55A", fun c => withTag "55A" (OptA.parse c) OptA.ser (OptA.json true false)),
  ("Field56A", fun c => withTag "56A" (OptA.parse c) OptA.ser (OptA.json false false)), ("Field57A", fun c => withTag "57A" (OptA.parse c) OptA.ser (OptA.json false true)),
  ("Field58A", fun c => withTag "58A" (OptA.parse c) OptA.ser (OptA.json false false)),
  ("Field52C", fun c => withTag "52C" (OptC.parse c) OptC.ser (fun v => .obj [("party_identifier", .str v)])),
  ("Field56C", fun c => withTag "56C" (OptC.parse c) OptC.ser (fun v => .obj [("party_identifier", .str v)])),
  ("Field57C", fun c => withTag "57C" (OptC.parse c) OptC.ser (fun v => .obj [("party_identifier", .str v)])),
  ("Field52D", fun c => withTag "52D" (OptD.parse c) OptD.ser (OptD.json false false)), 
  ("Field54D", fun c => withTag "54D" (OptD.parse c) OptD.ser (OptD.json true false)), ("Field55D", fun c => withTag "55D" (OptD.parse c) OptD.ser (OptD.json true false)),
  ("Field56D", fun c => withTag "56D" (OptD.parse c) OptD.ser (OptD.json false false)), ("Field57D", fun c => withTag "57D" (OptD.parse c) OptD.ser (OptD.json false false)),
  ("Field58D", fun c => withTag "58D" (OptD.parse c) OptD.ser (OptD.json false false)),
  ("Field50NoOption", fun c => withTag "50" (F50NoOption.parse c) joinNl (fun v => .obj [("name_and_address", J.lines v)])),
  ("Field50C", fun c => withTag "50C" (parseBic c) id (fun v => .obj [("bic", .str v)])),
  ("Field50L", fun c => withTag "50L" (F50L.parse c) id (fun v => .obj [("party_identifier", .str v)])),
  ("Field50G", fun c => withTag "50G" (F50G.parse c) F50G.ser (fun v => .obj [("account", .str v.account), ("bic", .str v.bic)])),
  ("Field50H", fun c => withTag "50H" (F50H.parse c) AcctLines.ser (AcctLines.json false)),
  ("Field50K", fun c => withTag "50K" (F50K.parse c) AcctLines.ser (AcctLines.json false)),
  ("Field59NoOption", fun c => withTag "59" (F59.parse c) AcctLines.ser (AcctLines.json false)),
  ("Field59A", fun c => withTag "59A" (F59A.parse c) F59A.ser (fun v => .obj [("account", J.optStr v.account), ("bic", .str v.bic)])),
  ("Field51A", fun c => withTag "51A" (F51A.parse c) F51A.ser (OptA.json false false)),
  ("Field52B", fun c => withTag "52B" (OptB.parse c) OptB.ser (OptB.json false false)),
  ("Field54B", fun c => withTag "54B" (OptB.parse c) OptB.ser (OptB.json true false)),
  ("Field55B", fun c => withTag "55B" (OptB.parse c) OptB.ser (OptB.json true false)),
  ("Field57B", fun c => withTag "57B" (OptB.parse c) OptB.ser (OptB.json false false)),
  ("Field77T", fun c => withTag "77T" (F77T.parse c) id (fun v => .obj [("envelope_content", .str v)])),
  ("Field53B", fun c => withTag "53B" (F53B.parse c) F53B.ser F53B.json),
  ("Field53D", fun c => withTag "53D" (F53D.parse c) F53D.ser F53D.json),
  ("Field25P", fun c => withTag "25P" (F25P.parse c) F25P.ser F25P.json),
  ("Field50A", fun c => withTag "50A" (F50A.parse c) F50A.ser F50A.json),
  ("Field59F", fun c => withTag "59F" (F59F.parse c) F59F.ser F59F.json),
  ("Field50F", fun c => withTag "50F" (F50F.parse c) F50F.ser F50F.json)
]

/-- field types whose model is exact only on part of the inputs (amounts inside the 15-digit region): `none` = not comparable -/
def registryPartial : List (String × (Text → Option (Res (Text × J)))) :=
  let ccyAmt (tag : String) (positive : Bool) : Text → Option (Res (Text × J)) := fun c =>
    if isAsciiT c && !amountExact (c.drop 3) (c.take 3) then none
    else some (withTag tag (CcyAmt.parse positive c) CcyAmt.ser CcyAmt.json)
  let dateCcyAmt (tag : String) : Text → Option (Res (Text × J)) := fun c =>
    if isAsciiT c && !amountExact (c.drop 9) ((c.drop 6).take 3) then none
    else some (withTag tag (DateCcyAmt.parse c) DateCcyAmt.ser DateCcyAmt.json)
  let balance (tag : String) : Text → Option (Res (Text × J)) := fun c =>
    if isAsciiT c && !amountExact (c.drop 10) ((c.drop 7).take 3) then none
    else some (withTag tag (Balance.parse c) Balance.ser Balance.json)
  let f34 : Text → Option (Res (Text × J)) := fun c =>
    let rest := if (c.drop 3).head? == some 'D' || (c.drop 3).head? == some 'C' then c.drop 4 else c.drop 3
    if isAsciiT c && !amountExact rest (c.take 3) then none
    else some (withTag "34F" (F34F.parse c) F34F.ser F34F.json)
  -- 19 prints two decimals: comparable when at most two were written and the digits fit (field 19 has no currency)
  let f19 : Text → Option (Res (Text × J)) := fun c =>
    let intD := (c.takeWhile Char.isDigit).length
    let dec := match c.findIdx? (fun ch => ch == ',' || ch == '.') with | some p => c.length - p - 1 | none => 0
    if isAsciiT c && (dec > 2 || intD + 2 > 15) then none
    else some (withTag "19" (F19.parse c) F19.ser (fun d => .obj [("amount", J.dec d)]))
  let f90 (tag : String) : Text → Option (Res (Text × J)) := fun c =>
    let d := Nat.min (c.takeWhile Char.isDigit).length 5
    if isAsciiT c && !amountExact (c.drop (d + 3)) ((c.drop d).take 3) then none
    else some (withTag tag (F90.parse c) F90.ser F90.json)
  -- 37H prints four decimals: comparable when at most four were written
  let f37 : Text → Option (Res (Text × J)) := fun c =>
    let a := match c with | _ :: 'N' :: r => r | _ :: r => r | [] => []
    let dec := match a.findIdx? (fun ch => ch == ',' || ch == '.') with | some p => a.length - p - 1 | none => 0
    if isAsciiT c && dec > 4 then none
    else some (withTag "37H" (F37H.parse c) F37H.ser F37H.json)
  -- 61 prints two decimals: comparable when at most two were written and the digits fit
  let f61 : Text → Option (Res (Text × J)) := fun c =>
    let r1 := c.drop 6
    let r2 := if decide (4 ≤ r1.length) && (r1.take 4).all Char.isDigit then r1.drop 4 else r1
    let r3 := r2.dropWhile Char.isAlpha
    let a := r3.takeWhile (fun ch => ch.isDigit || ch == ',' || ch == '.')
    let intD := (a.takeWhile Char.isDigit).length
    let dec := match a.findIdx? (fun ch => ch == ',' || ch == '.') with | some p => a.length - p - 1 | none => 0
    if isAsciiT c && (dec > 2 || intD + 2 > 15) then none
    else some (withTag "61" (F61.parse c) F61.ser F61.json)
  [("Field61", f61), ("Field37H", f37), ("Field36", fun c => some (withTag "36" (F36.parse c) plainDecimal (fun d => .obj [("rate", J.dec d)]))),
   ("Field90C", f90 "90C"), ("Field90D", f90 "90D"), ("Field34F", f34), ("Field19", f19),
   ("Field60F", balance "60F"), ("Field60M", balance "60M"), ("Field62F", balance "62F"), ("Field62M", balance "62M"),
   ("Field64", balance "64"), ("Field65", balance "65"),
   ("Field32B", ccyAmt "32B" true), ("Field33B", ccyAmt "33B" true), ("Field71F", ccyAmt "71F" false), ("Field71G", ccyAmt "71G" false),
   ("Field32A", dateCcyAmt "32A"), ("Field32C", dateCcyAmt "32C"), ("Field32D", dateCcyAmt "32D")]

def modelledNames : List String := registry.map (·.1) ++ registryPartial.map (·.1)

def run (name : String) (c : Text) : Option (Res (Text × J)) :=
  match registry.find? (fun p => p.1 == name) with
  | some p => some (p.2 c)
  | none =>
    match registryPartial.find? (fun p => p.1 == name) with
    | some p => p.2 c
    | none => none

/-- `E::parse_with_variant(content, letter)` for an option enum `E` (regenerated declarations, T3): the letter selects the
variant, the variant's struct parser reads the content.  `none` = not decided by the model: the struct is not modelled
(or the content is outside the exact region of an amount model), or no letter is given and the family has no letter-less
member (the library then applies a content heuristic). -/
def enumPwv (ename : String) (letter : Text) (c : Text) : Option (Res (Text × J)) :=
  match Generated.Enums.enums.find? (fun e => e.name == ename) with
  | none => none
  | some e =>
    if e.fallback then none
    else match e.variants.find? (fun v => v.letter == letter) with
      | some v => run v.structName c
      | none => if letter.isEmpty then none else some .err

end SwiftMT.Fields
