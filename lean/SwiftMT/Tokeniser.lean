import SwiftMT.Text
/-
The legacy field-map API: `parse_block4_fields`, `normalize_field_tag`, `extract_base_tag` (src/parser/generated.rs),
`FieldConsumptionTracker` (src/parser/swift_parser.rs) and the final distribution step of `split_into_sequences`
(src/parser/sequence_parser.rs).  Byte positions are character positions (ASCII texts; the implementation mixes a byte
index with `chars().nth`, which differs on non-ASCII input — a listed finding).
-/
namespace SwiftMT

structure Tok where
  tag : Text
  value : Text
  stamp : Nat
  deriving Repr, DecidableEq

def isAsciiDigitC (c : Char) : Bool := 48 ≤ c.toNat && c.toNat ≤ 57
def isAsciiUpperC (c : Char) : Bool := 65 ≤ c.toNat && c.toNat ≤ 90

def preservedNumbers : List Text :=
  ["11", "13", "21", "23", "25", "26", "28", "32", "33", "34", "37", "50", "51", "52", "53", "54", "55", "56", "57", "58",
   "59", "60", "62", "71", "77", "90"].map String.toList

/-- `normalize_field_tag` -/
def normalizeTag (raw : Text) : Text :=
  if raw.contains '#' then raw
  else
    let num := raw.takeWhile isAsciiDigitC
    let suffix := raw.dropWhile isAsciiDigitC
    if suffix.isEmpty then raw
    else if preservedNumbers.contains num then raw
    else if suffix.all isAsciiUpperC then num else raw

/-- `extract_base_tag` -/
def extractBaseTag (tag : Text) : Text := tag.takeWhile (· != '#')

/-- position stamp: high bits line number, low 16 bits running field index -/
def stampOf (line pos : Nat) : Nat := (line <<< 16) ||| (pos &&& 0xFFFF)

/-- The work of one loop iteration once the two colons of the tag are located (`fs`, `te`): the field produced,
the remaining text (from the `\n:` that ends the value) and the character just before it. -/
def tokStep (rest : Text) (fs te lineNo fieldPos : Nat) : Tok × Text × Option Char :=
  let afterColon := rest.drop (fs + 1)
  let rawTag := afterColon.take te
  let valueArea := afterColon.drop (te + 1)
  let vlen := match findSub ['\n', ':'] valueArea with
    | some n => n
    | none => valueArea.length
  (⟨normalizeTag rawTag, trim (valueArea.take vlen), stampOf lineNo fieldPos⟩,
   valueArea.drop vlen, (rest.take (fs + 1 + te + 1 + vlen)).getLast?)

/-- The tokeniser loop: `rest` = `content[current_pos..]`, `prev` = the character before `current_pos` (None at 0). -/
def tokLoop : Nat → Text → Option Char → Nat → Nat → List Tok → Option (List Tok)
  | 0, _, _, _, _, acc => some acc.reverse
  | fuel + 1, rest, prev, fieldPos, lineNo, acc =>
    if rest.isEmpty then some acc.reverse
    else
      match findChar ':' rest with
      | none => some acc.reverse
      | some fs =>
        match findChar ':' (rest.drop (fs + 1)) with
        | none => none       -- "Malformed field tag"
        | some te =>
          let lineNo' := if prev == some '\n' then lineNo + 1 else lineNo
          let r := tokStep rest fs te lineNo' fieldPos
          tokLoop fuel r.2.1 r.2.2 (fieldPos + 1) lineNo' (r.1 :: acc)

/-- `parse_block4_fields`, as the list of fields in input order (the HashMap groups it by tag, keeping this order
within each tag). -/
def tokenise (block4 : Text) : Option (List Tok) :=
  let content := trim block4
  tokLoop (content.length + 1) content none 0 1 []

/-! ### Sequential consumption -/

/-- consumed stamps for one tag -/
abbrev Consumed := List Nat

/-- `get_next_available`: first value whose stamp is not consumed -/
def getNextAvailable (consumed : Consumed) (values : List (Text × Nat)) : Option (Text × Nat) :=
  values.find? (fun v => !consumed.contains v.2)

/-- ask for the next occurrence and mark it consumed (what every caller does) -/
def takeNext (consumed : Consumed) (values : List (Text × Nat)) : Option (Text × Nat) × Consumed :=
  match getNextAvailable consumed values with
  | some v => (some v, v.2 :: consumed)
  | none => (none, consumed)

def serve (values : List (Text × Nat)) : Nat → Consumed → List (Option (Text × Nat))
  | 0, _ => []
  | n + 1, c => (takeNext c values).1 :: serve values n (takeNext c values).2

/-! ### Sequence split: the final distribution step -/

inductive SeqId where | a | b | c deriving DecidableEq, Repr

/-- which sequence the i-th field (in stamp order) goes to, given the boundaries the first half of the function computed -/
def assignSeq (alwaysA : List Text) (bStart cStart : Option Nat) (i : Nat) (tag : Text) : SeqId :=
  if alwaysA.contains tag then .a
  else match bStart with
    | none => .a
    | some b =>
      if i < b then .a
      else match cStart with
        | some c => if i ≥ c then .c else .b
        | none => .b

def distribute (alwaysA : List Text) (bStart cStart : Option Nat) (fields : List (Text × Text × Nat)) :
    List (SeqId × Text × Text × Nat) :=
  fields.zipIdx.map (fun p => (assignSeq alwaysA bStart cStart p.2 p.1.1, p.1))

end SwiftMT
