import SwiftMT.Json
import SwiftMT.Stage
import SwiftMT.Generated.Stages
import SwiftMT.Generated.Shapes
import SwiftMT.Generated.RuleTables
/-
C04 — models of the network-rule functions (`validate_cN_*` in src/messages/mt*.rs).

A message reaches the model in its JSON form (`serde_json::to_value` of the typed message).  `view_T : J → V_T` is the
rule-relevant abstraction of a type-T message (presence flags, codes, currencies, amounts, one record per sequence
occurrence); it reads the JSON through the *regenerated* struct declarations (`Generated.Shapes`), so a renamed key or a
re-typed field changes what the model sees.  `rules_T` transcribes each rule function over `V_T`; the aggregation
follows the *regenerated* stage list of `validate_network_rules` (`Generated.Stages`, C13).  A rule is its error code.
-/
namespace SwiftMT.Rules
open SwiftMT SwiftMT.Generated.Shapes

/-! ### reading a typed message from its JSON form -/

def resolve (n : String) : String :=
  let step (x : String) : String := match aliases.find? (·.1 == x) with | some p => p.2 | none => x
  step (step (step n))
def structDecl (n : String) : Option StructDecl := structs.find? (·.name == resolve n)
def enumKeys (ty : String) : List String :=
  match enums.find? (·.name == resolve ty) with
  | some e => e.variants.map (·.key)
  | none => []

def isEnum (ty : String) : Bool := (enums.find? (·.name == resolve ty)).isSome

/-- `self.<name>` of a value of struct `sname`: `Some` for a present (non-null) member.  For a member whose type is an
option enum the result is the payload struct of whichever variant is present (the variant key is dropped): a flattened
enum is found under its variant's key in the parent object, an embedded one as `{"<variant>": {...}}` under the field's key. -/
def field (sname : String) (j : J) (name : String) : Option J :=
  match structDecl sname with
  | none => none
  | some d =>
    match d.fields.find? (·.name == name) with
    | none => none
    | some f =>
      if f.flatten then (j.firstOf (enumKeys f.ty)).map (·.2)
      else match j.getSome f.key with
        | some v => if isEnum f.ty then (match v with | .obj [(_, p)] => some p | other => some other) else some v
        | none => none

def has (sname : String) (j : J) (name : String) : Bool := (field sname j name).isSome
def fieldList (sname : String) (j : J) (name : String) : List J :=
  match field sname j name with
  | some v => v.elems
  | none => []
def strOf (j : Option J) (k : String) : Text := (j.bind (·.strAt k)).getD []

abbrev Code := String

/-- the variant key under which a flattened option-enum member is present (`"59A"`, `"59F"`, `"59"`) -/
def fieldTag (sname : String) (j : J) (name : String) : Option String :=
  match structDecl sname with
  | none => none
  | some d =>
    match d.fields.find? (·.name == name) with
    | some f => if f.flatten then (j.firstOf (enumKeys f.ty)).map (·.1) else none
    | none => none

/-- a `const NAME: &[&str]` of src/messages/mtNNN.rs (regenerated, T5r) -/
def tbl (ty : Nat) (name : String) : List Text :=
  match Generated.RuleTables.lists.find? (fun p => p.1 == ty && p.2.1 == name) with
  | some p => p.2.2
  | none => []
def pairTbl (ty : Nat) (name : String) : List (Text × List Text) :=
  match Generated.RuleTables.pairs.find? (fun p => p.1 == ty && p.2.1 == name) with
  | some p => p.2.2
  | none => []
def numConst (ty : Nat) (name : String) : Nat :=
  match Generated.RuleTables.nums.find? (fun p => p.1 == ty && p.2.1 == name) with
  | some p => p.2.2
  | none => 0

/-! ### MT110 -/
structure V110 where
  cheques : List Text            -- currency of field 32a per cheque
def view110 (m : J) : V110 :=
  ⟨(fieldList "MT110" m "cheques").map (fun c => strOf (field "MT110Cheque" c "field_32") "currency")⟩
def r110_c1 (v : V110) : Option Code := if v.cheques.length > 10 then some "T10" else none
def r110_c2 (v : V110) : Option Code :=
  match v.cheques with
  | [] => none
  | first :: rest => if rest.any (· != first) then some "C02" else none

/-! ### MT200 -/
structure V200 where
  lines72 : List Text
def view200 (m : J) : V200 := ⟨match field "MT200" m "field_72" with | some f => (f.list "information").filterMap J.str? | none => []⟩

def upperAsciiT (t : Text) : Text := t.map Char.toUpper
/-- `extract_72_codes`: for every line that (trimmed) starts with `/`: the text up to the next `/`, else up to the first
white space, else the rest — upper-cased; nothing for a lone `/`. -/
def code72 (line : Text) : Option Text :=
  match trim line with
  | '/' :: rest =>
    match findChar '/' rest with
    | some p => some (upperAsciiT (rest.take p))
    | none =>
      if rest.isEmpty then none
      else some (upperAsciiT (rest.takeWhile (fun c => !isWs c)))
  | _ => none
def special72 : List Text := tbl 200 "SPECIAL_72_CODES"
def r200_t80 (v : V200) : List Code := ((v.lines72.filterMap code72).filter (special72.contains ·)).map (fun _ => "T80")

/-! ### MT202 / MT205 -/
structure V202 where
  a56 : Bool
  a57 : Bool
  b56 : Bool
  b57 : Bool
def view202 (m : J) : V202 :=
  let b := field "MT202" m "sequence_b"
  ⟨has "MT202" m "field_56", has "MT202" m "field_57",
   (b.map (fun s => has "MT202SequenceB" s "intermediary")).getD false,
   (b.map (fun s => has "MT202SequenceB" s "account_with_institution")).getD false⟩
def r202_c1 (v : V202) : Option Code := if v.a56 && !v.a57 then some "C81" else none
def r202_c2 (v : V202) : Option Code := if v.b56 && !v.b57 then some "C68" else none

structure V205 where
  i56 : Bool
  i57 : Bool
def view205 (m : J) : V205 := ⟨has "MT205" m "intermediary", has "MT205" m "account_with_institution"⟩
def r205_c1 (v : V205) : Option Code := if v.i56 && !v.i57 then some "C81" else none

/-! ### MT204 -/
structure Tx204 where
  ccy : Text
  amount : Option Dec        -- `none`: the JSON number is not a plain decimal (outside the exact model)
structure V204 where
  sum19 : Option Dec
  txs : List Tx204
def view204 (m : J) : V204 :=
  ⟨(field "MT204" m "sum_of_amounts").bind (·.decAt "amount"),
   (fieldList "MT204" m "transactions").map (fun t =>
      let ca := field "MT204Transaction" t "currency_amount"
      ⟨strOf ca "currency", ca.bind (·.decAt "amount")⟩)⟩

/-- value · 10^s as a natural number (for comparing decimals of different scales) -/
def Dec.atScale (d : Dec) (s : Nat) : Nat := d.mant * 10 ^ (s - d.scale)
def maxScale (ds : List Dec) : Nat := ds.foldl (fun a d => max a d.scale) 0
/-- |a - Σ bs| > 1/100, exactly -/
def sumDiffersByMoreThanCent (a : Dec) (bs : List Dec) : Bool :=
  let s := max 2 (maxScale (a :: bs))
  let total := (bs.map (Dec.atScale · s)).foldl (· + ·) 0
  let av := Dec.atScale a s
  let diff := if av ≥ total then av - total else total - av
  diff > 10 ^ (s - 2)
def r204_c1 (v : V204) : Option Code :=
  if v.txs.isEmpty then none else
  match v.sum19, v.txs.mapM (·.amount) with
  | some a, some bs => if sumDiffersByMoreThanCent a bs then some "C01" else none
  | _, _ => none
def distinctCount (l : List Text) : Nat := l.eraseDups.length
def r204_c2 (v : V204) : Option Code :=
  if v.txs.isEmpty then none else if distinctCount (v.txs.map (·.ccy)) > 1 then some "C02" else none
def r204_c3 (v : V204) : Option Code := if v.txs.length > numConst 204 "MAX_SEQUENCE_B_OCCURRENCES" then some "T10" else none

/-! ### MT210 -/
structure Tx210 where
  has50 : Bool
  has52 : Bool
  ccy : Text
structure V210 where
  txs : List Tx210
def view210 (m : J) : V210 :=
  ⟨(fieldList "MT210" m "transactions").map (fun t =>
    ⟨has "MT210Transaction" t "ordering_customer", has "MT210Transaction" t "ordering_institution",
     strOf (field "MT210Transaction" t "currency_amount") "currency"⟩)⟩
def r210_c1 (v : V210) : Option Code := if v.txs.length > numConst 210 "MAX_REPETITIVE_SEQUENCES" then some "T10" else none
def r210_c2 (v : V210) : List Code :=
  v.txs.flatMap (fun t => if t.has50 && t.has52 then ["C06"] else if !t.has50 && !t.has52 then ["C06"] else [])
def r210_c3 (v : V210) : Option Code :=
  match v.txs with
  | [] => none
  | first :: rest => if rest.any (·.ccy != first.ccy) then some "C02" else none

/-! ### MT910 -/
structure V910 where
  has50 : Bool
  has52 : Bool
def view910 (m : J) : V910 := ⟨has "MT910" m "field_50", has "MT910" m "field_52"⟩
def r910_c1 (v : V910) : Option Code := if !v.has50 && !v.has52 then some "C06" else none

/-! ### MT920 -/
structure F34 where
  ccy : Text
  indicator : Option Text
structure Seq920 where
  type12 : Text
  debit : Option F34
  credit : Option F34
structure V920 where
  seqs : List Seq920
def f34 (j : J) : F34 := ⟨(j.strAt "currency").getD [], j.strAt "indicator"⟩
def view920 (m : J) : V920 :=
  ⟨(fieldList "MT920" m "sequence").map (fun s =>
    ⟨strOf (field "MT920Sequence" s "field_12") "type_code",
     (field "MT920Sequence" s "floor_limit_debit").map f34, (field "MT920Sequence" s "floor_limit_credit").map f34⟩)⟩
def types920 : List Text := tbl 920 "VALID_MESSAGE_TYPES"
def r920_t88 (v : V920) : List Code := v.seqs.flatMap (fun s => if types920.contains s.type12 then [] else ["T88"])
def r920_c1 (v : V920) : List Code := v.seqs.flatMap (fun s => if s.type12 == "942".toList && s.debit.isNone then ["C22"] else [])
def r920_c2 (v : V920) : List Code :=
  v.seqs.flatMap (fun s =>
    match s.debit, s.credit with
    | some d, none => if d.indicator.isSome then ["C23"] else []
    | some d, some c => (if d.indicator != some ['D'] then ["C23"] else []) ++ (if c.indicator != some ['C'] then ["C23"] else [])
    | none, _ => [])
def r920_c3 (v : V920) : List Code :=
  v.seqs.flatMap (fun s => match s.debit, s.credit with | some d, some c => if d.ccy != c.ccy then ["C40"] else [] | _, _ => [])

/-! ### MT941 / MT950 (currency consistency on the first two letters) -/
def pre2 (t : Text) : Text := t.take 2
structure V941 where
  base : Text                 -- currency of 62F
  others : List Text          -- currencies of 60F, 90D, 90C, 64, 65* in this order (present ones)
def view941 (m : J) : V941 :=
  let one (n : String) : List Text := match field "MT941" m n with | some f => [(f.strAt "currency").getD []] | none => []
  ⟨strOf (field "MT941" m "field_62f") "currency",
   one "field_60f" ++ one "field_90d" ++ one "field_90c" ++ one "field_64" ++
     (fieldList "MT941" m "field_65").map (fun f => (f.strAt "currency").getD [])⟩
def r941_c1 (v : V941) : List Code := (v.others.filter (fun c => pre2 c != pre2 v.base)).map (fun _ => "C27")

structure V950 where
  c60 : Text
  c62 : Text
  c64 : Option Text
def view950 (m : J) : V950 :=
  ⟨strOf (field "MT950" m "field_60") "currency", strOf (field "MT950" m "field_62") "currency",
   (field "MT950" m "field_64").map (fun f => (f.strAt "currency").getD [])⟩
def r950_c1 (v : V950) : List Code :=
  (if pre2 v.c62 != pre2 v.c60 then ["C27"] else []) ++
  (match v.c64 with | some c => if pre2 c != pre2 v.c60 then ["C27"] else [] | none => [])

/-! ### MT935 -/
structure R37H where
  indicator : Text
  negative : Bool            -- `is_negative.is_some()`
  rate : Option Dec          -- |rate|; `none`: not a plain decimal (outside the exact model)
structure Seq935 where
  has23 : Bool
  has25 : Bool
  value23 : Text             -- function_code ++ {:02}(days) ++ reference, as the rule re-assembles it
  rates : List R37H
structure V935 where
  seqs : List Seq935
def absDec (j : J) : Option Dec :=
  match j with
  | .num ('-' :: t) => J.dec? (.num t)
  | other => J.dec? other
def view935 (m : J) : V935 :=
  ⟨(fieldList "MT935" m "rate_changes").map (fun s =>
    let f23 := field "MT935RateChange" s "field_23"
    let v23 := match f23 with
      | some f => (f.strAt "function_code").getD [] ++
          (match (f.getSome "days").bind J.dec? with | some d => padLeft (natDigits d.mant) 2 | none => []) ++
          (f.strAt "reference").getD []
      | none => []
    ⟨f23.isSome, has "MT935RateChange" s "field_25", v23,
     (fieldList "MT935RateChange" s "field_37h").map (fun r =>
        ⟨(r.strAt "rate_indicator").getD [], (r.getSome "is_negative").isSome, (r.getSome "rate").bind absDec⟩)⟩)⟩
def r935_c1 (v : V935) : Option Code := if v.seqs.length == 0 then some "T10" else if v.seqs.length > 10 then some "T10" else none
def r935_c2 (v : V935) : List Code :=
  v.seqs.flatMap (fun s => if s.has23 && s.has25 then ["C83"] else if !s.has23 && !s.has25 then ["C83"] else [])
def functions23 : List Text := tbl 935 "VALID_23_FUNCTION_CODES"
def r935_f23one (s : Seq935) : List Code :=
  if !s.has23 then [] else
  let value := s.value23
  if blen value < 4 then ["T26"] else
  let currency := value.take 3
  let remaining := value.drop 3
  let hasDays := remaining.length ≥ 2 && (remaining.take 2).all Char.isDigit
  let function := if hasDays then remaining.drop 2 else remaining
  (if currency.all Char.isAlpha then [] else ["T26"]) ++
  (if functions23.contains function then [] else ["T26"]) ++
  (if hasDays && function != "NOTICE".toList then ["T26"] else [])
def r935_f23 (v : V935) : List Code := v.seqs.flatMap r935_f23one
/-- |rate| < 0.00001 exactly -/
def tiny (d : Dec) : Bool := d.mant * 100000 < 10 ^ d.scale
def r935_37h (v : V935) : List Code :=
  v.seqs.flatMap (fun s => s.rates.flatMap (fun r =>
    (if r.indicator != ['C'] && r.indicator != ['D'] then ["T51"] else []) ++
    (match r.rate with | some d => if tiny d && r.negative then ["T14"] else [] | none => [])))

/-! ### MT940 / MT942 -/
def prefix2 (t : Text) : Text := if blen t ≥ 2 then t.take 2 else t
structure V940 where
  c60 : Text
  c62 : Text
  c64 : Option Text
  c65 : List Text
def view940 (m : J) : V940 :=
  ⟨strOf (field "MT940" m "field_60f") "currency", strOf (field "MT940" m "field_62f") "currency",
   (field "MT940" m "field_64").map (fun f => (f.strAt "currency").getD []),
   (fieldList "MT940" m "field_65").map (fun f => (f.strAt "currency").getD [])⟩
def r940_c1 (_ : V940) : List Code := []
def r940_c2 (v : V940) : List Code :=
  (if prefix2 v.c62 != prefix2 v.c60 then ["C27"] else []) ++
  (match v.c64 with | some c => if prefix2 c != prefix2 v.c60 then ["C27"] else [] | none => []) ++
  (v.c65.filter (fun c => prefix2 c != prefix2 v.c60)).map (fun _ => "C27")

structure V942 where
  debit : F34
  credit : Option F34
  c90d : Option Text
  c90c : Option Text
def view942 (m : J) : V942 :=
  ⟨match field "MT942" m "floor_limit_debit" with | some f => f34 f | none => ⟨[], none⟩,
   (field "MT942" m "floor_limit_credit").map f34,
   (field "MT942" m "field_90d").map (fun f => (f.strAt "currency").getD []),
   (field "MT942" m "field_90c").map (fun f => (f.strAt "currency").getD [])⟩
def r942_c1 (v : V942) : List Code :=
  let base := pre2 v.debit.ccy
  let chk (c : Option Text) : List Code := match c with | some x => if pre2 x != base then ["C27"] else [] | none => []
  chk (v.credit.map (·.ccy)) ++ chk v.c90d ++ chk v.c90c
def r942_c2 (v : V942) : Option Code :=
  match v.credit with
  | some c => if v.debit.indicator != some ['D'] then some "C23" else if c.indicator != some ['C'] then some "C23" else none
  | none => if v.debit.indicator.isSome then some "C23" else none
def r942_c3 (_ : V942) : List Code := []

/-! ### MT192 / MT196 / MT292 / MT296 -/
structure V192 where
  has79 : Bool
  firstLine : Option Text
def view192 (m : J) : V192 :=
  let f := field "MT192" m "field_79"
  ⟨f.isSome, (f.bind (fun x => (x.list "information").head?)).bind J.str?⟩
/-- `first_line.split('/')` -/
def splitSlash : Text → List Text
  | [] => [[]]
  | c :: cs =>
    if c == '/' then [] :: splitSlash cs
    else match splitSlash cs with
      | [] => [[c]]
      | l :: ls => (c :: l) :: ls
def cancelCode (v : V192) : Option Text :=
  match v.firstLine with
  | some l =>
    if l.head? == some '/' then
      match splitSlash l with
      | _ :: p1 :: _ => if blen p1 == 4 then some p1 else none
      | _ => none
    else none
  | none => none
def codes79 : List Text := tbl 192 "MT192_VALID_79_CODES"
def r192_c1 (v : V192) : Option Code := if !v.has79 then some "C25" else none
def r192_codes (v : V192) : List Code :=
  match cancelCode v with
  | some c => if codes79.contains c then [] else ["T47"]
  | none => []
structure V196 where
  unit : Unit
def r196_c1 (_ : V196) : Option Code := none
/-- members of the JSON object that no declared (non-flattened) field of the struct owns: the flattened catch-all map -/
def extraKeys (sname : String) (j : J) : List String :=
  match structDecl sname, j with
  | some d, .obj kv => (kv.map (·.1)).filter (fun k => !(d.fields.any (fun f => !f.flatten && f.key == k)))
  | _, _ => []
structure V292 where
  has79 : Bool
  hasOriginal : Bool
def view292 (sname : String) (m : J) : V292 := ⟨has sname m "field_79", !(extraKeys sname m).isEmpty⟩
def r292_c1 (v : V292) : Option Code := if !v.has79 && !v.hasOriginal then some "C25" else none
def r296_c1 (v : V292) : Option Code := if v.has79 && v.hasOriginal then some "C31" else none

/-! ### MT103 -/
structure E23 where
  code : Text
  hasInfo : Bool
structure V103 where
  b23 : Text
  e23 : Option (List E23)
  ccy32a : Text
  ccy33b : Option Text
  has36 : Bool
  has53 : Bool
  has54 : Bool
  has55 : Bool
  has56 : Bool
  has57 : Bool
  code71a : Text
  has71f : Bool            -- `field_71f.is_some() && !is_empty()`
  ccy71g : Option Text
  acct59 : Bool            -- the beneficiary carries an account (options no-letter and A)
def e23list (sname : String) (m : J) (name : String) : Option (List E23) :=
  (field sname m name).map (fun a => a.elems.map (fun e => ⟨(e.strAt "instruction_code").getD [], (e.getSome "additional_info").isSome⟩))
def view103 (m : J) : V103 :=
  let f59 := field "MT103" m "field_59"
  { b23 := strOf (field "MT103" m "field_23b") "instruction_code",
    e23 := e23list "MT103" m "field_23e",
    ccy32a := strOf (field "MT103" m "field_32a") "currency",
    ccy33b := (field "MT103" m "field_33b").map (fun f => (f.strAt "currency").getD []),
    has36 := has "MT103" m "field_36", has53 := has "MT103" m "field_53", has54 := has "MT103" m "field_54",
    has55 := has "MT103" m "field_55", has56 := has "MT103" m "field_56", has57 := has "MT103" m "field_57",
    code71a := strOf (field "MT103" m "field_71a") "code",
    has71f := !(fieldList "MT103" m "field_71f").isEmpty,
    ccy71g := (field "MT103" m "field_71g").map (fun f => (f.strAt "currency").getD []),
    acct59 := match fieldTag "MT103" m "field_59" with
      | some "59F" => false
      | _ => (f59.bind (·.getSome "account")).isSome }

def r103_23b (v : V103) : Option Code := if (tbl 103 "MT103_VALID_23B_CODES").contains v.b23 then none else some "T36"

def positionOf (l : List Text) (c : Text) : Option Nat := l.findIdx? (· == c)
/-- first adjacent pair that is out of order (the loop breaks after reporting one) -/
def outOfOrder : List Nat → Bool
  | a :: b :: rest => b < a || outOfOrder (b :: rest)
  | _ => false
/-- the per-element pass of `validate_field_23e` with the running `seen_codes` set -/
def e23Loop (valid withInfo : List Text) : List E23 → List Text → List Code
  | [], _ => []
  | e :: rest, seen =>
    (if valid.contains e.code then [] else ["T48"]) ++
    (if e.hasInfo && !(withInfo.contains e.code) then ["D97"] else []) ++
    (if seen.contains e.code then ["E46"] else []) ++
    e23Loop valid withInfo rest (e.code :: seen)
def r103_23e (v : V103) : List Code :=
  match v.e23 with
  | none => []
  | some es =>
    let order := tbl 103 "FIELD_23E_CODE_ORDER"
    e23Loop (tbl 103 "MT103_VALID_23E_CODES") (tbl 103 "CODES_WITH_ADDITIONAL_INFO") es [] ++
    (if outOfOrder (es.filterMap (fun e => positionOf order e.code)) then ["D98"] else []) ++
    es.flatMap (fun e => (pairTbl 103 "INVALID_23E_COMBINATIONS").flatMap (fun p =>
      if e.code == p.1 then (es.filter (fun o => p.2.contains o.code)).map (fun _ => "D67") else []))
def r103_c1 (v : V103) : Option Code :=
  match v.ccy33b with
  | some c33 => if v.ccy32a != c33 then (if !v.has36 then some "D75" else none) else (if v.has36 then some "D75" else none)
  | none => if v.has36 then some "D75" else none
def r103_c3 (v : V103) : List Code :=
  if v.b23 == "SPRI".toList then
    (match v.e23 with
     | some es => (es.filter (fun e => !((tbl 103 "REMIT_SPRI_ALLOWED_23E").contains e.code))).map (fun _ => "E01")
     | none => [])
  else if v.b23 == "SSTD".toList || v.b23 == "SPAY".toList then (if v.e23.isSome then ["E02"] else [])
  else []
def r103_c4 (v : V103) : Option Code := if v.has55 && (!v.has53 || !v.has54) then some "E06" else none
def r103_c5 (v : V103) : Option Code := if v.has56 && !v.has57 then some "C81" else none
def r103_c6 (v : V103) : Option Code := if v.b23 == "SPRI".toList && v.has56 then some "E16" else none
def r103_c7 (v : V103) : List Code :=
  if v.code71a == "OUR".toList then (if v.has71f then ["E13"] else [])
  else if v.code71a == "SHA".toList then (if v.ccy71g.isSome then ["D50"] else [])
  else if v.code71a == "BEN".toList then (if !v.has71f then ["E15"] else []) ++ (if v.ccy71g.isSome then ["E15"] else [])
  else []
def r103_c8 (v : V103) : Option Code := if (v.has71f || v.ccy71g.isSome) && v.ccy33b.isNone then some "D51" else none
def r103_c9 (v : V103) : Option Code :=
  match v.ccy71g with
  | some c => if v.ccy32a != c then some "C02" else none
  | none => none
def r103_c13 (v : V103) : Option Code :=
  match v.e23 with
  | some es => if es.any (fun e => e.code == "CHQB".toList) && v.acct59 then some "E18" else none
  | none => none
def r103_c16 (v : V103) : List Code :=
  if !v.has56 then (match v.e23 with
    | some es => (es.filter (fun e => e.code == "TELI".toList || e.code == "PHOI".toList)).map (fun _ => "E44")
    | none => []) else []
def r103_c17 (v : V103) : List Code :=
  if !v.has57 then (match v.e23 with
    | some es => (es.filter (fun e => e.code == "TELE".toList || e.code == "PHON".toList)).map (fun _ => "E45")
    | none => []) else []

/-! ### MT101 -/
structure Tx101 where
  has36 : Bool
  has21f : Bool
  has33b : Bool
  has50cl : Bool           -- instructing party (50C/50L) in the transaction
  has50fgh : Bool          -- ordering customer (50F/50G/50H) in the transaction
  has52 : Bool
  has56 : Bool
  has57 : Bool
  ccy32b : Text
  ccy33b : Text
  zero32b : Option Bool    -- |amount| < 0.01 (`none`: not a plain decimal)
  e23 : Option (List E23)
structure V101 where
  has21r : Bool
  a50cl : Bool
  a50fgh : Bool
  a52 : Bool
  txs : List Tx101
/-- |d| < 1/100 -/
def lessThanCent (d : Dec) : Bool := d.mant * 100 < 10 ^ d.scale
def view101 (m : J) : V101 :=
  { has21r := has "MT101" m "field_21r", a50cl := has "MT101" m "instructing_party", a50fgh := has "MT101" m "ordering_customer",
    a52 := has "MT101" m "field_52a",
    txs := (fieldList "MT101" m "transactions").map (fun t =>
      let f32 := field "MT101Transaction" t "field_32b"
      { has36 := has "MT101Transaction" t "field_36", has21f := has "MT101Transaction" t "field_21f",
        has33b := has "MT101Transaction" t "field_33b", has50cl := has "MT101Transaction" t "instructing_party_tx",
        has50fgh := has "MT101Transaction" t "ordering_customer_tx", has52 := has "MT101Transaction" t "field_52",
        has56 := has "MT101Transaction" t "field_56", has57 := has "MT101Transaction" t "field_57",
        ccy32b := strOf f32 "currency", ccy33b := strOf (field "MT101Transaction" t "field_33b") "currency",
        zero32b := ((f32.bind (·.getSome "amount")).bind absDec).map lessThanCent,
        e23 := e23list "MT101Transaction" t "field_23e" }) }
def r101_c1 (v : V101) : List Code := v.txs.flatMap (fun t => if t.has36 && !t.has21f then ["D54"] else [])
def r101_c2 (v : V101) : List Code :=
  v.txs.flatMap (fun t =>
    if t.has33b then
      (match t.zero32b with
       | some true => if t.has36 then ["D60"] else []
       | some false => if !t.has36 then ["D60"] else []
       | none => [])
    else (if t.has36 then ["D60"] else []))
def r101_c3 (v : V101) : Option Code :=
  let inAll := !v.txs.isEmpty && v.txs.all (·.has50fgh)
  let inAny := v.txs.any (·.has50fgh)
  if v.a50fgh && inAny then some "D61" else if !v.a50fgh && !inAll then some "D61" else none
def r101_c4 (v : V101) : Option Code := if v.a50cl && v.txs.any (·.has50cl) then some "D62" else none
def r101_c5 (v : V101) : List Code := v.txs.flatMap (fun t => if t.has33b && t.ccy32b == t.ccy33b then ["D68"] else [])
def r101_c6 (v : V101) : Option Code := if v.a52 && v.txs.any (·.has52) then some "D64" else none
def r101_c7 (v : V101) : List Code := v.txs.flatMap (fun t => if t.has56 && !t.has57 then ["D65"] else [])
def r101_c8 (v : V101) : Option Code :=
  if !v.has21r then none else
  match v.txs with
  | [] => none
  | first :: rest => if rest.any (·.ccy32b != first.ccy32b) then some "D98" else none
def r101_c9 (v : V101) : List Code :=
  v.txs.flatMap (fun t =>
    match t.zero32b with
    | some true =>
      let equi := match t.e23 with | some es => es.any (fun e => e.code == "EQUI".toList) | none => false
      if equi then (if !t.has33b then ["E54"] else [])
      else (if t.has33b then ["E54"] else []) ++ (if t.has21f then ["E54"] else [])
    | _ => [])
/-- per-element pass of MT101 `validate_field_23e` (OTHR may repeat) -/
def e23Loop101 (valid withInfo : List Text) : List E23 → List Text → List Code
  | [], _ => []
  | e :: rest, seen =>
    (if valid.contains e.code then [] else ["T47"]) ++
    (if e.hasInfo && !(withInfo.contains e.code) then ["D66"] else []) ++
    (if e.code != "OTHR".toList && seen.contains e.code then ["E46"] else []) ++
    e23Loop101 valid withInfo rest (if e.code != "OTHR".toList then e.code :: seen else seen)
def r101_23e (v : V101) : List Code :=
  v.txs.flatMap (fun t =>
    match t.e23 with
    | none => []
    | some es =>
      e23Loop101 (tbl 101 "MT101_VALID_23E_CODES") (tbl 101 "CODES_WITH_ADDITIONAL_INFO") es [] ++
      es.flatMap (fun e => (pairTbl 101 "INVALID_23E_COMBINATIONS").flatMap (fun p =>
        if e.code == p.1 then (es.filter (fun o => p.2.contains o.code)).map (fun _ => "D67") else [])))

/-! ### MT104 (and the parts MT107 shares) -/
structure Tx104 where
  e23 : Option E23           -- field 23E of the transaction
  has21e : Bool
  hasCreditor : Bool
  hasInstr : Bool
  has52 : Bool
  has26t : Bool
  has71a : Bool
  has77b : Bool
  has36 : Bool
  ccy32b : Text
  amt32b : Option Dec
  c33b : Option (Text × Option Dec)
  ccy71f : Option Text
  ccy71g : Option Text
structure V104 where
  has21r : Bool
  e23 : Option E23
  has21e : Bool
  hasCreditor : Bool
  hasInstr : Bool
  has52 : Bool
  has26t : Bool
  has71a : Bool
  has77b : Bool
  has72 : Bool
  txs : List Tx104
  c32b : Option (Text × Option Dec)      -- sequence C settlement amount
  amt19 : Option (Option Dec)
  ccy71f : Option Text
  ccy71g : Option Text
def e23one (f : Option J) : Option E23 :=
  f.map (fun e => ⟨(e.strAt "instruction_code").getD [], (e.getSome "additional_info").isSome⟩)
def ccyAmt (f : Option J) : Option (Text × Option Dec) :=
  f.map (fun x => ((x.strAt "currency").getD [], (x.getSome "amount").bind absDec))
def tx104 (tn : String) (t : J) : Tx104 :=
  let f32 := field tn t "field_32b"
  { e23 := e23one (field tn t "field_23e"), has21e := has tn t "field_21e", hasCreditor := has tn t "creditor_tx",
    hasInstr := has tn t "instructing_party_tx", has52 := has tn t "field_52", has26t := has tn t "field_26t",
    has71a := has tn t "field_71a", has77b := has tn t "field_77b", has36 := has tn t "field_36",
    ccy32b := strOf f32 "currency", amt32b := (f32.bind (·.getSome "amount")).bind absDec,
    c33b := ccyAmt (field tn t "field_33b"),
    ccy71f := (field tn t "field_71f").map (fun f => (f.strAt "currency").getD []),
    ccy71g := (field tn t "field_71g").map (fun f => (f.strAt "currency").getD []) }
def view104 (sn tn : String) (m : J) : V104 :=
  { has21r := has sn m "field_21r", e23 := e23one (field sn m "field_23e"), has21e := has sn m "field_21e",
    hasCreditor := has sn m "creditor", hasInstr := has sn m "instructing_party", has52 := has sn m "field_52",
    has26t := has sn m "field_26t", has71a := has sn m "field_71a", has77b := has sn m "field_77b", has72 := has sn m "field_72",
    txs := (fieldList sn m "transactions").map (tx104 tn),
    c32b := ccyAmt (field sn m "field_32b"),
    amt19 := (field sn m "field_19").map (fun f => (f.getSome "amount").bind absDec),
    ccy71f := (field sn m "field_71f").map (fun f => (f.strAt "currency").getD []),
    ccy71g := (field sn m "field_71g").map (fun f => (f.strAt "currency").getD []) }

def codeIs (e : Option E23) (c : String) : Bool := match e with | some x => x.code == c.toList | none => false
def r104_c1 (v : V104) : List Code :=
  match v.e23 with
  | some a =>
    if a.code == "RFDD".toList then v.txs.flatMap (fun t => if t.e23.isNone then ["C75"] else [])
    else v.txs.flatMap (fun t => if t.e23.isSome then ["C75"] else [])
  | none => v.txs.flatMap (fun t => if t.e23.isNone then ["C75"] else [])
def r104_c2 (code : Code) (v : V104) : Option Code :=
  let inAll := !v.txs.isEmpty && v.txs.all (·.hasCreditor)
  let inAny := v.txs.any (·.hasCreditor)
  if v.hasCreditor && inAny then some code else if !v.hasCreditor && !inAll then some code else none
def r104_c3 (v : V104) : List Code :=
  (if v.has21e && v.txs.any (·.has21e) then ["D73"] else []) ++
  (if v.has26t && v.txs.any (·.has26t) then ["D73"] else []) ++
  (if v.has52 && v.txs.any (·.has52) then ["D73"] else []) ++
  (if v.has71a && v.txs.any (·.has71a) then ["D73"] else []) ++
  (if v.has77b && v.txs.any (·.has77b) then ["D73"] else []) ++
  (if v.hasInstr && v.txs.any (·.hasInstr) then ["D73"] else [])
def r104_c4 (v : V104) : List Code :=
  (if v.has21e && !v.hasCreditor then ["D77"] else []) ++
  v.txs.flatMap (fun t => if t.has21e && !t.hasCreditor then ["D77"] else [])
def r104_c5 (v : V104) : Option Code :=
  let rtnd := codeIs v.e23 "RTND"
  if rtnd && !v.has72 then some "C82" else if !rtnd && v.has72 then some "C82" else none
def r104_c6 (v : V104) : List Code :=
  let fb := v.txs.any (·.ccy71f.isSome)
  let gb := v.txs.any (·.ccy71g.isSome)
  (if fb && v.ccy71f.isNone then ["D79"] else []) ++ (if !fb && v.ccy71f.isSome then ["D79"] else []) ++
  (if gb && v.ccy71g.isNone then ["D79"] else []) ++ (if !gb && v.ccy71g.isSome then ["D79"] else [])
/-- |a - b| < 1/100 exactly -/
def withinCent (a b : Dec) : Bool :=
  let s := max 2 (max a.scale b.scale)
  let x := Dec.atScale a s
  let y := Dec.atScale b s
  (if x ≥ y then x - y else y - x) < 10 ^ (s - 2)
def r104_c7 (v : V104) : List Code :=
  v.txs.flatMap (fun t =>
    match t.c33b, t.amt32b with
    | some (c33, some a33), some a32 => if t.ccy32b == c33 && withinCent a32 a33 then ["D21"] else []
    | _, _ => [])
def r104_c8 (v : V104) : List Code :=
  v.txs.flatMap (fun t =>
    match t.c33b with
    | some (c33, _) => if t.ccy32b != c33 then (if !t.has36 then ["D75"] else []) else (if t.has36 then ["D75"] else [])
    | none => if t.has36 then ["D75"] else [])
def sumDec (ds : List Dec) : Dec :=
  let s := maxScale ds
  ⟨(ds.map (Dec.atScale · s)).foldl (· + ·) 0, s⟩
def r104_c9 (v : V104) : Option Code :=
  match v.c32b with
  | none => none
  | some (_, settle) =>
    match settle, v.txs.mapM (·.amt32b) with
    | some a, some bs =>
      let eq := withinCent a (sumDec bs)
      if eq && v.amt19.isSome then some "D80" else if !eq && v.amt19.isNone then some "D80" else none
    | _, _ => none
def r104_c10 (v : V104) : Option Code :=
  match v.amt19 with
  | some (some a) =>
    (match v.txs.mapM (·.amt32b) with
     | some bs => if sumDiffersByMoreThanCent a bs then some "C01" else none
     | none => none)
  | _ => none
/-- first element that differs from the head: reported once -/
def anyDiffersFromFirst : List Text → Bool
  | [] => false
  | first :: rest => rest.any (· != first)
def r104_c11 (v : V104) : List Code :=
  (if anyDiffersFromFirst (v.txs.map (·.ccy32b) ++ (match v.c32b with | some (c, _) => [c] | none => [])) then ["C02"] else []) ++
  (if anyDiffersFromFirst (v.txs.filterMap (·.ccy71g) ++ v.ccy71g.toList) then ["C02"] else []) ++
  (if anyDiffersFromFirst (v.txs.filterMap (·.ccy71f) ++ v.ccy71f.toList) then ["C02"] else [])
def r104_c12 (v : V104) : List Code :=
  if codeIs v.e23 "RFDD" then
    v.txs.flatMap (fun t =>
      (if t.has21e then ["C96"] else []) ++ (if t.hasCreditor then ["C96"] else []) ++ (if t.has52 then ["C96"] else []) ++
      (if t.ccy71f.isSome then ["C96"] else []) ++ (if t.ccy71g.isSome then ["C96"] else [])) ++
    (if v.c32b.isSome then ["C96"] else [])
  else (if v.has21r then ["C96"] else []) ++ (if v.c32b.isNone then ["C96"] else [])
def e23check (valid : List Text) (withInfo : Text) (info : Code) (e : Option E23) : List Code :=
  match e with
  | some x => (if valid.contains x.code then [] else ["T47"]) ++ (if x.hasInfo && x.code != withInfo then [info] else [])
  | none => []
def word (ty : Nat) (name : String) : Text :=
  match Generated.RuleTables.words.find? (fun p => p.1 == ty && p.2.1 == name) with
  | some p => p.2.2
  | none => []
def r104_23e_a (v : V104) : List Code := e23check (tbl 104 "MT104_VALID_23E_CODES_SEQ_A") (word 104 "CODE_WITH_ADDITIONAL_INFO") "D81" v.e23
def r104_23e_b (v : V104) : List Code :=
  v.txs.flatMap (fun t => e23check (tbl 104 "MT104_VALID_23E_CODES_SEQ_B") (word 104 "CODE_WITH_ADDITIONAL_INFO") "D81" t.e23)

/-! ### MT107 (same views as MT104) -/
def placement (inA : Bool) (txs : List Bool) : Bool :=
  let inAll := !txs.isEmpty && txs.all id
  let inAny := txs.any id
  (inA && inAny) || (!inA && !inAll)
def r107_c1 (v : V104) : List Code :=
  (if placement v.e23.isSome (v.txs.map (·.e23.isSome)) then ["D86"] else []) ++
  (if placement v.hasCreditor (v.txs.map (·.hasCreditor)) then ["D86"] else [])
def r107_c2 (v : V104) : List Code :=
  (if v.has21e && v.txs.any (·.has21e) then ["D73"] else []) ++
  (if v.has26t && v.txs.any (·.has26t) then ["D73"] else []) ++
  (if v.has77b && v.txs.any (·.has77b) then ["D73"] else []) ++
  (if v.has71a && v.txs.any (·.has71a) then ["D73"] else []) ++
  (if v.has52 && v.txs.any (·.has52) then ["D73"] else []) ++
  (if v.hasInstr && v.txs.any (·.hasInstr) then ["D73"] else [])
def r107_c4 (v : V104) : Option Code :=
  match v.e23 with
  | some e =>
    let rtnd := e.code == "RTND".toList
    if rtnd && !v.has72 then some "C82" else if !rtnd && v.has72 then some "C82" else none
  | none => if v.has72 then some "C82" else none
/-- |a - b| ≥ 1/100 exactly -/
def atLeastCent (a b : Dec) : Bool := !withinCent a b
def r107_c8 (v : V104) : List Code :=
  if v.txs.isEmpty then [] else
  match v.txs.mapM (·.amt32b) with
  | none => []
  | some bs =>
    let total := sumDec bs
    let charges := v.txs.any (·.ccy71f.isSome) || v.txs.any (·.ccy71g.isSome)
    if charges then
      (match v.amt19 with
       | some (some a) => if atLeastCent a total then ["C01"] else []
       | some none => []
       | none => ["D80"])
    else
      (match v.c32b with
       | some (_, some a) => if atLeastCent a total then ["D80"] else []
       | _ => []) ++ (if v.amt19.isSome then ["D80"] else [])
def r107_c9 (v : V104) : List Code :=
  if v.txs.isEmpty then [] else
  let settle := match v.c32b with | some (c, _) => c | none => []
  v.txs.flatMap (fun t =>
    (if t.ccy32b != settle then ["C02"] else []) ++
    (match t.ccy71f, v.ccy71f with | some c, some r => if c != r then ["C02"] else [] | _, _ => []) ++
    (match t.ccy71g with
     | some c => (if c != settle then ["C02"] else []) ++ (match v.ccy71g with | some r => if c != r then ["C02"] else [] | none => [])
     | none => []))
def r107_23e (v : V104) : List Code :=
  e23check (tbl 107 "MT107_VALID_23E_CODES") "OTHR".toList "D81" v.e23 ++
  v.txs.flatMap (fun t => e23check (tbl 107 "MT107_VALID_23E_CODES") "OTHR".toList "D81" t.e23)

/-! ### aggregation: the regenerated stage list of each type, instantiated with the rule models by name -/

def stagesOf (ty : Nat) : List (String × StageShape) :=
  match Generated.Stages.table.find? (·.1 == ty) with
  | some p => p.2
  | none => []

def shapeOf {M E : Type} : Stage M E → StageShape
  | .opt _ r => .opt r
  | .vec _ r => .vec r
  | .vecStop _ r => .vecStop r

/-- the rule models of a type in source order, each under the name of the Rust function it transcribes and in the
stage shape it is called in; `Props/C04.lean` proves that names, order and shapes equal the regenerated stage list -/
abbrev RuleSet (V : Type) := List (String × Stage V Code)

def RuleSet.shapes {V : Type} (rs : RuleSet V) : List (String × StageShape) := rs.map (fun p => (p.1, shapeOf p.2))
/-- the full error-code list of `validate_network_rules(false)` -/
def RuleSet.validate {V : Type} (rs : RuleSet V) (v : V) : List Code := runStages false v (rs.map (·.2)) []

def rs110 : RuleSet V110 := [("validate_c1_max_repetitions", .opt r110_c1 true), ("validate_c2_currency_consistency", .opt r110_c2 false)]
def rs200 : RuleSet V200 := [("validate_t80_field_72_special_codes", .vec r200_t80 true)]
def rs202 : RuleSet V202 := [("validate_c1_intermediary_seq_a", .opt r202_c1 true), ("validate_c2_intermediary_seq_b", .opt r202_c2 true)]
def rs204 : RuleSet V204 := [("validate_c1_sum_of_amounts", .opt r204_c1 true), ("validate_c2_currency_consistency", .opt r204_c2 true), ("validate_c3_max_sequences", .opt r204_c3 true)]
def rs205 : RuleSet V205 := [("validate_c1_intermediary_account_with", .opt r205_c1 true)]
def rs210 : RuleSet V210 := [("validate_c1_repetitive_sequence_count", .opt r210_c1 true), ("validate_c2_mutual_exclusivity", .vec r210_c2 true), ("validate_c3_currency_consistency", .opt r210_c3 false)]
def rs910 : RuleSet V910 := [("validate_c1_ordering_party", .opt r910_c1 true)]
def rs920 : RuleSet V920 := [("validate_t88_message_type", .vec r920_t88 true), ("validate_c1_field_34f_requirement", .vec r920_c1 true), ("validate_c2_dc_mark_usage", .vec r920_c2 true), ("validate_c3_currency_consistency", .vec r920_c3 false)]
def rs941 : RuleSet V941 := [("validate_c1_currency_consistency", .vecStop (fun _ => r941_c1) true)]
def rs950 : RuleSet V950 := [("validate_c1_currency_consistency", .vec r950_c1 true)]
def rs935 : RuleSet V935 := [("validate_c1_sequence_occurrence", .opt r935_c1 true), ("validate_c2_field_23_25_mutual_exclusivity", .vec r935_c2 true), ("validate_field_23", .vec r935_f23 true), ("validate_field_37h", .vec r935_37h false)]
def rs940 : RuleSet V940 := [("validate_c1_field_86_follows_61", .vec r940_c1 true), ("validate_c2_currency_consistency", .vec r940_c2 false)]
def rs942 : RuleSet V942 := [("validate_c1_currency_consistency", .vec r942_c1 true), ("validate_c2_floor_limit_dc_mark", .opt r942_c2 true), ("validate_c3_field_86_positioning", .vec r942_c3 false)]
def rs192 : RuleSet V192 := [("validate_c1_field_79_or_copy", .opt r192_c1 true), ("validate_field_79_codes", .vec r192_codes false)]
def rs196 : RuleSet V196 := [("validate_c1_field_79_or_copy", .opt r196_c1 true)]
def rs292 : RuleSet V292 := [("validate_c1_field_79_or_original_fields", .opt r292_c1 true)]
def rs296 : RuleSet V292 := [("validate_c1_field_79_or_copy", .opt r296_c1 true)]
def rs101 : RuleSet V101 := [("validate_c1_fx_deal_reference", .vec r101_c1 true), ("validate_c2_amount_exchange", .vec r101_c2 true),
  ("validate_c3_ordering_customer", .opt r101_c3 true), ("validate_c4_instructing_party", .opt r101_c4 true),
  ("validate_c5_currency_codes", .vec r101_c5 true), ("validate_c6_account_servicing", .opt r101_c6 true),
  ("validate_c7_intermediary", .vec r101_c7 true), ("validate_c8_currency_consistency", .opt r101_c8 true),
  ("validate_c9_zero_amount", .vec r101_c9 true), ("validate_field_23e", .vec r101_23e false)]
def rs104 : RuleSet V104 := [("validate_c1_field_23e_dependencies", .vec r104_c1 true), ("validate_c2_creditor_field", .opt (r104_c2 "C76") true),
  ("validate_c3_mutual_exclusivity", .vec r104_c3 true), ("validate_c4_registration_reference", .vec r104_c4 true),
  ("validate_c5_field_72_rtnd", .opt r104_c5 true), ("validate_c6_charges_dependencies", .vec r104_c6 true),
  ("validate_c7_currency_amount_difference", .vec r104_c7 true), ("validate_c8_exchange_rate", .vec r104_c8 true),
  ("validate_c9_field_19", .opt r104_c9 true), ("validate_c10_field_19_amount", .opt r104_c10 true),
  ("validate_c11_currency_consistency", .vec r104_c11 true), ("validate_c12_rfdd_comprehensive", .vec r104_c12 true),
  ("validate_field_23e_seq_a", .vec r104_23e_a true), ("validate_field_23e_seq_b", .vec r104_23e_b false)]
def rs107 : RuleSet V104 := [("validate_c1_23e_and_creditor_placement", .vec r107_c1 true), ("validate_c2_seq_a_b_mutual_exclusivity", .vec r107_c2 true),
  ("validate_c3_registration_creditor_dependency", .vec r104_c4 true), ("validate_c4_rtnd_field_72_dependency", .opt r107_c4 true),
  ("validate_c5_charges_fields_consistency", .vec r104_c6 true), ("validate_c6_field_33b_32b_comparison", .vec r104_c7 true),
  ("validate_c7_exchange_rate_dependency", .vec r104_c8 true), ("validate_c8_sum_of_amounts", .vec r107_c8 true),
  ("validate_c9_currency_consistency", .vec r107_c9 true), ("validate_field_23e", .vec r107_23e false)]
def rs103 : RuleSet V103 := [("validate_field_23b", .opt r103_23b true), ("validate_field_23e", .vec r103_23e true),
  ("validate_c1_currency_exchange", .opt r103_c1 true), ("validate_c3_bank_op_instruction_codes", .vec r103_c3 true),
  ("validate_c4_third_reimbursement", .opt r103_c4 true), ("validate_c5_intermediary", .opt r103_c5 true),
  ("validate_c6_field_56_restrictions", .opt r103_c6 true), ("validate_c7_charges", .vec r103_c7 true),
  ("validate_c8_charges_instructed_amount", .opt r103_c8 true), ("validate_c9_receiver_charges_currency", .opt r103_c9 true),
  ("validate_c13_chqb_beneficiary_account", .opt r103_c13 true), ("validate_c16_teli_phoi_restriction", .vec r103_c16 true),
  ("validate_c17_tele_phon_restriction", .vec r103_c17 false)]

/-- what the driver answers for `val <type> <json>`: the model's code list, or `none` for an unmodelled type -/
def validateJson (ty : Nat) (m : J) : Option (List Code) :=
  match ty with
  | 110 => some (rs110.validate (view110 m))
  | 200 => some (rs200.validate (view200 m))
  | 202 => some (rs202.validate (view202 m))
  | 204 => some (rs204.validate (view204 m))
  | 205 => some (rs205.validate (view205 m))
  | 210 => some (rs210.validate (view210 m))
  | 910 => some (rs910.validate (view910 m))
  | 920 => some (rs920.validate (view920 m))
  | 941 => some (rs941.validate (view941 m))
  | 950 => some (rs950.validate (view950 m))
  | 935 => some (rs935.validate (view935 m))
  | 940 => some (rs940.validate (view940 m))
  | 942 => some (rs942.validate (view942 m))
  | 192 => some (rs192.validate (view192 m))
  | 196 => some (rs196.validate ⟨()⟩)
  | 292 => some (rs292.validate (view292 "MT292" m))
  | 296 => some (rs296.validate (view292 "MT296" m))
  | 103 => some (rs103.validate (view103 m))
  | 101 => some (rs101.validate (view101 m))
  | 104 => some (rs104.validate (view104 "MT104" "MT104Transaction" m))
  | 107 => some (rs107.validate (view104 "MT107" "MT107Transaction" m))
  | other =>
    -- a type whose regenerated `validate_network_rules` has no stage at all reports nothing
    if (Generated.Stages.table.any (·.1 == other)) && (stagesOf other).isEmpty then some [] else none

/-- the modelled types with the stage lists their models assume -/
def modelled : List (Nat × List (String × StageShape)) :=
  [(110, rs110.shapes), (200, rs200.shapes), (202, rs202.shapes), (204, rs204.shapes), (205, rs205.shapes), (210, rs210.shapes),
   (910, rs910.shapes), (920, rs920.shapes), (941, rs941.shapes), (950, rs950.shapes), (935, rs935.shapes), (940, rs940.shapes),
   (942, rs942.shapes), (192, rs192.shapes), (196, rs196.shapes), (292, rs292.shapes), (296, rs296.shapes), (103, rs103.shapes), (101, rs101.shapes), (104, rs104.shapes), (107, rs107.shapes)]

end SwiftMT.Rules
