import SwiftMT.Generated.LayoutSpec
import SwiftMT.Generated.Layouts
import SwiftMT.Generated.Enums
import SwiftMT.Generated.Shapes
/-
C03 — does a type's `parse_from_block4` *reach* everything its documented layout allows?

`Generated.LayoutSpec` is the independent layout specification (spec/layouts.txt, shared with the harness's generator);
`Generated.Layouts` the parser calls of every `parse_from_block4` in source order (T1); `Generated.Enums` the option
letters of every option enum (T3).  `unreached ty` lists every documented (item, option letter) for which no parser
call *at or after the position reached so far* can read that tag with that letter: a documented field or option the
parser cannot accept, or accepts only out of the documented order.
-/
namespace SwiftMT.LayoutImpl
open SwiftMT Generated.LayoutSpec

def lettersOfEnum (ty : String) : List String :=
  match Generated.Enums.enums.find? (·.name == ty) with
  | some e => e.variants.map (fun v => String.ofList v.letter)
  | none => []

/-- type aliases used at call sites: the `pub type A = B;` declarations regenerated from the source (T3s) -/
def aliasOf (t : String) : String :=
  match Generated.Shapes.aliases.find? (·.1 == t) with
  | some p => p.2
  | none => t

/-- can this call read tag `base ++ letter`? -/
def covers (c : Call) (base letter : String) : Bool :=
  if c.method == 2 || c.method == 3 then c.tag == base && (lettersOfEnum (aliasOf c.ty)).contains letter
  else c.tag == base ++ letter || (c.tag == base && (lettersOfEnum (aliasOf c.ty)).contains letter)

def firstCover (calls : List Call) (from_ : Nat) (base letter : String) : Option Nat :=
  (calls.zipIdx.find? (fun p => p.2 ≥ from_ && covers p.1 base letter)).map (·.2)

/-- walk the documented items in order; the cursor never moves back inside one level (a repeating sequence's items are
matched from the position of its marker again for every item, since the loop re-enters) -/
def walk (calls : List Call) : List SItem → Nat → List (String × String) → List (String × String)
  | [], _, acc => acc.reverse
  | it :: rest, cur, acc =>
    let firsts := it.letters.map (fun l => (l, firstCover calls cur it.base l))
    let missing := (firsts.filter (fun p => p.2.isNone)).map (fun p => (it.base, p.1))
    let reached := (firsts.filterMap (·.2))
    let next := match reached with
      | [] => cur
      | r :: rs => rs.foldl min r
    walk calls rest next (missing.reverse ++ acc)

def callsOf (ty : Nat) : List Call :=
  match Generated.Layouts.layouts.find? (·.code == ty) with
  | some l => l.calls
  | none => []

def unreached (ty : Nat) : List (String × String) :=
  match specs.find? (·.1 == ty) with
  | some p => walk (callsOf ty) p.2 0 []
  | none => [("?", "?")]

def allUnreached : List (Nat × List (String × String)) :=
  (specs.map (fun p => (p.1, unreached p.1))).filter (fun p => !p.2.isEmpty)

end SwiftMT.LayoutImpl
