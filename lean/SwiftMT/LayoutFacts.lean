/-
Facts about a message type's `parse_from_block4`, as regenerated from the source by the translator (T1).
-/
namespace SwiftMT

/-- One `parser.parse_*::<Ty>("tag")` call.  `method`: 0 `parse_field`, 1 `parse_optional_field`,
2 `parse_variant_field`, 3 `parse_optional_variant_field`.  `propagated`: the `Result` is passed on with `?`
(otherwise an `Err` — raised after the cursor has moved past the field — is swallowed). -/
structure Call where
  method : Nat
  tag : String
  ty : String
  propagated : Bool
  deriving Repr

structure LayoutFacts where
  code : Nat
  calls : List Call
  /-- the function's last statement before `Ok(..)` is the completeness check -/
  endsComplete : Bool
  /-- parse results that are bound to `_` or not bound at all -/
  discarded : Nat
  /-- `return Ok(..)` before the completeness check -/
  earlyOk : Nat
  /-- number of struct-field references written by `to_mt_string` -/
  serFields : Nat
  deriving Repr

/-- Indices (in source order) of the calls whose error is swallowed. -/
def LayoutFacts.swallowSites (l : LayoutFacts) : List (Nat × Nat) :=
  (l.calls.zipIdx.filter (fun p => !p.1.propagated)).map (fun p => (l.code, p.2))

/-- Decidable soundness conditions at the layout level (DESIGN §5 C01): every consumed field is either stored or
its error is raised, and nothing may remain after the last field. -/
def LayoutFacts.sound (l : LayoutFacts) : Bool :=
  l.endsComplete && l.discarded == 0 && l.earlyOk == 0 && l.calls.all (·.propagated) && l.calls.length != 0 &&
  l.serFields != 0

end SwiftMT
