import SwiftMT.Amount
/-
Primitives shared by the field models (src/fields/swift_utils.rs, field_utils.rs) and the conventions of the
field layer:

* `Res α` — `ok a | err | panic`.  A Rust `&s[a..b]` whose offsets are out of range or not on a character boundary,
  an `unwrap()` on `None`, … is the explicit outcome `panic`, so that "never panics" (C07) is a statement.
* lengths are UTF-8 *byte* lengths (`blen`), as `str::len()`; slicing is `bsplit` (byte offset → character split).
* `J` — the JSON value a field serialises to (serde), printed canonically (sorted keys) by `J.render`.
-/
namespace SwiftMT

inductive Res (α : Type) where
  | ok (a : α)
  | err
  | panic
  deriving Repr, DecidableEq

namespace Res
def bind {α β : Type} (x : Res α) (f : α → Res β) : Res β :=
  match x with
  | .ok a => f a
  | .err => .err
  | .panic => .panic
instance : Monad Res where
  pure := .ok
  bind := Res.bind
def isOk {α : Type} : Res α → Bool
  | .ok _ => true
  | _ => false
def isPanic {α : Type} : Res α → Bool
  | .panic => true
  | _ => false
def toOption {α : Type} : Res α → Option α
  | .ok a => some a
  | _ => none
@[simp] theorem bind_ok {α β : Type} (a : α) (f : α → Res β) : (Res.ok a >>= f) = f a := rfl
@[simp] theorem bind_err {α β : Type} (f : α → Res β) : ((Res.err : Res α) >>= f) = .err := rfl
@[simp] theorem bind_panic {α β : Type} (f : α → Res β) : ((Res.panic : Res α) >>= f) = .panic := rfl
@[simp] theorem pure_eq {α : Type} (a : α) : (pure a : Res α) = .ok a := rfl
/-- `cond?` of the Rust: an error unless the condition holds. -/
def guard (b : Bool) : Res Unit := if b then .ok () else .err
/-- `Option → Result` (`ok_or(err)`). -/
def ofOption {α : Type} : Option α → Res α
  | some a => .ok a
  | none => .err
/-- `Option::unwrap()`. -/
def unwrap {α : Type} : Option α → Res α
  | some a => .ok a
  | none => .panic
end Res

/-! ### character classes (ASCII, as the code uses them after fix e1e740d) -/

def isAsciiC (c : Char) : Bool := c.toNat < 128
def isAsciiT (t : Text) : Bool := t.all isAsciiC

/-- The SWIFT `x` set as `parse_swift_chars` spells it (CR/LF are not characters of a line). -/
def swiftSpecial : Text := ['/', '-', '?', ':', '(', ')', '.', ',', '\'', '+', '{', '}', ' ', '%', '&', '*', ';', '<', '=', '>',
  '@', '[', ']', '_', '$', '!', '"', '#', '|']
def isSwiftX (c : Char) : Bool := c.isAlphanum || swiftSpecial.contains c

/-- `char::is_numeric` / `is_alphabetic` / `is_alphanumeric` / `is_uppercase` (Unicode) — exact on ASCII; on the
non-ASCII sample of `isAlnumU` a letter or digit.  Every call site still reachable with non-ASCII text rejects the
text whatever these answer (checked by the correspondence stream with non-ASCII inputs). -/
def isNumericU (c : Char) : Bool := c.isDigit || (0x660 ≤ c.toNat && c.toNat ≤ 0x669) || c.toNat == 0xB2 || c.toNat == 0xB3 || c.toNat == 0xB9 || (0xBC ≤ c.toNat && c.toNat ≤ 0xBE)
def isAlphaU (c : Char) : Bool := c.isAlpha || (!isAsciiC c && isAlnumU c && !isNumericU c)

/-! ### byte-offset slicing -/

/-- `s.split_at(n)` / `(&s[..n], &s[n..])`: `none` exactly when Rust panics (offset beyond the end or inside a
character). -/
def bsplit (n : Nat) : Text → Option (Text × Text)
  | [] => if n = 0 then some ([], []) else none
  | c :: cs =>
    if n = 0 then some ([], c :: cs)
    else if c.utf8Size ≤ n then
      match bsplit (n - c.utf8Size) cs with
      | some (a, b) => some (c :: a, b)
      | none => none
    else none

/-- `&s[a..b]` as `Res`. -/
def bslice (t : Text) (a b : Nat) : Res Text :=
  if a ≤ b then
    match bsplit a t with
    | some (_, r) =>
      match bsplit (b - a) r with
      | some (m, _) => .ok m
      | none => .panic
    | none => .panic
  else .panic

/-- `&s[a..]` -/
def bfrom (t : Text) (a : Nat) : Res Text :=
  match bsplit a t with
  | some (_, r) => .ok r
  | none => .panic

/-- `&s[..b]` -/
def bto (t : Text) (b : Nat) : Res Text :=
  match bsplit b t with
  | some (l, _) => .ok l
  | none => .panic

/-! ### lines -/

/-- `s.split('\n')` -/
def splitNl : Text → List Text
  | [] => [[]]
  | c :: cs =>
    if c == '\n' then [] :: splitNl cs
    else match splitNl cs with
      | [] => [[c]]
      | l :: ls => (c :: l) :: ls

/-- `lines.join("\n")` -/
def joinNl : List Text → Text
  | [] => []
  | [l] => l
  | l :: ls => l ++ '\n' :: joinNl ls

/-- `s.lines()`: split on `\n`, drop one trailing `\r` per line, no final empty line. -/
def stripCr (l : Text) : Text := if l.getLast? == some '\r' then l.dropLast else l
def linesOf (t : Text) : List Text :=
  let ls := splitNl t
  let ls := if ls.getLast? == some [] then ls.dropLast else ls
  ls.map stripCr

/-- `s.contains(pat)` -/
def hasSub (pat t : Text) : Bool := (findSub pat t).isSome

/-- `split_at_first(input, delim)`: text before the first delimiter, and the non-empty text after it. -/
def splitAtFirst (d : Char) (t : Text) : Text × Option Text :=
  match findChar d t with
  | some p =>
    let rest := t.drop (p + 1)
    (t.take p, if rest.isEmpty then none else some rest)
  | none => (t, none)

/-! ### primitive validators -/

def parseExactLength (t : Text) (n : Nat) : Res Text := if blen t == n then .ok t else .err
def parseMaxLength (t : Text) (n : Nat) : Res Text := if blen t ≤ n then .ok t else .err
def parseSwiftChars (t : Text) : Res Unit := Res.guard (t.all isSwiftX)
def parseUppercase (t : Text) : Res Unit := Res.guard (t.all Char.isUpper)
def parseNumeric (t : Text) : Res Unit := Res.guard (t.all Char.isDigit)
def parseAlphanumeric (t : Text) : Res Unit := Res.guard (t.all Char.isAlphanum)

/-- `parse_bic`: 8 or 11 bytes, ASCII without lower case, 4 letters, 2 letters, 2 alphanumerics [, 3 alphanumerics]. -/
def parseBic (t : Text) : Res Text :=
  if blen t != 8 && blen t != 11 then .err
  else if !isAsciiT t || t.any Char.isLower then .err
  else if !((t.take 4).all Char.isAlpha) then .err
  else if !(((t.drop 4).take 2).all Char.isAlpha) then .err
  else if !(((t.drop 6).take 2).all Char.isAlphanum) then .err
  else if blen t == 11 && !(((t.drop 8).take 3).all Char.isAlphanum) then .err
  else .ok t

/-- `parse_currency`: exactly three upper-case ASCII letters. -/
def parseCurrency (t : Text) : Res Text :=
  if blen t != 3 then .err else if !(t.all Char.isUpper) then .err else .ok t

def commodity : List Text := ["XAU".toList, "XAG".toList, "XPD".toList, "XPT".toList]
def parseCurrencyNonCommodity (t : Text) : Res Text :=
  match parseCurrency t with
  | .ok c => if commodity.contains c then .err else .ok c
  | r => r

/-- `u32::from_str` / `u8::from_str` on a text already known to be ASCII digits: empty and overflow are errors. -/
def parseUInt (t : Text) (max : Nat) : Res Nat :=
  if t.isEmpty then .err else
  let v := digitsVal t 0
  if v ≤ max then .ok v else .err

/-- `//34x` -/
def pidSpecial (special : Text) : Res (Option Text) :=
  if !special.isEmpty && blen special ≤ 34 then
    (if special.all isSwiftX then .ok (some ('/' :: special)) else .err)
  else .err

/-- `/1!a/34x` and `/2!c/34x`: `p` is the position of the second slash -/
def pidCoded (rem : Text) (p : Nat) : Res (Option Text) :=
  if (blen (rem.take p) == 1 && (rem.take p).all Char.isAlpha) ||
     (decide (1 ≤ blen (rem.take p)) && decide (blen (rem.take p) ≤ 2) && (rem.take p).all Char.isAlphanum) then
    (if blen (rem.drop (p + 1)) > 34 then .err
     else if (rem.drop (p + 1)).all isSwiftX then .ok (some (rem.take p ++ '/' :: rem.drop (p + 1))) else .err)
  else .err

/-- `/34x` -/
def pidPlain (rem : Text) : Res (Option Text) :=
  if !rem.isEmpty && blen rem ≤ 34 then (if rem.all isSwiftX then .ok (some rem) else .err) else .err

/-- `parse_party_identifier(line)`: `Ok(None)` when the line does not start with `/`. -/
def parsePartyIdentifier (t : Text) : Res (Option Text) :=
  match t with
  | '/' :: '/' :: special => pidSpecial special
  | '/' :: rem =>
    (match findChar '/' rem with
     | some p => pidCoded rem p
     | none => pidPlain rem)
  | _ => .ok none

/-- `parse_name_and_address(lines, start, _)`: the lines from `start` on, each 1..35 SWIFT characters, 1..4 of them. -/
def nameLineOk (l : Text) : Bool := blen l ≤ 35 && !l.isEmpty && l.all isSwiftX
def parseNameAndAddress (lines : List Text) (start : Nat) : Res (List Text) :=
  let ls := lines.drop start
  if !(ls.all nameLineOk) then .err
  else if ls.isEmpty then .err
  else if ls.length > 4 then .err
  else .ok ls

/-- `parse_multiline_text(input, maxLines, maxLen)` -/
def parseMultilineText (t : Text) (maxLines maxLen : Nat) : Res (List Text) :=
  let ls := splitNl t
  if ls.any List.isEmpty then .err
  else if ls.length > maxLines then .err
  else if !(ls.all (fun l => blen l ≤ maxLen && l.all isSwiftX)) then .err
  else .ok ls

/-- `validate_multiline_text(lines, maxLines, maxLen, _)` -/
def validateMultilineText (ls : List Text) (maxLines maxLen : Nat) : Res (List Text) :=
  if ls.isEmpty then .err
  else if ls.length > maxLines then .err
  else if !(ls.all (fun l => blen l ≤ maxLen && !l.isEmpty && l.all isSwiftX)) then .err
  else .ok ls

/-! ### JSON values (what serde writes for a field) -/

inductive J where
  | null
  | bool (b : Bool)
  | num (t : Text)          -- already printed
  | str (t : Text)
  | arr (l : List J)
  | obj (kv : List (String × J))

def hex4 (n : Nat) : Text := [hexDigit (n / 4096 % 16), hexDigit (n / 256 % 16), hexDigit (n / 16 % 16), hexDigit (n % 16)]

def jsonEscape : Text → Text
  | [] => []
  | c :: cs =>
    (if c == '"' then ['\\', '"']
     else if c == '\\' then ['\\', '\\']
     else if c == '\n' then ['\\', 'n']
     else if c == '\r' then ['\\', 'r']
     else if c == '\t' then ['\\', 't']
     else if c.toNat == 8 then ['\\', 'b']
     else if c.toNat == 12 then ['\\', 'f']
     else if c.toNat < 32 then ['\\', 'u'] ++ hex4 c.toNat
     else [c]) ++ jsonEscape cs

def insertKV (k : String) (v : Text) : List (String × Text) → List (String × Text)
  | [] => [(k, v)]
  | (k', v') :: rest => if k < k' then (k, v) :: (k', v') :: rest else (k', v') :: insertKV k v rest

def joinWith (sep : Char) : List Text → Text
  | [] => []
  | [x] => x
  | x :: xs => x ++ sep :: joinWith sep xs

mutual
  def J.render : J → Text
    | .null => "null".toList
    | .bool b => (if b then "true" else "false").toList
    | .num t => t
    | .str t => '"' :: jsonEscape t ++ ['"']
    | .arr l => '[' :: J.renderList l ++ [']']
    | .obj kv =>
      let sorted := (J.renderKVs kv).foldl (fun acc p => insertKV p.1 p.2 acc) []
      '{' :: (joinWith ',' (sorted.map (fun p => '"' :: jsonEscape p.1.toList ++ ['"', ':'] ++ p.2))) ++ ['}']
  def J.renderList : List J → Text
    | [] => []
    | [x] => J.render x
    | x :: xs => J.render x ++ ',' :: J.renderList xs
  def J.renderKVs : List (String × J) → List (String × Text)
    | [] => []
    | (k, v) :: rest => (k, J.render v) :: J.renderKVs rest
end

def J.optStr : Option Text → J
  | some t => .str t
  | none => .null
def J.nat (n : Nat) : J := .num (natDigits n)
def J.optNat : Option Nat → J
  | some n => J.nat n
  | none => .null
def J.lines (ls : List Text) : J := .arr (ls.map J.str)

/-- `NaiveDate` through chrono's default serde and through the `date_string` modules: `YYYY-MM-DD`. -/
def isoDate (d : YMD) : Text := padLeft (natDigits d.y) 4 ++ ['-'] ++ fmt2 d.m ++ ['-'] ++ fmt2 d.d

/-- An f64 holding an exact decimal of at most 15 significant digits, as serde_json (ryu) prints it:
the shortest decimal, always with a fraction part (`1000.0`, `1234.56`, `0.001`). -/
def J.dec (d : Dec) : J :=
  let n := d.normalize
  let ip := natDigits (n.mant / 10 ^ n.scale)
  if n.scale == 0 then .num (ip ++ ".0".toList)
  else .num (ip ++ ['.'] ++ padLeft (natDigits (n.mant % 10 ^ n.scale)) n.scale)

end SwiftMT
