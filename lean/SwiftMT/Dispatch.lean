import SwiftMT.Generated.Dispatch
import SwiftMT.Spec.Supported
/-
Hand model of the five dispatching entry points over the regenerated tables (T4).
A Rust `match` on string literals takes the first matching arm: `lookup` does the same.
Type codes are three ASCII digits (the translator rejects any other key), modelled as `Nat < 1000`.
-/
namespace SwiftMT.Dispatch
open SwiftMT.Generated.Dispatch

def lookup (t : List (Nat × Nat)) (c : Nat) : Option Nat :=
  match t with
  | [] => none
  | (k, v) :: r => if k == c then some v else lookup r c

/-- Outcome classes of a parse entry point (what C12 compares). -/
inductive Res where
  | ok (variant body : Nat)   -- parsed as body type `body`, reported / wrapped as `variant`
  | mismatch                  -- error T03
  | unsupported               -- UnsupportedMessageType / "Unsupported message type"
  deriving DecidableEq, Repr

/-- `SwiftParser::parse::<MT{requested}>` on a message whose block 2 announces `announced`. -/
def typedParse (requested announced : Nat) : Res :=
  if typedCheckPresent then
    match lookup ownType requested with
    | some own => if announced == own then .ok requested requested else .mismatch
    | none => .unsupported
  else .ok requested requested

/-- `SwiftParser::parse_auto`. -/
def autoParse (announced : Nat) : Res :=
  match lookup autoTable announced, lookup autoWrap announced with
  | some ty, some w =>
      match typedParse ty announced with
      | .ok _ body => .ok w body
      | r => r
  | _, _ => .unsupported

/-- `ParsedSwiftMessage::message_type()` of what `parse_auto` returned. -/
def wrapperType (announced : Nat) : Option Nat :=
  match autoParse announced with
  | .ok w _ => lookup wrapperMessageType w
  | _ => none

/-- plugin `parse_mt`: auto-parse, then `match message_type` → `into_mtNNN` (None ⇒ error). -/
def pluginParseRes (announced : Nat) : Res :=
  match autoParse announced with
  | .ok w body =>
      match lookup wrapperMessageType w with
      | none => .unsupported
      | some code =>
          match lookup pluginParse code with
          | none => .unsupported
          | some into =>
              match lookup wrapperInto into with
              | some v => if v == w then .ok code body else .mismatch
              | none => .mismatch
  | r => r

/-- plugin `validate_mt`: which body type's rules run. -/
def pluginValidateRes (announced : Nat) : Res :=
  match autoParse announced with
  | .ok w body =>
      match lookup pluginValidate w with
      | some v => if v == w then .ok w body else .mismatch
      | none => .unsupported
  | r => r

/-- wrapper `validate()`. -/
def wrapperValidateRes (announced : Nat) : Res :=
  match autoParse announced with
  | .ok w body =>
      match lookup wrapperValidate w with
      | some v => if v == w then .ok w body else .mismatch
      | none => .unsupported
  | r => r

/-- `json_to_mt` with the key as `publish_mt` normalises it (`MT` prefix stripped) or with the alias. -/
def publishRes (alias : Bool) (code : Nat) : Res :=
  match lookup (if alias then publishAlias else publishTable) code with
  | some ty => .ok code ty
  | none => .unsupported

end SwiftMT.Dispatch
