import SwiftMT.Prim
/-
The documented side of C05: for each field type the set of contents its documented SWIFT format describes, stated
outright as a predicate on the text — independent of the parser models in `SwiftMT/Fields`.  Written from the
`Format:` lines and component descriptions in the doc comments of src/fields/field*.rs.
Conventions of the notation: `nnC` = 1..nn characters of class C, `nn!C` = exactly nn, `n*mx` = 1..n lines of
1..m characters, lines are separated by LF (the extraction kernel hands contents over with LF only).
-/
namespace SwiftMT.Doc
open SwiftMT

/-- `nnx`: 1..n characters of the SWIFT x set (no CR/LF). -/
def XText (n : Nat) (s : Text) : Prop := 1 ≤ s.length ∧ s.length ≤ n ∧ ∀ c ∈ s, isSwiftX c = true

/-- `n*mx`: 1..n lines of 1..m x-characters. -/
def Lines (n m : Nat) (s : Text) : Prop :=
  ∃ ls : List Text, s = joinNl ls ∧ 1 ≤ ls.length ∧ ls.length ≤ n ∧ ∀ l ∈ ls, XText m l

/-- 20, 21, 21C–21R: `16x` / `35x`; must not start or end with a slash nor contain two consecutive slashes. -/
def Reference (n : Nat) (s : Text) : Prop :=
  XText n s ∧ s.head? ≠ some '/' ∧ s.getLast? ≠ some '/' ∧ ¬ (['/', '/'] <:+: s)

/-- `nn!n` -/
def Digits (n : Nat) (s : Text) : Prop := s.length = n ∧ ∀ c ∈ s, c.isDigit = true

/-- one of a documented list of code words -/
def OneOf (codes : List Text) (s : Text) : Prop := s ∈ codes

/-- `6!n` that is a calendar date in the 1950–2049 window (C11 proves this is what `parseDateYYMMDD` accepts) -/
def Date (s : Text) : Prop := (parseDateYYMMDD s).isSome = true

/-- `4!n` HHMM with HH ≤ 23, MM ≤ 59 -/
def Time (s : Text) : Prop := (parseTimeHHMM s).isSome = true

/-- `1!x4!n`: sign `+`/`-` and an offset HHMM with HH ≤ 14, MM ≤ 59 (the library's documented bound) -/
def SignedOffset (sign : Char) (s : Text) : Prop := (parseOffset sign s).isSome = true

/-- 13C `/8c/4!n1!x4!n` with the documented code words -/
def F13C (codes : List Text) (s : Text) : Prop :=
  ∃ code time sign off, s = '/' :: code ++ '/' :: time ++ sign :: off ∧ code ∈ codes ∧ Time time ∧ SignedOffset sign off

/-- 13D `6!n4!n1!x4!n` -/
def F13D (s : Text) : Prop :=
  ∃ date time sign off, s = date ++ time ++ sign :: off ∧ Date date ∧ Time time ∧ SignedOffset sign off

/-- 28D `5n/5n`, index and total positive, index ≤ total -/
def F28D (s : Text) : Prop :=
  ∃ a b, s = a ++ '/' :: b ∧ 1 ≤ a.length ∧ a.length ≤ 5 ∧ 1 ≤ b.length ∧ b.length ≤ 5 ∧
    (∀ c ∈ a, c.isDigit = true) ∧ (∀ c ∈ b, c.isDigit = true) ∧
    0 < digitsVal a 0 ∧ digitsVal a 0 ≤ digitsVal b 0

end SwiftMT.Doc
