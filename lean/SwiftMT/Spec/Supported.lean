/-
Independent specification: the 30 message types the library documents as supported (README / lib.rs),
written by hand — *not* regenerated from the dispatch tables it is compared with.
-/
namespace SwiftMT.Spec

def supported : List Nat :=
  [101, 103, 104, 107, 110, 111, 112, 190, 191, 192, 196, 199, 200, 202, 204, 205, 210,
   290, 291, 292, 296, 299, 900, 910, 920, 935, 940, 941, 942, 950]

end SwiftMT.Spec
