/-
Independent specification: ISO 4217 minor units (hand-written; not read from the library).  Every code not listed
in `exceptions` has two decimals.
-/
namespace SwiftMT.Spec

def minorUnitExceptions : List (List Char × Nat) :=
  [ ("BIF".toList, 0), ("CLP".toList, 0), ("DJF".toList, 0), ("GNF".toList, 0), ("ISK".toList, 0), ("JPY".toList, 0),
    ("KMF".toList, 0), ("KRW".toList, 0), ("PYG".toList, 0), ("RWF".toList, 0), ("UGX".toList, 0), ("UYI".toList, 0),
    ("VND".toList, 0), ("VUV".toList, 0), ("XAF".toList, 0), ("XOF".toList, 0), ("XPF".toList, 0),
    ("BHD".toList, 3), ("IQD".toList, 3), ("JOD".toList, 3), ("KWD".toList, 3), ("LYD".toList, 3), ("OMR".toList, 3),
    ("TND".toList, 3), ("CLF".toList, 4), ("UYW".toList, 4) ]

def minorUnits (ccy : List Char) : Nat :=
  match minorUnitExceptions.find? (fun p => p.1 == ccy) with
  | some p => p.2
  | none => 2

def isoCodes : List (List Char) := [
  "AED","AFN","ALL","AMD","ANG","AOA","ARS","AUD","AWG","AZN","BAM","BBD","BDT","BGN","BHD","BIF","BMD","BND","BOB","BRL",
  "BSD","BTN","BWP","BYN","BZD","CAD","CDF","CHF","CLF","CLP","CNY","COP","CRC","CUP","CVE","CZK","DJF","DKK","DOP","DZD",
  "EGP","ERN","ETB","EUR","FJD","FKP","GBP","GEL","GHS","GIP","GMD","GNF","GTQ","GYD","HKD","HNL","HTG","HUF","IDR","ILS",
  "INR","IQD","IRR","ISK","JMD","JOD","JPY","KES","KGS","KHR","KMF","KPW","KRW","KWD","KYD","KZT","LAK","LBP","LKR","LRD",
  "LSL","LYD","MAD","MDL","MGA","MKD","MMK","MNT","MOP","MRU","MUR","MVR","MWK","MXN","MYR","MZN","NAD","NGN","NIO","NOK",
  "NPR","NZD","OMR","PAB","PEN","PGK","PHP","PKR","PLN","PYG","QAR","RON","RSD","RUB","RWF","SAR","SBD","SCR","SDG","SEK",
  "SGD","SHP","SLE","SOS","SRD","SSP","STN","SYP","SZL","THB","TJS","TMT","TND","TOP","TRY","TTD","TWD","TZS","UAH","UGX",
  "USD","UYI","UYU","UYW","UZS","VES","VND","VUV","WST","XAF","XCD","XOF","XPF","YER","ZAR","ZMW","ZWL"].map String.toList

end SwiftMT.Spec
