import SwiftMT.Calendar
import SwiftMT.Generated.Tables
/-
Amounts and rates as the library reads and writes them (after the `fix:` commits): `parse_amount`,
`parse_amount_max_len`, `parse_amount_with_currency`, `get_currency_decimals`, `format_swift_amount`.
Values are exact decimals (`Dec`); the binary float the library stores is outside the model — decimal → f64 → decimal
is assumed to be the identity for at most 15 significant digits (the `f64-precision` class is excluded by hypothesis
and explored by the oracle).
-/
namespace SwiftMT

/-- mant · 10^(-scale) -/
structure Dec where
  mant : Nat
  scale : Nat
  deriving DecidableEq, Repr

def isSep (c : Char) : Bool := c == ',' || c == '.'
def isDigitC (c : Char) : Bool := (digitVal c).isSome

def digitsVal : Text → Nat → Nat
  | [], acc => acc
  | c :: cs, acc => digitsVal cs (10 * acc + (digitVal c).getD 0)

/-- The grammar `parse_amount` enforces before handing the text to the float parser:
one or more digits, then optionally one separator followed by digits. -/
def splitAmount (t : Text) : Option (Text × Option Text) :=
  let ip := t.takeWhile isDigitC
  let rest := t.dropWhile isDigitC
  if ip.isEmpty then none
  else match rest with
    | [] => some (ip, none)
    | c :: fr => if isSep c && fr.all isDigitC then some (ip, some fr) else none

/-- `parse_amount`: the decimal value, exact. -/
def parseAmount (t : Text) : Option Dec :=
  match splitAmount t with
  | some (ip, none) => some ⟨digitsVal ip 0, 0⟩
  | some (ip, some fr) => some ⟨digitsVal (ip ++ fr) 0, fr.length⟩
  | none => none

def trimZeros (t : Text) : Text := trimEndChar '0' t

/-- decimals as written, trailing zeros not counted -/
def sigDecimals (t : Text) : Nat :=
  match splitAmount t with
  | some (_, some fr) => (trimZeros fr).length
  | _ => 0

/-- length the `<n>d` check looks at: without the padding zeros and a then-trailing separator -/
def sigLen (t : Text) : Nat :=
  if t.any isSep then
    ((trimZeros t).reverse.dropWhile isSep).length
  else t.length

/-- `parse_amount_max_len(input, n)` -/
def parseAmountMaxLen (t : Text) (n : Nat) : Option Dec :=
  match parseAmount t with
  | some d => if sigLen t ≤ n then some d else none
  | none => none

/-- `get_currency_decimals` over the regenerated table (first matching arm, else the default). -/
def currencyDecimals (ccy : Text) : Nat :=
  match Generated.Tables.currencyDecimals.find? (fun p => p.1 == ccy) with
  | some p => p.2
  | none => Generated.Tables.currencyDefault

/-- `parse_amount_with_currency` -/
def parseAmountWithCurrency (t ccy : Text) : Option Dec :=
  match parseAmountMaxLen t 15 with
  | some d => if sigDecimals t ≤ currencyDecimals ccy then some d else none
  | none => none

/-- decimal digits of a natural number, most significant first (`{}` of an integer) -/
def natDigits (n : Nat) : Text :=
  if _h : n < 10 then [digitChar n] else natDigits (n / 10) ++ [digitChar (n % 10)]
termination_by n
decreasing_by omega

def padLeft (t : Text) (n : Nat) : Text := List.replicate (n - t.length) '0' ++ t

/-- `format_swift_amount(amount, p)` for a value with at most `p` decimals (no rounding involved):
integer part, and for p > 0 a comma and exactly p fraction digits. -/
def formatAmount (d : Dec) (p : Nat) : Text :=
  let m := d.mant * 10 ^ (p - d.scale)          -- value · 10^p   (d.scale ≤ p)
  let ip := natDigits (m / 10 ^ p)
  if p == 0 then ip else ip ++ [','] ++ padLeft (natDigits (m % 10 ^ p)) p

/-- equality of values -/
def Dec.eqv (a b : Dec) : Prop := a.mant * 10 ^ b.scale = b.mant * 10 ^ a.scale

end SwiftMT

namespace SwiftMT

def normAux : Nat → Nat → Dec
  | m, 0 => ⟨m, 0⟩
  | m, s + 1 => if m % 10 == 0 then normAux (m / 10) s else ⟨m, s + 1⟩

/-- drop insignificant trailing fraction zeros -/
def Dec.normalize (d : Dec) : Dec := normAux d.mant d.scale

/-- What a currency-carrying field prints back for an accepted amount text (None = rejected). -/
def roundTripAmount (t ccy : Text) : Option Text :=
  match parseAmountWithCurrency t ccy with
  | some d => some (formatAmount d.normalize (currencyDecimals ccy))
  | none => none

end SwiftMT
