import SwiftMT.MParser
/-
Block level: how the serialisers assemble a text block from fields (`append_field` writes `:tag:content` and a
separator, `finalize_mt_string` drops the last one; the terminator may follow) and how a parser reads it back with
successive `extract_field` calls.  The round-trip theorem is in Lemmas/RoundTrip.lean (`read_render`).
-/
namespace SwiftMT

/-- A content that can be written into a text block without being mistaken for structure: no CR, no line starting
with `:` or `-`, no newline at the end, no `-}`. -/
def wfc : Text → Bool
  | [] => true
  | a :: rest =>
    a != '\r' &&
    (a != '\n' || (match rest with | [] => false | b :: _ => b != ':' && b != '-')) &&
    (a != '-' || (match rest with | [] => true | b :: _ => b != '}')) &&
    wfc rest

/-- `:tag:` is recognised as a field marker: 2–4 bytes of alphanumerics. -/
def wfTag (t : Text) : Bool := 2 ≤ blen t && blen t ≤ 4 && t.all isAlnumU

/-- the state after a successful read of `tag` -/
def PState.after (s : PState) (tag rest : Text) : PState :=
  { s with rest := rest, seen := if s.allowDup then s.seen else tag :: s.seen }

def renderFrom (sep tail : Text) : List (Text × Text) → Text
  | [] => tail
  | (t, c) :: [] => marker t ++ (c ++ tail)
  | (t, c) :: (p :: rest) => marker t ++ (c ++ (sep ++ renderFrom sep tail (p :: rest)))

/-- successive `extract_field(tag, false)` calls -/
def readAll (s : PState) : List Text → Except PErr (List Text × PState)
  | [] => .ok ([], s)
  | t :: ts =>
    match extractField s t false with
    | .error e => .error e
    | .ok (c, s') =>
      match readAll s' ts with
      | .error e => .error e
      | .ok (cs, s'') => .ok (c :: cs, s'')

end SwiftMT
